(* C05 -- Incremental recalculation equals recalculation from scratch.
   Kernel: Model/Deps.v, DepsSpec.v, DepsExec.v.  Statements only; proofs in Proofs/Deps*_proofs.v. *)
From Coq Require Import ZArith List Bool Lia.
Import ListNotations.
Require Import Grist.Model.Deps Grist.Model.DepsSpec Grist.Model.DepsExec.
Require Import Grist.Proofs.DepsSpec_proofs Grist.Proofs.Deps_closure_proofs Grist.Proofs.Deps_inval_proofs
               Grist.Proofs.Deps_order_proofs Grist.Proofs.Deps_rel_proofs Grist.Proofs.Deps_refine_proofs
               Grist.Proofs.Deps_examples Grist.Proofs.Deps_schema_proofs Grist.Proofs.Deps_eval_proofs
               Grist.Proofs.Deps_eval_lazy_proofs Grist.Proofs.Deps_term_proofs Grist.Proofs.Deps_sched_proofs
               Grist.Proofs.Deps_lookup_proofs Grist.Proofs.Deps_lookup_step_proofs
               Grist.Proofs.Deps_sched_rank_proofs.
Require Grist.Model.DepsLookup.
Require Grist.Model.DepsEval.
Open Scope Z_scope.

(* Main theorem.  From a consistent state, after ANY interleaving of edits (data, rows, schema: each
   with its invalidation) and cell evaluations that ends with nothing dirty, every formula cell of an
   acyclic program holds the value a fresh engine computes from the data cells alone. *)
Theorem C05_incremental_eq_scratch :
  forall guarded s s' rank,
    consistent guarded s -> steps guarded s s' -> quiescent s' -> acyclic (fml s') rank ->
    forall c fuel, (rank c < fuel)%nat -> val s' c = scratch fuel (fml s') (val s') c.
Proof. exact incremental_eq_scratch. Qed.

(* Preservation lemmas *)
Theorem C05_edit_preserves :
  forall guarded s T s', edit_ok guarded s T s' -> consistent guarded s -> consistent guarded s'.
Proof. exact edit_preserves. Qed.

Theorem C05_eval_preserves :
  forall guarded s c t s', eval_ok guarded s c t s' -> consistent guarded s -> consistent guarded s'.
Proof. exact eval_preserves. Qed.

(* values at quiescence are a function of formulas and data only (no dependence on the history) *)
Theorem C05_quiescent_values_unique :
  forall guarded s1 s2 rank,
    consistent guarded s1 -> consistent guarded s2 -> quiescent s1 -> quiescent s2 ->
    (forall c, fml s1 c = fml s2 c) -> (forall c, fml s1 c = None -> val s1 c = val s2 c) ->
    acyclic (fml s1) rank -> forall c, val s1 c = val s2 c.
Proof. exact quiescent_values_unique. Qed.

(* Graph.invalidate_deps (executable model): nothing leaves recompute_map, the start batch is entered
   (include_self) or propagated (data column), and every cell that becomes dirty lies in a propagated
   batch reachable from the start batch *)
Theorem C05_invalidate_deps_spec :
  forall fuel g n x incl g',
    owner_ok (g_edges g) -> invalidate_deps fuel g n x incl = Some g' ->
    mono (g_map g) (g_map g') /\
    (if incl then batch_in (g_map g') (n, x) else closed_batch (g_edges g) (g_rel g) (g_map g') n x) /\
    new_closed (g_edges g) (g_rel g) (RBi (g_edges g) (g_rel g) n x incl) (g_map g) (g_map g').
Proof. exact invalidate_deps_spec. Qed.

(* data edit + invalidate_deps is an edit the kernel accepts *)
Theorem C05_data_edit_refines :
  forall (guarded : state -> cell -> cell -> (Z -> Z) -> Prop) fuel v f g d x g',
    owner_ok (g_edges g) -> f d = None ->
    invalidate_deps fuel g (fst d) (Rows [snd d]) false = Some g' ->
    (forall c d0 p, guarded (to_state v f g) c d0 p ->
       guarded (to_state (upd v d x) f g') c d0 p /\ p (upd v d x d0) = p (v d0)) ->
    edit_ok guarded (to_state v f g) (fun c => cell_eqb c d) (to_state (upd v d x) f g').
Proof. exact data_edit_ok. Qed.

(* schema edit (formulas of column n change) + invalidate_deps(n, ALL_ROWS, include_self), which clears the
   column's dependencies in the middle of the walk, is an edit the kernel accepts *)
Theorem C05_schema_edit_refines :
  forall (guarded : state -> cell -> cell -> (Z -> Z) -> Prop) fuel v f f' g n g',
    owner_ok (g_edges g) ->
    (forall e, In e (g_edges g) -> no_single (e_rel e) = true) ->
    (forall c, fst c <> n -> f' c = f c) ->
    (is_all (g_map g n) = true -> forall c, fst c = n -> f' c <> None -> f c <> None) ->
    invalidate_deps fuel g n AllRows true = Some g' ->
    (forall c d0 p, guarded (to_state v f g) c d0 p -> guarded (to_state v f' g') c d0 p) ->
    edit_ok guarded (to_state v f g)
            (fun c => Z.eqb (fst c) n && (Deps_schema_proofs.is_some (f c) || Deps_schema_proofs.is_some (f' c)))
            (to_state v f' g').
Proof. exact Deps_schema_proofs.schema_edit_ok. Qed.

(* one evaluation step of the executable model (reset_dependencies for the row, run, add_edge per read,
   lookup registrations, row leaves recompute_map) is a step the kernel accepts, for formulas all of whose
   reads are covered eagerly; the coverage hypothesis is what the monitor checks on the implementation *)
Theorem C05_eval_step_refines_partial :
  forall v f g c t lks l,
    f c = Some t -> g_map g (fst c) = Some (Rows l) -> in_map (g_map g) c = true ->
    Forall (fun a => f (acell a) <> None -> in_map (g_map g) (acell a) = false) (trace v t) ->
    owner_ok (g_edges g) -> (forall e, In e (g_edges g) -> DepsEval.head_look (e_rel e) = true) ->
    Forall (fun a => covers (g_rel (snd (DepsEval.eval_exec v g c t lks))) (snd (fst a)) (snd (acell a)) (snd c) = true)
           (trace v t) ->
    eval_ok Deps_eval_proofs.noguard (to_state v f g) c t
            (to_state (fst (DepsEval.eval_exec v g c t lks)) f (snd (DepsEval.eval_exec v g c t lks))).
Proof. exact Deps_eval_proofs.eval_exec_ok. Qed.

(* The same with the lazily tracked lookup reads ([guardedL]: the reader observes "key of the lookup-map cell = k"
   and (row, k) is registered in the lookup relation), for every cell that is not itself an observed lookup-map
   cell.  PROVED (this was the statement C05_eval_step_refines_statement). *)
Definition guardedL := Deps_eval_lazy_proofs.guardedL.

Definition C05_eval_step_refines_statement : Prop :=
  forall v f g c t lks l,
    f c = Some t -> g_map g (fst c) = Some (Rows l) -> in_map (g_map g) c = true ->
    Forall (fun a => f (acell a) <> None -> in_map (g_map g) (acell a) = false) (trace v t) ->
    owner_ok (g_edges g) -> (forall e, In e (g_edges g) -> DepsEval.head_look (e_rel e) = true) ->
    (forall x p, ~ guardedL (to_state v f g) x c p) ->
    Forall (fun a =>
              covers (g_rel (snd (DepsEval.eval_exec v g c t lks))) (snd (fst a)) (snd (acell a)) (snd c) = true \/
              guardedL (to_state (fst (DepsEval.eval_exec v g c t lks)) f (snd (DepsEval.eval_exec v g c t lks)))
                       c (acell a) (snd a))
           (trace v t) ->
    eval_ok guardedL (to_state v f g) c t
            (to_state (fst (DepsEval.eval_exec v g c t lks)) f (snd (DepsEval.eval_exec v g c t lks))).

Theorem C05_eval_step_refines : C05_eval_step_refines_statement.
Proof. exact Deps_eval_lazy_proofs.eval_exec_lazy_ok. Qed.

(* The evaluation step of a lookup-map cell itself (Model/DepsLookup.v: the key is recomputed and stored in the
   index; if it changed, the rows registered under the old or the new key are invalidated with include_self
   and the invalidation is closed under the recorded edges) is a step the kernel accepts, with the lazily
   tracked reads [guardedL]: an observer that is still clean afterwards sees no change of "key = k". *)
Theorem C05_lookup_cell_step_refines :
  forall fuel v f g c t refs l v' g',
    f c = Some t -> g_map g (fst c) = Some (Rows l) -> in_map (g_map g) c = true ->
    Forall (fun a => f (acell a) <> None -> in_map (g_map g) (acell a) = false) (trace v t) ->
    owner_ok (g_edges g) -> (forall e, In e (g_edges g) -> DepsEval.head_look (e_rel e) = true) ->
    lkkeys (g_rel g) (fst c) (snd c) = [v c] ->
    Forall (fun a => DepsEval.no_look (snd (fst a)) = true /\
                     covers (g_rel g) (snd (fst a)) (snd (acell a)) (snd c) = true) (trace v t) ->
    (forall n r k0, In (r, k0) (lkrows (g_rel g) (fst c) n) -> In n refs) ->
    DepsLookup.eval_lookup_exec fuel v g c t refs = Some (v', g') ->
    eval_ok guardedL (to_state v f g) c t (to_state v' f g').
Proof. exact Deps_lookup_step_proofs.eval_lookup_ok. Qed.

(* lookup map 20 indexes target row 3 under key 77; row 1 of node 2 looked up 77; the key column cell (5,3) now
   holds 78: re-evaluating (20,3) stores 78 and invalidates the reader *)
Example C05_ex_lookup_cell_step :
  let R := mkR (fun _ _ => []) (fun m n => if Z.eqb m 20 && Z.eqb n 2 then [(1, 77)] else [])
               (fun m t => if Z.eqb m 20 && Z.eqb t 3 then [77] else []) in
  let g := mkG [(20, 5, RId); (2, 20, RLook 20 2)] R (fun n => if Z.eqb n 20 then Some (Rows [3]) else None) [] in
  let v := fun c : cell => if cell_eqb c (20, 3) then 77 else if cell_eqb c (5, 3) then 78 else 0 in
  match DepsLookup.eval_lookup_exec 20 v g (20, 3) (Read (5, 3) RId (fun x => x) (fun x => Ret x)) [2] with
  | Some (v', g') => v' (20, 3) = 78 /\ in_map (g_map g') (2, 1) = true /\ in_map (g_map g') (20, 3) = false /\
                     lkkeys (g_rel g') 20 3 = [78]
  | None => False
  end.
Proof. cbn. repeat split; reflexivity. Qed.

(* Termination of the invalidate_deps worklist: with fuel_bound = 3 + |E| + |NS| (|RS|+1) (1+|E|) it never runs out,
   where NS contains the start node and the out_nodes of the edges and RS is a row list closed under the relations *)
Theorem C05_invalidate_deps_terminates :
  forall g n x inc NS RS,
    (forall e, In e (g_edges g) -> In (e_out e) NS) -> In n NS ->
    (forall e q r, In e (g_edges g) -> In q RS -> In r (aff_l (g_rel g) (e_rel e) [q]) -> In r RS) ->
    (x = AllRows \/ exists l, x = Rows l /\ incl l RS) ->
    exists g', invalidate_deps (Deps_term_proofs.fuel_bound (g_edges g) NS RS) g n x inc = Some g'.
Proof. exact Deps_term_proofs.invalidate_deps_terminates. Qed.

(* so the specification of invalidate_deps is no longer conditional on the fuel *)
Theorem C05_invalidate_deps_total :
  forall g n x inc NS RS,
    owner_ok (g_edges g) ->
    (forall e, In e (g_edges g) -> In (e_out e) NS) -> In n NS ->
    (forall e q r, In e (g_edges g) -> In q RS -> In r (aff_l (g_rel g) (e_rel e) [q]) -> In r RS) ->
    (x = AllRows \/ exists l, x = Rows l /\ incl l RS) ->
    exists g', invalidate_deps (Deps_term_proofs.fuel_bound (g_edges g) NS RS) g n x inc = Some g' /\
      mono (g_map g) (g_map g') /\
      (if inc then batch_in (g_map g') (n, x) else closed_batch (g_edges g) (g_rel g) (g_map g') n x) /\
      new_closed (g_edges g) (g_rel g) (RBi (g_edges g) (g_rel g) n x inc) (g_map g) (g_map g').
Proof.
  intros g n x inc NS RS Ho H1 H2 H3 H4.
  destruct (Deps_term_proofs.invalidate_deps_terminates g n x inc NS RS H1 H2 H3 H4) as [g' Hg].
  exists g'. split; [exact Hg |]. exact (invalidate_deps_spec _ _ _ _ _ _ Ho Hg).
Qed.

Example C05_ex_terminates :
  exists g', invalidate_deps (Deps_term_proofs.fuel_bound (g_edges Deps_examples.ex_g) [1; 2] [1])
                             Deps_examples.ex_g 1 (Rows [1]) false = Some g'.
Proof.
  apply Deps_term_proofs.invalidate_deps_terminates.
  - intros e [<- | []]. right. left. reflexivity.
  - left. reflexivity.
  - intros e q r [<- | []] [<- | []] H. cbn in H. destruct H as [<- | []]. left. reflexivity.
  - right. exists [1]. split; [reflexivity | intros r H; exact H].
Qed.

(* Deps meets the scheduler: the update loop seen as "repeatedly pick a dirty formula cell whose reads are clean
   and evaluate it" (any order of picks).  Progress, termination (at most as many picks as dirty formula cells),
   and: it can only stop at quiescence, where the values are the scratch values. *)
Theorem C05_progress :
  forall s rank, acyclic (fml s) rank ->
    forall c, fml s c <> None -> dirty s c = true -> exists c', Deps_sched_proofs.ready s c'.
Proof. exact Deps_sched_proofs.progress. Qed.

Theorem C05_any_interleaving_bounded :
  forall guarded U k s s', Deps_sched_proofs.within U s -> Deps_sched_proofs.run guarded k s s' ->
    (k + Deps_sched_proofs.ndirty U s' <= Deps_sched_proofs.ndirty U s)%nat /\ Deps_sched_proofs.within U s'.
Proof. exact Deps_sched_proofs.run_bounded. Qed.

Theorem C05_any_interleaving_reaches_scratch :
  forall guarded U k s s' rank,
    consistent guarded s -> acyclic (fml s) rank -> Deps_sched_proofs.within U s ->
    Deps_sched_proofs.run guarded k s s' -> (forall c, ~ Deps_sched_proofs.ready s' c) ->
    (k <= Deps_sched_proofs.ndirty U s)%nat /\ quiescent s' /\
    forall c fuel, (rank c < fuel)%nat -> val s' c = scratch fuel (fml s') (val s') c.
Proof. exact Deps_sched_proofs.any_interleaving_reaches_scratch. Qed.

Example C05_ex_sched :
  Deps_sched_proofs.ready Deps_examples.ex_s1 (2, 1) /\
  Deps_sched_proofs.pick Deps_examples.noguard Deps_examples.ex_s1 Deps_examples.ex_s2 /\
  Deps_sched_proofs.within [(2, 1)] Deps_examples.ex_s1 /\ (forall c, ~ Deps_sched_proofs.ready Deps_examples.ex_s2 c).
Proof.
  split; [| split; [| split]].
  - exists Deps_examples.ex_t. split; [reflexivity | split; [reflexivity |]].
    constructor; [| constructor]. intros H. exfalso. apply H. reflexivity.
  - exists (2, 1), Deps_examples.ex_t. split; [exact Deps_examples.ex_eval | split; [reflexivity |]].
    intros x H. discriminate H.
  - intros c _ H. apply Deps_examples.ex_dirty1 in H. subst. left. reflexivity.
  - intros c (t & _ & H & _). discriminate H.
Qed.

(* the same when a pick may also mark cells dirty (post-invalidation by a re-evaluated lookup-map cell), provided
   those cells have a strictly higher rank than the evaluated one (they read it): with U the formula cells, K a
   bound of their ranks and weight = sum over dirty cells of (|U|+1)^(K - rank), every interleaving has at most
   [weight s] picks, can only stop at quiescence, and then holds the scratch values *)
Theorem C05_any_interleaving_with_post_invalidation_bounded :
  forall guarded rank U K, (forall u, In u U -> (rank u <= K)%nat) ->
  forall k s s', Deps_sched_proofs.within U s -> Deps_sched_rank_proofs.run_r guarded rank U k s s' ->
    (k + Deps_sched_rank_proofs.weight rank U K s' <= Deps_sched_rank_proofs.weight rank U K s)%nat /\
    Deps_sched_proofs.within U s'.
Proof. exact Deps_sched_rank_proofs.run_r_bounded. Qed.

Theorem C05_any_interleaving_with_post_invalidation_reaches_scratch :
  forall guarded rank U K, (forall u, In u U -> (rank u <= K)%nat) ->
  forall k s s',
    consistent guarded s -> acyclic (fml s) rank -> Deps_sched_proofs.within U s ->
    Deps_sched_rank_proofs.run_r guarded rank U k s s' -> (forall c, ~ Deps_sched_proofs.ready s' c) ->
    (k <= Deps_sched_rank_proofs.weight rank U K s)%nat /\ quiescent s' /\
    forall c fuel, (rank c < fuel)%nat -> val s' c = scratch fuel (fml s') (val s') c.
Proof. exact Deps_sched_rank_proofs.any_interleaving_with_post_invalidation_reaches_scratch. Qed.

(* Relation soundness *)
Theorem C05_reference_relation_sound :
  forall R c refs t r, inv_exact R c refs -> In t (refs r) -> covers R (RComp RId (RRef c)) t r = true.
Proof. exact reference_relation_sound. Qed.

Theorem C05_inverse_map_maintained :
  forall R c refs r new, inv_exact R c refs ->
    inv_exact (ref_set R c r (refs r) new) c (fun r' => if Z.eqb r' r then new else refs r').
Proof. exact ref_set_exact. Qed.

Theorem C05_lookup_relation_sound :
  forall R m n r k t, In (r, k) (lkrows R m n) -> In k (lkkeys R m t) -> covers R (RLook m n) t r = true.
Proof. exact lookup_relation_sound. Qed.

Theorem C05_lookup_guard_sound :
  forall R m n r k old new, In (r, k) (lkrows R m n) -> zmem k old <> zmem k new ->
    In r (invalidated_by_keys R m n old new).
Proof. exact lookup_guard_sound. Qed.

Theorem C05_composed_sound :
  forall R a b t q r, covers R b t q = true -> covers R a q r = true -> covers R (RComp a b) t r = true.
Proof. exact composed_sound. Qed.

Theorem C05_reset_rows_keeps_other_rows :
  forall R m n l r k, In (r, k) (lkrows R m n) -> zmem r l = false ->
    In (r, k) (lkrows (reset_rows R (RLook m n) (Rows l)) m n).
Proof. exact reset_rows_keeps. Qed.

Theorem C05_reset_dependencies_frame :
  forall E R n x via o, owner_ok E -> rel_owner via o = true -> o <> n ->
    forall y, affected (reset_dependencies E R n x) via y = affected R via y.
Proof. exact reset_dependencies_frame. Qed.

Theorem C05_allrows_propagates :
  forall R via, no_single via = true -> affected R via AllRows = AllRows.
Proof. exact allrows_propagates. Qed.

(* ---- the property as worded (every formula program, cyclic ones included) is false --------------
   The engine gives history-dependent values to programs that are cyclic through a lookup (a column
   that is the key of its own lookup); in the model a self-reading cell has several consistent
   quiescent valuations.  Known finding C05-cyclic-through-lookup; the theorems above carry [acyclic]. *)
Definition C05_full_statement : Prop := Deps_examples.full_statement.

Theorem C05_full_statement_refuted : ~ C05_full_statement.
Proof. exact Deps_examples.full_statement_refuted. Qed.

(* ---- finding C05-reflist-flatten-id-read (REPAIRED by /repo commit eb8849a; its witness is replayed first
   on every run as a regression case).  Kept as documentation of why the edge the old code recorded was
   unsound: `RecordSet.reflistcol` (table.py _get_col_obj_subset -> ReferenceList.do_convert) read `rec.id`
   through records carrying the bare ReferenceRelation; that relation does not map the read row back to
   the reader, the composed one (which ordinary field access records) does.  The repaired code takes the
   row ids from the RecordSets and records no edge there; the dependency is the one on the RefList cells. *)
Theorem C05_flatten_edge_refuted :
  covers Deps_examples.fl_R (RRef 7) 9 1 = false /\
  covers Deps_examples.fl_R (RComp (RLook 20 2) (RRef 7)) 9 1 = true.
Proof. exact Deps_examples.flatten_edge_not_covering. Qed.

(* ---- non-vacuity: a document (A data, B = $A + 1), the edit A[1] := 7 through the executable
   invalidate_deps, the evaluation of B[1], and the theorem applied to that run ---------------------- *)
Example C05_ex_consistent : consistent Deps_examples.noguard Deps_examples.ex_s0.
Proof. exact Deps_examples.ex_consistent. Qed.

Example C05_ex_invalidate :
  invalidate_deps 5 Deps_examples.ex_g 1 (Rows [1]) false = Some Deps_examples.ex_g1 /\
  in_map (g_map Deps_examples.ex_g1) (2, 1) = true /\ owner_ok (g_edges Deps_examples.ex_g).
Proof. split; [exact Deps_examples.ex_inval | split; [reflexivity | exact Deps_examples.ex_owner]]. Qed.

Example C05_ex_steps :
  steps Deps_examples.noguard Deps_examples.ex_s0 Deps_examples.ex_s2 /\
  quiescent Deps_examples.ex_s2 /\ acyclic (fml Deps_examples.ex_s2) Deps_examples.ex_rank.
Proof.
  split; [exact Deps_examples.ex_steps | split; [exact Deps_examples.ex_quiescent | exact Deps_examples.ex_acyclic]].
Qed.

Example C05_ex_result :
  val Deps_examples.ex_s2 (2, 1) = 8 /\
  scratch 2 (fml Deps_examples.ex_s2) (val Deps_examples.ex_s2) (2, 1) = 8.
Proof. exact Deps_examples.ex_result. Qed.

(* relation soundness hypotheses are satisfiable: row 4 refers to row 9 through column 7 *)
Example C05_ex_reference :
  let R := ref_set Deps_examples.R_empty 7 4 [] [9] in
  inv_exact R 7 (fun r => if Z.eqb r 4 then [9] else []) /\ covers R (RComp RId (RRef 7)) 9 4 = true.
Proof.
  split; [| reflexivity].
  apply (ref_set_exact Deps_examples.R_empty 7 (fun _ => []) 4 [9]).
  intros t r. cbn. tauto.
Qed.

Example C05_ex_lookup :
  let R := mkR (fun _ _ => []) (fun m n => if Z.eqb m 20 && Z.eqb n 2 then [(1, 77)] else [])
               (fun m t => if Z.eqb m 20 && Z.eqb t 3 then [77] else []) in
  covers R (RLook 20 2) 3 1 = true /\ In 1 (invalidated_by_keys R 20 2 [77] [78]).
Proof. split; [reflexivity | cbn; auto]. Qed.
