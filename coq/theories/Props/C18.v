(* C18 -- Circular references terminate and are reported on the cycle.
   Model: Grist.Model.Sched (see Props/C06.v); formulas without exception handling ([strict_prog]), as the
   property's quantifier has them.  The from-scratch evaluator [scr] is the recursive definition of a
   cell's value; a cell "reaches a cycle" when that recursion is not finite for it ([reaches_cycle]); it
   "lies on a cycle" when it depends on itself through the dynamic dependency relation ([on_cycle]).
   Statements only; proofs in Proofs/Sched_proofs.v and Proofs/Sched_conf_proofs.v. *)
From Coq Require Import ZArith List Bool.
Import ListNotations.
Require Import Grist.Model.Sched Grist.Proofs.Sched_proofs Grist.Proofs.Sched_conf_proofs
  Grist.Proofs.Sched_engine_proofs Grist.Model.SchedCode GristGen.Sched_gen Grist.Proofs.Sched_bridge.
Open Scope Z_scope.

(* Recalculation terminates whatever the dependency graph: no infinite run, never stuck, and the two
   internal "data engine not making progress" checks of _update_loop cannot fire. *)
Theorem C18_terminates : forall P, well_founded (fun s' s => step P s s').
Proof. exact step_wf. Qed.

Theorem C18_never_stuck : forall P s, has_formulas P s -> ~ final s -> exists s', step P s s'.
Proof. exact progress. Qed.

Theorem C18_progress_check_locks : forall P v d s, steps P (init_state v d) s -> (nexp s <= ndone s)%nat.
Proof. exact progress_checks_hold. Qed.

Theorem C18_progress_check_pass : forall P v d s c,
  steps P (init_state v d) s -> stack s = [(c, None)] -> mem c (dirty s) = false -> (1 <= ndone s)%nat.
Proof. exact pass_computes_a_cell. Qed.

(* Every cell that depends on itself holds CircularRefError at the end of every complete run ... *)
Theorem cycle_cells_error : forall P s fin c,
  strict_prog P -> wf_init P s -> complete_run P s fin ->
  on_cycle P (val s) c -> val fin c = VErr CircularRef.
Proof. exact cycle_cells_error_strict. Qed.

(* ... and so does every cell that depends on such a cell (the error propagates). *)
Theorem reaching_cycle_cells_error : forall P s fin c,
  strict_prog P -> wf_init P s -> complete_run P s fin ->
  reaches_cycle P (val s) c -> val fin c = VErr CircularRef.
Proof. exact reaches_cycle_error_strict. Qed.

(* Every cell that neither lies on nor depends on a cycle gets its normal (from-scratch) value. *)
Theorem acyclic_cells_normal : forall P s fin c,
  strict_prog P -> wf_init P s -> complete_run P s fin ->
  ~ reaches_cycle P (val s) c -> exists n, scr P (val s) n c = Some (val fin c).
Proof. intros P s fin c Hs. apply not_reaching_cycle_normal. apply strict_prog_cre. exact Hs. Qed.

Theorem acyclic_cells_normal_value : forall P s fin c n v,
  strict_prog P -> wf_init P s -> complete_run P s fin ->
  scr P (val s) n c = Some v -> val fin c = v.
Proof. intros. eapply acyclic_cells_normal_strict; eassumption. Qed.

(* The same three statements for formulas with exception handlers that do not catch CircularRefError. *)
Theorem reaching_cycle_cells_error_handlers : forall P s fin c,
  cre_strict_prog P -> wf_init P s -> complete_run P s fin ->
  reaches_cycle P (val s) c -> val fin c = VErr CircularRef.
Proof. exact reaches_cycle_error_cre. Qed.

Theorem cycle_cells_error_handlers : forall P s fin c,
  cre_strict_prog P -> wf_init P s -> complete_run P s fin ->
  on_cycle P (val s) c -> val fin c = VErr CircularRef.
Proof.
  intros P s fin c Hs Hw H1 Hc. eapply reaches_cycle_error_cre; try eassumption.
  apply on_cycle_reaches_cycle. exact Hc.
Qed.

Theorem acyclic_cells_normal_handlers : forall P s fin c,
  cre_strict_prog P -> wf_init P s -> complete_run P s fin ->
  ~ reaches_cycle P (val s) c -> exists n, scr P (val s) n c = Some (val fin c).
Proof. exact not_reaching_cycle_normal. Qed.

(* ---- the code of /repo, regenerated on every run (GristGen.Sched_gen, harness/sk2v.py), is the model's code ------ *)

(* the row loop of Engine._recompute_step = phase one of the model's (multi-row) access: clean required rows are
   skipped, the first dirty one (ascending) raises OrderError *)
Theorem C18_code_row_loop_is_require_rows : forall col rs k vl isd,
  eval vl isd (require_rows col rs k) =
  match scan_required gen_nested_required rs (fun r => isd (col, r)) with
  | Some r => ONeed (col, r)
  | None => eval vl isd k
  end.
Proof. exact gen_scan_is_require_rows. Qed.

Theorem C18_code_row_action : forall a b c d e f g, gen_row_action a b c d e f g = model_row_action a b c d e f g.
Proof. exact gen_row_action_is_model. Qed.

(* a required, locked cell is evaluated with cycle=True and then holds CircularRefError ([cycle] transition) *)
Theorem C18_code_cycle_flag : forall locked,
  gen_row_action true false true true false true locked = REval locked /\
  gen_row_action false false true true false true locked = REval false.
Proof. exact gen_cycle_flag. Qed.

Theorem C18_code_cycle_value : forall P s c s', exec P (LCycle c) s = Some s' -> val s' c = gen_cycle_value.
Proof. exact model_cycle_stores_gen_value. Qed.

(* BaseColumn.get_cell_value: a stored CircularRefError is re-raised unchanged to a reading formula, other errors
   wrapped; a trigger cell re-run with restore=True first sees its previous input *)
Theorem C18_code_get_cell_value : forall r h c, gen_cell_read r h c = model_cell_read r h c.
Proof. exact gen_cell_read_is_model. Qed.

(* Engine._use_node records the dependency edge before it brings the accessed node up to date *)
Theorem C18_code_use_node : gen_use_node = model_use_node /\ edge_before_recompute gen_use_node = true.
Proof. split; [exact gen_use_node_is_model | exact gen_edge_before_recompute]. Qed.

(* the empty-row-list quirk behind the known finding C18-empty-recordset-requires-whole-column is in the code *)
Theorem C18_code_empty_requirement_means_all_rows : gen_row_action false true true true false false false = ROrder.
Proof. exact gen_empty_requirement_means_all_rows. Qed.

(* the notions fit together: a cell on a cycle reaches a cycle; an evaluable cell does not *)
Theorem on_cycle_reaches : forall P v0 c, on_cycle P v0 c -> reaches_cycle P v0 c.
Proof. exact on_cycle_reaches_cycle. Qed.

Theorem evaluable_not_reaching : forall P v0 c, evaluable P v0 c -> ~ reaches_cycle P v0 c.
Proof. exact evaluable_not_reaches. Qed.

(* Non-vacuity: A = $B + 1, B = $A, C = $D + 5, F = $C + $A on two rows (the document of Props/C06.v):
   A[1] lies on a cycle, C[1] is evaluable with value 8, F[1] depends on the cycle. *)
Definition ex_cols : list (Z * expr) :=
  [(10, EAdd (ECol 11) (EConst 1)); (11, ECol 10); (12, EAdd (ECol 1) (EConst 5)); (13, EAdd (ECol 12) (ECol 10))].
Definition ex_rows : list Z := [1; 2].
Definition ex_vals : list (cell * value) := [((1, 1), VInt 3); ((1, 2), VInt 4)].
Definition ex_P := prog_of ex_cols ex_rows.
Definition ex_init := init_state (val_of ex_vals) (formula_cells ex_cols ex_rows).

Example ex_hypotheses : strict_prog ex_P /\ wf_init ex_P ex_init.
Proof. split; [apply prog_of_strict; reflexivity | apply wf_init_doc]. Qed.

Example ex_on_cycle : on_cycle ex_P (val ex_init) (10, 1).
Proof.
  eapply dep_more; [|apply dep_one]; eapply first_read_dep; vm_compute; reflexivity.
Qed.

Example ex_evaluable : scr ex_P (val ex_init) 2 (12, 1) = Some (VInt 8).
Proof. vm_compute. reflexivity. Qed.

Example ex_run :
  values_on (formula_cells ex_cols ex_rows)
            (run ex_P (engine_strategy ex_P (formula_cells ex_cols ex_rows)) 100 ex_init) =
    [VErr CircularRef; VErr CircularRef; VErr CircularRef; VErr CircularRef;
     VInt 8; VInt 9; VErr CircularRef; VErr CircularRef].
Proof. vm_compute. reflexivity. Qed.
