(* C29 -- Read-only calls leave the document untouched.
   Model: Model/Rollback.v (shared with C04).  Engine.get_formula_value takes _get_undo_checkpoint() (the lengths of
   the current out_actions lists; the undo list may be non-empty: u0), evaluates one formula -- which may apply doc
   actions as side effects (lookupOrAddDerived) --, and in its `finally` calls _undo_to_checkpoint.
   Statements only; proofs in Proofs/Rollback_run.v. *)
From stdpp Require Import gmap.
Require Import Grist.Model.Rollback Grist.Proofs.Rollback_proofs Grist.Proofs.Rollback_run Grist.Proofs.Rollback_inside
  Grist.Proofs.Rollback_witness Grist.Proofs.Rollback_bridge Grist.Lib.RbPrelude GristGen.Rollback_gen.
Open Scope Z_scope.

(* The evaluation ran to its end (normally, or the formula raised after its last side effect): for every document,
   every undo prefix u0 and EVERY sequence of doc actions performed inside it, rolling back to the checkpoint gives
   the document and schema of before the call. *)
Theorem C29_get_formula_value_restores : forall ord (s : doc) (u0 : list action) (es : list event) st,
  wf s -> Forall no_replace_ev es ->
  state_after ord (init_state s u0) es = Some st -> ms_pending st = [] ->
  exists s_r, rollback ord (length u0) st = Some s_r /\ s_r = s /\ d_schema s_r = d_schema s.
Proof. intros. exists s. split; [eapply rollback_after_all; eauto|split; reflexivity]. Qed.

(* ... and when the evaluation raises between its side effects, or inside a side-effect AddRecord
   (covered_point: see Props/C04.v) *)
Theorem C29_get_formula_value_restores_on_error : forall ord (s : doc) (u0 : list action) (es : list event) k st cur done,
  wf s -> Forall no_replace_ev es ->
  run_until_crash ord (init_state s u0) es k = Crashed st cur done ->
  ms_pending st = [] -> covered_point cur done ->
  rollback ord (length u0) st = Some s.
Proof. exact rollback_partial_covered. Qed.

(* The hypothesis "no calc delta" is necessary: a recalculation of ANOTHER dirty cell inside the evaluation is not
   reverted (replayed on the engine on a document left dirty by a failed bundle: known finding). *)
Theorem C29_refuted_nested_calc :
  wf w_doc /\ exists st, state_after w_ord (init_state w_doc []) w_nested_calc = Some st /\
                         ms_undo st = [] /\ rollback w_ord 0 st ≠ Some w_doc.
Proof.
  split; [exact w_doc_wf|]. pose proof w_nested_calc_trace as H.
  destruct (state_after w_ord (init_state w_doc []) w_nested_calc) as [st|]; [|contradiction].
  destruct H as [H1 H2]. exists st. split; [reflexivity|]. split; [exact H2|]. exact (proj1 (bool_decide_eq_false _) H1).
Qed.

(* fetch_table / fetch_meta_tables: a pure function of the document; the state handed back is the state received *)
Theorem C29_fetch_is_pure : forall (d : doc) (t : name) (formulas : bool), fst (fetch_call d t formulas) = d.
Proof. reflexivity. Qed.

(* so a fetch after the rolled-back evaluation returns what a fetch before it returned *)
Theorem C29_fetch_after_evaluation : forall ord s u0 es st t formulas,
  wf s -> Forall no_replace_ev es ->
  state_after ord (init_state s u0) es = Some st -> ms_pending st = [] ->
  (rollback ord (length u0) st ≫= fun s_r => fetch_table s_r t formulas) = fetch_table s t formulas.
Proof. intros. erewrite rollback_after_all by eauto. reflexivity. Qed.

(* non-vacuity: an evaluation whose formula added a record and updated it, with a non-empty undo prefix *)
Example C29_nonvacuous :
  wf w_doc /\ Forall no_replace_ev w_side_effect /\
  match state_after w_ord (init_state w_doc [RemoveTable T]) w_side_effect with
  | Some st => ms_pending st = [] /\ length (ms_undo st) = 3%nat /\ bool_decide (rollback w_ord 1 st = Some w_doc) = true
  | None => False end.
Proof.
  split; [exact w_doc_wf|]. split; [repeat constructor|]. pose proof w_side_effect_restored as H.
  destruct (state_after w_ord (init_state w_doc [RemoveTable T]) w_side_effect) as [st|] eqn:E; [|contradiction].
  destruct H as [H1 H2]. split; [|split; assumption].
  revert E. vm_compute. intros [= <-]. reflexivity.
Qed.

(* ---------------------------------------------------------------------------------------------------------- *)
(* BRIDGING OBLIGATIONS (shared with C04): Engine._get_undo_checkpoint / _undo_to_checkpoint, which get_formula_value
   calls in its try / finally, are regenerated from /repo on every run (harness/rb2v.py) and proved to select exactly
   the undo actions appended since the checkpoint and to put out_actions back. *)
Theorem C29_bridge_get_undo_checkpoint : forall (o : oacts action), gen_get_undo_checkpoint o = model_checkpoint o.
Proof. exact (@bridge_get_undo_checkpoint action). Qed.

Theorem C29_bridge_undo_to_checkpoint : forall (o0 : oacts action) ec es ed eu er,
  length (oa_direct o0) = length (oa_stored o0) -> (ec, es, eu, er) <> ([], [], [], []) ->
  gen_undo_to_checkpoint (gen_get_undo_checkpoint o0) (grown o0 ec es ed eu er) = (Some eu, o0).
Proof. exact (@bridge_undo_to_checkpoint action). Qed.

(* the read-only call left NOTHING in out_actions: the lists are exactly those of before (also when nothing grew) *)
Theorem C29_code_out_actions_restored : forall (o0 : oacts action) ec es ed eu er,
  length (oa_direct o0) = length (oa_stored o0) -> length ed = length es ->
  snd (gen_undo_to_checkpoint (gen_get_undo_checkpoint o0) (grown o0 ec es ed eu er)) = o0.
Proof.
  intros o0 ec es ed eu er Hd Hed.
  destruct (decide ((ec, es, eu, er) = ([], [], [], []))) as [E|Hne].
  - injection E as -> -> -> ->. destruct ed; [|discriminate]. rewrite bridge_undo_to_checkpoint_nothing. simpl.
    unfold grown. rewrite !app_nil_r. destruct o0; reflexivity.
  - rewrite (bridge_undo_to_checkpoint o0 ec es ed eu er Hd Hne). reflexivity.
Qed.

(* C29_get_formula_value_restores, about the generated revert *)
Theorem C29_code_get_formula_value_restores : forall ord (s : doc) (u0 : list action) (es : list event) st
    (o0 : oacts action) ua ec es' ed er,
  wf s -> Forall no_replace_ev es ->
  state_after ord (init_state s u0) es = Some st -> ms_pending st = [] ->
  oa_undo o0 = u0 -> ms_undo st = u0 ++ ua -> length (oa_direct o0) = length (oa_stored o0) ->
  (ec, es', ua, er) <> ([], [], [], []) ->
  replay ord (restore_schema st)
    (rev (default [] (fst (gen_undo_to_checkpoint (gen_get_undo_checkpoint o0) (grown o0 ec es' ed ua er))))) = Some s.
Proof.
  intros ord s u0 es st o0 ua ec es' ed er Hw Hnr Hst Hp Hu Hun Hd Hne.
  rewrite <- (code_rollback ord st o0 u0 ua ec es' ed er Hu Hun Hd Hne). eapply rollback_after_all; eauto.
Qed.

(* get_formula_value saves and restores the checkpoint AND docmodel._auto_remove_set around every evaluation, whatever
   its arguments (regenerated from /repo on every run; seeded C29-3 makes the save conditional) *)
Theorem C29_bridge_get_formula_value : gen_get_formula_value = model_get_formula_value.
Proof. exact bridge_get_formula_value. Qed.
