(* C30 -- Outputs are deterministic across processes.
   Iteration over Python sets / string-keyed insertion order is modelled as "any permutation"; the three
   places where the engine's OUTPUT could depend on it (Graph.invalidate_deps over the set of edges,
   ActionSummary.convert_deltas_to_actions, DocModel.apply_auto_removes) are shown independent of it.
   The values themselves are history-independent by C05 (C05_quiescent_values_unique). *)
From Coq Require Import ZArith List Bool Lia Permutation.
Import ListNotations.
Require Import Grist.Model.Deps Grist.Model.DepsSpec Grist.Model.DepsExec Grist.Model.CalcFlush.
Require Import Grist.Proofs.DepsSpec_proofs Grist.Proofs.Deps_closure_proofs Grist.Proofs.Deps_inval_proofs
               Grist.Proofs.Deps_order_proofs Grist.Proofs.CalcFlush_proofs Grist.Proofs.Deps_order_all_proofs.
Open Scope Z_scope.

(* the same edges stored/visited in any order give the same recompute_map (as a set of cells), when
   the map is closed under the edges before the call (empty map: start of a bundle) *)
Theorem C30_invalidate_order_irrelevant :
  forall E1 E2 R M N1 N2 n0 l0 incl f1 f2 g1 g2,
    (forall e, In e E1 <-> In e E2) -> owner_ok E1 -> closed_cells E1 R M ->
    invalidate_deps f1 (mkG E1 R M N1) n0 (Rows l0) incl = Some g1 ->
    invalidate_deps f2 (mkG E2 R M N2) n0 (Rows l0) incl = Some g2 ->
    forall c, in_map (g_map g1) c = in_map (g_map g2) c.
Proof. exact invalidate_order_irrelevant. Qed.

(* ... and that hypothesis is kept by every row invalidation (graph and relation state are unchanged by
   a walk over row batches, invalidate_rows_frame), so it holds throughout a sequence of data edits
   that starts from the empty map *)
Theorem C30_invalidate_keeps_closed :
  forall fuel g n l incl g',
    owner_ok (g_edges g) -> closed_cells (g_edges g) (g_rel g) (g_map g) ->
    invalidate_deps fuel g n (Rows l) incl = Some g' ->
    closed_cells (g_edges g) (g_rel g) (g_map g').
Proof. exact invalidate_keeps_closed. Qed.

(* the same for an ALL_ROWS start (schema edits: clear_dependencies happens in the middle of the walk), when the
   fully dirty columns of the map have their dependents fully dirty (true of the empty map) *)
Theorem C30_invalidate_all_order_irrelevant :
  forall E1 E2 R M N1 N2 n0 inc f1 f2 g1 g2,
    (forall e, In e E1 <-> In e E2) -> owner_ok E1 -> Deps_order_all_proofs.closed_all E1 R M ->
    invalidate_deps f1 (mkG E1 R M N1) n0 AllRows inc = Some g1 ->
    invalidate_deps f2 (mkG E2 R M N2) n0 AllRows inc = Some g2 ->
    forall c, in_map (g_map g1) c = in_map (g_map g2) c.
Proof. exact Deps_order_all_proofs.invalidate_all_order_irrelevant. Qed.

Example C30_ex_closed_all_empty : forall E R, Deps_order_all_proofs.closed_all E R (fun _ => None).
Proof. exact Deps_order_all_proofs.closed_all_empty. Qed.

Example C30_ex_invalidate_all_orders :
  let R := mkR (fun _ _ => []) (fun _ _ => []) (fun _ _ => []) in
  match invalidate_deps 9 (mkG [(2, 1, RId); (3, 1, RSingle); (4, 2, RRef 2)] R (fun _ => None) []) 1 AllRows true,
        invalidate_deps 9 (mkG [(4, 2, RRef 2); (3, 1, RSingle); (2, 1, RId)] R (fun _ => None) []) 1 AllRows true with
  | Some g1, Some g2 => map (fun c => in_map (g_map g1) c) [(1, 7); (2, 7); (3, 7); (4, 7)] = [true; true; false; true]
                        /\ map (fun c => in_map (g_map g2) c) [(1, 7); (2, 7); (3, 7); (4, 7)] = [true; true; false; true]
  | _, _ => False
  end.
Proof. cbn. split; reflexivity. Qed.

(* flush_sorted_canonical: the calc flush is independent of the insertion order of the tables ... *)
Theorem C30_flush_sorted_canonical :
  forall s s' out,
    s_tabren s = s_tabren s' -> NoDup (map fst (s_tables s)) -> Permutation (s_tables s) (s_tables s') ->
    convert_deltas_to_actions s out = convert_deltas_to_actions s' out.
Proof. exact flush_tables_canonical. Qed.

(* ... of the columns of a table ... *)
Theorem C30_flush_cols_canonical :
  forall tr lk tt cols cols' out,
    NoDup (map fst cols) -> Permutation cols cols' ->
    flush_cols tr lk tt (isort name_ltb cols) out = flush_cols tr lk tt (isort name_ltb cols') out.
Proof. exact flush_cols_canonical. Qed.

(* ... and of the rows of a column delta *)
Theorem C30_flush_rows_canonical :
  forall tr lk tid cid td cd cd' out,
    NoDup (map fst cd) -> Permutation cd cd' ->
    changes_to_actions tr lk tid cid td cd out = changes_to_actions tr lk tid cid td cd' out.
Proof. exact flush_rows_canonical. Qed.

Theorem C30_auto_remove_sorted :
  forall tn recs recs',
    Forall (fun tr => nonneg (fst tr)) recs -> NoDup recs -> Permutation recs recs' ->
    auto_remove_order tn recs = auto_remove_order tn recs'.
Proof. exact auto_remove_sorted. Qed.

(* non-vacuity: two insertion orders of a two-table summary *)
Definition ex_cd : coldelta := [(3, (0, 5)); (1, (2, 2)); (2, (7, 8))].
Definition ex_td : tdelta := mkT [(3, false)] [(3, true)] [] [([66], ex_cd); ([65], [(1, (1, 2))])].
Definition ex_sum1 : summary := mkSum [] [([84; 50], ex_td); ([84], mkT [] [] [] [([65], [(9, (0, 1))])])].
Definition ex_sum2 : summary := mkSum [] [([84], mkT [] [] [] [([65], [(9, (0, 1))])]); ([84; 50], ex_td)].

Example C30_ex_flush :
  convert_deltas_to_actions ex_sum1 ([], []) = convert_deltas_to_actions ex_sum2 ([], []) /\
  fst (convert_deltas_to_actions ex_sum1 ([], [])) =
    [([84], [9], [65], [1]); ([84; 50], [1], [65], [2]); ([84; 50], [2; 3], [66], [8; 5])].
Proof. split; reflexivity. Qed.

Example C30_ex_flush_hyps :
  NoDup (map fst (s_tables ex_sum1)) /\ Permutation (s_tables ex_sum1) (s_tables ex_sum2).
Proof.
  split; [| apply perm_swap].
  constructor; [intros [H | []]; discriminate | constructor; [intros [] | constructor]].
Qed.

Example C30_ex_auto_remove :
  auto_remove_order [95; 84] [([95; 84], 2); ([66], 7); ([65], 3)] = [([65], 3); ([66], 7); ([95; 84], 2)].
Proof. reflexivity. Qed.

(* the hypothesis [closed_cells] holds of the empty recompute map (the state between bundles) *)
Example C30_ex_closed_empty : forall E R, closed_cells E R (fun _ => None).
Proof. intros E R d e r H. discriminate H. Qed.

(* two visiting orders of the in-edges of node 1 *)
Example C30_ex_invalidate_orders :
  let R := mkR (fun _ _ => []) (fun _ _ => []) (fun _ _ => []) in
  match invalidate_deps 9 (mkG [(2, 1, RId); (3, 1, RId); (4, 2, RId)] R (fun _ => None) []) 1 (Rows [5]) false,
        invalidate_deps 9 (mkG [(4, 2, RId); (3, 1, RId); (2, 1, RId)] R (fun _ => None) []) 1 (Rows [5]) false with
  | Some g1, Some g2 => map (fun c => in_map (g_map g1) c) [(2, 5); (3, 5); (4, 5); (1, 5)] = [true; true; true; false]
                        /\ g_nodes g1 <> g_nodes g2
  | _, _ => False
  end.
Proof. cbn. split; [reflexivity | discriminate]. Qed.
