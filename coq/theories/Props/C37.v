(* C37 -- Text patches map back to the right source positions.  Statements only. *)
From Coq Require Import ZArith List Bool.
Import ListNotations.
Require Import Grist.Model.TextBuilder Grist.Proofs.TextBuilder_proofs.
Open Scope Z_scope.
