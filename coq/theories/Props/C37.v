(* C37 -- Text patches map back to the right source positions.
   Statements only; the model is Model/TextBuilder.v (compared with /repo/sandbox/grist/textbuilder.py on
   every run), the proofs are in Proofs/TextBuilder_proofs.v.

   map_back false = Replacer.map_back_patch as it is in the source;
   map_back true  = with the repair of notes/proposed_fixes/C37-deletion-end.diff.
   prender b      = the output of b with the provenance of every character, obtained by applying the
                    patches directly (no offset arrays);  wf_builder b = every Replacer's patches are valid
                    for its input text and do not overlap. *)
From Coq Require Import ZArith List Bool Lia.
Import ListNotations.
Require Import Grist.Model.TextBuilder Grist.Proofs.TextBuilder_proofs.
Open Scope Z_scope.

(* ---- the produced text equals applying the patches directly ---- *)
Theorem C37_replacer_text : forall inner ps t,
  wf_builder (BReplacer inner ps) -> render inner = Ok t ->
  render (BReplacer inner ps) = Ok (apply_sorted t (map pcore (sort_patches ps))).
Proof. exact replacer_text_direct. Qed.

(* ... through any nesting: get_text() never raises and is the text of the provenance rendering *)
Theorem C37_text_of_nesting : forall b, wf_builder b -> render b = Ok (map fst (prender b)).
Proof. exact render_prender. Qed.

(* ---- map_back_exact, the full statement (parametrised by the variant of the code) ----
   A non-empty output range [s,e) all of whose characters are copied from the contiguous range
   [i, i+(e-s)) of one Text maps back to exactly that range of that Text, through any nesting. *)
Definition map_back_exact_statement (fixed : bool) : Prop :=
  forall b s e new path i, wf_builder b -> 0 <= s < e -> e <= len (prender b) ->
    (forall k, s <= k < e -> snd (znth (prender b) k dcell) = Some (path, i + (k - s))) ->
    exists t v, leaf_at b path = Some (t, v) /\
      map_back fixed b (s, e, sub (map fst (prender b)) s e, new)
      = Ok (Some (t, v, (i, i + (e - s), sub t i (i + (e - s)), new))).

(* The unchanged code violates it: Replacer(Text("ab"), [delete "b"]), output range [0,1) = "a" comes from
   [0,1) of the Text but is mapped back to [0,2). *)
Theorem C37_refuted_deletion_end : ~ map_back_exact_statement false.
Proof.
  intros H.
  destruct (H (BReplacer (BText [97; 98] 1) [(1, 2, [98], [])]) 0 1 [81] [] 0) as (t & v & Hl & Hm).
  - cbn. split; [exact I|]. vm_compute. repeat split; discriminate.
  - lia.
  - vm_compute. discriminate.
  - intros k Hk. assert (k = 0) by lia. subst k. vm_compute. reflexivity.
  - vm_compute in Hl. inversion Hl; subst t v. vm_compute in Hm. discriminate.
Qed.

(* With the proposed repair the full statement holds ... *)
Theorem C37_map_back_exact : map_back_exact_statement true.
Proof.
  intros b s e new path i Hwf Hse He Hall.
  apply endpoints_gen; try assumption; [| | left; reflexivity]; rewrite Hall by lia; do 2 f_equal; lia.
Qed.

(* ... and even in this stronger form: only the first and the last character of the range have to be
   copies (of characters i and j-1 of the same Text); what lies between may be anything. *)
Theorem C37_map_back_endpoints : forall b s e new path i j,
  wf_builder b -> 0 <= s < e -> e <= len (prender b) ->
  snd (znth (prender b) s dcell) = Some (path, i) ->
  snd (znth (prender b) (e - 1) dcell) = Some (path, j - 1) ->
  exists t v, leaf_at b path = Some (t, v) /\
    map_back true b (s, e, sub (map fst (prender b)) s e, new) = Ok (Some (t, v, (i, j, sub t i j, new))).
Proof. intros. apply endpoints_gen; try assumption. left; reflexivity. Qed.

(* The unchanged code, under the narrowest hypothesis that excludes the defect: on the way down no Replacer
   has an offset-table entry exactly at the range end (no patch that deletes text ends there). *)
Theorem C37_map_back_exact_partial : forall b s e new path i,
  wf_builder b -> 0 <= s < e -> e <= len (prender b) ->
  (forall k, s <= k < e -> snd (znth (prender b) k dcell) = Some (path, i + (k - s))) ->
  no_entry_at_end b s e ->
  exists t v, leaf_at b path = Some (t, v) /\
    map_back false b (s, e, sub (map fst (prender b)) s e, new)
    = Ok (Some (t, v, (i, i + (e - s), sub t i (i + (e - s)), new))).
Proof.
  intros b s e new path i Hwf Hse He Hall Hn.
  apply endpoints_gen; try assumption; [| | right; exact Hn]; rewrite Hall by lia; do 2 f_equal; lia.
Qed.
