(* C37 -- Text patches map back to the right source positions.
   Statements only; the model is Model/TextBuilder.v (compared with /repo/sandbox/grist/textbuilder.py on
   every run), the proofs are in Proofs/TextBuilder_proofs.v.

   map_back false = Replacer.map_back_patch as it is in the source;
   map_back true  = with the repair of notes/proposed_fixes/C37-deletion-end.diff.
   prender b      = the output of b with the provenance of every character, obtained by applying the
                    patches directly (no offset arrays);  wf_builder b = every Replacer's patches are valid
                    for its input text and do not overlap. *)
From Coq Require Import ZArith List Bool Lia.
Import ListNotations.
Require Import Grist.Model.TextBuilder Grist.Proofs.TextBuilder_proofs.
Open Scope Z_scope.

(* ---- the produced text equals applying the patches directly ---- *)
Theorem C37_replacer_text : forall inner ps t,
  wf_builder (BReplacer inner ps) -> render inner = Ok t ->
  render (BReplacer inner ps) = Ok (apply_sorted t (map pcore (sort_patches ps))).
Proof. exact replacer_text_direct. Qed.

(* ... through any nesting: get_text() never raises and is the text of the provenance rendering *)
Theorem C37_text_of_nesting : forall b, wf_builder b -> render b = Ok (map fst (prender b)).
Proof. exact render_prender. Qed.

(* ---- map_back_exact, the full statement (parametrised by the variant of the code) ----
   A non-empty output range [s,e) all of whose characters are copied from the contiguous range
   [i, i+(e-s)) of one Text maps back to exactly that range of that Text, through any nesting. *)
Definition map_back_exact_statement (fixed : bool) : Prop :=
  forall b s e new path i, wf_builder b -> 0 <= s < e -> e <= len (prender b) ->
    (forall k, s <= k < e -> snd (znth (prender b) k dcell) = Some (path, i + (k - s))) ->
    exists t v, leaf_at b path = Some (t, v) /\
      map_back fixed b (s, e, sub (map fst (prender b)) s e, new)
      = Ok (Some (t, v, (i, i + (e - s), sub t i (i + (e - s)), new))).

(* The unchanged code violates it: Replacer(Text("ab"), [delete "b"]), output range [0,1) = "a" comes from
   [0,1) of the Text but is mapped back to [0,2). *)
Theorem C37_refuted_deletion_end : ~ map_back_exact_statement false.
Proof.
  intros H.
  destruct (H (BReplacer (BText [97; 98] 1) [(1, 2, [98], [])]) 0 1 [81] [] 0) as (t & v & Hl & Hm).
  - cbn. split; [exact I|]. vm_compute. repeat split; discriminate.
  - lia.
  - vm_compute. discriminate.
  - intros k Hk. assert (k = 0) by lia. subst k. vm_compute. reflexivity.
  - vm_compute in Hl. inversion Hl; subst t v. vm_compute in Hm. discriminate.
Qed.

(* With the proposed repair the full statement holds ... *)
Theorem C37_map_back_exact : map_back_exact_statement true.
Proof.
  intros b s e new path i Hwf Hse He Hall.
  apply endpoints_gen; try assumption; [| | left; reflexivity]; rewrite Hall by lia; do 2 f_equal; lia.
Qed.

(* ... and even in this stronger form: only the first and the last character of the range have to be
   copies (of characters i and j-1 of the same Text); what lies between may be anything. *)
Theorem C37_map_back_endpoints : forall b s e new path i j,
  wf_builder b -> 0 <= s < e -> e <= len (prender b) ->
  snd (znth (prender b) s dcell) = Some (path, i) ->
  snd (znth (prender b) (e - 1) dcell) = Some (path, j - 1) ->
  exists t v, leaf_at b path = Some (t, v) /\
    map_back true b (s, e, sub (map fst (prender b)) s e, new) = Ok (Some (t, v, (i, j, sub t i j, new))).
Proof. intros. apply endpoints_gen; try assumption. left; reflexivity. Qed.

(* The unchanged code, under the narrowest hypothesis that excludes the defect: on the way down no Replacer
   has an offset-table entry exactly at the range end (no patch that deletes text ends there). *)
Theorem C37_map_back_exact_partial : forall b s e new path i,
  wf_builder b -> 0 <= s < e -> e <= len (prender b) ->
  (forall k, s <= k < e -> snd (znth (prender b) k dcell) = Some (path, i + (k - s))) ->
  no_entry_at_end b s e ->
  exists t v, leaf_at b path = Some (t, v) /\
    map_back false b (s, e, sub (map fst (prender b)) s e, new)
    = Ok (Some (t, v, (i, i + (e - s), sub t i (i + (e - s)), new))).
Proof.
  intros b s e new path i Hwf Hse He Hall Hn.
  apply endpoints_gen; try assumption; [| | right; exact Hn]; rewrite Hall by lia; do 2 f_equal; lia.
Qed.

(* ---- map_back_commutes:  render (apply_patch src (map_back p)) = apply_patch (render src) p ----
   rebuild b p is the nesting b after the source Text was edited with the mapped-back patch: the Text reached
   gets that patch applied, and every Replacer on the way keeps its patches before the edited range, moves
   those after it by the change of length and drops those inside it.  The side condition
   (new <> [] \/ transport_sorted) only says that the re-derived patch lists are still in sorted() order;
   it is automatic unless the replacement text is empty. *)
Definition map_back_commutes_statement (fixed : bool) : Prop :=
  forall b s e new path i, wf_builder b -> 0 <= s < e -> e <= len (prender b) ->
    (forall k, s <= k < e -> snd (znth (prender b) k dcell) = Some (path, i + (k - s))) ->
    let p := (s, e, sub (map fst (prender b)) s e, new) in
    new <> [] \/ transport_sorted fixed b p ->
    exists t v p', leaf_at b path = Some (t, v) /\ map_back fixed b p = Ok (Some (t, v, p')) /\
      wf_builder (rebuild fixed b p) /\
      leaf_at (rebuild fixed b p) path = Some (apply_patch t (p_start p') (p_end p') (p_new p'), v) /\
      render (rebuild fixed b p) = Ok (apply_patch (map fst (prender b)) s e new).

Theorem C37_map_back_commutes : map_back_commutes_statement true.
Proof.
  intros b s e new path i Hwf Hse He Hall p Hts.
  destruct (range_gen true b s e new path i (i + (e - s)) Hwf Hse He) as (t & v & Hl & Hm & Hr);
    [rewrite Hall by lia; do 2 f_equal; lia | rewrite Hall by lia; do 2 f_equal; lia | left; reflexivity |].
  destruct (Hr Hts) as (Hw & Hrender & Hleaf).
  exists t, v, (i, i + (e - s), sub t i (i + (e - s)), new). repeat split; assumption.
Qed.

(* the unchanged code, away from the defect *)
Theorem C37_map_back_commutes_partial : forall b s e new path i,
  wf_builder b -> 0 <= s < e -> e <= len (prender b) ->
  (forall k, s <= k < e -> snd (znth (prender b) k dcell) = Some (path, i + (k - s))) ->
  no_entry_at_end b s e ->
  let p := (s, e, sub (map fst (prender b)) s e, new) in
  new <> [] \/ transport_sorted false b p ->
  exists t v p', leaf_at b path = Some (t, v) /\ map_back false b p = Ok (Some (t, v, p')) /\
    wf_builder (rebuild false b p) /\
    leaf_at (rebuild false b p) path = Some (apply_patch t (p_start p') (p_end p') (p_new p'), v) /\
    render (rebuild false b p) = Ok (apply_patch (map fst (prender b)) s e new).
Proof.
  intros b s e new path i Hwf Hse He Hall Hn p Hts.
  destruct (range_gen false b s e new path i (i + (e - s)) Hwf Hse He) as (t & v & Hl & Hm & Hr);
    [rewrite Hall by lia; do 2 f_equal; lia | rewrite Hall by lia; do 2 f_equal; lia | right; exact Hn |].
  destruct (Hr Hts) as (Hw & Hrender & Hleaf).
  exists t, v, (i, i + (e - s), sub t i (i + (e - s)), new). repeat split; assumption.
Qed.

(* ---- Combiner: every character lies in one part; a range that touches two parts is refused; a range
   inside a str part gives None ---- *)
Theorem C37_every_character_in_a_part : forall ts s, 0 <= s < len (concat ts) -> exists k, in_part ts k s.
Proof. exact in_part_exists. Qed.

Theorem C37_combiner_refuses_spanning : forall fixed ps ts p k1 k2,
  render_parts ps = Ok ts -> in_part ts k1 (p_start p) -> in_part ts k2 (p_end p - 1) -> k1 <> k2 ->
  map_back fixed (BCombiner ps) p = ValueError.
Proof. exact combiner_spanning. Qed.

Theorem C37_combiner_literal_none : forall fixed ps ts s e new k,
  render_parts ps = Ok ts -> 0 <= s <= e -> e <= len (concat ts) ->
  in_part ts k s -> in_part ts k (e - 1) -> part_is_lit ps k = true ->
  map_back fixed (BCombiner ps) (s, e, sub (concat ts) s e, new) = Ok None.
Proof. exact combiner_literal. Qed.

(* ---- map_back_offset through a series of Replacers gives the source index of a copied character ---- *)
Theorem C37_map_back_offset_exact : forall b k path i,
  wf_builder b -> replacer_chain b -> 0 <= k < len (prender b) ->
  snd (znth (prender b) k dcell) = Some (path, i) -> map_back_offset b k = Ok i.
Proof. exact offset_exact. Qed.

(* ---- make_patch / make_regexp_patches produce valid patches ---- *)
Theorem C37_make_patch_valid : forall (t : list Z) s e new, 0 <= s <= e -> e <= len t ->
  validate_patch t (make_patch t s e new) = true /\ p_old (make_patch t s e new) = sub t s e.
Proof. exact make_patch_valid. Qed.

Theorem C37_regexp_patches_wf : forall (t : list Z) spans ip, spans_ok (len t) ip spans ->
  wf_from t ip (map (fun sp => make_patch t (fst (fst sp)) (snd (fst sp)) (snd sp)) spans).
Proof. exact regexp_patches_wf. Qed.

(* ---- non-vacuity: Combiner(["[", Replacer(Text("a$b c"), ["$" -> "r.", delete " "]), Text("xy"), "]"]),
   output "[ar.bcxy]" ---- *)
Definition C37_example : builder :=
  BCombiner (PLit [91] (PSub (BReplacer (BText [97; 36; 98; 32; 99] 7) [(3, 4, [32], []); (1, 2, [36], [114; 46])])
            (PSub (BText [120; 121] 8) (PLit [93] PNil)))).

(* the hypotheses of C37_map_back_exact / _partial / _commutes hold for the range [5,6) = "c" (character 4 of
   the first Text), also no_entry_at_end; both variants of the code map it to [4,5) *)
Example C37_example_exact :
  wf_builder C37_example /\
  render C37_example = Ok [91; 97; 114; 46; 98; 99; 120; 121; 93] /\
  (forall k, 5 <= k < 6 -> snd (znth (prender C37_example) k dcell) = Some ([1%nat], 4 + (k - 5))) /\
  no_entry_at_end C37_example 5 6 /\
  map_back false C37_example (5, 6, [99], [81]) = Ok (Some ([97; 36; 98; 32; 99], 7, (4, 5, [99], [81]))) /\
  map_back true C37_example (5, 6, [99], [81]) = Ok (Some ([97; 36; 98; 32; 99], 7, (4, 5, [99], [81]))) /\
  render (rebuild true C37_example (5, 6, [99], [81])) = Ok [91; 97; 114; 46; 98; 81; 120; 121; 93].
Proof.
  split; [cbn; repeat split; try exact I; vm_compute; discriminate|].
  split; [vm_compute; reflexivity|].
  split; [intros k Hk; assert (k = 5) by lia; subst k; vm_compute; reflexivity|].
  split; [vm_compute; split; [intros [H|[H|H]]; try discriminate; exact H | exact I]|].
  repeat split; vm_compute; reflexivity.
Qed.

(* the range [4,5) = "b" ends where " " was deleted: it comes from [2,3); the unchanged code answers [2,4), the
   repaired code [2,3); the range [4,6) = "bc" has copied end points only (the deleted " " lies between) and
   maps to [2,5) = "b c"; [4,7) = "bcx" touches two parts and is refused; [0,1) = "[" is a str part *)
Example C37_example_boundary :
  (forall k, 4 <= k < 5 -> snd (znth (prender C37_example) k dcell) = Some ([1%nat], 2 + (k - 4))) /\
  ~ no_entry_at_end C37_example 4 5 /\
  map_back false C37_example (4, 5, [98], [81]) = Ok (Some ([97; 36; 98; 32; 99], 7, (2, 4, [98; 32], [81]))) /\
  map_back true C37_example (4, 5, [98], [81]) = Ok (Some ([97; 36; 98; 32; 99], 7, (2, 3, [98], [81]))) /\
  map_back true C37_example (4, 6, [98; 99], [81]) = Ok (Some ([97; 36; 98; 32; 99], 7, (2, 5, [98; 32; 99], [81]))) /\
  render (rebuild true C37_example (4, 6, [98; 99], [81])) = Ok [91; 97; 114; 46; 81; 120; 121; 93] /\
  map_back true C37_example (4, 7, [98; 99; 120], [81]) = ValueError /\
  map_back true C37_example (0, 1, [91], [81]) = Ok None.
Proof.
  split; [intros k Hk; assert (k = 4) by lia; subst k; vm_compute; reflexivity|].
  split; [vm_compute; intros [H _]; apply H; right; left; reflexivity|].
  repeat split; vm_compute; reflexivity.
Qed.

Example C37_example_offset :
  let r := BReplacer (BReplacer (BText [97; 36; 98; 32; 99] 7) [(3, 4, [32], []); (1, 2, [36], [114; 46])])
                     [(0, 0, [], [62])] in
  wf_builder r /\ replacer_chain r /\ render r = Ok [62; 97; 114; 46; 98; 99] /\
  snd (znth (prender r) 5 dcell) = Some ([], 4) /\ map_back_offset r 5 = Ok 4.
Proof.
  cbv zeta. split; [cbn; repeat split; try exact I; vm_compute; repeat split; discriminate|].
  repeat split; vm_compute; reflexivity.
Qed.

(* ==== Tie to the source: GristGen.TextBuilder_gen is written by harness/tb2v.py from
   /repo/sandbox/grist/textbuilder.py on every run; each translated function / method equals the model ==== *)
Require Import Grist.Lib.TbPrelude GristGen.TextBuilder_gen Grist.Proofs.TextBuilder_bridge.

Theorem C37_gen_make_patch : forall t s e new, gen_make_patch t s e new = make_patch t s e new.
Proof. exact bridge_make_patch. Qed.
Theorem C37_gen_validate_patch : forall t p,
  gen_validate_patch t p = if validate_patch t p then Ok tt else ValueError.
Proof. exact bridge_validate_patch. Qed.
Theorem C37_gen_text_map_back : forall fixed t v p, map_back fixed (BText t v) p = gen_text_map_back t v p.
Proof. exact bridge_text_map_back. Qed.
(* Replacer.__init__: the offset arrays and the output text *)
Theorem C37_gen_replacer_init : forall t ps, gen_replacer_init t ps = replacer_init t ps.
Proof. exact bridge_replacer_init. Qed.
Theorem C37_gen_get_input_pos : forall io oo k, gen_get_input_pos io oo k = get_input_pos io oo k.
Proof. exact bridge_get_input_pos. Qed.
(* Replacer.map_back_patch, incl. the computation of in_end *)
Theorem C37_gen_replacer_map_back : forall inner ps p,
  map_back true (BReplacer inner ps) p
  = bind (render inner) (fun t => bind (gen_replacer_init t ps) (fun r =>
      let '(io, oo, out) := r in gen_replacer_map_back io oo out t (map_back true inner) p)).
Proof. exact bridge_replacer_map_back. Qed.
Theorem C37_gen_map_back_offset : forall inner ps k,
  map_back_offset (BReplacer inner ps) k
  = bind (render inner) (fun t => bind (gen_replacer_init t ps) (fun r =>
      let '(io, oo, _) := r in gen_map_back_offset io oo (is_replacer inner) (map_back_offset inner) k)).
Proof. exact bridge_map_back_offset. Qed.
(* Combiner.__init__: the part offsets and the text; Combiner.map_back_patch: index computation and ValueError *)
Theorem C37_gen_combiner_init : forall gps,
  gen_combiner_init gps = Ok (part_offsets 0 (map gp_text gps), concat (map gp_text gps)).
Proof. exact bridge_combiner_init. Qed.
Theorem C37_gen_combiner_map_back : forall fixed ps p (part_at : Z -> gmpart),
  (forall k q, map_back_parts fixed ps k q = gm_dispatch (part_at (Z.of_nat k)) q) ->
  map_back fixed (BCombiner ps) p
  = bind (render_parts ps) (fun ts => gen_combiner_map_back (concat ts) (part_offsets 0 ts) part_at p).
Proof. exact bridge_combiner_map_back. Qed.

(* the generated methods composed along the object graph (g_render, g_map_back, g_offset of
   Proofs/TextBuilder_bridge.v) are the model's functions *)
Theorem C37_code_render : forall b, g_render b = render b.
Proof. exact (proj1 g_render_eq). Qed.
Theorem C37_code_map_back : forall b p, g_map_back b p = map_back true b p.
Proof. exact (proj1 g_map_back_eq). Qed.
Theorem C37_code_offset : forall b k, g_offset b k = map_back_offset b k.
Proof. exact g_offset_eq. Qed.

(* ... so the property's theorems are theorems about the regenerated code *)
Theorem C37_code_text_of_nesting : forall b, wf_builder b -> g_render b = Ok (map fst (prender b)).
Proof. intros. rewrite C37_code_render. apply render_prender. assumption. Qed.

Theorem C37_code_map_back_exact : forall b s e new path i,
  wf_builder b -> 0 <= s < e -> e <= len (prender b) ->
  (forall k, s <= k < e -> snd (znth (prender b) k dcell) = Some (path, i + (k - s))) ->
  exists t v, leaf_at b path = Some (t, v) /\
    g_map_back b (s, e, sub (map fst (prender b)) s e, new)
    = Ok (Some (t, v, (i, i + (e - s), sub t i (i + (e - s)), new))).
Proof. intros. rewrite C37_code_map_back. apply C37_map_back_exact; assumption. Qed.

Theorem C37_code_map_back_commutes : forall b s e new path i,
  wf_builder b -> 0 <= s < e -> e <= len (prender b) ->
  (forall k, s <= k < e -> snd (znth (prender b) k dcell) = Some (path, i + (k - s))) ->
  let p := (s, e, sub (map fst (prender b)) s e, new) in
  new <> [] \/ transport_sorted true b p ->
  exists t v p', leaf_at b path = Some (t, v) /\ g_map_back b p = Ok (Some (t, v, p')) /\
    leaf_at (rebuild true b p) path = Some (apply_patch t (p_start p') (p_end p') (p_new p'), v) /\
    g_render (rebuild true b p) = Ok (apply_patch (map fst (prender b)) s e new).
Proof.
  intros b s e new path i Hwf Hse He Hall p Hts.
  destruct (C37_map_back_commutes b s e new path i Hwf Hse He Hall Hts) as (t & v & p' & H1 & H2 & _ & H4 & H5).
  exists t, v, p'. rewrite C37_code_map_back, C37_code_render. repeat split; assumption.
Qed.

Theorem C37_code_combiner_refuses_spanning : forall ps ts p k1 k2,
  render_parts ps = Ok ts -> in_part ts k1 (p_start p) -> in_part ts k2 (p_end p - 1) -> k1 <> k2 ->
  g_map_back (BCombiner ps) p = ValueError.
Proof. intros. rewrite C37_code_map_back. eapply combiner_spanning; eassumption. Qed.

Theorem C37_code_map_back_offset_exact : forall b k path i,
  wf_builder b -> replacer_chain b -> 0 <= k < len (prender b) ->
  snd (znth (prender b) k dcell) = Some (path, i) -> g_offset b k = Ok i.
Proof. intros. rewrite C37_code_offset. eapply offset_exact; eassumption. Qed.
