(* C22 -- placeholder while the correspondence is being established. *)
From Coq Require Import ZArith List Bool.
Require Import Grist.Lib.PyFloat Grist.Model.Values.
Example C22_placeholder : is_int_short 5 = true.
Proof. reflexivity. Qed.
