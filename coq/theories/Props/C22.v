(* C22 -- Cell value conversion is total and idempotent.
   convert / do_convert / is_right_type are Model/Values.v (usertypes.py as coded), for every library oracle
   `orc`.  Statements only; proofs are in Proofs/Values_proofs.v.

   Full statement (C22_full): for every type T and value v, convert T v is v itself when v is an error and
   otherwise a right-type value or a text, and convert T (convert T v) = convert T v.
   Totality holds in full (C22_convert_total; the Blob defect was repaired in /repo f9e437d).  Idempotence is
   violated by the current code in three ways, each with a witness below; C22_convert_idem_partial excludes
   exactly these. *)
From Coq Require Import ZArith List Bool String.
Import ListNotations.
Require Import Grist.Lib.PyFloat Grist.Model.Values Grist.Model.ValuesPy Grist.Proofs.Values_proofs.
Require Import GristGen.Usertypes_gen Grist.Proofs.Usertypes_bridge.
Open Scope Z_scope.

Definition C22_full : Prop := forall orc T v,
  total_at orc T v /\ convert orc T (convert orc T v) = convert orc T v.

(* ---- totality ------------------------------------------------------------------------------- *)

(* All 16 types: the error unchanged, or (never an error) a value of the type or a text.
   rows_ok: row ids inside record sets handed to a reference-list type are valid (short) row ids. *)
Theorem C22_convert_total : forall orc T v, rows_ok T v -> total_at orc T v.
Proof. exact convert_total. Qed.

(* Regression (fixed in /repo f9e437d; before it Blob.do_convert was the identity and 5 came back as 5):
   a non-bytes value in a Blob column becomes its text, bytes and None are kept. *)
Example C22_regression_blob : forall orc,
  convert orc TBlob (PInt false 5) = PStr false (Str "5") /\
  convert orc TBlob (PBytes false [120]) = PBytes false [120] /\ convert orc TBlob PNone = PNone.
Proof. intros orc. repeat split; reflexivity. Qed.

(* ---- idempotence ---------------------------------------------------------------------------- *)

(* A second conversion returns the same value (Leibniz equality on V: same type, same content, same float
   bits with one NaN -- stronger than "same type and same encoding") provided
   (1) when the first conversion of a non-text value fell back to str(v), that text converts to itself, and
   (2) the first result is not degenerate: () for ChoiceList, [] / RecordList for RefList and Attachments. *)
Theorem C22_convert_idem_partial : forall orc T v, rows_ok T v ->
  (forall s, is_text v = false -> fallback_text orc T v = Some s -> convert orc T (PStr false s) = PStr false s) ->
  ~ degenerate T (convert orc T v) ->
  convert orc T (convert orc T v) = convert orc T v.
Proof. exact convert_idem. Qed.

(* Text, Choice, Any and Blob: idempotent for every value, no condition. *)
Theorem C22_convert_idem_textlike : forall orc T v, T = TText \/ T = TChoice \/ T = TAny \/ T = TBlob ->
  convert orc T (convert orc T v) = convert orc T v.
Proof. exact convert_idem_textlike. Qed.

(* Defaults are right-type values and fixed points of conversion. *)
Theorem C22_default_right_type : forall T, is_right_type T (default_value T) = true.
Proof. exact default_right_type. Qed.

Theorem C22_default_fixed : forall orc T, convert orc T (default_value T) = default_value T.
Proof. exact default_fixed. Qed.

(* Refutation of (1): the AltText "2020-01-01" in a Date column becomes the text "2020-01-01" (Date.do_convert
   has no AltText branch), which a second conversion parses into a timestamp.  Needs only that iso8601
   accepts that string. *)
Theorem C22_refuted_idem_fallback : forall orc wall off,
  o_iso_parse orc (Str "2020-01-01") = Some (wall, off) ->
  let v := PAltText (Str "2020-01-01") in
  convert orc TDate v = PStr false (Str "2020-01-01") /\
  convert orc TDate (convert orc TDate v) <> convert orc TDate v.
Proof.
  intros orc wall off H v. assert (H1 : convert orc TDate v = PStr false (Str "2020-01-01")) by reflexivity.
  split; [exact H1|]. rewrite H1. unfold convert. cbn [is_error do_convert].
  unfold date_do_convert.
  change (is_empty_or_none (PStr false (Str "2020-01-01"))) with false. cbv iota.
  unfold parse_iso_date. rewrite H. cbn [bind]. discriminate.
Qed.

(* Refutation of (2): a record set converts to a RecordList, which converts to a plain list ... *)
Theorem C22_refuted_idem_recordlist : forall orc,
  let v := PRecordSet (Str "T") RList [1; 2] 0 in
  convert orc (TRefList (Str "T")) v = PList (LRecordList 0) [PInt false 1; PInt false 2] /\
  convert orc (TRefList (Str "T")) (convert orc (TRefList (Str "T")) v) = PList LPlain [PInt false 1; PInt false 2].
Proof. intros orc; split; reflexivity. Qed.

(* ... and the empty record set to RecordList([]), which converts to None. *)
Theorem C22_refuted_idem_empty : forall orc,
  let v := PRecordSet (Str "T") RList [] 0 in
  convert orc (TRefList (Str "T")) v = PList (LRecordList 0) [] /\
  convert orc (TRefList (Str "T")) (convert orc (TRefList (Str "T")) v) = PNone.
Proof. intros orc; split; reflexivity. Qed.

(* ---- the code itself ------------------------------------------------------------------------------
   gen_* are GristGen.Usertypes_gen: translated by harness/ut2v.py from usertypes.py / objtypes.py on every run
   (every do_convert and is_right_type, BaseColumnType.convert, the class hierarchy, is_int_short).  The bridging
   obligations say that they ARE the hand model, for every oracle, type and value; a semantic edit of the source
   makes one of them fail.  The property theorems are then restated about the generated functions. *)

Theorem C22_bridge_do_convert : forall orc T v, same_res (gen_do_convert orc T v) (do_convert orc T v).
Proof. exact bridge_do_convert. Qed.

Theorem C22_bridge_is_right_type : forall orc T v, gen_is_right_type orc T v = Ok (is_right_type T v).
Proof. exact bridge_is_right_type. Qed.

Theorem C22_bridge_convert : forall orc T v, gen_convert_T orc T v = Ok (convert orc T v).
Proof. exact bridge_convert. Qed.

(* convert as coded never raises; an error comes back unchanged; anything else becomes a value the type's own
   is_right_type (as coded) accepts, or a text -- never an error *)
Theorem C22_code_convert_total : forall orc T v, rows_ok T v ->
  exists w, gen_convert_T orc T v = Ok w /\
    ((is_error v = true /\ w = v) \/
     (is_error v = false /\ is_error w = false /\ (gen_is_right_type orc T w = Ok true \/ is_text w = true))).
Proof.
  intros orc T v H. exists (convert orc T v). split; [apply bridge_convert|].
  destruct (convert_total orc T v H) as [[H1 H2]|[H1 [H2 [H3|H3]]]]; [left; auto| |right; auto].
  right. rewrite bridge_is_right_type, H3. auto.
Qed.

(* converting the result of convert (as coded) again gives the same value, outside the three refuted cases *)
Theorem C22_code_convert_idem_partial : forall orc T v w, rows_ok T v ->
  gen_convert_T orc T v = Ok w ->
  (forall s, is_text v = false -> fallback_text orc T v = Some s -> gen_convert_T orc T (PStr false s) = Ok (PStr false s)) ->
  ~ degenerate T w ->
  gen_convert_T orc T w = Ok w.
Proof.
  intros orc T v w Hr Hw Hfb Hd. rewrite bridge_convert in Hw. inversion Hw; subst w.
  rewrite bridge_convert. f_equal. apply convert_idem; auto.
  intros s H1 H2. specialize (Hfb s H1 H2). rewrite bridge_convert in Hfb. inversion Hfb as [Heq]. rewrite Heq. exact Heq.
Qed.

(* ---- non-vacuity ---------------------------------------------------------------------------- *)

Definition no_tables : tables := Build_tables [] [] [] [] [] [] [] [] [] [] [] [] [] [] [] [] [] [].

(* 12.5 in an Int column: converted (12), right type, idempotent; the hypotheses of the theorems hold. *)
Example C22_nonvacuous_int :
  let orc := oracles_of no_tables in
  let v := PFloat false (FNum 25 (-1)) in
  convert orc TInt v = PInt false 12 /\ rows_ok TInt v /\
  fallback_text orc TInt v = None /\ ~ degenerate TInt (convert orc TInt v).
Proof. cbv zeta. repeat split; try reflexivity; try discriminate. intro H; exact H. Qed.

(* A list in an Int column takes the except path; with the library's answers (str([1]) = "[1]", float("[1]")
   fails) the text is stable, so hypothesis (1) is satisfiable on a fallback. *)
Example C22_nonvacuous_fallback :
  let v := PList LPlain [PInt false 1] in
  let orc := oracles_of (Build_tables [(Str "[1]", None)] [] [] [] [(v, Some (Str "[1]"))] [] [] [] [] [] [] [] [] [] [] [] [] []) in
  fallback_text orc TInt v = Some (Str "[1]") /\
  convert orc TInt (PStr false (Str "[1]")) = PStr false (Str "[1]") /\
  convert orc TInt (convert orc TInt v) = convert orc TInt v.
Proof. cbv zeta. repeat split; vm_compute; reflexivity. Qed.

(* two record sets in a RefList column: flattened, de-duplicated, right type, stable *)
Example C22_nonvacuous_reflist :
  let orc := oracles_of no_tables in
  let T := TRefList (Str "T") in
  let v := PList LPlain [PRecordSet (Str "T") RList [1; 2] 0; PRecordSet (Str "T") RTuple [2; 3] 0] in
  rows_ok T v /\ convert orc T v = PList LPlain [PInt false 1; PInt false 2; PInt false 3] /\
  convert orc T (convert orc T v) = convert orc T v.
Proof.
  cbv zeta. split; [|split]; [|vm_compute; reflexivity|vm_compute; reflexivity].
  cbn [rows_ok rows_short]. intros t k rows i [H|[H|[]]]; inversion H; reflexivity.
Qed.
