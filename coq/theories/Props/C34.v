(* C34 -- Time zone conversions round-trip.
   The integer core of moment.Zone (_index, _index_dt, offset, dt_offset, the offset_untils expression) is
   GristGen.Moment_gen, translated from /repo/sandbox/grist/moment.py on every run; bundled_zones is
   GristGen.Tzdata_gen, regenerated from tzdata.data on every run; ts_to_dt / dt_to_ts / date_to_ts are the
   hand-written Model/MomentTz.v (tied to the running code by the correspondence check).  Time is an integer
   number of ticks (1/60 microsecond, see Model/Moment.v); every statement holds for ALL integers, so for every
   microsecond instant, with no range bound.  [oob] is the value an out-of-range list subscript would yield;
   statements hold for every such value.  Statements only; proofs are in Proofs/Moment*_proofs.v. *)
From Coq Require Import ZArith List Bool.
Import ListNotations.
Require Import Grist.Lib.PyPrelude Grist.Lib.PyList Grist.Model.Moment GristGen.Moment_gen Grist.Model.MomentTz.
Require Import GristGen.Tzdata_gen Grist.Proofs.Moment_proofs Grist.Proofs.MomentData_proofs.
Require Import Grist.Model.MomentDt GristGen.MomentDt_gen Grist.Proofs.Moment_bridge.
Open Scope Z_scope.

(* 1. A zone that passes the boolean check round-trips every instant: timestamp -> local datetime (with the
   tzinfo fromutc attaches) -> timestamp. *)
Theorem C34_zone_ok_sound : forall z, zone_ok z = true ->
  forall oob ts, dt_to_ts oob z (ts_to_dt oob ts z) = ts.
Proof. exact zone_ok_sound. Qed.

(* 2. Every bundled zone passes the check (vm_compute over the regenerated data). *)
Theorem C34_all_zones_ok : forallb zone_ok bundled_zones = true.
Proof. exact all_zones_ok. Qed.

(* 1+2. For every time zone in the bundled data and every timestamp, converting to a local datetime and back
   returns the same timestamp. *)
Theorem C34_roundtrip : forall z, In z bundled_zones ->
  forall oob ts, dt_to_ts oob z (ts_to_dt oob ts z) = ts.
Proof. intros z Hin. apply zone_ok_sound. apply bundled_zone_ok. exact Hin. Qed.

(* The data really is the whole bundle: the zone and transition counts the generator saw. *)
Theorem C34_bundle_complete : Z.of_nat (length bundled_zones) = bundled_zone_count /\
  fold_right (fun z acc => nZ z + acc) 0 bundled_zones = bundled_transition_count.
Proof. exact bundled_count. Qed.

(* 3. The local datetime shown for an instant uses the offset of the interval that contains the instant. *)
Theorem C34_ts_to_dt_spec : forall z, In z bundled_zones -> forall oob ts,
  exists k, in_interval z k ts /\ ts_to_dt oob ts z = mk_adt (ts + E z k) (Some (E z k)).
Proof. intros z Hin. apply ts_to_dt_spec. apply bundled_zone_ok. exact Hin. Qed.

(* 4. A local datetime, including ambiguous or skipped local times and whatever favor its tzinfo carries, is
   assigned the offset of an interval r such that: either the instant t it is mapped to lies in interval r and
   renders as that local time again (the offset in effect at t); or the local time is skipped (no instant
   renders as it), it lies in the gap of transition r-1, t lies in the interval r-1 just before that transition
   and the assigned offset is that of interval r which starts at it. *)
Theorem C34_local_offset_is_adjacent : forall z, In z bundled_zones -> forall oob L f,
  let r := zone_index_dt oob z L f in
  let t := local_to_ts oob z L f in
  zone_dt_offset oob z L f = E z r /\ 0 <= r <= nZ z /\
  ((in_interval z r t /\ dt_local (ts_to_dt oob t z) = L) \/
   (1 <= r /\ in_interval z (r - 1) t /\ OU z (r - 1) <= L < TH z (r - 1) /\
    forall ts, dt_local (ts_to_dt oob ts z) <> L)).
Proof. intros z Hin. apply local_offset_is_adjacent. apply bundled_zone_ok. exact Hin. Qed.

(* 5. Converting a date to its (UTC) midnight timestamp and back returns the same date; so does every instant
   of that UTC day. *)
Theorem C34_date_roundtrip : forall d, ts_to_date (date_to_ts d) = d.
Proof. exact date_roundtrip. Qed.

Theorem C34_date_of_instant : forall d s, 0 <= s < TICKS_PER_DAY -> ts_to_date (date_to_ts d + s) = d.
Proof. exact date_of_instant. Qed.

(* 6. With a time zone (date_to_ts after fix 8feac94): for every bundled zone and every date that exists in the
   zone, date_to_ts(date, zone) followed by ts_to_dt(.., zone).date() returns the date; the result is local
   midnight exactly, unless local midnight is skipped on that date (then no instant renders as it and the result
   is in the first hours of the date).  [date_exists] is a decidable hypothesis; it is false only where a zone
   skipped a whole calendar day (7 zone/date pairs in the bundle, e.g. C34_kwajalein_skipped_day). *)
Theorem C34_date_zone_roundtrip : forall z, In z bundled_zones -> forall oob d,
  date_exists z d = true ->
  let t := date_to_ts_zone oob d z in
  adt_date (ts_to_dt oob t z) = d /\
  (dt_local (ts_to_dt oob t z) = date_to_ts d \/ forall ts, dt_local (ts_to_dt oob ts z) <> date_to_ts d).
Proof.
  intros z Hin. apply date_zone_roundtrip; [apply bundled_zone_ok | apply bundled_zone_date_ok]; exact Hin.
Qed.

(* The hypothesis is no stronger than "some instant has this local date": *)
Theorem C34_date_exists_complete : forall z, In z bundled_zones -> forall oob d ts,
  adt_date (ts_to_dt oob ts z) = d -> date_exists z d = true.
Proof. intros z Hin. apply date_exists_complete. apply bundled_zone_ok. exact Hin. Qed.

(* The per-zone date check holds for every bundled zone (vm_compute over the regenerated data). *)
Theorem C34_all_zones_date_ok : forallb zone_date_ok bundled_zones = true.
Proof. exact all_zones_date_ok. Qed.

(* 7. List subscripts of the translated code are in range whenever they are evaluated under their guard, and
   no result depends on the value an out-of-range subscript would yield. *)
Theorem C34_subscripts_in_range : forall z, In z bundled_zones -> forall oob L f ts,
  let i := py_bisect_right (z_offset_untils z) L in
  (i < lenZ (z_offset_untils z) -> 0 <= i < lenZ (z_untils z) /\ 0 <= i + 1 < lenZ (z_offsets z)) /\
  0 <= zone_index_dt oob z L f < lenZ (z_offsets z) /\
  0 <= zone_index oob z ts < lenZ (z_offsets z).
Proof. intros z Hin. apply subscripts_in_range. apply bundled_zone_ok. exact Hin. Qed.

Theorem C34_oob_irrelevant : forall z, In z bundled_zones -> forall oob1 oob2 L f ts,
  zone_index_dt oob1 z L f = zone_index_dt oob2 z L f /\
  zone_dt_offset oob1 z L f = zone_dt_offset oob2 z L f /\
  zone_index oob1 z ts = zone_index oob2 z ts /\
  zone_offset oob1 z ts = zone_offset oob2 z ts.
Proof. intros z Hin. apply oob_irrelevant. apply bundled_zone_ok. exact Hin. Qed.

(* ---- the datetime-level code itself ---------------------------------------------------------------- *)
(* GristGen.MomentDt_gen is translated from moment.py on every run by harness/mo2v.py (utc_to_ts_ms,
   TzInfo.utcoffset, TzInfo.fromutc, ts_to_dt, dt_to_ts, ts_to_date, date_to_ts; CPython's datetime arithmetic is
   the primitive vocabulary of Model/MomentDt.v).  8. Pointwise bridges: generated function = hand model. *)
Theorem C34_bridge_utc_to_ts_ms : forall oob d, moment_utc_to_ts_ms oob d = py_utc_to_ts_ms (d_naive d).
Proof. exact bridge_utc_to_ts_ms. Qed.
Theorem C34_bridge_utcoffset : forall oob z f d,
  TzInfo_utcoffset oob (mk_tz z f) d = zone_dt_offset oob z (d_naive d) f.
Proof. exact bridge_utcoffset. Qed.
Theorem C34_bridge_fromutc : forall oob z f d,
  TzInfo_fromutc oob (mk_tz z f) d = aware z (tz_fromutc oob z (d_naive d)).
Proof. exact bridge_fromutc. Qed.
Theorem C34_bridge_ts_to_dt : forall oob ts z z0 f,
  moment_ts_to_dt oob ts z None = aware z (ts_to_dt oob ts z) /\
  moment_ts_to_dt oob ts z0 (Some (mk_tz z f)) = aware z (ts_to_dt oob ts z).
Proof. intros. split; [apply bridge_ts_to_dt | apply bridge_ts_to_dt_tzinfo]. Qed.
Theorem C34_bridge_dt_to_ts : forall oob z a L f tzopt,
  moment_dt_to_ts oob (aware z a) tzopt = dt_to_ts oob z a /\
  moment_dt_to_ts oob (mk_dt L (Some (mk_tz z f))) tzopt = local_to_ts oob z L f /\
  moment_dt_to_ts oob (mk_dt L None) (Some z) = local_to_ts oob z L None /\
  moment_dt_to_ts oob (mk_dt L None) None = L.
Proof.
  intros. split; [apply bridge_dt_to_ts_aware|]. split; [apply bridge_dt_to_ts_tz|]. apply bridge_dt_to_ts_naive.
Qed.
Theorem C34_bridge_dates : forall oob d ts z,
  moment_ts_to_date oob ts = ts_to_date ts /\ moment_date_to_ts oob d None = date_to_ts d /\
  moment_date_to_ts oob d (Some z) = date_to_ts_zone oob d z.
Proof.
  intros. split; [apply bridge_ts_to_date|]. split; [apply bridge_date_to_ts | apply bridge_date_to_ts_zone].
Qed.
(* the module constant TZ_UTC of the model is the bundled zone 'UTC' *)
Theorem C34_utc_zone_is_bundled : tz_UTC = utc_zone.
Proof. vm_compute. reflexivity. Qed.

(* 9. The property about the generated functions.  dt_to_ts(ts_to_dt(ts, zone)) = ts: *)
Theorem C34_code_roundtrip : forall z, In z bundled_zones -> forall oob ts tzopt,
  moment_dt_to_ts oob (moment_ts_to_dt oob ts z None) tzopt = ts.
Proof. intros z Hin. apply code_roundtrip. apply bundled_zone_ok. exact Hin. Qed.

(* ts_to_date(date_to_ts(d)) = d, and for every instant of that UTC day *)
Theorem C34_code_date_roundtrip : forall oob d, moment_ts_to_date oob (moment_date_to_ts oob d None) = d.
Proof. exact code_date_roundtrip. Qed.
Theorem C34_code_date_of_instant : forall oob d s, 0 <= s < TICKS_PER_DAY ->
  moment_ts_to_date oob (moment_date_to_ts oob d None + s) = d.
Proof. exact code_date_of_instant. Qed.

(* ts_to_dt(date_to_ts(d, zone), zone).date() = d for every date that exists in the zone; local midnight exactly
   unless it is skipped *)
Theorem C34_code_date_zone_roundtrip : forall z, In z bundled_zones -> forall oob d,
  date_exists z d = true ->
  let t := moment_date_to_ts oob d (Some z) in
  py_dt_date (moment_ts_to_dt oob t z None) = d /\
  (d_naive (moment_ts_to_dt oob t z None) = moment_date_to_ts oob d None \/
   forall ts, d_naive (moment_ts_to_dt oob ts z None) <> moment_date_to_ts oob d None).
Proof.
  intros z Hin. apply code_date_zone_roundtrip; [apply bundled_zone_ok | apply bundled_zone_date_ok]; exact Hin.
Qed.

(* the offset datetime.utcoffset() reports for a local time carrying tzinfo(zone, favor), and the instant
   dt_to_ts maps it to: as C34_local_offset_is_adjacent *)
Theorem C34_code_local_offset_is_adjacent : forall z, In z bundled_zones -> forall oob L f,
  let d := mk_dt L (Some (py_get_tzinfo z f)) in
  let r := zone_index_dt oob z L f in
  let t := moment_dt_to_ts oob d None in
  py_dt_utcoffset oob d = Some (E z r) /\ 0 <= r <= nZ z /\
  ((in_interval z r t /\ d_naive (moment_ts_to_dt oob t z None) = L) \/
   (1 <= r /\ in_interval z (r - 1) t /\ OU z (r - 1) <= L < TH z (r - 1) /\
    forall ts, d_naive (moment_ts_to_dt oob ts z None) <> L)).
Proof. intros z Hin. apply code_local_offset_is_adjacent. apply bundled_zone_ok. exact Hin. Qed.

(* ---- non-vacuity ---------------------------------------------------------------------------------- *)

(* America/New_York is a bundled zone with 235 transitions and passes the check. *)
Example C34_new_york_ok : In tz_America_New_York bundled_zones /\ nZ tz_America_New_York = 235 /\
  zone_ok tz_America_New_York = true.
Proof.
  split; [|split; vm_compute; reflexivity].
  unfold bundled_zones. repeat (apply in_or_app; first [left; unfold zones_shard_1, zones_shard_2, zones_shard_3,
    zones_shard_4, zones_shard_5, zones_shard_6, zones_shard_7, zones_shard_8; cbn [In]; tauto | right]).
Qed.

(* test_moment's instants: 1918-10-27 05:59:59 UTC is 01:59:59 EDT, one second later is 01:00:00 EST: an
   ambiguous local hour; both come back (values in seconds = 60 000 000 ticks). *)
Example C34_ambiguous_hour :
  let s := 1000 * TICKS_PER_MS in
  let d1 := ts_to_dt 0 (-1615140001 * s) tz_America_New_York in
  let d2 := ts_to_dt 0 (-1615140000 * s) tz_America_New_York in
  dt_local d1 = (-1615140001 - 4 * 3600) * s /\ dt_local d2 = (-1615140000 - 5 * 3600) * s /\
  dt_local d2 < dt_local d1 /\
  dt_to_ts 0 tz_America_New_York d1 = -1615140001 * s /\ dt_to_ts 0 tz_America_New_York d2 = -1615140000 * s.
Proof. cbv zeta. repeat split; vm_compute; reflexivity. Qed.

(* a skipped local time: 2008-03-09 02:30 in America/Los_Angeles is assigned PDT (-7h), mapped to 09:30 UTC,
   which is 01:30 PST: the second case of C34_local_offset_is_adjacent *)
Example C34_skipped_hour :
  let s := 1000 * TICKS_PER_MS in
  let L := 1205029800 * s in
  zone_dt_offset 0 tz_America_Los_Angeles L None = -7 * 3600 * s /\
  local_to_ts 0 tz_America_Los_Angeles L None = (1205029800 + 7 * 3600) * s /\
  dt_local (ts_to_dt 0 (local_to_ts 0 tz_America_Los_Angeles L None) tz_America_Los_Angeles) = L - 3600 * s.
Proof. cbv zeta. repeat split; vm_compute; reflexivity. Qed.

(* regression example of the repaired date_to_ts (formerly known finding C34-date-to-ts-zone-offset): the date
   exists, comes back, and the result is local midnight (the old code gave 2024-10-05 23:00 local) *)
Example C34_sydney_date :
  let t := date_to_ts_zone 0 20002 tz_Australia_Sydney in
  date_exists tz_Australia_Sydney 20002 = true /\
  adt_date (ts_to_dt 0 t tz_Australia_Sydney) = 20002 /\
  dt_local (ts_to_dt 0 t tz_Australia_Sydney) = date_to_ts 20002.
Proof. exact sydney_date_example. Qed.

(* a date outside the hypothesis: Kwajalein skipped 1993-08-21 (day 8633); no instant has that local date, and
   there is no local midnight of it at all, so the property cannot ask for one *)
Example C34_kwajalein_skipped_day :
  date_exists tz_Kwajalein 8633 = false /\
  (forall oob ts, adt_date (ts_to_dt oob ts tz_Kwajalein) <> 8633) /\
  (forall oob ts, dt_local (ts_to_dt oob ts tz_Kwajalein) <> date_to_ts 8633).
Proof. exact kwajalein_skipped_day. Qed.

(* a skipped local midnight on an existing date: America/Sao_Paulo 2017-10-15 (day 17454), DST starts at 00:00 *)
Example C34_skipped_midnight :
  let z := tz_America_Sao_Paulo in
  date_exists z 17454 = true /\ adt_date (ts_to_dt 0 (date_to_ts_zone 0 17454 z) z) = 17454 /\
  dt_local (ts_to_dt 0 (date_to_ts_zone 0 17454 z) z) = date_to_ts 17454 + 3600000 * TICKS_PER_MS.
Proof. cbv zeta. repeat split; vm_compute; reflexivity. Qed.
