(* C34 -- Time zone conversions round-trip.
   The integer core of moment.Zone (_index, _index_dt, offset, dt_offset, the offset_untils expression) is
   GristGen.Moment_gen, translated from /repo/sandbox/grist/moment.py on every run; bundled_zones is
   GristGen.Tzdata_gen, regenerated from tzdata.data on every run; ts_to_dt / dt_to_ts / date_to_ts are the
   hand-written Model/MomentTz.v (tied to the running code by the correspondence check).  Time is an integer
   number of ticks (1/60 microsecond, see Model/Moment.v); every statement holds for ALL integers, so for every
   microsecond instant, with no range bound.  [oob] is the value an out-of-range list subscript would yield;
   statements hold for every such value.  Statements only; proofs are in Proofs/Moment*_proofs.v. *)
From Coq Require Import ZArith List Bool.
Import ListNotations.
Require Import Grist.Lib.PyPrelude Grist.Lib.PyList Grist.Model.Moment GristGen.Moment_gen Grist.Model.MomentTz.
Require Import GristGen.Tzdata_gen Grist.Proofs.Moment_proofs Grist.Proofs.MomentData_proofs.
Open Scope Z_scope.

(* 1. A zone that passes the boolean check round-trips every instant: timestamp -> local datetime (with the
   tzinfo fromutc attaches) -> timestamp. *)
Theorem C34_zone_ok_sound : forall z, zone_ok z = true ->
  forall oob ts, dt_to_ts oob z (ts_to_dt oob ts z) = ts.
Proof. exact zone_ok_sound. Qed.

(* 2. Every bundled zone passes the check (vm_compute over the regenerated data). *)
Theorem C34_all_zones_ok : forallb zone_ok bundled_zones = true.
Proof. exact all_zones_ok. Qed.

(* 1+2. For every time zone in the bundled data and every timestamp, converting to a local datetime and back
   returns the same timestamp. *)
Theorem C34_roundtrip : forall z, In z bundled_zones ->
  forall oob ts, dt_to_ts oob z (ts_to_dt oob ts z) = ts.
Proof. intros z Hin. apply zone_ok_sound. apply bundled_zone_ok. exact Hin. Qed.

(* The data really is the whole bundle: the zone and transition counts the generator saw. *)
Theorem C34_bundle_complete : Z.of_nat (length bundled_zones) = bundled_zone_count /\
  fold_right (fun z acc => nZ z + acc) 0 bundled_zones = bundled_transition_count.
Proof. exact bundled_count. Qed.

(* 3. The local datetime shown for an instant uses the offset of the interval that contains the instant. *)
Theorem C34_ts_to_dt_spec : forall z, In z bundled_zones -> forall oob ts,
  exists k, in_interval z k ts /\ ts_to_dt oob ts z = mk_adt (ts + E z k) (Some (E z k)).
Proof. intros z Hin. apply ts_to_dt_spec. apply bundled_zone_ok. exact Hin. Qed.

(* 4. A local datetime, including ambiguous or skipped local times and whatever favor its tzinfo carries, is
   assigned the offset of an interval r such that: either the instant t it is mapped to lies in interval r and
   renders as that local time again (the offset in effect at t); or the local time is skipped (no instant
   renders as it), it lies in the gap of transition r-1, t lies in the interval r-1 just before that transition
   and the assigned offset is that of interval r which starts at it. *)
Theorem C34_local_offset_is_adjacent : forall z, In z bundled_zones -> forall oob L f,
  let r := zone_index_dt oob z L f in
  let t := local_to_ts oob z L f in
  zone_dt_offset oob z L f = E z r /\ 0 <= r <= nZ z /\
  ((in_interval z r t /\ dt_local (ts_to_dt oob t z) = L) \/
   (1 <= r /\ in_interval z (r - 1) t /\ OU z (r - 1) <= L < TH z (r - 1) /\
    forall ts, dt_local (ts_to_dt oob ts z) <> L)).
Proof. intros z Hin. apply local_offset_is_adjacent. apply bundled_zone_ok. exact Hin. Qed.

(* 5. Converting a date to its (UTC) midnight timestamp and back returns the same date; so does every instant
   of that UTC day. *)
Theorem C34_date_roundtrip : forall d, ts_to_date (date_to_ts d) = d.
Proof. exact date_roundtrip. Qed.

Theorem C34_date_of_instant : forall d s, 0 <= s < TICKS_PER_DAY -> ts_to_date (date_to_ts d + s) = d.
Proof. exact date_of_instant. Qed.

(* 6. With a time zone, date_to_ts(date, zone) followed by ts_to_dt(.., zone).date().  The full statement: *)
Definition C34_date_zone_statement : Prop := forall z, In z bundled_zones -> forall oob d,
  adt_date (ts_to_dt oob (date_to_ts_zone oob d z) z) = d.

(* ... is violated by the unchanged code (known finding C34-date-to-ts-zone-offset): *)
Theorem C34_date_zone_refuted : ~ C34_date_zone_statement.
Proof.
  intros H. destruct date_zone_refuted as [z [d [Hin Hne]]]. apply Hne. apply H. exact Hin.
Qed.

(* ... and holds (it is exactly local midnight) whenever the instant returned still has the offset that was in
   effect at UTC midnight of the date, which is the offset date_to_ts uses. *)
Theorem C34_date_zone_roundtrip_partial : forall z, In z bundled_zones -> forall oob d,
  let t := date_to_ts_zone oob d z in
  zone_offset oob z t = zone_offset oob z (date_to_ts d) ->
  dt_local (ts_to_dt oob t z) = date_to_ts d /\ adt_date (ts_to_dt oob t z) = d.
Proof. intros z Hin. apply date_zone_roundtrip_partial. apply bundled_zone_ok. exact Hin. Qed.

(* 7. List subscripts of the translated code are in range whenever they are evaluated under their guard, and
   no result depends on the value an out-of-range subscript would yield. *)
Theorem C34_subscripts_in_range : forall z, In z bundled_zones -> forall oob L f ts,
  let i := py_bisect_right (z_offset_untils z) L in
  (i < lenZ (z_offset_untils z) -> 0 <= i < lenZ (z_untils z) /\ 0 <= i + 1 < lenZ (z_offsets z)) /\
  0 <= zone_index_dt oob z L f < lenZ (z_offsets z) /\
  0 <= zone_index oob z ts < lenZ (z_offsets z).
Proof. intros z Hin. apply subscripts_in_range. apply bundled_zone_ok. exact Hin. Qed.

Theorem C34_oob_irrelevant : forall z, In z bundled_zones -> forall oob1 oob2 L f ts,
  zone_index_dt oob1 z L f = zone_index_dt oob2 z L f /\
  zone_dt_offset oob1 z L f = zone_dt_offset oob2 z L f /\
  zone_index oob1 z ts = zone_index oob2 z ts /\
  zone_offset oob1 z ts = zone_offset oob2 z ts.
Proof. intros z Hin. apply oob_irrelevant. apply bundled_zone_ok. exact Hin. Qed.

(* ---- non-vacuity ---------------------------------------------------------------------------------- *)

(* America/New_York is a bundled zone with 235 transitions and passes the check. *)
Example C34_new_york_ok : In tz_America_New_York bundled_zones /\ nZ tz_America_New_York = 235 /\
  zone_ok tz_America_New_York = true.
Proof.
  split; [|split; vm_compute; reflexivity].
  unfold bundled_zones. repeat (apply in_or_app; first [left; unfold zones_shard_1, zones_shard_2, zones_shard_3,
    zones_shard_4, zones_shard_5, zones_shard_6, zones_shard_7, zones_shard_8; cbn [In]; tauto | right]).
Qed.

(* test_moment's instants: 1918-10-27 05:59:59 UTC is 01:59:59 EDT, one second later is 01:00:00 EST: an
   ambiguous local hour; both come back (values in seconds = 60 000 000 ticks). *)
Example C34_ambiguous_hour :
  let s := 1000 * TICKS_PER_MS in
  let d1 := ts_to_dt 0 (-1615140001 * s) tz_America_New_York in
  let d2 := ts_to_dt 0 (-1615140000 * s) tz_America_New_York in
  dt_local d1 = (-1615140001 - 4 * 3600) * s /\ dt_local d2 = (-1615140000 - 5 * 3600) * s /\
  dt_local d2 < dt_local d1 /\
  dt_to_ts 0 tz_America_New_York d1 = -1615140001 * s /\ dt_to_ts 0 tz_America_New_York d2 = -1615140000 * s.
Proof. cbv zeta. repeat split; vm_compute; reflexivity. Qed.

(* a skipped local time: 2008-03-09 02:30 in America/Los_Angeles is assigned PDT (-7h), mapped to 09:30 UTC,
   which is 01:30 PST: the second case of C34_local_offset_is_adjacent *)
Example C34_skipped_hour :
  let s := 1000 * TICKS_PER_MS in
  let L := 1205029800 * s in
  zone_dt_offset 0 tz_America_Los_Angeles L None = -7 * 3600 * s /\
  local_to_ts 0 tz_America_Los_Angeles L None = (1205029800 + 7 * 3600) * s /\
  dt_local (ts_to_dt 0 (local_to_ts 0 tz_America_Los_Angeles L None) tz_America_Los_Angeles) = L - 3600 * s.
Proof. cbv zeta. repeat split; vm_compute; reflexivity. Qed.

(* the known finding, concretely: Australia/Sydney, 2024-10-06 (day 20002) comes back as day 20001, local
   23:00 of the day before; and a date on which the hypothesis of the partial theorem holds *)
Example C34_sydney_date :
  let t := date_to_ts_zone 0 20002 tz_Australia_Sydney in
  adt_date (ts_to_dt 0 t tz_Australia_Sydney) = 20001 /\
  dt_local (ts_to_dt 0 t tz_Australia_Sydney) = date_to_ts 20002 - 3600000 * TICKS_PER_MS.
Proof. exact sydney_date_example. Qed.

Example C34_date_zone_partial_nonvacuous :
  zone_offset 0 tz_Australia_Sydney (date_to_ts_zone 0 20003 tz_Australia_Sydney) =
  zone_offset 0 tz_Australia_Sydney (date_to_ts 20003).
Proof. vm_compute. reflexivity. Qed.
