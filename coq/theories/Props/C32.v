(* C32 -- CSV import keeps every cell.
   Model: Grist.Model.Csv (hand-written from imports/import_csv.py, import_utils.py, parse_data.get_table_data;
   compared with the running importer on every run).  The model starts from the grid of string rows that
   csv.reader produced; `isnum` stands for import_utils._is_numeric and is universally quantified.
   `import_csv = import_csv_gen source_is_repaired`; source_is_repaired = true is /repo's current source (fix commit
   6b8f366 = notes/proposed_fixes/C32-late-wide-row.diff), false the source before it.
   GristGen.Csv_gen is REGENERATED from the Python source by harness/csv2v.py on every run; the C32_gen_* theorems
   (proved in Proofs/Csv_bridge.v against the regenerated text) say that every translated function equals the model
   function, so C32_cells_kept_generated is the property about the code as it is written now.
   Statements only; proofs are in Proofs/Csv_proofs.v and Proofs/Csv_bridge.v. *)
From Coq Require Import ZArith List Bool Arith Sorted.
Import ListNotations.
Require Import Grist.Model.Csv Grist.Proofs.Csv_proofs.
Require Import Grist.Lib.CsvPrelude GristGen.Csv_gen Grist.Proofs.Csv_bridge.
Open Scope nat_scope.

(* THE PROPERTY AT FULL STRENGTH, about the model of /repo's current source (import_csv = import_csv_gen true since
   fix commit 6b8f366): for every grid and all options, all columns have one entry per data row and every cell
   with a non-blank character in a data row appears at its row and column. *)
Theorem C32_cells_kept :
  forall (isnum : cell -> bool) (g : grid) (o : options),
    cells_kept (csv_data_rows isnum g o) (import_csv isnum g o).
Proof. exact repaired_keeps_cells. Qed.

(* Regression examples on the current source: the two old witnesses keep their cells.  100 rows `a,b` then
   `x,y,z`: three columns, `z` at data row 100; blank first line then `a`, `b`: one column with both cells. *)
Example C32_late_wide_row_regression :
  map (fun c => (c_index c, nth_error (c_data c) 100)) (import_csv no_numbers late_wide_witness default_options)
    = [(0, Some [120%Z]); (1, Some [121%Z]); (2, Some [122%Z])].
Proof. vm_compute. reflexivity. Qed.

Example C32_blank_first_row_regression :
  map (fun c => (c_index c, c_data c)) (import_csv no_numbers blank_first_witness default_options)
    = [(0, [[97%Z]; [98%Z]])].
Proof. vm_compute. reflexivity. Qed.

(* ---- What the fix was needed for: the source BEFORE commit 6b8f366 is import_csv_gen false ------------------- *)

(* It violated the statement: 100 rows `a,b`, then `x,y,z` -- the `z` was dropped (width from the sample only). *)
Theorem C32_before_fix_refuted :
  exists isnum g o, length g = 101 /\ ~ cells_kept (csv_data_rows isnum g o) (import_csv_gen false isnum g o).
Proof.
  exists no_numbers, late_wide_witness, default_options. split; [reflexivity | exact late_wide_refutes].
Qed.

(* ... and, independently: a blank first line followed by single-column data gave width 0 (no table at all). *)
Theorem C32_before_fix_refuted_blank_first_row :
  exists isnum g o, length g = 3 /\ ~ cells_kept (csv_data_rows isnum g o) (import_csv_gen false isnum g o).
Proof.
  exists no_numbers, blank_first_witness, default_options. split; [reflexivity | exact blank_first_refutes].
Qed.

(* Exact characterisation, source before and after the fix alike: the statement holds for a grid precisely when
   every data row, trimmed of trailing blank cells, fits into the table width the importer derived. *)
Theorem C32_cells_kept_iff : forall repaired isnum g o,
  cells_kept (csv_data_rows isnum g o) (import_csv_gen repaired isnum g o) <->
  rows_fit (csv_width repaired isnum g o) (csv_data_rows isnum g o) = true.
Proof. exact statement_iff. Qed.

(* Source before the fix, positive part: the statement held whenever (1) no row after the 100-row sample is wider
   than the width derived from the sample and (2) the file is not of the blank-first-line, single-column kind
   imported without an explicit headers=True. *)
Theorem C32_cells_kept_before_fix : forall isnum g o,
  late_rows_fit isnum g o -> ~ blank_first_row_case g o ->
  cells_kept (csv_data_rows isnum g o) (import_csv_gen false isnum g o).
Proof. exact current_keeps_cells. Qed.

(* (1) is also necessary when NUM_ROWS is not given: the hypothesis is as narrow as it can be. *)
Theorem C32_late_rows_fit_necessary : forall isnum g o,
  (o_num_rows o <= 0)%Z ->
  cells_kept (csv_data_rows isnum g o) (import_csv_gen false isnum g o) -> late_rows_fit isnum g o.
Proof. exact late_rows_fit_necessary. Qed.

(* (1) held for every file of at most 100 rows. *)
Theorem C32_cells_kept_before_fix_short_file : forall isnum g o,
  length g <= sample_len -> hd_error g <> Some [] ->
  cells_kept (csv_data_rows isnum g o) (import_csv_gen false isnum g o).
Proof.
  intros isnum g o Hlen Hhd. apply current_keeps_cells.
  - apply short_grid_late_rows_fit. exact Hlen.
  - intros [H _]. exact (Hhd H).
Qed.

(* The same as C32_cells_kept, stated on the explicit variant (independent of the switch). *)
Theorem C32_cells_kept_repaired : forall isnum g o,
  cells_kept (csv_data_rows isnum g o) (import_csv_gen true isnum g o).
Proof. exact repaired_keeps_cells. Qed.

(* Unconditional facts, both variants (repaired = true is the current source). *)

(* all columns have one entry per data row *)
Theorem C32_columns_rectangular : forall repaired isnum g o col,
  In col (import_csv_gen repaired isnum g o) -> length (c_data col) = length (csv_data_rows isnum g o).
Proof. exact columns_rectangular. Qed.

(* every output column is an input column, verbatim (short rows padded with ""), named by its header *)
Theorem C32_columns_verbatim : forall repaired isnum g o col,
  In col (import_csv_gen repaired isnum g o) ->
  c_index col < csv_width repaired isnum g o /\
  c_data col = map (fun r => nth (c_index col) r []) (csv_data_rows isnum g o) /\
  nth_error (csv_headers repaired isnum g o) (c_index col) = Some (c_id col).
Proof. exact columns_verbatim. Qed.

(* output columns stand in input order *)
Theorem C32_columns_in_order : forall repaired isnum g o,
  StronglySorted lt (map c_index (import_csv_gen repaired isnum g o)).
Proof. exact columns_in_order. Qed.

(* inside the width, a column with a header text or any non-"" cell is kept *)
Theorem C32_column_kept : forall repaired isnum g o j h,
  nth_error (csv_headers repaired isnum g o) j = Some h ->
  is_nil h = false \/ (exists r, In r (csv_data_rows isnum g o) /\ is_nil (nth j r []) = false) ->
  In {| c_index := j; c_id := h; c_data := map (fun r => nth j r []) (csv_data_rows isnum g o) |}
     (import_csv_gen repaired isnum g o).
Proof. exact column_kept. Qed.

(* Non-vacuity of C32_cells_kept_before_fix: a 102-row file with a header, a three-cell row inside the sample and a
   three-cell row after it satisfies both hypotheses, and the late `z` is imported (row 100 of column 2). *)
Example C32_before_fix_nonvacuous :
  late_rows_fit no_numbers fitting_example default_options /\
  ~ blank_first_row_case fitting_example default_options /\
  length fitting_example = 102 /\
  map c_index (import_csv_gen false no_numbers fitting_example default_options) = [0; 1; 2] /\
  map c_id (import_csv_gen false no_numbers fitting_example default_options)
    = [[78; 97; 109; 101]; [67; 105; 116; 121]; []]%Z /\
  map (fun c => nth_error (c_data c) 100) (import_csv_gen false no_numbers fitting_example default_options)
    = [Some [120]; Some [121]; Some [122]]%Z.
Proof.
  split; [apply late_rows_fit_dec; vm_compute; reflexivity|].
  split; [intros [H _]; vm_compute in H; discriminate H|].
  repeat split; vm_compute; reflexivity.
Qed.

(* The repaired importer on the refuting witness: three columns, `z` present at data row 100. *)
Example C32_repaired_on_witness :
  map (fun c => (c_index c, nth_error (c_data c) 100))
      (import_csv_gen true no_numbers late_wide_witness default_options)
    = [(0, Some [120%Z]); (1, Some [121%Z]); (2, Some [122%Z])] /\
  map c_index (import_csv_gen false no_numbers late_wide_witness default_options) = [0; 1].
Proof. split; vm_compute; reflexivity. Qed.

(* ---- The tie: functions translated from the source on every run equal the model ------------------------------ *)

(* import_utils.empty *)
Theorem C32_gen_empty : forall c, g_empty c = empty c.
Proof. exact gen_empty. Qed.

(* import_utils.column_count_modal *)
Theorem C32_gen_column_count_modal : forall rows, g_column_count_modal rows = Z.of_nat (column_count_modal rows).
Proof. exact gen_column_count_modal. Qed.

(* import_utils._count_nonempty *)
Theorem C32_gen_count_nonempty : forall r, g_count_nonempty r = Z.of_nat (count_nonempty r).
Proof. exact gen_count_nonempty. Qed.

(* import_utils.find_first_non_empty_row *)
Theorem C32_gen_find_first_non_empty_row : forall rows,
  g_find_first_non_empty_row rows = zpair (find_first_non_empty_row rows).
Proof. exact gen_find_first_non_empty_row. Qed.

(* import_utils._is_header *)
Theorem C32_gen_is_header : forall isnum header rows, g_is_header isnum header rows = is_header isnum header rows.
Proof. exact gen_is_header. Qed.

(* import_utils.expand_headers *)
Theorem C32_gen_expand_headers : forall hs off rows,
  g_expand_headers hs (Z.of_nat off) rows = expand_headers hs off rows.
Proof. exact gen_expand_headers. Qed.

(* import_utils.headers_guess *)
Theorem C32_gen_headers_guess : forall isnum rows, g_headers_guess isnum rows = zpair (headers_guess isnum rows).
Proof. exact gen_headers_guess. Qed.

(* parse_data.get_table_data (converter objects on str cells as in Lib/CsvPrelude.v) *)
Theorem C32_gen_get_table_data : forall rows n nr,
  g_get_table_data rows (Z.of_nat n) nr = map get_grist_column (get_table_data (take_rows nr rows) n).
Proof. exact gen_get_table_data. Qed.

(* import_csv._parse_open_file from after `rows = list(reader)` to before `if not table_data:`: the translated
   statements compute exactly the columns of the repaired model (column_metadata ids + data, table_data) *)
Theorem C32_gen_parse_rows : forall isnum o rows,
  g_parse_rows isnum o rows
  = (map mk_cd (import_csv_gen true isnum rows o), map c_data (import_csv_gen true isnum rows o)).
Proof. exact gen_parse_rows. Qed.

(* THE PROPERTY ABOUT THE TRANSLATED SOURCE: what the translated statements of _parse_open_file export are columns
   that keep every cell. *)
Theorem C32_cells_kept_generated : forall isnum o g,
  exists cols, g_parse_rows isnum o g = (map mk_cd cols, map c_data cols) /\
               cells_kept (csv_data_rows isnum g o) cols /\
               StronglySorted lt (map c_index cols).
Proof.
  intros isnum o g. exists (import_csv_gen true isnum g o).
  split; [apply gen_parse_rows | split; [apply repaired_keeps_cells | apply columns_in_order]].
Qed.
