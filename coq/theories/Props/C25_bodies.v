(* C25 -- migration BODIES modelled in Model/MigrateBodies.v (each compared on every run with the actions the real
   migration emits on generated documents): on a type-correct document the migration returns (no exception,
   whatever the Text cells contain) and the doc actions it hands to tdset.apply_doc_actions apply.

   json.loads is the oracle `parse` (for every text: an arbitrary JSON value, or failure); json.dumps the
   oracles `dumps` / `dumps_compact` (any functions); int(x / 1000) the oracle `secs` (returns, or raises
   ValueError / OverflowError).  J s: every table of the tdset has a schema entry and columns at least as long
   as its row list.  col_ok P t c s: every record of table t has field c with a value satisfying P
   (is_text: a string; hashable: not a list/dict; strable: not a float/list/dict; any_val: present).
   Statements only; proofs are in Proofs/MigrateBodies_proofs.v. *)
From Coq Require Import ZArith Bool String List.
Import ListNotations.
Require Import Grist.Model.Migrate Grist.Model.MigrateSites Grist.Model.MigrateBodies.
Require Import Grist.Proofs.MigrateBodies_proofs.
Open Scope Z_scope.

Definition migrates (body : tds -> res (list action)) (s : tds) : Prop :=
  exists acts s', body s = Ok acts /\ tds_apply_all acts s = Ok s' /\ J s'.

Theorem C25_m15_total : forall parse dumps s,
  J s -> has_table T_SECTIONS s -> has_table T_FIELDS s ->
  col_ok is_text T_SECTIONS (zs "filterSpec") s ->
  col_ok hashable T_FIELDS (zs "parentId") s -> col_ok strable T_FIELDS (zs "colRef") s ->
  migrates (m15 parse dumps) s.
Proof. exact m15_total. Qed.

Theorem C25_m16_total : forall parse dumps_compact s,
  J s -> has_table T_TABLES s -> has_table T_COLUMNS s -> has_table T_FIELDS s ->
  col_ok hashable T_TABLES (zs "tableId") s ->
  col_ok hashable T_COLUMNS (zs "parentId") s -> col_ok hashable T_COLUMNS (zs "colId") s ->
  col_ok is_text T_COLUMNS (zs "type") s -> col_ok any_val T_COLUMNS (zs "widgetOptions") s ->
  col_ok hashable T_FIELDS (zs "colRef") s -> col_ok any_val T_FIELDS (zs "widgetOptions") s ->
  migrates (m16 parse dumps_compact) s.
Proof. exact m16_total. Qed.

(* m29_col_pre parse r: rules and widgetOptions are empty values or strings, parentId is present, and a rules
   cell that parses to a list holds scalars (what a RefList cell holds) *)
Theorem C25_m29_total : forall parse dumps s,
  J s -> has_table T_TABLES s -> has_table T_COLUMNS s ->
  Forall (m29_col_pre parse) (recs T_COLUMNS s) ->
  migrates (m29 parse dumps) s.
Proof. exact m29_total. Qed.

Theorem C25_m34_total : forall parse s,
  J s -> has_table T_TABLES s -> has_table T_SECTIONS s -> has_table T_FILTERS s ->
  col_ok hashable T_TABLES (zs "rawViewSectionRef") s ->
  col_ok is_text T_SECTIONS (zs "options") s ->
  col_ok hashable T_FILTERS (zs "viewSectionRef") s ->
  migrates (m34 parse) s.
Proof. exact m34_total. Qed.

Theorem C25_m35_total : forall parse s,
  J s -> has_table T_ACLRULES s -> col_ok is_text T_ACLRULES (zs "aclFormulaParsed") s ->
  migrates (m35 parse) s.
Proof. exact m35_total. Qed.

Theorem C25_m45_total : forall parse dumps secs,
  (forall n, (exists z, secs n = Ok z) \/ secs n = Err ValueErr \/ secs n = Err OverflowErr) ->
  forall s, J s -> has_table T_CELLS s -> col_ok is_text T_CELLS (zs "content") s ->
  migrates (m45 parse dumps secs) s.
Proof. exact m45_total. Qed.

(* The same six theorems from the DECIDABLE form of their hypotheses (Model/MigrateBodies.v pre15 .. pre45), which
   the harness evaluates on every generated document just before the real migration runs on it: the generated
   "type-correct" documents are inside the theorems' premises. *)
Theorem C25_json_migrations_total : forall parse dumps dumps_compact secs,
  (forall n, (exists z, secs n = Ok z) \/ secs n = Err ValueErr \/ secs n = Err OverflowErr) ->
  forall s,
  (pre15 s = true -> migrates (m15 parse dumps) s) /\
  (pre16 s = true -> migrates (m16 parse dumps_compact) s) /\
  (pre29 parse s = true -> migrates (m29 parse dumps) s) /\
  (pre34 s = true -> migrates (m34 parse) s) /\
  (pre35 s = true -> migrates (m35 parse) s) /\
  (pre45 s = true -> migrates (m45 parse dumps secs) s).
Proof.
  intros parse dumps dc secs Hs s. repeat split; intro H.
  - exact (pre15_sound parse dumps s H).
  - exact (pre16_sound parse dc s H).
  - exact (pre29_sound parse dumps s H).
  - exact (pre34_sound parse s H).
  - exact (pre35_sound parse s H).
  - exact (pre45_sound parse dumps secs Hs s H).
Qed.

(* Migration 10 (display columns; body as repaired by dd62aa0: the picked id is the one used).  pick_col is
   identifiers.pick_col_ident('gristHelper_Display', avoid=...) as an arbitrary function (its own properties are
   C21's subject), str_of_json formats a non-string visibleCol.  pre10: every _grist_Tables record names an
   existing user table, the column row ids are ints, every column record has a string type, a displayCol, a
   printable colId and a parentId naming a table record, and every column of _grist_Tables_column has a typed
   schema entry (AddRecord defaults the cells it does not give). *)
Theorem C25_m10_total : forall parse pick_col str_of_json s,
  pre10 s = true -> migrates (m10 parse pick_col str_of_json) s.
Proof. exact m10_total. Qed.

(* ---- non-vacuity: a small version-33 document through migration 34, and a version-44 one through 45 ---- *)
Definition ex_oracle : list (str * option json) :=
  [(zs "[1,2]", Some (JArr [JNum (JInt 1); JNum (JInt 2)]));
   (zs "{""filterBar"":true}", Some (JObj [(zs "filterBar", JBool true)]));
   (zs "junk", None);
   (zs "{""text"":""t"",""timeCreated"":1700000000500}",
    Some (JObj [(zs "text", JStr (zs "t")); (zs "timeCreated", JNum (JInt 1700000000500))]))].

Definition ex34 : tds := mkTds
  [(T_TABLES, ([Some 1], [(zs "rawViewSectionRef", [VInt 3])]));
   (T_SECTIONS, ([Some 1; Some 2; Some 3], [(zs "options", [VStr (zs "[1,2]"); VStr (zs "{""filterBar"":true}"); VStr (zs "junk")])]));
   (T_FILTERS, ([Some 1; Some 2; Some 3; Some 4], [(zs "viewSectionRef", [VInt 1; VInt 2; VInt 3; VInt 9])]))]
  [(T_TABLES, []); (T_SECTIONS, []); (T_FILTERS, [])].

Example C25_m34_example :
  m34 (tbl_parse ex_oracle) ex34 =
    Ok [add_column T_FILTERS (zs "pinned") (zs "Bool");
        BulkUpdateRecord T_FILTERS [Some 1; Some 2; Some 3; Some 4]
          [(zs "pinned", [VBool false; VBool true; VBool true; VBool false])]] /\
  migrates (m34 (tbl_parse ex_oracle)) ex34.
Proof.
  split; [vm_compute; reflexivity|].
  apply pre34_sound. vm_compute. reflexivity.
Qed.

Example C25_m34_example_premise : pre34 ex34 = true.
Proof. vm_compute. reflexivity. Qed.

(* ---- Migrations whose body is `return tdset.apply_doc_actions([<constants>])`: the literal lists are
        translated from migrations.py into GristGen.MigrateConst_gen.const_bodies on every run (fail closed: a
        migration that used to translate and no longer does breaks the tie).  Such a body cannot raise; what it
        emits applies to every document that has the tables (const_needs) and records (const_row_needs) the
        list names, for lists made of AddColumn / RemoveColumn / AddTable / UpdateRecord (const_ok). ---- *)
Require Import GristGen.MigrateConst_gen.

Theorem C25_const_migration_total : forall acts s,
  const_ok [] acts = true -> J s ->
  (forall t, In t (const_needs [] acts) -> has_table t s) ->
  (forall t r, In (t, r) (const_row_needs acts) -> In r (rows_of t s)) ->
  migrates (fun _ => Ok acts) s.
Proof. exact const_migration_total. Qed.

Definition proved_const : list (Z * list action) := filter (fun p => const_ok [] (snd p)) const_bodies.

Theorem C25_translated_migrations_total : forall v acts s,
  In (v, acts) proved_const -> J s ->
  (forall t, In t (const_needs [] acts) -> has_table t s) ->
  (forall t r, In (t, r) (const_row_needs acts) -> In r (rows_of t s)) ->
  migrates (fun _ => Ok acts) s.
Proof.
  intros v acts s Hin. unfold proved_const in Hin. apply filter_In in Hin. destruct Hin as [_ Hok].
  apply C25_const_migration_total. exact Hok.
Qed.

(* which migrations that covers on the current source (more is fine, fewer breaks this proof) *)
Example C25_translated_migrations_covered :
  forallb (fun v => existsb (Z.eqb v) (map fst proved_const))
          [5; 6; 8; 9; 11; 12; 13; 18; 19; 21; 22; 23; 24; 27; 32; 33; 36; 37; 38; 41; 42; 43; 44; 46] = true /\
  existsb (Z.eqb 14) (map fst const_bodies) = true.
Proof. split; vm_compute; reflexivity. Qed.

(* e.g. migration 18 needs _grist_DocInfo and its record 1; migration 24 needs nothing *)
Example C25_translated_needs_example :
  (forall acts, In (18, acts) const_bodies ->
     const_needs [] acts = [zs "_grist_DocInfo"; zs "_grist_DocInfo"] /\
     const_row_needs acts = [(zs "_grist_DocInfo", Some 1)]) /\
  (forall acts, In (24, acts) const_bodies -> const_needs [] acts = [] /\ const_row_needs acts = []).
Proof.
  split; intros acts H; vm_compute in H;
    repeat (destruct H as [H|H]; [try discriminate H; try (injection H as <-; split; vm_compute; reflexivity)|]);
    contradiction.
Qed.

(* regression for the repaired migration 10: two reference columns of one table get the two ids the picker
   returns (before dd62aa0 both were added as 'gristHelper_Display', the second replacing the first) *)
Definition ex10 : tds := mkTds
  [(T_TABLES, ([Some 1], [(zs "tableId", [VStr (zs "T")])]));
   (T_COLUMNS, ([Some 1; Some 2],
      [(zs "parentId", [VInt 1; VInt 1]); (zs "colId", [VStr (zs "A"); VStr (zs "B")]);
       (zs "type", [VStr (zs "Ref:T"); VStr (zs "Ref:T")]); (zs "displayCol", [VInt 0; VInt 0]);
       (zs "widgetOptions", [VStr (zs "wa"); VStr (zs "wb")])]));
   (zs "T", ([], [(zs "A", []); (zs "B", [])]))]
  [(T_TABLES, [(zs "tableId", mkci (zs "tableId") (zs "Text") false [])]);
   (T_COLUMNS, [(zs "parentId", mkci (zs "parentId") (zs "Ref:_grist_Tables") false []);
                (zs "colId", mkci (zs "colId") (zs "Text") false []); (zs "type", mkci (zs "type") (zs "Text") false []);
                (zs "displayCol", mkci (zs "displayCol") (zs "Ref:_grist_Tables_column") false []);
                (zs "widgetOptions", mkci (zs "widgetOptions") (zs "Text") false [])]);
   (zs "T", [(zs "A", mkci (zs "A") (zs "Ref:T") false []); (zs "B", mkci (zs "B") (zs "Ref:T") false [])])].
Definition ex10_parse : list (str * option json) :=
  [(zs "wa", Some (JObj [(zs "visibleCol", JStr (zs "B"))])); (zs "wb", Some (JObj [(zs "visibleCol", JStr (zs "A"))]))].
Definition ex10_pick : list (list str * str) :=
  [([zs "A"; zs "B"], zs "gristHelper_Display"); ([zs "A"; zs "B"; zs "gristHelper_Display"], zs "gristHelper_Display2")].

Example C25_m10_example :
  pre10 ex10 = true /\
  match m10 (tbl_parse ex10_parse) (tbl_pick ex10_pick) (fun _ => []) ex10 with
  | Ok acts => map (fun a => match a with AddColumn t c _ => c | _ => [] end)
                   (filter (fun a => match a with AddColumn _ _ _ => true | _ => false end) acts)
               = [zs "gristHelper_Display"; zs "gristHelper_Display2"]
  | Err _ => False
  end.
Proof. split; vm_compute; reflexivity. Qed.

(* ---- Migration 7 (old-style summary tables).  summary_match is summary_re.match on a table name (None, or
        groups 1 and 2), pick_table is identifiers.pick_table_ident: arbitrary functions.  Proved: the BODY returns
        (computes its doc actions without raising) under pre7, whose table clause says that when a table name
        matches and group 1 is an existing table, the column refs in group 2 parse and name column records -- the
        hypothesis that excludes names like Summary_Foo.  That the emitted RemoveColumn / RenameTable /
        ModifyColumn / BulkRemoveRecord actions then apply is NOT proved (covered by the differential tie only).
        Without the hypothesis the body raises: the known finding, kept as a theorem about the model. ---- *)
Theorem C25_m7_body_total : forall summary_match pick_table s,
  pre7 summary_match s = true -> exists acts, m7 summary_match pick_table s = Ok acts.
Proof. exact m7_body_total. Qed.

Definition ex7 : tds := mkTds
  [(T_TABLES, ([Some 1; Some 2], [(zs "tableId", [VStr (zs "Foo"); VStr (zs "Summary_Foo")])]));
   (T_COLUMNS, ([Some 1; Some 2],
      [(zs "parentId", [VInt 1; VInt 2]); (zs "colId", [VStr (zs "A"); VStr (zs "B")]);
       (zs "formula", [VStr []; VStr []]); (zs "isFormula", [VBool false; VBool false])]))]
  [].
(* what the regular expression of migration 7 answers on these two names *)
Definition ex7_match (name : str) : option (str * str) :=
  if seqb name (zs "Summary_Foo") then Some (zs "Foo", []) else None.

Theorem C25_m7_refuted :
  m7 ex7_match (fun n _ => n) ex7 = Err ValueErr /\
  (* ... although the document is otherwise inside pre7: only the refs clause of table 2 fails *)
  has_table_b T_TABLES ex7 = true /\ has_table_b T_COLUMNS ex7 = true /\
  forallb (col_pre7 ex7) (recs T_COLUMNS ex7) = true /\
  map (table_pre7 ex7_match ex7) (recs T_TABLES ex7) = [true; false] /\
  parse_refs [] = Err ValueErr.
Proof. repeat split; vm_compute; reflexivity. Qed.

(* with refs in the name the same document migrates (body): Summary_Foo_1 groups by column 1 *)
Example C25_m7_example :
  let s := mkTds
    [(T_TABLES, ([Some 1; Some 2], [(zs "tableId", [VStr (zs "Foo"); VStr (zs "Summary_Foo_1")])]));
     (T_COLUMNS, ([Some 1; Some 2],
        [(zs "parentId", [VInt 1; VInt 2]); (zs "colId", [VStr (zs "A"); VStr (zs "A")]);
         (zs "formula", [VStr []; VStr []]); (zs "isFormula", [VBool false; VBool false])]))] [] in
  let sm := fun name => if seqb name (zs "Summary_Foo_1") then Some (zs "Foo", zs "_1") else None in
  pre7 sm s = true /\
  match m7 sm (fun n _ => n) s with
  | Ok acts => existsb (fun a => match a with RenameTable o n => seqb o (zs "Summary_Foo_1") && seqb n (zs "Foo_summary_A") | _ => false end) acts = true
  | Err _ => False
  end.
Proof. split; vm_compute; reflexivity. Qed.

(* ---- Migrations 4 (tabPos = row id) and 39 (the two version-38 schemas): need only their tables. ---- *)
Theorem C25_m4_total : forall s, pre4 s = true -> migrates m4 s.
Proof. exact m4_total. Qed.

Theorem C25_m39_total : forall s, pre39 s = true -> migrates m39 s.
Proof. exact m39_total. Qed.

Example C25_m39_example :
  let s := mkTds [(T_TRIGGERS, ([Some 1; Some 2], [(zs "actions", [VStr []; VStr []])]));
                  (T_SECTIONS, ([], [(zs "description", [])]))]
                 [(T_TRIGGERS, []); (T_SECTIONS, [])] in
  pre39 s = true /\
  m39 s = Ok [add_column T_TRIGGERS (zs "memo") (zs "Text"); add_column T_TRIGGERS (zs "label") (zs "Text");
              add_column T_TRIGGERS (zs "enabled") (zs "Bool");
              BulkUpdateRecord T_TRIGGERS [Some 1; Some 2] [(zs "enabled", [VBool true; VBool true])]].
Proof. split; vm_compute; reflexivity. Qed.
