(* C25 -- migration BODIES modelled in Model/MigrateBodies.v (each compared on every run with the actions the real
   migration emits on generated documents): on a type-correct document the migration returns (no exception,
   whatever the Text cells contain) and the doc actions it hands to tdset.apply_doc_actions apply.

   json.loads is the oracle `parse` (for every text: an arbitrary JSON value, or failure); json.dumps the
   oracles `dumps` / `dumps_compact` (any functions); int(x / 1000) the oracle `secs` (returns, or raises
   ValueError / OverflowError).  J s: every table of the tdset has a schema entry and columns at least as long
   as its row list.  col_ok P t c s: every record of table t has field c with a value satisfying P
   (is_text: a string; hashable: not a list/dict; strable: not a float/list/dict; any_val: present).
   Statements only; proofs are in Proofs/MigrateBodies_proofs.v. *)
From Coq Require Import ZArith Bool String List.
Import ListNotations.
Require Import Grist.Model.Migrate Grist.Model.MigrateSites Grist.Model.MigrateBodies.
Require Import Grist.Proofs.MigrateBodies_proofs Grist.Proofs.MigrateBodies2_proofs Grist.Proofs.MigrateBodies3_proofs
               Grist.Proofs.MigrateBodies4_proofs Grist.Proofs.MigrateBodies5_proofs.
Open Scope Z_scope.

Definition migrates (body : tds -> res (list action)) (s : tds) : Prop :=
  exists acts s', body s = Ok acts /\ tds_apply_all acts s = Ok s' /\ J s'.

Theorem C25_m15_total : forall parse dumps s,
  J s -> has_table T_SECTIONS s -> has_table T_FIELDS s ->
  col_ok is_text T_SECTIONS (zs "filterSpec") s ->
  col_ok hashable T_FIELDS (zs "parentId") s -> col_ok strable T_FIELDS (zs "colRef") s ->
  migrates (m15 parse dumps) s.
Proof. exact m15_total. Qed.

Theorem C25_m16_total : forall parse dumps_compact s,
  J s -> has_table T_TABLES s -> has_table T_COLUMNS s -> has_table T_FIELDS s ->
  col_ok hashable T_TABLES (zs "tableId") s ->
  col_ok hashable T_COLUMNS (zs "parentId") s -> col_ok hashable T_COLUMNS (zs "colId") s ->
  col_ok is_text T_COLUMNS (zs "type") s -> col_ok any_val T_COLUMNS (zs "widgetOptions") s ->
  col_ok hashable T_FIELDS (zs "colRef") s -> col_ok any_val T_FIELDS (zs "widgetOptions") s ->
  migrates (m16 parse dumps_compact) s.
Proof. exact m16_total. Qed.

(* m29_col_pre parse r: rules and widgetOptions are empty values or strings, parentId is present, and a rules
   cell that parses to a list holds scalars (what a RefList cell holds) *)
Theorem C25_m29_total : forall parse dumps s,
  J s -> has_table T_TABLES s -> has_table T_COLUMNS s ->
  Forall (m29_col_pre parse) (recs T_COLUMNS s) ->
  migrates (m29 parse dumps) s.
Proof. exact m29_total. Qed.

Theorem C25_m34_total : forall parse s,
  J s -> has_table T_TABLES s -> has_table T_SECTIONS s -> has_table T_FILTERS s ->
  col_ok hashable T_TABLES (zs "rawViewSectionRef") s ->
  col_ok is_text T_SECTIONS (zs "options") s ->
  col_ok hashable T_FILTERS (zs "viewSectionRef") s ->
  migrates (m34 parse) s.
Proof. exact m34_total. Qed.

Theorem C25_m35_total : forall parse s,
  J s -> has_table T_ACLRULES s -> col_ok is_text T_ACLRULES (zs "aclFormulaParsed") s ->
  migrates (m35 parse) s.
Proof. exact m35_total. Qed.

Theorem C25_m45_total : forall parse dumps secs,
  (forall n, (exists z, secs n = Ok z) \/ secs n = Err ValueErr \/ secs n = Err OverflowErr) ->
  forall s, J s -> has_table T_CELLS s -> col_ok is_text T_CELLS (zs "content") s ->
  migrates (m45 parse dumps secs) s.
Proof. exact m45_total. Qed.

(* The same six theorems from the DECIDABLE form of their hypotheses (Model/MigrateBodies.v pre15 .. pre45), which
   the harness evaluates on every generated document just before the real migration runs on it: the generated
   "type-correct" documents are inside the theorems' premises. *)
Theorem C25_json_migrations_total : forall parse dumps dumps_compact secs,
  (forall n, (exists z, secs n = Ok z) \/ secs n = Err ValueErr \/ secs n = Err OverflowErr) ->
  forall s,
  (pre15 s = true -> migrates (m15 parse dumps) s) /\
  (pre16 s = true -> migrates (m16 parse dumps_compact) s) /\
  (pre29 parse s = true -> migrates (m29 parse dumps) s) /\
  (pre34 s = true -> migrates (m34 parse) s) /\
  (pre35 s = true -> migrates (m35 parse) s) /\
  (pre45 s = true -> migrates (m45 parse dumps secs) s).
Proof.
  intros parse dumps dc secs Hs s. repeat split; intro H.
  - exact (pre15_sound parse dumps s H).
  - exact (pre16_sound parse dc s H).
  - exact (pre29_sound parse dumps s H).
  - exact (pre34_sound parse s H).
  - exact (pre35_sound parse s H).
  - exact (pre45_sound parse dumps secs Hs s H).
Qed.

(* Migration 10 (display columns; body as repaired by dd62aa0: the picked id is the one used).  pick_col is
   identifiers.pick_col_ident('gristHelper_Display', avoid=...) as an arbitrary function (its own properties are
   C21's subject), str_of_json formats a non-string visibleCol.  pre10: every _grist_Tables record names an
   existing user table, the column row ids are ints, every column record has a string type, a displayCol, a
   printable colId and a parentId naming a table record, and every column of _grist_Tables_column has a typed
   schema entry (AddRecord defaults the cells it does not give). *)
Theorem C25_m10_total : forall parse pick_col str_of_json s,
  pre10 s = true -> migrates (m10 parse pick_col str_of_json) s.
Proof. exact m10_total. Qed.

(* ---- non-vacuity: a small version-33 document through migration 34, and a version-44 one through 45 ---- *)
Definition ex_oracle : list (str * option json) :=
  [(zs "[1,2]", Some (JArr [JNum (JInt 1); JNum (JInt 2)]));
   (zs "{""filterBar"":true}", Some (JObj [(zs "filterBar", JBool true)]));
   (zs "junk", None);
   (zs "{""text"":""t"",""timeCreated"":1700000000500}",
    Some (JObj [(zs "text", JStr (zs "t")); (zs "timeCreated", JNum (JInt 1700000000500))]))].

Definition ex34 : tds := mkTds
  [(T_TABLES, ([Some 1], [(zs "rawViewSectionRef", [VInt 3])]));
   (T_SECTIONS, ([Some 1; Some 2; Some 3], [(zs "options", [VStr (zs "[1,2]"); VStr (zs "{""filterBar"":true}"); VStr (zs "junk")])]));
   (T_FILTERS, ([Some 1; Some 2; Some 3; Some 4], [(zs "viewSectionRef", [VInt 1; VInt 2; VInt 3; VInt 9])]))]
  [(T_TABLES, []); (T_SECTIONS, []); (T_FILTERS, [])].

Example C25_m34_example :
  m34 (tbl_parse ex_oracle) ex34 =
    Ok [add_column T_FILTERS (zs "pinned") (zs "Bool");
        BulkUpdateRecord T_FILTERS [Some 1; Some 2; Some 3; Some 4]
          [(zs "pinned", [VBool false; VBool true; VBool true; VBool false])]] /\
  migrates (m34 (tbl_parse ex_oracle)) ex34.
Proof.
  split; [vm_compute; reflexivity|].
  apply pre34_sound. vm_compute. reflexivity.
Qed.

Example C25_m34_example_premise : pre34 ex34 = true.
Proof. vm_compute. reflexivity. Qed.

(* ---- Migrations whose body is `return tdset.apply_doc_actions([<constants>])`: the literal lists are
        translated from migrations.py into GristGen.MigrateConst_gen.const_bodies on every run (fail closed: a
        migration that used to translate and no longer does breaks the tie).  Such a body cannot raise; what it
        emits applies to every document that has the tables (const_needs) and records (const_row_needs) the
        list names, for lists made of AddColumn / RemoveColumn / AddTable / UpdateRecord (const_ok). ---- *)
Require Import GristGen.MigrateConst_gen.

Theorem C25_const_migration_total : forall acts s,
  const_ok [] acts = true -> J s ->
  (forall t, In t (const_needs [] acts) -> has_table t s) ->
  (forall t r, In (t, r) (const_row_needs acts) -> In r (rows_of t s)) ->
  migrates (fun _ => Ok acts) s.
Proof. exact const_migration_total. Qed.

Definition proved_const : list (Z * list action) := filter (fun p => const_ok [] (snd p)) const_bodies.

Theorem C25_translated_migrations_total : forall v acts s,
  In (v, acts) proved_const -> J s ->
  (forall t, In t (const_needs [] acts) -> has_table t s) ->
  (forall t r, In (t, r) (const_row_needs acts) -> In r (rows_of t s)) ->
  migrates (fun _ => Ok acts) s.
Proof.
  intros v acts s Hin. unfold proved_const in Hin. apply filter_In in Hin. destruct Hin as [_ Hok].
  apply C25_const_migration_total. exact Hok.
Qed.

(* which migrations that covers on the current source (more is fine, fewer breaks this proof) *)
Example C25_translated_migrations_covered :
  forallb (fun v => existsb (Z.eqb v) (map fst proved_const))
          [5; 6; 8; 9; 11; 12; 13; 18; 19; 21; 22; 23; 24; 27; 32; 33; 36; 37; 38; 41; 42; 43; 44; 46] = true /\
  existsb (Z.eqb 14) (map fst const_bodies) = true.
Proof. split; vm_compute; reflexivity. Qed.

(* e.g. migration 18 needs _grist_DocInfo and its record 1; migration 24 needs nothing *)
Example C25_translated_needs_example :
  (forall acts, In (18, acts) const_bodies ->
     const_needs [] acts = [zs "_grist_DocInfo"; zs "_grist_DocInfo"] /\
     const_row_needs acts = [(zs "_grist_DocInfo", Some 1)]) /\
  (forall acts, In (24, acts) const_bodies -> const_needs [] acts = [] /\ const_row_needs acts = []).
Proof.
  split; intros acts H; vm_compute in H;
    repeat (destruct H as [H|H]; [try discriminate H; try (injection H as <-; split; vm_compute; reflexivity)|]);
    contradiction.
Qed.

(* regression for the repaired migration 10: two reference columns of one table get the two ids the picker
   returns (before dd62aa0 both were added as 'gristHelper_Display', the second replacing the first) *)
Definition ex10 : tds := mkTds
  [(T_TABLES, ([Some 1], [(zs "tableId", [VStr (zs "T")])]));
   (T_COLUMNS, ([Some 1; Some 2],
      [(zs "parentId", [VInt 1; VInt 1]); (zs "colId", [VStr (zs "A"); VStr (zs "B")]);
       (zs "type", [VStr (zs "Ref:T"); VStr (zs "Ref:T")]); (zs "displayCol", [VInt 0; VInt 0]);
       (zs "widgetOptions", [VStr (zs "wa"); VStr (zs "wb")])]));
   (zs "T", ([], [(zs "A", []); (zs "B", [])]))]
  [(T_TABLES, [(zs "tableId", mkci (zs "tableId") (zs "Text") false [])]);
   (T_COLUMNS, [(zs "parentId", mkci (zs "parentId") (zs "Ref:_grist_Tables") false []);
                (zs "colId", mkci (zs "colId") (zs "Text") false []); (zs "type", mkci (zs "type") (zs "Text") false []);
                (zs "displayCol", mkci (zs "displayCol") (zs "Ref:_grist_Tables_column") false []);
                (zs "widgetOptions", mkci (zs "widgetOptions") (zs "Text") false [])]);
   (zs "T", [(zs "A", mkci (zs "A") (zs "Ref:T") false []); (zs "B", mkci (zs "B") (zs "Ref:T") false [])])].
Definition ex10_parse : list (str * option json) :=
  [(zs "wa", Some (JObj [(zs "visibleCol", JStr (zs "B"))])); (zs "wb", Some (JObj [(zs "visibleCol", JStr (zs "A"))]))].
Definition ex10_pick : list (list str * str) :=
  [([zs "A"; zs "B"], zs "gristHelper_Display"); ([zs "A"; zs "B"; zs "gristHelper_Display"], zs "gristHelper_Display2")].

Example C25_m10_example :
  pre10 ex10 = true /\
  match m10 (tbl_parse ex10_parse) (tbl_pick ex10_pick) (fun _ => []) ex10 with
  | Ok acts => map (fun a => match a with AddColumn t c _ => c | _ => [] end)
                   (filter (fun a => match a with AddColumn _ _ _ => true | _ => false end) acts)
               = [zs "gristHelper_Display"; zs "gristHelper_Display2"]
  | Err _ => False
  end.
Proof. split; vm_compute; reflexivity. Qed.

(* ---- Migration 7 (old-style summary tables).  summary_match is summary_re.match on a table name (None, or
        groups 1 and 2), pick_table is identifiers.pick_table_ident: arbitrary functions.  Proved: the BODY returns
        (computes its doc actions without raising) under pre7, whose table clause says that when a table name
        matches and group 1 is an existing table, the column refs in group 2 parse and name column records -- the
        hypothesis that excludes names like Summary_Foo.  That the emitted RemoveColumn / RenameTable /
        ModifyColumn / BulkRemoveRecord actions then apply is NOT proved (covered by the differential tie only).
        Without the hypothesis the body raises: the known finding, kept as a theorem about the model. ---- *)
Theorem C25_m7_body_total : forall summary_match pick_table s,
  pre7 summary_match s = true -> exists acts, m7 summary_match pick_table s = Ok acts.
Proof. exact m7_body_total. Qed.

Definition ex7 : tds := mkTds
  [(T_TABLES, ([Some 1; Some 2], [(zs "tableId", [VStr (zs "Foo"); VStr (zs "Summary_Foo")])]));
   (T_COLUMNS, ([Some 1; Some 2],
      [(zs "parentId", [VInt 1; VInt 2]); (zs "colId", [VStr (zs "A"); VStr (zs "B")]);
       (zs "formula", [VStr []; VStr []]); (zs "isFormula", [VBool false; VBool false])]))]
  [].
(* what the regular expression of migration 7 answers on these two names *)
Definition ex7_match (name : str) : option (str * str) :=
  if seqb name (zs "Summary_Foo") then Some (zs "Foo", []) else None.

Theorem C25_m7_refuted :
  m7 ex7_match (fun n _ => n) ex7 = Err ValueErr /\
  (* ... although the document is otherwise inside pre7: only the refs clause of table 2 fails *)
  has_table_b T_TABLES ex7 = true /\ has_table_b T_COLUMNS ex7 = true /\
  forallb (col_pre7 ex7) (recs T_COLUMNS ex7) = true /\
  map (table_pre7 ex7_match ex7) (recs T_TABLES ex7) = [true; false] /\
  parse_refs [] = Err ValueErr.
Proof. repeat split; vm_compute; reflexivity. Qed.

(* with refs in the name the same document migrates (body): Summary_Foo_1 groups by column 1 *)
Example C25_m7_example :
  let s := mkTds
    [(T_TABLES, ([Some 1; Some 2], [(zs "tableId", [VStr (zs "Foo"); VStr (zs "Summary_Foo_1")])]));
     (T_COLUMNS, ([Some 1; Some 2],
        [(zs "parentId", [VInt 1; VInt 2]); (zs "colId", [VStr (zs "A"); VStr (zs "A")]);
         (zs "formula", [VStr []; VStr []]); (zs "isFormula", [VBool false; VBool false])]))] [] in
  let sm := fun name => if seqb name (zs "Summary_Foo_1") then Some (zs "Foo", zs "_1") else None in
  pre7 sm s = true /\
  match m7 sm (fun n _ => n) s with
  | Ok acts => existsb (fun a => match a with RenameTable o n => seqb o (zs "Summary_Foo_1") && seqb n (zs "Foo_summary_A") | _ => false end) acts = true
  | Err _ => False
  end.
Proof. split; vm_compute; reflexivity. Qed.

(* ---- Migrations 4 (tabPos = row id) and 39 (the two version-38 schemas): need only their tables. ---- *)
Theorem C25_m4_total : forall s, pre4 s = true -> migrates m4 s.
Proof. exact m4_total. Qed.

Theorem C25_m39_total : forall s, pre39 s = true -> migrates m39 s.
Proof. exact m39_total. Qed.

Example C25_m39_example :
  let s := mkTds [(T_TRIGGERS, ([Some 1; Some 2], [(zs "actions", [VStr []; VStr []])]));
                  (T_SECTIONS, ([], [(zs "description", [])]))]
                 [(T_TRIGGERS, []); (T_SECTIONS, [])] in
  pre39 s = true /\
  m39 s = Ok [add_column T_TRIGGERS (zs "memo") (zs "Text"); add_column T_TRIGGERS (zs "label") (zs "Text");
              add_column T_TRIGGERS (zs "enabled") (zs "Bool");
              BulkUpdateRecord T_TRIGGERS [Some 1; Some 2] [(zs "enabled", [VBool true; VBool true])]].
Proof. split; vm_compute; reflexivity. Qed.

(* ======== from C25_bodies2.v ======== *)

(* 25: _grist_Filters from the fields' filters.  pre25: the fields have filter, colRef and parentId cells. *)
Theorem C25_m25_total : forall s, pre25 s = true -> migrates m25 s.
Proof. exact pre25_sound. Qed.

(* 26 / 30 / 40: a raw (record-card) view section per table.  pre_sec_common: string tableIds; every column
   record has a parentId, a string colId and a parentPos that is a number (not nan); the section row ids are
   ints; _grist_Views_section and _grist_Views_section_field have typed schemas (AddRecord / BulkAddRecord
   default the cells they do not give).  26 also needs hashable primaryViewId cells and named views; 30 and 40
   the summarySourceTable (and rawViewSectionRef) cells. *)
Theorem C25_m26_total : forall s, pre26 s = true -> migrates m26 s.
Proof. exact pre26_sound. Qed.
Theorem C25_m30_total : forall s, pre30 s = true -> migrates m30 s.
Proof. exact pre30_sound. Qed.
Theorem C25_m40_total : forall s, pre40 s = true -> migrates m40 s.
Proof. exact pre40_sound. Qed.

(* 28: ModifyColumn on the Attachments columns.  pre28: for every column record of type Attachments the table it
   belongs to has that column in its schema (metadata consistent with the user tables). *)
Theorem C25_m28_total : forall s, pre28 s = true -> migrates m28 s.
Proof. exact pre28_sound. Qed.

(* non-vacuity: a version-29 document with one summary table through migration 30 *)
Example C25_m30_example :
  let mk := fun c t => (c, mkci c t false []) in
  let s := mkTds
    [(T_TABLES, ([Some 1; Some 2], [(zs "tableId", [VStr (zs "T"); VStr (zs "T_summary")]); (zs "summarySourceTable", [VInt 0; VInt 1]);
                                    (zs "rawViewSectionRef", [VInt 0; VInt 0])]));
     (T_COLUMNS, ([Some 1; Some 2; Some 3],
        [(zs "parentId", [VInt 1; VInt 2; VInt 2]); (zs "colId", [VStr (zs "A"); VStr (zs "count"); VStr (zs "A")]);
         (zs "parentPos", [VFlt 4607182418800017408; VInt 3; VFlt 4611686018427387904])]));
     (T_SECTIONS, ([Some 4], [(zs "tableRef", [VInt 1]); (zs "parentId", [VInt 0]); (zs "parentKey", [VStr []]); (zs "title", [VStr []]);
                              (zs "defaultWidth", [VInt 0]); (zs "borderWidth", [VInt 0])]));
     (T_FIELDS, ([], [(zs "parentId", []); (zs "colRef", []); (zs "parentPos", []); (zs "width", [])]))]
    [(T_TABLES, []); (T_COLUMNS, []);
     (T_SECTIONS, [mk (zs "tableRef") (zs "Ref:_grist_Tables"); mk (zs "parentId") (zs "Ref:_grist_Views"); mk (zs "parentKey") (zs "Text");
                   mk (zs "title") (zs "Text"); mk (zs "defaultWidth") (zs "Int"); mk (zs "borderWidth") (zs "Int")]);
     (T_FIELDS, [mk (zs "parentId") (zs "Ref:_grist_Views_section"); mk (zs "colRef") (zs "Ref:_grist_Tables_column");
                 mk (zs "parentPos") (zs "PositionNumber"); mk (zs "width") (zs "Int")])] in
  pre30 s = true /\
  match m30 s with
  | Ok [AddRecord _ (Some 5) _; UpdateRecord _ (Some 2) _; BulkAddRecord _ [None; None] cols] =>
      lookup (zs "colRef") cols = Some [VInt 3; VInt 2]        (* sorted by parentPos: 2.0 < 3 *)
  | _ => False
  end.
Proof. split; vm_compute; reflexivity. Qed.

(* ======== from C25_bodies3.v ======== *)

(* 3: Derived -> Any and the rewritten lookupOrAddDerived formulas (re.sub is the oracle re_sub, any function).
   pre3: every column has a type and an empty-or-string formula; a column of type Derived, or with a formula,
   names a table record with a string tableId, has a string colId, and that table's schema has the column. *)
Theorem C25_m3_total : forall re_sub s, pre3 s = true -> migrates (m3 re_sub) s.
Proof. exact pre3_sound. Qed.

(* 17: Image -> Attachments, cells converted.  pre17: as pre3 for the Image columns, which also have an isFormula
   cell and, when not formulas, a data column in their user table. *)
Theorem C25_m17_total : forall s, pre17 s = true -> migrates m17 s.
Proof. exact pre17_sound. Qed.

(* 20: _grist_Pages.  pre20: string tableIds, hashable tableRef / viewRef cells in _grist_TableViews, views with
   string names and int ids. *)
Theorem C25_m20_total : forall s, pre20 s = true -> migrates m20 s.
Proof. exact pre20_sound. Qed.

(* Constant bodies that also add records to the tables they create (const_ok2): migration 14 (ACL tables). *)
Theorem C25_const2_migration_total : forall acts s,
  const_ok2 [] acts = true -> J s ->
  (forall t, In t (const_needs [] acts) -> has_table t s) ->
  (forall t r, In (t, r) (const_row_needs acts) -> In r (rows_of t s)) ->
  migrates (fun _ => Ok acts) s.
Proof. exact const2_migration_total. Qed.

Theorem C25_m14_total : forall acts s, In (14, acts) const_bodies -> J s -> migrates (fun _ => Ok acts) s.
Proof.
  intros acts s Hin HJ.
  assert (Hok : const_ok2 [] acts = true /\ const_needs [] acts = [] /\ const_row_needs acts = []).
  { vm_compute in Hin. repeat (destruct Hin as [Hin|Hin]; [try discriminate Hin; try (injection Hin as <-; repeat split; vm_compute; reflexivity)|]).
    contradiction. }
  destruct Hok as [Hok [Hn Hr]]. apply C25_const2_migration_total; [exact Hok|exact HJ| |].
  - rewrite Hn. intros t [].
  - rewrite Hr. intros t r [].
Qed.

(* non-vacuity: migration 17 on a table with one Image column *)
Example C25_m17_example :
  let s := mkTds
    [(T_TABLES, ([Some 1], [(zs "tableId", [VStr (zs "T")])]));
     (T_COLUMNS, ([Some 7], [(zs "parentId", [VInt 1]); (zs "colId", [VStr (zs "Pic")]); (zs "type", [VStr (zs "Image")]);
                            (zs "isFormula", [VBool false])]));
     (zs "T", ([Some 1; Some 2; Some 3], [(zs "Pic", [VInt 5; VNull; VInt 0])]))]
    [(T_TABLES, []); (T_COLUMNS, []); (zs "T", [(zs "Pic", mkci (zs "Pic") (zs "Image") false [])])] in
  pre17 s = true /\
  m17 s = Ok [ModifyColumn (zs "T") (zs "Pic") [(zs "type", VStr (zs "Attachments"))];
              BulkUpdateRecord T_COLUMNS [Some 7] [(zs "type", [VStr (zs "Attachments")])];
              BulkUpdateRecord (zs "T") [Some 1; Some 2; Some 3] [(zs "Pic", [VList [VInt 5]; VList []; VList []])]].
Proof. split; vm_compute; reflexivity. Qed.

(* ======== from C25_bodies4.v ======== *)

(* 1: Attachments / TabItems created when missing, schemaVersion added when missing, TabItems rewritten from the
   sorted set of (tableRef, parentId) of the sections.  pre1: _grist_DocInfo exists, the sections' tableRef /
   parentId cells are hashable numbers, an already existing _grist_TabItems has a typed schema. *)
Theorem C25_m1_total : forall s, pre1 s = true -> migrates m1 s.
Proof. exact pre1_sound. Qed.

(* 2: TabBar, TableViews, primaryViewId.  pre2: the sections' tableRef / parentId cells are hashable numbers, they
   have a parentKey, and the tableRef of a 'record' section is the id of a _grist_Tables record (a section
   without a table is the documented robustness case, not covered). *)
Theorem C25_m2_total : forall s, pre2 s = true -> migrates m2 s.
Proof. exact pre2_sound. Qed.

Example C25_m2_example :
  let s := mkTds
    [(T_SECTIONS, ([Some 1; Some 2; Some 3],
        [(zs "tableRef", [VInt 2; VInt 1; VInt 2]); (zs "parentId", [VInt 7; VInt 5; VInt 6]);
         (zs "parentKey", [VStr (zs "record"); VStr (zs "record"); VStr (zs "detail")])]));
     (T_TABLES, ([Some 1; Some 2], [(zs "tableId", [VStr (zs "A"); VStr (zs "B")])]))]
    [(T_SECTIONS, []); (T_TABLES, [])] in
  pre2 s = true /\
  match m2 s with
  | Ok [_; _; _; BulkUpdateRecord _ ids cols; ReplaceTableData _ _ bar; ReplaceTableData _ _ tv] =>
      ids = [Some 1; Some 2] /\ cols = [(zs "primaryViewId", [VInt 5; VInt 7])] /\
      bar = [(zs "viewRef", [VInt 5; VInt 6; VInt 7])] /\
      tv = [(zs "tableRef", [VInt 2]); (zs "viewRef", [VInt 6])]
  | _ => False
  end.
Proof. split; [vm_compute; reflexivity|]. vm_compute. repeat split; reflexivity. Qed.

(* 31: new-style names for summary tables (pick_table, re_sub: any functions).  Proved: the BODY returns under pre31
   (string tableIds; a non-empty summarySourceTable is hashable and names a table record; columns with a hashable
   parentId, string colId and formula, and a summarySourceCol; ACL resources with a hashable tableId).  That its
   RenameTable actions then apply needs freshness of the picked names (C21's subject) and is NOT proved here. *)
Theorem C25_m31_body_total : forall pick_table re_sub s,
  pre31 s = true -> exists acts, m31 pick_table re_sub s = Ok acts.
Proof. exact m31_body_total. Qed.
