(* C41 -- fetch_table queries return exactly the matching rows.
   `fetch` (Model/FetchQuery.v) is the hand-written model of Engine.fetch_table; it is compared with the real
   engine on generated tables and queries by harness/props/c41.py on every run.  Statements only; proofs are
   in Proofs/FetchQuery_proofs.v. *)
From Coq Require Import ZArith List Bool Sorted.
Import ListNotations.
Require Import Grist.Lib.PyVal Grist.Lib.PyImp Grist.Model.FetchQuery Grist.Model.FetchQueryPy.
Require Import Grist.Proofs.FetchQuery_proofs GristGen.FetchQuery_gen Grist.Proofs.FetchQuery_bridge.
Open Scope Z_scope.

(* For all tables, flags and queries whose columns exist: the result is the declarative filter
   specification (rows = the live ids, ascending, whose stored value in every queried column == one of the
   requested values; columns = those selected by the flags, each read at exactly these rows). *)
Theorem C41_fetch_eq_filter : forall t formulas private q,
  (forall cid, In cid (map fst q) -> get_column t cid <> None) ->
  fetch t formulas private q = Ok (spec_fetch t formulas private q).
Proof. exact fetch_eq_filter. Qed.

(* A query naming a column the table does not have raises KeyError (the model's ErrKeyError), and only then. *)
Theorem C41_missing_column : forall t formulas private q,
  (exists cid, In cid (map fst q) /\ get_column t cid = None) <->
  (exists e, fetch t formulas private q = ErrKeyError e /\ In e (map fst q) /\ get_column t e = None).
Proof. exact fetch_missing_column. Qed.

(* Exactly the matching rows ... *)
Theorem C41_rows_exact : forall t formulas private q r,
  In r (fst (spec_fetch t formulas private q)) <-> live t r /\ matches t q r.
Proof. exact spec_rows_exact. Qed.

(* ... in row id order (strictly ascending, hence no duplicates) ... *)
Theorem C41_rows_ascending : forall t formulas private q,
  StronglySorted Z.lt (fst (spec_fetch t formulas private q)).
Proof. exact spec_rows_ascending. Qed.

(* ... and these two facts determine the row list completely. *)
Theorem C41_rows_unique : forall l m,
  StronglySorted Z.lt l -> StronglySorted Z.lt m -> (forall x, In x l <-> In x m) -> l = m.
Proof. exact sorted_same_members_eq. Qed.

(* Every returned column list is parallel to the row ids: same length, i-th entry = stored value of the
   i-th returned row. *)
Theorem C41_columns_parallel : forall t formulas private q cid l,
  In (cid, l) (snd (spec_fetch t formulas private q)) ->
  let rows := fst (spec_fetch t formulas private q) in
  length l = length rows /\
  exists c, In c (t_cols t) /\ col_selected formulas private c = true /\ col_id c = cid /\
            forall i, (i < length rows)%nat -> nth i l VNone = raw_get c (nth i rows 0).
Proof. exact spec_columns_parallel. Qed.

(* Only the requested kinds of columns, in table order: formula columns only with formulas=True, private
   ones only with private=True, never "id" and never a virtual ('#...') column. *)
Theorem C41_columns_selected : forall t formulas private q,
  map fst (snd (spec_fetch t formulas private q)) =
  map col_id (filter (col_selected formulas private) (t_cols t)).
Proof. exact spec_columns_selected. Qed.

Theorem C41_col_selected_meaning : forall formulas private c,
  col_selected formulas private c = true <->
  (formulas = true \/ col_is_formula c = false) /\ (private = true \/ col_is_private c = false) /\
  col_id c <> id_str /\ (forall s, col_id c <> 35 :: s).
Proof. exact col_selected_spec. Qed.

(* Unhashable values handled: whichever branch the code takes (values turned into a set, or left as a list
   because one of them is unhashable; cell hashable or the TypeError caught), a row passes a queried column
   exactly when its cell == one of the requested values. *)
Theorem C41_unhashable_handled : forall x vals,
  truth (cell_in x (prep_values vals)) = py_in x vals.
Proof. exact cell_in_prep. Qed.

(* The tie to the source.  GristGen.FetchQuery_gen.fetch_table is Engine.fetch_table as translated from
   /repo/sandbox/grist/engine.py by harness/imp2v.py on every run (statement by statement: the query loop with
   set()/except TypeError, the row loop with its for/break/else and the caught TypeError, the column loop with the
   flags).  It equals the hand model for all tables and queries; the hypothesis is that column ids are distinct
   (all_columns is a dict keyed by column id; the code stores the result in a dict keyed by it). *)
Theorem C41_source_bridge : forall tables table_id formulas private q,
  NoDup (map col_id (t_cols (tables table_id))) ->
  fetch_table tables table_id formulas private (query_in q) = lift (fetch (tables table_id) formulas private q).
Proof. exact fetch_table_bridge. Qed.

(* ... hence the translated source itself returns the declarative filter *)
Theorem C41_source_fetch_eq_filter : forall tables table_id formulas private q,
  NoDup (map col_id (t_cols (tables table_id))) ->
  (forall cid, In cid (map fst q) -> get_column (tables table_id) cid <> None) ->
  fetch_table tables table_id formulas private (query_in q) = Val (spec_fetch (tables table_id) formulas private q).
Proof.
  intros tables table_id f p q Hnd Hc. rewrite (fetch_table_bridge _ _ _ _ _ Hnd), (fetch_eq_filter _ _ _ _ Hc).
  reflexivity.
Qed.

(* Non-vacuity: a table with rows 1,2,4 (row 3 removed), a data column A = [1.0, [a], True] and a formula
   column F; the query A in {1} takes the set branch (and must skip the unhashable cell [a]), the query
   A in {[a], 1} takes the list branch. *)
Example C41_nonvacuous :
  let a := VStr [97] in
  let colA := mkCol [65] false false [VNone; VFloat 2; VList [a]; VNone; VBool true] VNone in
  let colF := mkCol [70] true false [VNone; VInt 7; VInt 8; VNone; VInt 9] VNone in
  let colI := mkCol id_str false false [VInt 0; VInt 1; VInt 2; VInt 0; VInt 4] (VInt 0) in
  let t := mkTable [0; 1; 2; 0; 4] [colI; colA; colF] in
  fetch t true false [([65], [VInt 1])] = Ok ([1; 4], [([65], [VFloat 2; VBool true]); ([70], [VInt 7; VInt 9])]) /\
  fetch t false false [([65], [VList [a]; VInt 1])] = Ok ([1; 2; 4], [([65], [VFloat 2; VList [a]; VBool true])]) /\
  fetch t true false [([65], [])] = Ok ([], [([65], []); ([70], [])]) /\
  fetch t true false [([90], [VInt 1])] = ErrKeyError [90] /\
  prep_values [VInt 1] = QSet [VInt 1] /\ prep_values [VList [a]; VInt 1] = QList [VList [a]; VInt 1] /\
  cell_in (VList [a]) (QSet [VInt 1]) = None /\
  NoDup (map col_id (t_cols t)) /\
  fetch_table (fun _ => t) [84] true false (query_in [([65], [VInt 1])]) =
  Val ([1; 4], [([65], [VFloat 2; VBool true]); ([70], [VInt 7; VInt 9])]).
Proof.
  cbv zeta. repeat split; try (vm_compute; reflexivity).
  repeat constructor; cbn; intuition discriminate.
Qed.
