(* C11, code level.  gen_* are coq/gen/K4_gen.v (regenerated on every run by harness/k4tr.py from column.py and
   relation.py) and coq/gen/RevAdj_gen.v (harness/k4gen.py, from reverse_references.py).  Bridging obligations, then the
   property theorems restated about the generated functions.  Statements only. *)
From Coq Require Import ZArith List Bool Arith.
Import ListNotations.
Require Import Grist.Model.RefIndex Grist.Model.K4Support Grist.Model.TwoWay GristGen.K4_gen GristGen.RevAdj_gen
               Grist.Proofs.RefIndex_proofs Grist.Proofs.TwoWay_proofs Grist.Proofs.TwoWay_more Grist.Proofs.TwoWay_gen
               Grist.Proofs.K4_bridge Grist.Proofs.K4_code Grist.Proofs.K4_dedup.

(* ---- bridging obligations ------------------------------------------------------------------------------------ *)
Theorem code_get_reverse_adjustments : forall r o n it rel,
  get_reverse_adjustments r o n it rel = get_reverse_adjustments_ref r o n it rel.
Proof. exact gra_ext. Qed.

Theorem code_list_to_value : forall k l, gen_list_to_value k l = list_to_value k l.
Proof. exact gen_list_to_value_eq. Qed.

Theorem code_recalc_from_reverse_values : forall c kb rows_b,
  gen_recalc_adjustments c kb rows_b =
  mapM (fun t => bind (list_to_value kb (get_affected_rows [Z.of_nat t] (rc_inv c))) (fun v => Ok (t, v))) rows_b.
Proof. exact gen_recalc_adjustments_eq. Qed.

(* get_reverse_adjustments and recalc_from_reverse_values read the reverse index through get_affected_rows, which
   must hand out a NEW set (get_reverse_adjustments edits it in place) *)
Theorem code_get_affected_rows_is_fresh : forall m t,
  gen_get_affected_rows m (Rows [t]) = ARSet (Fresh (get_affected_rows [t] m)).
Proof. intros. apply gen_get_affected_rows_rows. Qed.

(* the model of AddReverseColumn / of the rebuild after a Ref<->RefList switch IS the generated
   recalc_from_reverse_values followed by the (pinned) doc action on the reverse column *)
Theorem code_recalc_in_model : forall hack s,
  recalc_from_a hack s =
  bind (gen_recalc_adjustments (p_a s) (rc_kind (p_b s)) (p_rows_b s))
       (fun adj => bind (apply_adjustments hack (p_rows_b s) (p_b s) (map (fun tv => (Z.of_nat (fst tv), snd tv)) adj))
                        (fun b' => Ok {| p_a := p_a s; p_b := b'; p_rows_a := p_rows_a s; p_rows_b := p_rows_b s |})).
Proof. exact recalc_from_a_code. Qed.

(* the de-duplication block of doBulkUpdateRecord keeps, in order, the LAST occurrence of every row id, in the row ids
   and in every column's values *)
Theorem code_dedup : forall rows (vals : list cell), length vals = length rows ->
  gen_dedup rows vals = (select (keep_last rows) rows, select (keep_last rows) vals).
Proof. exact gen_dedup_eq. Qed.

(* ---- the property, about the generated functions ------------------------------------------------------------ *)
(* the single-valued side: the generated _list_to_value of a Ref raises UNIQUE exactly for two or more referrers, and
   nothing else is ever raised by it *)
Theorem C11_code_unique : forall l, gen_list_to_value KRef l = Err EUnique <-> 2 <= length l.
Proof. exact gen_list_to_value_unique. Qed.

Theorem C11_code_only_unique : forall k l e, gen_list_to_value k l = Err e -> e = EUnique /\ k = KRef.
Proof. exact gen_list_to_value_never_other. Qed.

(* rebuild (AddReverseColumn, type switch) through the generated recalc_from_reverse_values makes the pair symmetric *)
Theorem C11_code_rebuild : forall hack s s',
  inv_ok (p_a s) -> inv_ok (p_b s) -> rows_ok (p_rows_a s) -> rows_ok (p_rows_b s) -> NoDup (p_rows_b s) ->
  closed (p_a s) (p_rows_a s) (p_rows_b s) ->
  (forall y, ~ In y (p_rows_b s) -> refs (p_b s) y = []) ->
  bind (gen_recalc_adjustments (p_a s) (rc_kind (p_b s)) (p_rows_b s))
       (fun adj => bind (apply_adjustments hack (p_rows_b s) (p_b s) (map (fun tv => (Z.of_nat (fst tv), snd tv)) adj))
                        (fun b' => Ok {| p_a := p_a s; p_b := b'; p_rows_a := p_rows_a s; p_rows_b := p_rows_b s |}))
    = Ok s' ->
  pair_ok s' /\ sym s'.
Proof.
  intros hack s s' H1 H2 H3 H4 H5 H6 H7 H. rewrite <- recalc_from_a_code in H.
  destruct (recalc_sym hack s s' H1 H2 H3 H4 H5 H6 H7 H) as [A [B _]]. split; assumption.
Qed.

(* a user-level update of column A -- the generated de-duplication, then the pipeline with the generated
   get_reverse_adjustments -- keeps the pair symmetric, for ANY row id list *)
Theorem C11_code_symmetric_step : forall hack s rows vals s',
  pair_ok s -> sym s -> length vals = length rows ->
  update_a hack get_reverse_adjustments s (fst (gen_dedup rows vals)) (snd (gen_dedup rows vals)) = Ok s' ->
  pair_ok s' /\ sym s'.
Proof.
  intros hack s rows vals s' Hok Hsym Hlen H. rewrite (gen_dedup_eq rows vals Hlen) in H. cbn [fst snd] in H.
  change get_reverse_adjustments with gra in H. rewrite update_a_gra in H.
  exact (user_update_a_sym hack s rows vals s' Hok Hsym Hlen H).
Qed.

Example C11_code_dedup_example :
  gen_dedup [2; 1; 2; 3; 1] [CInt 10; CInt 11; CInt 12; CInt 13; CInt 14] = ([2; 3; 1], [CInt 12; CInt 13; CInt 14]).
Proof. vm_compute. reflexivity. Qed.

Example C11_code_nonvacuous :
  gen_recalc_adjustments {| rc_kind := KRefList; rc_data := [CNone; CList [1; 2]%Z; CList [2%Z]];
                            rc_inv := [(1%Z, [1]); (2%Z, [1; 2])] |} KRef [1; 2] = Err EUnique /\
  gen_recalc_adjustments {| rc_kind := KRefList; rc_data := [CNone; CList [1; 2]%Z; CList [2%Z]];
                            rc_inv := [(1%Z, [1]); (2%Z, [1; 2])] |} KRefList [1; 2]
    = Ok [(1, CList [1%Z]); (2, CList [1; 2]%Z)].
Proof. split; vm_compute; reflexivity. Qed.
