(* C33 -- JSON import reconstructs the input (imports/import_json.py).
   Model: Model/JsonImport.v (hand-written, compared with the running importer by harness/props/c33.py on every
   run); vocabulary: Model/JsonImportSpec.v.  Statements only; proofs are in Proofs/JsonImport_*_proofs.v and go
   by induction on the JSON value (no bound on depth or width).

   A document is the Python value json.loads returns: dicts are association lists in document order with pairwise
   different keys (wf_json).  `import_ttables incs excs name d` are the tables of
   import_json.dumps(d, name, {'includes': incs, 'excludes': excs}) before _dump_value (reference cells still
   carry their table, CR (table, row id)); `import_json` is the dumped form.  `inc_of incs excs` is
   Tables._is_included. *)
From Coq Require Import ZArith List Bool Arith.
Import ListNotations.
Require Import Grist.Model.JsonImport Grist.Model.JsonImportSpec.
Require Import Grist.Proofs.JsonImport_proofs Grist.Proofs.JsonImport_final_proofs.
Require Import Grist.Proofs.JsonImport_named_proofs.
Require Import Grist.Model.JsonImportPy GristGen.JsonImport_gen Grist.Model.JsonImportCode.
Require Import Grist.Proofs.JsonImport_bridge Grist.Proofs.JsonImport_bridge_walk Grist.Proofs.JsonImport_code_proofs.
Open Scope Z_scope.

Definition inc_of (incs excs : str) : str -> bool := is_included (split_opt incs) (split_opt excs).

(* ---- rectangular: every column of a table (data columns and the parent column) has one entry per row *)
Theorem C33_rectangular : forall incs excs name d t c,
  In t (import_ttables incs excs name d) -> In c (t_columns t) -> length (col_cells c) = t_nrows t.
Proof. exact import_rectangular. Qed.

(* ... and the ids of the columns of a table are pairwise different *)
Theorem C33_column_ids_distinct : forall incs excs name d t,
  In t (import_ttables incs excs name d) -> NoDup (map col_id (t_columns t)).
Proof. exact import_column_ids_distinct. Qed.

(* ---- top_items_are_rows: the main table has exactly one row per top-level item (none when it is filtered
   out), and row i+1 represents item i: `repr` (JsonImportSpec.v) says its scalars are the cells of that row, its
   objects are referenced from that row and its array elements point back to it, recursively. *)
Theorem C33_top_items_are_rows : forall incs excs name d,
  wf_json d ->
  (inc_of incs excs name = true -> tnrows (import_ttables incs excs name d) name = length (top_items d)) /\
  (inc_of incs excs name = false -> tnrows (import_ttables incs excs name d) name = 0%nat) /\
  forall i v, nth_error (top_items d) i = Some v ->
    repr (inc_of incs excs) (import_ttables incs excs name d) v name
         (if inc_of incs excs name then Some (S i) else None).
Proof. exact import_top_items. Qed.

(* every item of the document, at any depth, is represented by a row of the table of its path (or by none when
   that table is filtered out) *)
Theorem C33_every_item_represented : forall incs excs name d,
  wf_json d -> forall v T, item_at d name v T ->
  exists row, repr (inc_of incs excs) (import_ttables incs excs name d) v T row.
Proof. exact import_item_at. Qed.

(* ---- nested_object_referenced: for an object under key k of any item (any depth) at path T, with T and T_k kept:
   the item has a row r in T, the object has a row r' in T_k, and cell (T, k, r) is the reference (T_k, r') *)
Theorem C33_nested_object_referenced : forall incs excs name d v T k o,
  wf_json d -> item_at d name v T -> In (k, JObj o) (fields v) ->
  inc_of incs excs T = true -> inc_of incs excs (sub T k) = true ->
  exists r r',
    repr (inc_of incs excs) (import_ttables incs excs name d) v T (Some r) /\
    repr (inc_of incs excs) (import_ttables incs excs name d) (JObj o) (sub T k) (Some r') /\
    tcell (import_ttables incs excs name d) T k r = Some (CR (sub T k, r')).
Proof. exact import_nested_object. Qed.

(* ---- array_elements_point_back: for an element of an array under key k of any item at path T, with T and T_k
   kept: the element has a row r' in T_k whose parent-column entry is the reference (T, r) to the item's row *)
Theorem C33_array_elements_point_back : forall incs excs name d v T k l e,
  wf_json d -> item_at d name v T -> In (k, JArr l) (fields v) -> In e l ->
  inc_of incs excs T = true -> inc_of incs excs (sub T k) = true ->
  exists r r',
    repr (inc_of incs excs) (import_ttables incs excs name d) v T (Some r) /\
    repr (inc_of incs excs) (import_ttables incs excs name d) e (sub T k) (Some r') /\
    tparent (import_ttables incs excs name d) (sub T k) r' = Some (CR (T, r)).
Proof. exact import_array_element. Qed.

(* the parent column: its id is new among the data columns and is the parent's table name or that name followed
   by a number >= 2 (first_available_key); its type names a table; it holds only references and None *)
Theorem C33_parent_column : forall incs excs name d t c,
  In t (import_ttables incs excs name d) -> t_parent t = Some c ->
  mem_str (col_id c) (map col_id (t_data t)) = false /\
  (exists pt, col_type c = s_RefColon ++ pt /\
              (col_id c = pt \/ exists i, (2 <= i)%nat /\ col_id c = pt ++ dec i)) /\
  forall x, In x (col_cells c) -> x = cnone \/ exists r, x = CR r.
Proof. exact import_parent_column. Qed.

(* ---- scalars_exactly_once: a scalar of an item is the cell of its row ... *)
Theorem C33_scalar_at_its_place : forall incs excs name d v T k s,
  wf_json d -> item_at d name v T -> In (k, JS s) (fields v) ->
  inc_of incs excs T = true -> inc_of incs excs (sub T k) = true ->
  exists r, repr (inc_of incs excs) (import_ttables incs excs name d) v T (Some r) /\
            tcell (import_ttables incs excs name d) T k r = Some (CS s).
Proof. exact import_scalar_at. Qed.

(* ... and the multiset of (table path, key, scalar) of the kept non-null scalars of the document equals the
   multiset of the non-reference, non-None cells of the tables: for every triple the multiplicities agree.
   (doc_scalars_top lists the triples of the document as given; `kept` is the include/exclude filter on the
   row's table and on the property path.) *)
Theorem C33_scalars_exactly_once : forall incs excs name d T k s,
  wf_json d -> s <> SNull ->
  tcount (import_ttables incs excs name d) T k (CS s) =
  count_if (fun t => kept (inc_of incs excs) t && triple_eqb t (T, k, s)) (doc_scalars_top name d).
Proof. exact import_scalars_once. Qed.

(* the rows of every table are exactly the kept items of the document at that path *)
Theorem C33_rows_exactly : forall incs excs name d T,
  tnrows (import_ttables incs excs name d) T =
  count_if (fun T' => inc_of incs excs T' && str_eqb T' T) (doc_items_top name d).
Proof. exact import_rows_exactly. Qed.

(* ================= what the dumped form (the output of dumps) can be read back to ================= *)

Definition sT : str := [84].
Definition sa : str := [97].
Definition sb : str := [98].
Definition sa_b : str := [97; 95; 98].
Definition jint (n : Z) : json := JS (SInt n).

(* [{"a":[1,2]},{"a":[]}]  and  [{"a":[1,2]}] *)
Definition w_rowless : json := JArr [JObj [(sa, JArr [jint 1; jint 2])]; JObj [(sa, JArr [])]].
Definition w_rowless' : json := JArr [JObj [(sa, JArr [jint 1; jint 2])]].
(* [{"a":1},{"a":{"b":2}}] *)
Definition w_mixed : json := JArr [JObj [(sa, jint 1)]; JObj [(sa, JObj [(sb, jint 2)])]].
(* {"a":{"b":[2]},"a_b":[1]} *)
Definition w_collide : json := JObj [(sa, JObj [(sb, JArr [jint 2])]); (sa_b, JArr [jint 1])].

Ltac wf_tac := cbn; repeat split; repeat constructor; cbn; intuition discriminate.

(* Full statement 1: the number of rows of every table can be read off its dumped form. *)
Definition rows_recoverable_statement : Prop :=
  forall incs excs name d t, wf_json d -> In t (import_ttables incs excs name d) ->
    dumped_nrows (dump_ttable t) = Some (t_nrows t).

(* The unchanged importer violates it: a table whose rows have no key is dumped without any column. *)
Theorem C33_refuted_rowless : ~ rows_recoverable_statement.
Proof.
  intros H. specialize (H [] [] sT w_rowless (mk_ttable sT 2 [] None)).
  assert (Hw : wf_json w_rowless) by wf_tac.
  assert (Hin : In (mk_ttable sT 2 [] None) (import_ttables [] [] sT w_rowless)) by (vm_compute; auto).
  specialize (H Hw Hin). vm_compute in H. discriminate.
Qed.

(* two documents with a different number of top-level items and the same output *)
Example C33_rowless_same_output :
  import_json [] [] sT w_rowless = import_json [] [] sT w_rowless' /\
  tnrows (import_ttables [] [] sT w_rowless) sT = 2%nat /\
  tnrows (import_ttables [] [] sT w_rowless') sT = 1%nat.
Proof. vm_compute. repeat split. Qed.

(* Narrowest hypothesis: the table has a column. *)
Theorem C33_rows_recoverable : forall incs excs name d t,
  In t (import_ttables incs excs name d) -> t_columns t <> [] ->
  dumped_nrows (dump_ttable t) = Some (t_nrows t).
Proof.
  intros incs excs name d t Ht Hne. apply dumped_nrows_some; [exact Hne|].
  intros c Hc. eapply import_rectangular; eauto.
Qed.

Example C33_rows_recoverable_nonvacuous :
  exists t, In t (import_ttables [] [] sT w_rowless) /\ t_columns t <> [] /\ t_nrows t = 2%nat.
Proof.
  eexists. split; [vm_compute; right; left; reflexivity|]. split; [vm_compute; discriminate|reflexivity].
Qed.

(* Full statement 2: every cell is described by the type of its column (a reference to table t only in a
   'Ref:t' column, a scalar only in a column that is not a reference column), so that a reader of the output knows
   which integers are row ids and of which table. *)
Definition column_types_statement : Prop :=
  forall incs excs name d t c x, wf_json d -> In t (import_ttables incs excs name d) ->
    In c (t_columns t) -> In x (col_cells c) -> cell_described (col_type c) x = true.

(* The unchanged importer violates it: the type is taken from one cell only (_grist_type of the first row's
   value; of the first parent).  Witness: a key that is a number in one record and an object in the next. *)
Theorem C33_refuted_column_type : ~ column_types_statement.
Proof.
  intros H.
  specialize (H [] [] sT w_mixed
                (mk_ttable sT 2 [mk_tcol sa s_Numeric [CS (SInt 1); CR (sT ++ 95 :: sa, 1%nat)]] None)
                (mk_tcol sa s_Numeric [CS (SInt 1); CR (sT ++ 95 :: sa, 1%nat)]) (CR (sT ++ 95 :: sa, 1%nat))).
  assert (Hw : wf_json w_mixed) by wf_tac.
  assert (Hin : In (mk_ttable sT 2 [mk_tcol sa s_Numeric [CS (SInt 1); CR (sT ++ 95 :: sa, 1%nat)]] None)
                   (import_ttables [] [] sT w_mixed)) by (vm_compute; auto).
  specialize (H Hw Hin (or_introl eq_refl) (or_intror (or_introl eq_refl))). vm_compute in H. discriminate.
Qed.

(* the same defect through colliding table names: rows of T_a_b come from the array "b" of T_a and from the array
   "a_b" of T; the parent column is typed Ref:T_a although its second entry is row 1 of T *)
Example C33_column_type_collision :
  exists t c, In t (import_ttables [] [] sT w_collide) /\ t_parent t = Some c /\
    col_type c = s_RefColon ++ sub sT sa /\ In (CR (sT, 1%nat)) (col_cells c) /\
    cell_described (col_type c) (CR (sT, 1%nat)) = false.
Proof.
  eexists. eexists. split; [vm_compute; right; right; left; reflexivity|].
  split; [reflexivity|]. vm_compute. auto.
Qed.

(* Narrowest hypothesis: the cells of the column are described by its type.  Then the dumped column reads back to
   the typed column exactly (undump, JsonImportSpec.v). *)
Theorem C33_column_readable : forall c,
  (forall x, In x (col_cells c) -> cell_described (col_type c) x = true) ->
  map (undump (snd (fst (dump_col c)))) (snd (dump_col c)) = col_cells c.
Proof. exact column_readable. Qed.

Example C33_column_readable_nonvacuous :
  exists t c, In t (import_ttables [] [] sT w_rowless) /\ t_parent t = Some c /\
    (forall x, In x (col_cells c) -> cell_described (col_type c) x = true) /\
    col_cells c = [CR (sT, 1%nat); CR (sT, 1%nat)].
Proof.
  eexists. eexists. split; [vm_compute; right; left; reflexivity|]. split; [reflexivity|]. split; [|reflexivity].
  intros x Hx. vm_compute in Hx. destruct Hx as [<-|[<-|[]]]; reflexivity.
Qed.

(* ================= the tie to the source: functions regenerated from import_json.py on every run =================
   GristGen.JsonImport_gen is written by harness/ij2v.py from /repo/sandbox/grist/imports/import_json.py each time the
   check runs.  The bridge: every generated function is pointwise the model's function. *)

Theorem C33_bridge_options : forall s, gen_init_includes_opt s = split_opt s /\ gen_init_excludes_opt s = split_opt s.
Proof. intros s. split; [apply bridge_init_includes|apply bridge_init_excludes]. Qed.

Theorem C33_bridge_is_included : forall incs excs path, gen_is_included incs excs path = is_included incs excs path.
Proof. exact bridge_is_included. Qed.

Theorem C33_bridge_first_available_key : forall (V : Type) (dct : list (str * V)) name,
  gen_first_available_key dct name = first_available_key (map fst dct) name.
Proof. exact @bridge_first_available_key. Qed.

Theorem C33_bridge_grist_type : forall c, gen_grist_type c = grist_type c.
Proof. exact bridge_grist_type. Qed.

Theorem C33_bridge_dump_value : forall c, gen_dump_value c = dump_value c.
Proof. exact bridge_dump_value. Qed.

Theorem C33_bridge_transpose : forall rows, map col_of (gen_transpose rows) = transpose rows.
Proof. exact bridge_transpose. Qed.

Theorem C33_bridge_dump_table : forall name rows, gen_dump_table name rows = dumped_triple (dump_rtable (name, rows)).
Proof. exact bridge_dump_table. Qed.

Theorem C33_bridge_dictify : forall v, gen_dictify v = fields v.
Proof. exact bridge_dictify. Qed.

(* Tables.add_row: the generated body, given for its recursive calls anything that agrees with the model on the
   items directly inside v, does to the log and returns what the model does (key sorting included) ... *)
Theorem C33_bridge_add_row_body : forall incs excs rec T v p st,
  (forall c, In c (children v) -> forall T' p' st', rec T' c p' st' = model_rec incs excs T' c p' st') ->
  gen_add_row_body incs excs rec T v p st = model_rec incs excs T v p st.
Proof. exact gen_body_model. Qed.

(* ... hence the generated recursion, with more fuel than the height of the value, is the model *)
Theorem C33_bridge_add_row : forall incs excs fuel v, (jheight v < fuel)%nat ->
  forall T p st, gen_add_row fuel incs excs T v p st = model_rec incs excs T v p st.
Proof. exact gen_add_row_model. Qed.

(* the generated functions composed along dumps()/Tables.dumps() (pinned text) give the model's dumped tables *)
Theorem C33_bridge_import : forall incs excs name d,
  code_import incs excs name d = map dumped_triple (import_ttables incs excs name d).
Proof. exact code_import_model. Qed.

(* ---- C33_rectangular about the generated _dump_table: whatever rows it is given, every column it emits has one
   entry per row, and there is one table_data entry per column_metadata entry *)
Theorem C33_code_rectangular : forall name (rows : list grow),
  let '(meta, data, nm) := gen_dump_table name rows in
  nm = name /\ length meta = length data /\ forall col, In col data -> length col = length rows.
Proof. exact code_rectangular. Qed.

(* ---- C33_array_elements_point_back about the generated pipeline: in the output of the generated functions the
   element's row r' of table T_k has, in the last (parent) column, the row id r of the item's row *)
Theorem C33_code_array_elements_point_back : forall incs excs name d v T k l e,
  wf_json d -> item_at d name v T -> In (k, JArr l) (fields v) -> In e l ->
  inc_of incs excs T = true -> inc_of incs excs (sub T k) = true ->
  exists r r',
    repr (inc_of incs excs) (import_ttables incs excs name d) v T (Some r) /\
    repr (inc_of incs excs) (import_ttables incs excs name d) e (sub T k) (Some r') /\
    code_parent_entry (code_import incs excs name d) (sub T k) r' = Some (DInt (Z.of_nat r)).
Proof. exact code_array_element. Qed.

Example C33_code_nonvacuous :
  code_import [] [] sT w_collide = map dumped_triple (import_ttables [] [] sT w_collide) /\
  code_parent_entry (code_import [] [] sT w_collide) (sub (sub sT sa) sb) 1 = Some (DInt 1) /\
  length (code_import [] [] sT w_collide) = 3%nat.
Proof. vm_compute. repeat split. Qed.

(* ================= non-vacuity of the hypotheses of the main theorems ================= *)

(* {"a":{"b":[2]},"a_b":[1]} imported as T with excludes "T_a_b_;X": the document is well formed, it has an item
   two levels down (the element 2 at path T_a_b), its paths are kept, and the count of (T_a_b, "", 2) is 1 on both
   sides of C33_scalars_exactly_once. *)
Example C33_nonvacuous :
  let excs := [84; 95; 97; 95; 98; 95; 98; 59; 88] in
  wf_json w_collide /\
  item_at w_collide sT (jint 2) (sub (sub sT sa) sb) /\
  inc_of [] excs (sub sT sa) = true /\ inc_of [] excs (sub (sub sT sa) sb) = true /\
  inc_of [] excs (sub (sub (sub sT sa) sb) []) = true /\
  tcount (import_ttables [] excs sT w_collide) (sub (sub sT sa) sb) [] (CS (SInt 2)) = 1%nat /\
  count_if (fun t => kept (inc_of [] excs) t && triple_eqb t (sub (sub sT sa) sb, [], SInt 2))
           (doc_scalars_top sT w_collide) = 1%nat /\
  tparent (import_ttables [] excs sT w_collide) (sub (sub sT sa) sb) 1 = Some (CR (sub sT sa, 1%nat)).
Proof.
  cbv zeta. split; [wf_tac|]. split.
  - eapply (item_elem _ _ (JObj [(sb, JArr [jint 2])]) (sub sT sa) sb [jint 2]).
    + eapply (item_obj _ _ w_collide sT sa); [apply item_top; left; reflexivity|left; reflexivity].
    + left. reflexivity.
    + left. reflexivity.
  - vm_compute. repeat split.
Qed.
