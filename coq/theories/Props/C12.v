(* C12 -- Summary tables are exact group-bys of their source.
   Statements about Model/Summary.v (kernel K5: helper formula, lookupOrAddDerived / bulk add, group lookup,
   auto-removal, the settle loop of Engine.apply_user_actions).  Proofs are in Proofs/Summary_proofs.v.
   The model is tied to the running engine by harness/props/c12.py on every run. *)
From Coq Require Import ZArith List Bool Sorting.Sorted.
Import ListNotations.
Require Import Grist.Model.Summary Grist.Proofs.Summary_proofs.
Open Scope Z_scope.

(* ------------------------------------------------------------------ the property, at full strength *)

(* Whenever the settle loop ends with table `out`: the keys of `out` are exactly the keys of the source records,
   no two rows share a key, and every row's group is the list of the source records having its key, in source
   order (ascending row ids: C12_groups_ascending). *)
Definition exact_group_by (kinds : list kind) (src : list srow) (out : list orow) : Prop :=
  (forall k, In k (map okey out) <-> exists r, In r src /\ In k (keys_of kinds (snd r))) /\
  NoDup (map okey out) /\
  (forall i k g, In (i, k, g) out -> g = rows_with_key kinds src k).

Definition C12_settled_exact_stmt : Prop :=
  forall fuel kinds prev src summ out,
    NoDup (map fst src) -> NoDup (map fst summ) ->
    settle_loop fuel kinds prev src summ = Some out -> exact_group_by kinds src out.

(* Every source record with a group-by key is in the group of some row. *)
Definition C12_every_record_grouped_stmt : Prop :=
  forall fuel kinds prev src summ out r,
    NoDup (map fst src) -> NoDup (map fst summ) ->
    settle_loop fuel kinds prev src summ = Some out -> In r src ->
    Forall (fun c => c <> CError) (snd r) -> length (snd r) = length kinds ->
    (forall kd c, In (kd, c) (combine kinds (snd r)) -> kd <> KScalar -> exists l, c = CSeq l) ->
    exists row, In row out /\ In (fst r) (ogroup row).

(* Both fail on the unchanged code (known finding C12-helper-raises): when the helper formula of a record raises
   (a scalar group-by cell that is not hashable, or a cell holding an error), the lookup map of the helper
   column keeps the record's previous entry.  The record is then in no group ... *)
Theorem C12_every_record_grouped_refuted : ~ C12_every_record_grouped_stmt.
Proof.
  intros H.
  destruct (H 2%nat [KScalar] [] [(1, [CUnhashable])] [] [] (1, [CUnhashable])) as [row [Hin _]].
  - repeat constructor; intros [].
  - constructor.
  - vm_compute. reflexivity.
  - left. reflexivity.
  - repeat constructor. discriminate.
  - reflexivity.
  - intros kd c [E|[]] Hk. inversion E; subst. congruence.
  - exact Hin.
Qed.

(* ... or still in the group of the key it had before (the row 3 for key 2 survives with record 1 in its group,
   although record 1 now has the unhashable value). *)
Theorem C12_settled_exact_refuted : ~ C12_settled_exact_stmt.
Proof.
  intros H.
  destruct (H 2%nat [KScalar] [(1, [3])] [(1, [CUnhashable])] [(3, [AInt 2])] [(3, [AInt 2], [1])]) as [Hk _].
  - repeat constructor; intros [].
  - repeat constructor; intros [].
  - vm_compute. reflexivity.
  - destruct (proj1 (Hk [AInt 2])) as [r [[<-|[]] Hr]]; [left; reflexivity|]. vm_compute in Hr. exact Hr.
Qed.

(* ------------------------------------------------------------------ what holds: no helper formula raises *)

Theorem C12_settled_exact_partial : forall fuel kinds prev src summ out,
  NoDup (map fst src) -> NoDup (map fst summ) -> no_raise kinds src ->
  settle_loop fuel kinds prev src summ = Some out -> exact_group_by kinds src out.
Proof.
  intros fuel kinds prev src summ out Hnd Hids Hgood H.
  destruct (pass kinds prev src summ) as [s1 hs] eqn:Hp.
  rewrite (settle_loop_some _ _ _ _ _ _ _ _ Hnd Hp H). split; [|split].
  - intros k. eapply ex_keys; eassumption.
  - eapply ex_keys_NoDup; eassumption.
  - intros i k g Hin. eapply (ex_groups kinds prev src summ s1 hs Hids Hp Hgood i k g). exact Hin.
Qed.

(* groups are in ascending row id order *)
Theorem C12_groups_ascending : forall fuel kinds prev src summ out i k g,
  NoDup (map fst src) -> NoDup (map fst summ) -> no_raise kinds src ->
  StronglySorted Z.lt (map fst src) ->
  settle_loop fuel kinds prev src summ = Some out -> In (i, k, g) out -> StronglySorted Z.lt g.
Proof.
  intros fuel kinds prev src summ out i k g Hnd Hids Hgood Hs H Hin.
  destruct (C12_settled_exact_partial _ _ _ _ _ _ Hnd Hids Hgood H) as [_ [_ Hg]].
  rewrite (Hg i k g Hin). apply rows_with_key_sorted. exact Hs.
Qed.

(* Rows whose group became empty are gone - with or without raising helper formulas. *)
Theorem C12_no_empty_groups : forall fuel kinds prev src summ out row,
  settle_loop fuel kinds prev src summ = Some out -> In row out -> ogroup row <> [].
Proof.
  intros fuel kinds prev src summ out row H Hin.
  pose proof (settle_loop_nonempty _ _ _ _ _ _ H) as Hall. rewrite forallb_forall in Hall.
  specialize (Hall row Hin). unfold nonempty_group, ogroup in *. destruct (snd row); [discriminate|discriminate].
Qed.

(* The while loop of apply_user_actions ends: with fuel for two rounds or more the result is the same, and it is
   a table without empty groups. *)
Theorem C12_settle_terminates : forall kinds prev src summ,
  NoDup (map fst src) ->
  exists out, (forall fuel, (2 <= fuel)%nat -> settle_loop fuel kinds prev src summ = Some out) /\
              forallb nonempty_group out = true.
Proof. exact settle_loop_terminates. Qed.

(* ... and the result is stable: re-evaluating every helper cell once more changes nothing. *)
Theorem C12_settled_stable : forall kinds prev src summ out fuel,
  NoDup (map fst src) -> (2 <= fuel)%nat -> settle_loop fuel kinds prev src summ = Some out ->
  exists prev', settle_loop 1 kinds prev' src (map fst out) = Some out.
Proof. exact settle_stable. Qed.

(* Existing rows keep id and key; new rows get ids above every existing one. *)
Theorem C12_rows_keep_identity : forall fuel kinds prev src summ out i k g,
  NoDup (map fst src) -> settle_loop fuel kinds prev src summ = Some out -> In (i, k, g) out ->
  In (i, k) summ \/ max_id summ < i.
Proof. exact settled_rows_origin. Qed.

(* Every record that has a key is in the group of a row with one of its keys. *)
Theorem C12_every_record_grouped_partial : forall fuel kinds prev src summ out r,
  NoDup (map fst src) -> NoDup (map fst summ) -> no_raise kinds src ->
  settle_loop fuel kinds prev src summ = Some out -> In r src -> keys_of kinds (snd r) <> [] ->
  exists row, In row out /\ In (fst r) (ogroup row) /\ In (okey row) (keys_of kinds (snd r)).
Proof. exact record_grouped. Qed.

(* ------------------------------------------------------------------ the two branches of _add_update_summary_col *)

(* "All of these branches should be interchangeable and produce equivalent results when no list columns or
   CONTAINS are involved" (table.py): without a list-typed group-by column the simple helper formula
   (lookupOrAddDerived) and the list-mode one (product, lookups, one bulk add) do the same. *)
Theorem C12_simple_mode_is_list_mode : forall kinds stale summ cells,
  summary_simple kinds = true ->
  helper_simple kinds stale summ cells = helper_list kinds stale summ cells.
Proof. exact helper_simple_is_list. Qed.

(* ------------------------------------------------------------------ the engine re-evaluates only dirty helper cells *)

(* If the records that the first round does not re-evaluate have entries an evaluation would give (clean_valid),
   the incremental loop - whatever it re-evaluates, in however many further rounds - ends exactly where full
   re-evaluation ends (settle_loop, two rounds). *)
Theorem C12_incremental_is_full : forall kinds prev src summ d1 rest,
  NoDup (map fst src) -> clean_valid kinds d1 prev src summ -> rest <> [] ->
  settle_trace kinds prev src summ (d1 :: rest) = settle_loop 2 kinds prev src summ.
Proof. exact settle_trace_full. Qed.

(* ------------------------------------------------------------------ "listed first" is "lowest row id" *)

Theorem C12_lookup_finds_lowest_id : forall summ k i,
  asc summ -> first_match summ k = Some i -> forall j, In (j, k) summ -> i <= j.
Proof. exact first_match_lowest. Qed.

Theorem C12_rows_stay_ascending : forall kinds prev src summ s1 hs,
  pass kinds prev src summ = (s1, hs) -> asc summ ->
  asc s1 /\ asc (auto_remove (with_groups s1 hs)).
Proof.
  intros kinds prev src summ s1 hs Hp Ha. pose proof (pass_asc _ _ _ _ _ _ Hp Ha) as H1.
  split; [exact H1|]. rewrite auto_remove_filter. apply asc_filter. exact H1.
Qed.

(* ------------------------------------------------------------------ non-vacuity *)

(* Source: rows 1..4 grouped by (a scalar column, a Choice List column); row 2 has an empty list, row 3 a
   duplicate element, row 4 a string in the list-typed cell (no key).  The summary table has a row for a key
   that no record has any more (id 1) and one for an existing key (id 2). *)
Definition ex_kinds := [KScalar; KChoiceList].
Definition ex_src : list srow :=
  [ (1, [CAtom (AInt 1); CSeq [AStr [98]; AStr [97]]]);
    (2, [CAtom (AInt 1); CSeq []]);
    (3, [CAtom (AInt 1); CSeq [AStr [98]; AStr [98]]]);
    (4, [CAtom (AInt 1); CAtom (AStr [120])]) ].
Definition ex_summ : list mrow := [ (1, [AInt 5; AStr []]); (2, [AInt 1; AStr [98]]) ].

Example C12_example_settle :
  settle ex_kinds [] ex_src ex_summ =
  Some [ (2, [AInt 1; AStr [98]], [1; 3]); (3, [AInt 1; AStr [97]], [1]); (4, [AInt 1; AStr []], [2]) ].
Proof. vm_compute. reflexivity. Qed.

Example C12_example_hypotheses :
  NoDup (map fst ex_src) /\ NoDup (map fst ex_summ) /\ no_raise ex_kinds ex_src /\
  StronglySorted Z.lt (map fst ex_src) /\ asc ex_summ /\
  keys_of ex_kinds (snd (1, [CAtom (AInt 1); CSeq [AStr [98]; AStr [97]]])) <> [] /\
  summary_simple [KScalar; KScalar] = true.
Proof.
  split; [|split; [|split; [|split; [|split; [|split]]]]].
  - repeat constructor; simpl; intuition discriminate.
  - repeat constructor; simpl; intuition discriminate.
  - intros r [<-|[<-|[<-|[<-|[]]]]]; vm_compute; discriminate.
  - repeat constructor.
  - unfold asc. repeat constructor.
  - vm_compute. discriminate.
  - reflexivity.
Qed.

(* an incremental run: only record 3 is re-evaluated (its cell changed from [a] to [b, b]); the entries of the
   others are up to date *)
Example C12_example_incremental :
  let prev := [(1, [2; 3]); (2, [4]); (3, [3])] in
  let summ := [(2, [AInt 1; AStr [98]]); (3, [AInt 1; AStr [97]]); (4, [AInt 1; AStr []])] in
  settle_trace ex_kinds prev ex_src summ [[3]; []] =
  Some [ (2, [AInt 1; AStr [98]], [1; 3]); (3, [AInt 1; AStr [97]], [1]); (4, [AInt 1; AStr []], [2]) ] /\
  settle_trace ex_kinds prev ex_src summ [[3]; []] = settle_loop 2 ex_kinds prev ex_src summ.
Proof. split; vm_compute; reflexivity. Qed.

(* ------------------------------------------------------------------ the keys of a record *)

(* The keys the theorems speak about are the ones the property describes: one key per combination of DISTINCT
   elements of the list-valued cells, ''/0 for an empty list, the value itself for a scalar column, and none at
   all when a list-typed column holds a non-list value. *)
Theorem C12_keys_characterised : forall kinds cells ks,
  length cells = length kinds -> row_keys kinds cells = Some ks ->
  NoDup ks /\ forall k, In k ks <-> key_of_cells kinds cells k.
Proof. exact row_keys_spec. Qed.

(* no_raise in plain terms: it holds when no group-by cell holds an error and every cell of a scalar column is
   hashable *)
Theorem C12_no_raise_sufficient : forall kinds src,
  (forall r, In r src -> cells_ok kinds (snd r)) -> no_raise kinds src.
Proof. exact cells_ok_no_raise. Qed.

Example C12_example_keys :
  row_keys ex_kinds [CAtom (AInt 1); CSeq [AStr [98]; AStr [97]; AStr [98]]]
    = Some [[AInt 1; AStr [97]]; [AInt 1; AStr [98]]] /\
  row_keys ex_kinds [CAtom (AInt 1); CSeq []] = Some [[AInt 1; AStr []]] /\
  row_keys [KRefList] [CSeq []] = Some [[AInt 0]] /\
  row_keys ex_kinds [CAtom (AInt 1); CAtom (AStr [120])] = Some [] /\
  row_keys ex_kinds [CUnhashable; CSeq []] = None /\
  cells_ok ex_kinds [CAtom (AInt 1); CSeq []].
Proof.
  repeat split; try (vm_compute; reflexivity).
  repeat constructor; try discriminate; try (intros _; eexists; reflexivity); intros E; discriminate.
Qed.

(* ... and the hypothesis of C12_incremental_is_full holds there: the entries of records 1, 2 and 4, which are
   not re-evaluated, are what an evaluation would give *)
Example C12_example_clean_valid :
  clean_valid ex_kinds [3] [(1, [2; 3]); (2, [4]); (3, [3])] ex_src
    [(2, [AInt 1; AStr [98]]); (3, [AInt 1; AStr [97]]); (4, [AInt 1; AStr []])].
Proof.
  intros r [<-|[<-|[<-|[<-|[]]]]] Hd; try discriminate Hd; unfold hspec; vm_compute row_keys;
    cbn [entry fst snd Z.eqb Pos.eqb].
  - split.
    + intros k [<-|[<-|[]]]; [exists 3|exists 2]; (split; [simpl; tauto|vm_compute; reflexivity]).
    + intros i [<-|[<-|[]]]; [exists [AInt 1; AStr [98]]|exists [AInt 1; AStr [97]]];
        (split; [simpl; tauto|vm_compute; reflexivity]).
  - split.
    + intros k [<-|[]]. exists 4. split; [simpl; tauto|vm_compute; reflexivity].
    + intros i [<-|[]]. exists [AInt 1; AStr []]. split; [simpl; tauto|vm_compute; reflexivity].
  - split; [intros k []|intros i []].
Qed.

(* ------------------------------------------------------------------ recorded rounds *)

(* The tie replays recorded rounds (settle_rounds: per round the dirty cells, the source rows and the summary
   rows the engine had when the round began; reference clean-up of chained summary tables may rewrite cells
   between rounds; a cell another formula needs is evaluated before its turn).  When nothing is rewritten - every
   round has the same source rows, starts from the table the model itself has, and evaluates in ascending row id
   order - that is settle_trace, to which C12_incremental_is_full applies. *)
Theorem C12_recorded_rounds_are_the_trace : forall rounds kinds prev src summ,
  NoDup (map fst src) -> rounds_follow kinds prev src summ rounds ->
  settle_rounds kinds prev summ rounds =
  settle_trace kinds prev src summ (map (fun r : round => fst (fst r)) rounds).
Proof. exact settle_rounds_const. Qed.

Example C12_example_rounds :
  let prev := [(1, [2; 3]); (2, [4]); (3, [3])] in
  let summ := [(2, [AInt 1; AStr [98]]); (3, [AInt 1; AStr [97]]); (4, [AInt 1; AStr []])] in
  rounds_follow ex_kinds prev ex_src summ [([3], ex_src, summ); ([], ex_src, summ)] /\
  settle_rounds ex_kinds prev summ [([3], ex_src, summ); ([], ex_src, summ)] =
  Some [ (2, [AInt 1; AStr [98]], [1; 3]); (3, [AInt 1; AStr [97]], [1]); (4, [AInt 1; AStr []], [2]) ].
Proof. split; [|vm_compute; reflexivity]. cbn [rounds_follow]. repeat split; vm_compute; reflexivity. Qed.

(* out-of-turn evaluation: record 3 first, then 1 (both miss their keys): ids follow the evaluation order *)
Example C12_example_order :
  settle_rounds ex_kinds [] [] [([3; 1], ex_src, [])] =
  Some [ (1, [AInt 1; AStr [98]], [1; 3]); (2, [AInt 1; AStr [97]], [1]) ] /\
  settle_rounds ex_kinds [] [] [([1; 3], ex_src, [])] =
  Some [ (1, [AInt 1; AStr [97]], [1]); (2, [AInt 1; AStr [98]], [1; 3]) ].
Proof. split; vm_compute; reflexivity. Qed.
