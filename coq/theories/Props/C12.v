(* C12 -- Summary tables are exact group-bys of their source.
   Statements about Model/Summary.v (kernel K5: helper formula, lookupOrAddDerived / bulk add, group lookup,
   auto-removal, the settle loop of Engine.apply_user_actions).  Proofs are in Proofs/Summary_proofs.v.
   The model is tied to the running engine by harness/props/c12.py on every run. *)
From Coq Require Import ZArith List Bool Sorting.Sorted.
Import ListNotations.
Require Import Grist.Model.Summary Grist.Model.SummaryChain Grist.Proofs.Summary_proofs
  Grist.Proofs.SummaryChain_proofs Grist.Proofs.Summary_inc_proofs
  Grist.Proofs.Summary_undo_proofs.
Open Scope Z_scope.

(* ------------------------------------------------------------------ the property, at full strength *)

(* Whenever the settle loop ends with table `out`: the keys of `out` are exactly the keys of the source records,
   no two rows share a key, and every row's group is the list of the source records having its key, in source
   order (ascending row ids: C12_groups_ascending). *)
Definition exact_group_by (kinds : list kind) (src : list srow) (out : list orow) : Prop :=
  (forall k, In k (map okey out) <-> exists r, In r src /\ In k (keys_of kinds (snd r))) /\
  NoDup (map okey out) /\
  (forall i k g, In (i, k, g) out -> g = rows_with_key kinds src k).

Definition C12_settled_exact_stmt : Prop :=
  forall fuel kinds prev src summ out,
    NoDup (map fst src) -> NoDup (map fst summ) ->
    settle_loop fuel kinds prev src summ = Some out -> exact_group_by kinds src out.

(* Every source record with a group-by key is in the group of some row. *)
Definition C12_every_record_grouped_stmt : Prop :=
  forall fuel kinds prev src summ out r,
    NoDup (map fst src) -> NoDup (map fst summ) ->
    settle_loop fuel kinds prev src summ = Some out -> In r src ->
    Forall (fun c => c <> CError) (snd r) -> length (snd r) = length kinds ->
    (forall kd c, In (kd, c) (combine kinds (snd r)) -> kd <> KScalar -> exists l, c = CSeq l) ->
    exists row, In row out /\ In (fst r) (ogroup row).

(* Both fail on the unchanged code (known finding C12-helper-raises): when the helper formula of a record raises
   (a scalar group-by cell that is not hashable, or a cell holding an error), the lookup map of the helper
   column keeps the record's previous entry.  The record is then in no group ... *)
Theorem C12_every_record_grouped_refuted : ~ C12_every_record_grouped_stmt.
Proof.
  intros H.
  destruct (H 2%nat [KScalar] [] [(1, [CUnhashable])] [] [] (1, [CUnhashable])) as [row [Hin _]].
  - repeat constructor; intros [].
  - constructor.
  - vm_compute. reflexivity.
  - left. reflexivity.
  - repeat constructor. discriminate.
  - reflexivity.
  - intros kd c [E|[]] Hk. inversion E; subst. congruence.
  - exact Hin.
Qed.

(* ... or still in the group of the key it had before (the row 3 for key 2 survives with record 1 in its group,
   although record 1 now has the unhashable value). *)
Theorem C12_settled_exact_refuted : ~ C12_settled_exact_stmt.
Proof.
  intros H.
  destruct (H 2%nat [KScalar] [(1, [3])] [(1, [CUnhashable])] [(3, [AInt 2])] [(3, [AInt 2], [1])]) as [Hk _].
  - repeat constructor; intros [].
  - repeat constructor; intros [].
  - vm_compute. reflexivity.
  - destruct (proj1 (Hk [AInt 2])) as [r [[<-|[]] Hr]]; [left; reflexivity|]. vm_compute in Hr. exact Hr.
Qed.

(* ------------------------------------------------------------------ what holds: no helper formula raises *)

Theorem C12_settled_exact_partial : forall fuel kinds prev src summ out,
  NoDup (map fst src) -> NoDup (map fst summ) -> no_raise kinds src ->
  settle_loop fuel kinds prev src summ = Some out -> exact_group_by kinds src out.
Proof.
  intros fuel kinds prev src summ out Hnd Hids Hgood H.
  destruct (pass kinds prev src summ) as [s1 hs] eqn:Hp.
  rewrite (settle_loop_some _ _ _ _ _ _ _ _ Hnd Hp H). split; [|split].
  - intros k. eapply ex_keys; eassumption.
  - eapply ex_keys_NoDup; eassumption.
  - intros i k g Hin. eapply (ex_groups kinds prev src summ s1 hs Hids Hp Hgood i k g). exact Hin.
Qed.

(* groups are in ascending row id order *)
Theorem C12_groups_ascending : forall fuel kinds prev src summ out i k g,
  NoDup (map fst src) -> NoDup (map fst summ) -> no_raise kinds src ->
  StronglySorted Z.lt (map fst src) ->
  settle_loop fuel kinds prev src summ = Some out -> In (i, k, g) out -> StronglySorted Z.lt g.
Proof.
  intros fuel kinds prev src summ out i k g Hnd Hids Hgood Hs H Hin.
  destruct (C12_settled_exact_partial _ _ _ _ _ _ Hnd Hids Hgood H) as [_ [_ Hg]].
  rewrite (Hg i k g Hin). apply rows_with_key_sorted. exact Hs.
Qed.

(* Rows whose group became empty are gone - with or without raising helper formulas. *)
Theorem C12_no_empty_groups : forall fuel kinds prev src summ out row,
  settle_loop fuel kinds prev src summ = Some out -> In row out -> ogroup row <> [].
Proof.
  intros fuel kinds prev src summ out row H Hin.
  pose proof (settle_loop_nonempty _ _ _ _ _ _ H) as Hall. rewrite forallb_forall in Hall.
  specialize (Hall row Hin). unfold nonempty_group, ogroup in *. destruct (snd row); [discriminate|discriminate].
Qed.

(* The while loop of apply_user_actions ends: with fuel for two rounds or more the result is the same, and it is
   a table without empty groups. *)
Theorem C12_settle_terminates : forall kinds prev src summ,
  NoDup (map fst src) ->
  exists out, (forall fuel, (2 <= fuel)%nat -> settle_loop fuel kinds prev src summ = Some out) /\
              forallb nonempty_group out = true.
Proof. exact settle_loop_terminates. Qed.

(* ... and the result is stable: re-evaluating every helper cell once more changes nothing. *)
Theorem C12_settled_stable : forall kinds prev src summ out fuel,
  NoDup (map fst src) -> (2 <= fuel)%nat -> settle_loop fuel kinds prev src summ = Some out ->
  exists prev', settle_loop 1 kinds prev' src (map fst out) = Some out.
Proof. exact settle_stable. Qed.

(* Existing rows keep id and key; new rows get ids above every existing one. *)
Theorem C12_rows_keep_identity : forall fuel kinds prev src summ out i k g,
  NoDup (map fst src) -> settle_loop fuel kinds prev src summ = Some out -> In (i, k, g) out ->
  In (i, k) summ \/ max_id summ < i.
Proof. exact settled_rows_origin. Qed.

(* Every record that has a key is in the group of a row with one of its keys. *)
Theorem C12_every_record_grouped_partial : forall fuel kinds prev src summ out r,
  NoDup (map fst src) -> NoDup (map fst summ) -> no_raise kinds src ->
  settle_loop fuel kinds prev src summ = Some out -> In r src -> keys_of kinds (snd r) <> [] ->
  exists row, In row out /\ In (fst r) (ogroup row) /\ In (okey row) (keys_of kinds (snd r)).
Proof. exact record_grouped. Qed.

(* ------------------------------------------------------------------ the two branches of _add_update_summary_col *)

(* "All of these branches should be interchangeable and produce equivalent results when no list columns or
   CONTAINS are involved" (table.py): without a list-typed group-by column the simple helper formula
   (lookupOrAddDerived) and the list-mode one (product, lookups, one bulk add) do the same. *)
Theorem C12_simple_mode_is_list_mode : forall kinds stale summ cells,
  summary_simple kinds = true ->
  helper_simple kinds stale summ cells = helper_list kinds stale summ cells.
Proof. exact helper_simple_is_list. Qed.

(* ------------------------------------------------------------------ the engine re-evaluates only dirty helper cells *)

(* If the records that the first round does not re-evaluate have entries an evaluation would give (clean_valid),
   the incremental loop - whatever it re-evaluates, in however many further rounds - ends exactly where full
   re-evaluation ends (settle_loop, two rounds). *)
Theorem C12_incremental_is_full : forall kinds prev src summ d1 rest,
  NoDup (map fst src) -> clean_valid kinds d1 prev src summ -> rest <> [] ->
  settle_trace kinds prev src summ (d1 :: rest) = settle_loop 2 kinds prev src summ.
Proof. exact settle_trace_full. Qed.

(* ------------------------------------------------------------------ "listed first" is "lowest row id" *)

Theorem C12_lookup_finds_lowest_id : forall summ k i,
  asc summ -> first_match summ k = Some i -> forall j, In (j, k) summ -> i <= j.
Proof. exact first_match_lowest. Qed.

Theorem C12_rows_stay_ascending : forall kinds prev src summ s1 hs,
  pass kinds prev src summ = (s1, hs) -> asc summ ->
  asc s1 /\ asc (auto_remove (with_groups s1 hs)).
Proof.
  intros kinds prev src summ s1 hs Hp Ha. pose proof (pass_asc _ _ _ _ _ _ Hp Ha) as H1.
  split; [exact H1|]. rewrite auto_remove_filter. apply asc_filter. exact H1.
Qed.

(* ------------------------------------------------------------------ non-vacuity *)

(* Source: rows 1..4 grouped by (a scalar column, a Choice List column); row 2 has an empty list, row 3 a
   duplicate element, row 4 a string in the list-typed cell (no key).  The summary table has a row for a key
   that no record has any more (id 1) and one for an existing key (id 2). *)
Definition ex_kinds := [KScalar; KChoiceList].
Definition ex_src : list srow :=
  [ (1, [CAtom (AInt 1); CSeq [AStr [98]; AStr [97]]]);
    (2, [CAtom (AInt 1); CSeq []]);
    (3, [CAtom (AInt 1); CSeq [AStr [98]; AStr [98]]]);
    (4, [CAtom (AInt 1); CAtom (AStr [120])]) ].
Definition ex_summ : list mrow := [ (1, [AInt 5; AStr []]); (2, [AInt 1; AStr [98]]) ].

Example C12_example_settle :
  settle ex_kinds [] ex_src ex_summ =
  Some [ (2, [AInt 1; AStr [98]], [1; 3]); (3, [AInt 1; AStr [97]], [1]); (4, [AInt 1; AStr []], [2]) ].
Proof. vm_compute. reflexivity. Qed.

Example C12_example_hypotheses :
  NoDup (map fst ex_src) /\ NoDup (map fst ex_summ) /\ no_raise ex_kinds ex_src /\
  StronglySorted Z.lt (map fst ex_src) /\ asc ex_summ /\
  keys_of ex_kinds (snd (1, [CAtom (AInt 1); CSeq [AStr [98]; AStr [97]]])) <> [] /\
  summary_simple [KScalar; KScalar] = true.
Proof.
  split; [|split; [|split; [|split; [|split; [|split]]]]].
  - repeat constructor; simpl; intuition discriminate.
  - repeat constructor; simpl; intuition discriminate.
  - intros r [<-|[<-|[<-|[<-|[]]]]]; vm_compute; discriminate.
  - repeat constructor.
  - unfold asc. repeat constructor.
  - vm_compute. discriminate.
  - reflexivity.
Qed.

(* an incremental run: only record 3 is re-evaluated (its cell changed from [a] to [b, b]); the entries of the
   others are up to date *)
Example C12_example_incremental :
  let prev := [(1, [2; 3]); (2, [4]); (3, [3])] in
  let summ := [(2, [AInt 1; AStr [98]]); (3, [AInt 1; AStr [97]]); (4, [AInt 1; AStr []])] in
  settle_trace ex_kinds prev ex_src summ [[3]; []] =
  Some [ (2, [AInt 1; AStr [98]], [1; 3]); (3, [AInt 1; AStr [97]], [1]); (4, [AInt 1; AStr []], [2]) ] /\
  settle_trace ex_kinds prev ex_src summ [[3]; []] = settle_loop 2 ex_kinds prev ex_src summ.
Proof. split; vm_compute; reflexivity. Qed.

(* ------------------------------------------------------------------ the keys of a record *)

(* The keys the theorems speak about are the ones the property describes: one key per combination of DISTINCT
   elements of the list-valued cells, ''/0 for an empty list, the value itself for a scalar column, and none at
   all when a list-typed column holds a non-list value. *)
Theorem C12_keys_characterised : forall kinds cells ks,
  length cells = length kinds -> row_keys kinds cells = Some ks ->
  NoDup ks /\ forall k, In k ks <-> key_of_cells kinds cells k.
Proof. exact row_keys_spec. Qed.

(* no_raise in plain terms: it holds when no group-by cell holds an error and every cell of a scalar column is
   hashable *)
Theorem C12_no_raise_sufficient : forall kinds src,
  (forall r, In r src -> cells_ok kinds (snd r)) -> no_raise kinds src.
Proof. exact cells_ok_no_raise. Qed.

Example C12_example_keys :
  row_keys ex_kinds [CAtom (AInt 1); CSeq [AStr [98]; AStr [97]; AStr [98]]]
    = Some [[AInt 1; AStr [97]]; [AInt 1; AStr [98]]] /\
  row_keys ex_kinds [CAtom (AInt 1); CSeq []] = Some [[AInt 1; AStr []]] /\
  row_keys [KRefList] [CSeq []] = Some [[AInt 0]] /\
  row_keys ex_kinds [CAtom (AInt 1); CAtom (AStr [120])] = Some [] /\
  row_keys ex_kinds [CUnhashable; CSeq []] = None /\
  cells_ok ex_kinds [CAtom (AInt 1); CSeq []].
Proof.
  repeat split; try (vm_compute; reflexivity).
  repeat constructor; try discriminate; try (intros _; eexists; reflexivity); intros E; discriminate.
Qed.

(* ... and the hypothesis of C12_incremental_is_full holds there: the entries of records 1, 2 and 4, which are
   not re-evaluated, are what an evaluation would give *)
Example C12_example_clean_valid :
  clean_valid ex_kinds [3] [(1, [2; 3]); (2, [4]); (3, [3])] ex_src
    [(2, [AInt 1; AStr [98]]); (3, [AInt 1; AStr [97]]); (4, [AInt 1; AStr []])].
Proof.
  intros r [<-|[<-|[<-|[<-|[]]]]] Hd; try discriminate Hd; unfold hspec; vm_compute row_keys;
    cbn [entry fst snd Z.eqb Pos.eqb].
  - split.
    + intros k [<-|[<-|[]]]; [exists 3|exists 2]; (split; [simpl; tauto|vm_compute; reflexivity]).
    + intros i [<-|[<-|[]]]; [exists [AInt 1; AStr [98]]|exists [AInt 1; AStr [97]]];
        (split; [simpl; tauto|vm_compute; reflexivity]).
  - split.
    + intros k [<-|[]]. exists 4. split; [simpl; tauto|vm_compute; reflexivity].
    + intros i [<-|[]]. exists [AInt 1; AStr []]. split; [simpl; tauto|vm_compute; reflexivity].
  - split; [intros k []|intros i []].
Qed.

(* ------------------------------------------------------------------ recorded rounds *)

(* The tie replays recorded rounds (settle_rounds: per round the dirty cells, the source rows and the summary
   rows the engine had when the round began; reference clean-up of chained summary tables may rewrite cells
   between rounds; a cell another formula needs is evaluated before its turn).  When nothing is rewritten - every
   round has the same source rows, starts from the table the model itself has, and evaluates in ascending row id
   order - that is settle_trace, to which C12_incremental_is_full applies. *)
Theorem C12_recorded_rounds_are_the_trace : forall rounds kinds prev src summ,
  NoDup (map fst src) -> rounds_follow kinds prev src summ rounds ->
  settle_rounds kinds prev summ rounds =
  settle_trace kinds prev src summ (map (fun r : round => fst (fst r)) rounds).
Proof. exact settle_rounds_const. Qed.

Example C12_example_rounds :
  let prev := [(1, [2; 3]); (2, [4]); (3, [3])] in
  let summ := [(2, [AInt 1; AStr [98]]); (3, [AInt 1; AStr [97]]); (4, [AInt 1; AStr []])] in
  rounds_follow ex_kinds prev ex_src summ [([3], ex_src, summ); ([], ex_src, summ)] /\
  settle_rounds ex_kinds prev summ [([3], ex_src, summ); ([], ex_src, summ)] =
  Some [ (2, [AInt 1; AStr [98]], [1; 3]); (3, [AInt 1; AStr [97]], [1]); (4, [AInt 1; AStr []], [2]) ].
Proof. split; [|vm_compute; reflexivity]. cbn [rounds_follow]. repeat split; vm_compute; reflexivity. Qed.

(* out-of-turn evaluation: record 3 first, then 1 (both miss their keys): ids follow the evaluation order *)
Example C12_example_order :
  settle_rounds ex_kinds [] [] [([3; 1], ex_src, [])] =
  Some [ (1, [AInt 1; AStr [98]], [1; 3]); (2, [AInt 1; AStr [97]], [1]) ] /\
  settle_rounds ex_kinds [] [] [([1; 3], ex_src, [])] =
  Some [ (1, [AInt 1; AStr [97]], [1]); (2, [AInt 1; AStr [98]], [1; 3]) ].
Proof. split; vm_compute; reflexivity. Qed.

(* ------------------------------------------------------------------ the invariant between bundles *)

(* `settled`: every record's entry in the helper column holds exactly the rows its keys find, and no group is
   empty.  It implies the property ... *)
Theorem C12_settled_is_exact : forall kinds src summ hs,
  settled kinds src summ hs -> NoDup (map fst summ) -> no_raise kinds src ->
  exact_group_by kinds src (with_groups summ hs) /\
  (forall row, In row (with_groups summ hs) -> ogroup row <> []).
Proof.
  intros kinds src summ hs Hs Hids Hg. destruct (settled_exact _ _ _ _ Hs Hids Hg) as [H1 [H2 H3]].
  split; [split; [exact H1|split; [exact H2|]]|].
  - intros i k g Hin. exact (proj1 (H3 i k g Hin)).
  - intros [[i k] g] Hin. exact (proj2 (H3 i k g Hin)).
Qed.

(* ... and the engine's incremental loop re-establishes it after every bundle: if the previous bundle ended
   settled, the bundle changed source records (any cells, additions, removals) and appended rows to the summary
   table, and the first round re-evaluates at least the helper cells of the changed or new records ("a changed
   group-by cell dirties its own helper cell" - the one fact about the dependency tracking that is used), then
   whatever else is re-evaluated, in however many rounds, the loop ends settled, with the table that full
   re-evaluation gives. *)
Theorem C12_bundle_keeps_settled : forall kinds src summ hs src' extra d rest,
  settled kinds src summ hs -> NoDup (map fst src') ->
  (forall r, In r src' -> mem_z (fst r) d = false -> In r src) -> rest <> [] ->
  exists s' hs', settle_trace_st kinds hs src' (summ ++ extra) (d :: rest) = Some (s', hs') /\
                 settled kinds src' s' hs' /\
                 settle_loop 2 kinds hs src' (summ ++ extra) = Some (with_groups s' hs').
Proof.
  intros kinds src summ hs src' extra d rest Hs Hnd Hd Hrest.
  pose proof (clean_valid_after_edit kinds src summ hs src' extra d Hs Hd) as Hv.
  destruct (settled_after_bundle kinds hs src' (summ ++ extra) d rest Hnd Hv Hrest) as [s2 [hs2 [H1 [H2 [H3 _]]]]].
  exists s2, hs2. split; [exact H1|split; [exact H2|exact H3]].
Qed.

(* Hence every state reached from the empty document by such bundles is settled, and an exact group-by. *)
Theorem C12_history_exact : forall kinds src summ hs,
  reachable kinds src summ hs -> no_raise kinds src ->
  settled kinds src summ hs /\ exact_group_by kinds src (with_groups summ hs).
Proof.
  intros kinds src summ hs H Hg. destruct (reachable_settled _ _ _ _ H) as [Hs Hids].
  split; [exact Hs|]. exact (proj1 (C12_settled_is_exact _ _ _ _ Hs Hids Hg)).
Qed.

Example C12_example_reachable :
  reachable ex_kinds ex_src
    [ (1, [AInt 1; AStr [97]]); (2, [AInt 1; AStr [98]]); (3, [AInt 1; AStr []]) ]
    [ (1, [1; 2]); (2, [3]); (3, [2]); (4, []) ].
Proof.
  eapply (reach_bundle ex_kinds [] [] [] ex_src [] [1; 2; 3; 4] [[]]).
  - apply reach_empty.
  - repeat constructor; simpl; intuition discriminate.
  - constructor.
  - intros r [<-|[<-|[<-|[<-|[]]]]] Hd; discriminate Hd.
  - discriminate.
  - vm_compute. reflexivity.
Qed.

(* ------------------------------------------------------------------ undo *)

(* An undo bundle puts source cells and summary rows back by doc actions and runs the same settle loop; helper
   cells are formula cells, they are re-evaluated, not restored.  If the state A being restored was settled and
   the undo re-evaluates every helper cell whose entry is not the one it had in A, the loop ends with exactly the
   table of A - same row ids, keys and groups: no summary row is created a second time and none is removed a
   second time. *)
Theorem C12_undo_restores_table : forall kinds srcA summA hsA hsB d rest,
  settled kinds srcA summA hsA -> no_raise kinds srcA ->
  (forall r, In r srcA -> mem_z (fst r) d = false ->
             forall i, In i (entry hsB (fst r)) <-> In i (entry hsA (fst r))) ->
  rest <> [] ->
  settle_trace kinds hsB srcA summA (d :: rest) = Some (with_groups summA hsA).
Proof. exact undo_restores. Qed.

(* Forward and back: it is enough that the undo re-evaluates the helper cells the forward bundle evaluated (those
   of the changed records among them). *)
Theorem C12_undo_roundtrip : forall kinds srcA summA hsA srcB summIn dirtiesF summB hsB d rest,
  settled kinds srcA summA hsA -> no_raise kinds srcA -> NoDup (map fst srcB) ->
  settle_trace_st kinds hsA srcB summIn dirtiesF = Some (summB, hsB) ->
  (forall r, In r srcA -> mem_z (fst r) d = false ->
             In r srcB /\ forall dF, In dF dirtiesF -> mem_z (fst r) dF = false) ->
  rest <> [] ->
  settle_trace kinds hsB srcA summA (d :: rest) = Some (with_groups summA hsA).
Proof. exact undo_roundtrip. Qed.

(* Engine.is_triggered_by_table_action: the guarded formula never adds a row, and where every key has its row
   (as after the undo's doc actions) it is the unguarded formula.  (The harness counts how often the guard is
   true while a helper cell is evaluated: never, in this tree.) *)
Theorem C12_guard_never_adds : forall kinds stale summ cells,
  fst (helper_guarded kinds stale summ cells) = summ.
Proof. exact helper_guarded_keeps_table. Qed.

Theorem C12_guard_same_when_rows_present : forall kinds stale summ cells,
  (forall ks k, row_keys kinds cells = Some ks -> In k ks -> first_match summ k <> None) ->
  helper_guarded kinds stale summ cells = helper kinds stale summ cells.
Proof. intros. rewrite helper_is_list. apply helper_guarded_same. assumption. Qed.

(* record 1 changes from [b; a] to [c]: row 1 (key a) goes, row 4 (key c) comes; the undo brings back row 1 with
   its id and removes row 4, and ends with the table of C12_example_reachable *)
Example C12_example_undo :
  let summA := [ (1, [AInt 1; AStr [97]]); (2, [AInt 1; AStr [98]]); (3, [AInt 1; AStr []]) ] in
  let hsA := [ (1, [1; 2]); (2, [3]); (3, [2]); (4, []) ] in
  let srcB := (1, [CAtom (AInt 1); CSeq [AStr [99]]]) :: tl ex_src in
  let summB := [ (2, [AInt 1; AStr [98]]); (3, [AInt 1; AStr []]); (4, [AInt 1; AStr [99]]) ] in
  let hsB := [ (1, [4]); (2, [3]); (3, [2]); (4, []) ] in
  settle_trace_st ex_kinds hsA srcB summA [[1]; []] = Some (summB, hsB) /\
  settle_trace ex_kinds hsB ex_src summA [[1]; []] = Some (with_groups summA hsA) /\
  settled ex_kinds ex_src summA hsA.
Proof.
  cbv zeta. split; [vm_compute; reflexivity|]. split; [vm_compute; reflexivity|].
  exact (proj1 (reachable_settled _ _ _ _ C12_example_reachable)).
Qed.

(* ------------------------------------------------------------------ chained summary tables *)

(* k levels: the source table of level i+1 groups by Reference / Reference List columns into the summary table
   of level i; removing a row of level i rewrites the references to it one level up (source cells and key
   cells).  The loop of apply_user_actions (every level brought up to date, then all rows with empty groups
   removed, repeated while anything was removed) ends after at most k+1 rounds, whatever the tables, entries and
   references were before ... *)
Theorem C12_chain_terminates : forall c, Forall wf_level c ->
  exists c', forall fuel, (S (length c) <= fuel)%nat -> chain_loop fuel c = Some c'.
Proof. exact chain_terminates. Qed.

(* ... and when it ends, nothing is left to remove and every level is an exact group-by of its source as the
   clean-up left it (no helper formula raising at that level). *)
Theorem C12_chain_exact : forall fuel c c' lv,
  chain_loop fuel c = Some c' -> Forall wf_level c -> In lv c' -> no_raise (lkinds lv) (lsrc lv) ->
  exact_group_by (lkinds lv) (lsrc lv) (lrows lv) /\ (forall row, In row (lrows lv) -> ogroup row <> []).
Proof.
  intros fuel c c' lv H Hwf Hin Hg. destruct (chain_level_exact _ _ _ _ H Hwf Hin Hg) as [H1 [H2 H3]].
  split; [split; [exact H1|split; [exact H2|]]|].
  - intros i k g Hi. exact (proj1 (H3 i k g Hi)).
  - intros [[i k] g] Hi. exact (proj2 (H3 i k g Hi)).
Qed.

Theorem C12_chain_quiet_at_end : forall fuel c c',
  chain_loop fuel c = Some c' -> Forall wf_level c -> Forall wf_level c' /\ chain_quiet c' = true.
Proof. exact chain_loop_result. Qed.

(* The bound is attained.  Two levels (the seeded demo): T = {2:y, 3:y} after its only 'x' record was removed,
   T_summary_A = {1:x, 2:y}; U.R refers to T_summary_A, U = {1:0, 2:1, 3:2, 4:1}, U_summary_R = {1:0, 2:1, 3:2}.
   Round 1 removes row 1 of T_summary_A; that turns U.R = 1 into 0 and the key of row 2 of U_summary_R into 0;
   only round 2 finds that row empty and removes it; round 3 finds nothing.  With ONE removal round (`if` instead
   of `while`) a second row with key 0 and an empty group is left. *)
Definition ex_chain2 : list level :=
  [ mkLevel [KScalar] [false] [(2, [2]); (3, [2])]
            [(2, [CAtom (AStr [121])]); (3, [CAtom (AStr [121])])]
            [(1, [AStr [120]]); (2, [AStr [121]])];
    mkLevel [KScalar] [true] [(1, [1]); (2, [2]); (3, [3]); (4, [2])]
            [(1, [CAtom (AInt 0)]); (2, [CAtom (AInt 1)]); (3, [CAtom (AInt 2)]); (4, [CAtom (AInt 1)])]
            [(1, [AInt 0]); (2, [AInt 1]); (3, [AInt 2])] ].

Example C12_chain_bound_attained :
  Forall wf_level ex_chain2 /\
  chain_loop 2 ex_chain2 = None /\
  map lrows (chain_step [] (chain_step [] ex_chain2)) =
    [ [(2, [AStr [121]], [2; 3])]; [(1, [AInt 0], [1; 2; 4]); (3, [AInt 2], [3])] ] /\
  (exists c', chain_loop 3 ex_chain2 = Some c' /\ c' = chain_step [] (chain_step [] ex_chain2)) /\
  (* after the single removal round of the `if` variant: *)
  map lrows (chain_step [] ex_chain2) =
    [ [(2, [AStr [121]], [2; 3])]; [(1, [AInt 0], [1; 2; 4]); (2, [AInt 0], []); (3, [AInt 2], [3])] ].
Proof.
  split; [|split; [|split; [|split]]]; try (vm_compute; reflexivity).
  - repeat constructor; simpl; intuition discriminate.
  - eexists. split; vm_compute; reflexivity.
Qed.

(* three levels need four rounds: a third table W refers to U_summary_R *)
Definition ex_chain3 : list level :=
  ex_chain2 ++
  [ mkLevel [KScalar] [true] [(1, [1]); (2, [2])]
            [(1, [CAtom (AInt 0)]); (2, [CAtom (AInt 2)])]
            [(1, [AInt 0]); (2, [AInt 2])] ].

Example C12_chain_three_levels :
  chain_loop 3 ex_chain3 = None /\ chain_loop 4 ex_chain3 <> None /\
  map lrows (chain_step [] (chain_step [] (chain_step [] ex_chain3))) =
    [ [(2, [AStr [121]], [2; 3])]; [(1, [AInt 0], [1; 2; 4]); (3, [AInt 2], [3])]; [(1, [AInt 0], [1; 2])] ].
Proof. split; [|split]; vm_compute; try reflexivity. discriminate. Qed.

(* The hypothesis of C12_incremental_is_full is checked on the running engine: the harness evaluates clean_validb
   on the first round of every recorded bundle and reports how often it does not hold. *)
Theorem C12_clean_valid_monitor_sound : forall kinds d prev src summ,
  clean_validb kinds d prev src summ = true -> clean_valid kinds d prev src summ.
Proof. exact clean_validb_sound. Qed.

(* The second fact about the dependency tracking, for tables whose keys are rewritten in place (reference
   clean-up of chained summary tables, conversions of the group-by column): if the round re-evaluates the helper
   cells of the changed records and of the records that have the old or the new key of a rewritten row among
   their keys, the entries of all other records are up to date - the hypothesis of C12_incremental_is_full holds
   again.  (Rows appended to the summary table never invalidate an entry: C12_bundle_keeps_settled.) *)
Theorem C12_rekey_invalidation_suffices : forall kinds src summ hs src' summ' d,
  settled kinds src summ hs -> rekeyed summ summ' ->
  (forall r, In r src' -> mem_z (fst r) d = false ->
             In r src /\ forall k, In k (keys_of kinds (snd r)) -> unaffected summ summ' k) ->
  clean_valid kinds d hs src' summ'.
Proof. exact clean_valid_after_rekey. Qed.

Example C12_example_rekey :
  let summ := [(1, [AInt 0]); (2, [AInt 1]); (3, [AInt 2])] in
  let summ' := [(1, [AInt 0]); (2, [AInt 0]); (3, [AInt 2])] in
  rekeyed summ summ' /\ unaffected summ summ' [AInt 2] /\ ~ unaffected summ summ' [AInt 0].
Proof.
  cbv zeta. split; [repeat constructor|]. split.
  - constructor; [left; reflexivity|]. constructor; [right; split; discriminate|].
    constructor; [left; reflexivity|constructor].
  - intros H. inversion H as [|a b l l' _ H2]; subst. inversion H2 as [|a' b' m m' H3 _]; subst.
    destruct H3 as [E|[_ E]]; [discriminate E|]. apply E. reflexivity.
Qed.

(* ------------------------------------------------------------------ the incremental engine on a chain *)

(* Every level re-evaluates, in every round, only the helper cells in its dirty set.  If at every round and level
   the entries left alone are up to date (chain_cv: clean_valid everywhere - what the lookup invalidation has to
   deliver, C12_rekey_invalidation_suffices; evaluated on all recorded rounds by the harness), the incremental
   loop does what chain_loop does, round by round: same tables, same removals ... *)
Theorem C12_chain_incremental_is_full : forall dss c c0,
  Forall2 lequiv c c0 -> chain_cv dss c ->
  match chain_loop_d dss c with
  | Some (ds, c') => exists c0', chain_loop (length dss) c0 = Some c0' /\ Forall2 lequiv c' c0' /\
                                 Forall2 lcv ds c' /\ chain_quiet_d ds c' = true
  | None => chain_loop (length dss) c0 = None
  end.
Proof. exact chain_inc_is_full. Qed.

(* ... so it ends within k+1 rounds ... *)
Theorem C12_chain_incremental_terminates : forall dss c,
  Forall wf_level c -> chain_cv dss c -> (S (length c) <= length dss)%nat -> chain_loop_d dss c <> None.
Proof. exact chain_inc_terminates. Qed.

(* ... with every level an exact group-by of its source. *)
Theorem C12_chain_incremental_exact : forall dss c ds c' d lv,
  Forall wf_level c -> chain_cv dss c -> chain_loop_d dss c = Some (ds, c') ->
  In (d, lv) (combine ds c') -> no_raise (lkinds lv) (lsrc lv) ->
  exact_group_by (lkinds lv) (lsrc lv) (lrows_d d lv) /\
  (forall row, In row (lrows_d d lv) -> ogroup row <> []).
Proof.
  intros dss c ds c' d lv Hwf Hcv Hl Hin Hg.
  destruct (chain_inc_exact _ _ _ _ _ _ Hwf Hcv Hl Hin Hg) as [H1 [H2 H3]].
  split; [split; [exact H1|split; [exact H2|]]|].
  - intros i k g Hi. exact (proj1 (H3 i k g Hi)).
  - intros [[i k] g] Hi. exact (proj2 (H3 i k g Hi)).
Qed.

(* the two-level example, incrementally: nothing is dirty in round 1 (the 'x' record is gone), the clean-up after
   round 1 dirties records 2 and 4 of U, nothing is dirty in round 3 *)
Example C12_chain_incremental_example :
  let dss := [ [[]; []]; [[]; [2; 4]]; [[]; []] ] in
  chain_cv dss ex_chain2 /\
  (exists ds c', chain_loop_d dss ex_chain2 = Some (ds, c') /\
     map (fun dl => lrows_d (fst dl) (snd dl)) (combine ds c') =
       [ [(2, [AStr [121]], [2; 3])]; [(1, [AInt 0], [1; 2; 4]); (3, [AInt 2], [3])] ]).
Proof.
  cbv zeta. split.
  - cbn [chain_cv]. repeat split;
      match goal with |- Forall2 lcv _ ?c => let c' := eval vm_compute in c in change c with c' end;
      repeat constructor; unfold lcv; apply clean_validb_sound; vm_compute; reflexivity.
  - eexists. eexists. split; vm_compute; reflexivity.
Qed.
