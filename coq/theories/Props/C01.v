(* C01 -- Undo restores the exact prior document.
   Kernel K1 (Model/ActionLog.v): docactions.py with undo generation, action_summary.py, the flushes of
   action_obj.py, ApplyUndoActions.  Statements only; proofs in Proofs/ActionLog_proofs.v. *)
From Coq Require Import ZArith List Bool.
Import ListNotations.
Require Import Grist.Model.ActionLog Grist.Proofs.ActionLog_proofs.
Open Scope Z_scope.

(* The statement at full strength, for a class `wf_events` of event lists: replaying the undo list of a
   successful bundle in reverse (ApplyUndoActions) on the document the bundle produced gives a document with
   the same tables, the same column schema, the same row ids and every cell equal up to encoding (seq). *)
Definition C01_statement (O : ValOps) (wf_events : state O -> list (event O) -> Prop) : Prop :=
  forall s es s' out,
    wf_state O s -> wf_events s es -> run O s es = Ok (s', out) ->
    exists s'', replay_doc O (rev (o_undo O out)) s' = Ok s'' /\ seq O s'' s.

(* Stage 1: every event is a doc action, and no action relies on the calc summary / recalculation /
   doModifyColumn's conversion delta for its undo (lossless_run: no formula column with values is removed, no
   ReplaceTableData on a table with formula columns, no ModifyColumn changing the type). *)
Definition doc_events (O : ValOps) (s : state O) (es : list (event O)) : Prop :=
  exists acts, es = map (Doc O) acts /\ lossless_run O s acts.

Theorem C01_undo_restores_doc_partial : forall O, ValLaws O -> C01_statement O (doc_events O).
Proof.
  intros O L s es s' out Hwf [acts [-> Hl]] H.
  exact (doc_bundle_undo_ok O L s acts Hwf Hl s' out H).
Qed.

(* Each doc action is undone by the undo actions it appended, except for the cells in `lossy` (restored by
   the engine through the calc summary, by recalculation, or by the conversion delta of doModifyColumn). *)
Theorem C01_each_action_inverse : forall O, ValLaws O -> forall a s s' u ops,
  wf_state O s -> apply_doc O a s = Ok (s', (u, ops)) ->
  exists s'', replay_doc O (rev u) s' = Ok s'' /\ seq_ex O (lossy O a s) s'' s.
Proof. intros O L a s s' u ops Hwf H. exact (undo_inverse O L a s Hwf s' u ops H). Qed.

(* ... and for any sequence of doc actions, with the exception set carried back through the renames. *)
Theorem C01_doc_sequence : forall O, ValLaws O -> forall acts s s' U,
  wf_state O s -> run_docs O s acts = Ok (s', U) ->
  exists s'', replay_doc O (rev U) s' = Ok s'' /\ seq_ex O (loss_docs O s acts) s'' s.
Proof. intros O L. exact (docs_undo O L). Qed.

(* Whole histories: if every bundle is undone by its own undo list, undoing the bundles in reverse order
   returns to the start (by induction over the bundle list, using the congruence of replay). *)
Theorem C01_history : forall O, ValLaws O -> forall bs s s' us,
  bundles_ok O s bs -> run_history O s bs = Ok (s', us) ->
  exists s'', undo_history O us s' = Ok s'' /\ seq O s'' s.
Proof. intros O L. exact (history_undo O L). Qed.

(* Documents stay well formed, so the hypotheses of the theorems hold again for the next bundle. *)
Theorem C01_wf_preserved : forall O, ValLaws O -> forall a s s' o,
  wf_state O s -> apply_doc O a s = Ok (s', o) -> wf_state O s'.
Proof. intros O L. exact (apply_doc_wf O L). Qed.

(* ------------------------------------------------------------------------------------------------ *)
(* Non-vacuity, on the smallest value structure (integers, no normalisation). *)

Definition ZOps : ValOps := mkValOps Z Z.eqb Z.eqb (fun _ => 0) (fun _ v => v).

Lemma ZLaws : ValLaws ZOps.
Proof.
  constructor; cbn; intros; try apply Z.eqb_refl; try assumption; try reflexivity.
  - rewrite Z.eqb_sym. assumption.
  - apply Z.eqb_eq in H. apply Z.eqb_eq in H0. apply Z.eqb_eq. congruence.
Qed.

Definition nT : name := [84].  Definition nA : name := [65].  Definition nB : name := [66].  Definition nC : name := [67].
Definition nInt : name := [73; 110; 116].
Definition ciData : colinfo := mkCI nInt false [] None.

Definition ex_state : state ZOps :=
  [mkTab ZOps nT [1; 2] [mkCol ZOps nA ciData [(1, 10); (2, 20)]; mkCol ZOps nB ciData [(1, 5)]]].

Definition ex_acts : list (action ZOps) :=
  [ BulkUpdateRecord ZOps nT [1] [(nA, [11])];
    AddColumn ZOps nT nC ciData;
    BulkAddRecord ZOps nT [3] [(nA, [30]); (nC, [7])];
    RenameColumn ZOps nT nC [68];
    BulkRemoveRecord ZOps nT [2];
    RemoveColumn ZOps nT nB;
    RenameTable ZOps nT [85];
    RemoveTable ZOps [85] ].

Example C01_doc_nonvacuous :
  wf_state ZOps ex_state /\ lossless_run ZOps ex_state ex_acts /\
  exists s' out s'', run ZOps ex_state (map (Doc ZOps) ex_acts) = Ok (s', out) /\ s' = [] /\ length (o_undo ZOps out) = 10%nat /\
                 replay_doc ZOps (rev (o_undo ZOps out)) s' = Ok s'' /\
                 find_table ZOps s'' nT <> None.
Proof.
  split.
  { intros t T Hf. cbn in Hf. destruct (name_eqb t nT); [|discriminate]. inversion Hf; subst T. cbn.
    split; [reflexivity|]. split; [reflexivity|]. intros c C _ r _. apply Z.eqb_refl. }
  split; [apply lossless_runb_sound; vm_compute; reflexivity|].
  eexists. eexists. eexists. split; [vm_compute; reflexivity|].
  split; [reflexivity|]. split; [reflexivity|]. split; [vm_compute; reflexivity|]. cbn. discriminate.
Qed.
