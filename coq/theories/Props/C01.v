(* C01 -- Undo restores the exact prior document.
   Kernel K1 (Model/ActionLog.v): docactions.py with undo generation, action_summary.py, the flushes of
   action_obj.py, ApplyUndoActions.  Statements only; proofs in Proofs/ActionLog_proofs.v. *)
From Coq Require Import ZArith List Bool.
Import ListNotations.
Require Import Grist.Model.ActionLog Grist.Model.ActionLogEnc Grist.Proofs.ActionLog_proofs Grist.Proofs.ActionLog_calc
  Grist.Proofs.ActionLog_frame Grist.Proofs.ActionLog_flush2 Grist.Proofs.ActionLog_stage3
  Grist.Model.DocEffects GristGen.DocActions_gen Grist.Proofs.DocActions_bridge Grist.Proofs.ActionLogEnc_laws.
Open Scope Z_scope.

(* The statement at full strength, for a class `wf_events` of event lists: replaying the undo list of a
   successful bundle in reverse (ApplyUndoActions) on the document the bundle produced gives a document with
   the same tables, the same column schema, the same row ids and every cell equal up to encoding (seq). *)
Definition C01_statement (O : ValOps) (wf_events : state O -> list (event O) -> Prop) : Prop :=
  forall s es s' out,
    wf_state O s -> wf_events s es -> run O s es = Ok (s', out) ->
    exists s'', replay_doc O (rev (o_undo O out)) s' = Ok s'' /\ seq O s'' s.

(* Stage 1: every event is a doc action, and no action relies on the calc summary / recalculation /
   doModifyColumn's conversion delta for its undo (lossless_run: no formula column with values is removed, no
   ReplaceTableData on a table with formula columns, no ModifyColumn changing the type). *)
Definition doc_events (O : ValOps) (s : state O) (es : list (event O)) : Prop :=
  exists acts, es = map (Doc O) acts /\ lossless_run O s acts.

Theorem C01_undo_restores_doc_partial : forall O, ValLaws O -> C01_statement O (doc_events O).
Proof.
  intros O L s es s' out Hwf [acts [-> Hl]] H.
  exact (doc_bundle_undo_ok O L s acts Hwf Hl s' out H).
Qed.

(* Stages 1+2: the bundle is a sequence of doc actions followed by calc deltas (formula recalculation) and the
   final flush -- the shape of an ordinary bundle.  `bundle_ok2 s es` is a computable check (the harness evaluates
   it on every recorded trace): the start document is well formed and uses no name with the reserved '-'
   prefix, the doc actions are lossless (as in stage 1), every calc delta names existing rows and its first
   `before` for a row equals the current cell up to encoding (SC2).  SC1 holds by the shape (no doc action after
   a calc delta).  The proof goes through the ActionSummary: LabelRenames and the presence maps identify exactly
   the cells created in the bundle, for which no restore is emitted and none is needed (created_ok), and the
   restores appended at the flush put back the value the doc actions left. *)
Definition docs_then_calcs (O : ValOps) (s : state O) (es : list (event O)) : Prop := bundle_ok2 O s es = true.

Theorem C01_undo_restores_docs_calcs_partial : forall O, ValLaws O -> C01_statement O (docs_then_calcs O).
Proof. intros O L s es s' out _ Hok H. exact (bundle_ok2_undo O L s es s' out Hok H). Qed.

(* The value laws hold for the encoded values the event-trace tie uses (equal_encoding, strict_equal, Column.set per
   column class as modelled in Model/ActionLogEnc.v), for every type table whose defaults are fixed points of their
   column class (tt_ok, computed on the table the harness reads from the running usertypes/column modules).  So the
   theorem applies to the very model instance that is compared with the engine on every run. *)
Theorem C01_undo_restores_encoded_values_partial : forall tt, tt_ok tt = true ->
  C01_statement (EOps tt) (docs_then_calcs (EOps tt)).
Proof. intros tt H. apply C01_undo_restores_docs_calcs_partial. apply EOps_laws. exact H. Qed.

(* Stage 3.  The whole bundle is one "mixed phase" in which the following steps may occur in any order and number
   (`bundle_ok3`, a computable check that the harness evaluates on every recorded trace; it accepts every bundle that
   `bundle_ok2` accepts):
     - a calc delta whose rows exist and whose first `before` per row equals the current cell up to encoding (SC2);
     - RenameColumn / RenameTable to a name without the reserved prefix, WHATEVER is pending (increment 1);
     - any lossless doc action (as in stage 1) that keeps off the cells with a pending delta: it does not write, create
       or destroy a cell for which the summary holds a delta (SC1; `avoidb`, an over-approximation `touch` of the cells
       an action may affect) -- in particular any lossless doc action while nothing is pending (increment 2);
     - BulkRemoveRecord, RemoveColumn (of a data column) and RemoveTable of cells WITH a pending delta (increment 4):
       the undo of the removal puts the recalculated values back, and the flush inserts the restore of the value before
       the recalculation at the FRONT of the undo list, under the original names; the start-document cells that are
       left to these restores are collected (D: the removed cells followed backwards through the renames of the undo
       list so far), and the class demands at the end (`fronts_okb`, computed from the final summary and the start
       document) that every front-inserted restore writes values of the start document into existing cells of the start
       document and that the collected cells are among them.  This is what fails for the known defect
       C01_refuted_front_restore_written_cell (the bundle wrote the cell before the recalculation);
     - the per-column flush of doModifyColumn for a column that has no pending delta (a no-op on the lists);
     - the triple of doModifyColumn: ModifyColumn t c (any change of the column info, INCLUDING a change of type), the
       conversion delta Calc t c (optional), FlushCol t c -- one step of the invariant (increment 3).  The column may
       have a pending delta already (a formula column that was recalculated and is now turned into a data column: the
       case the per-column flush exists for); the deltas merge.  Side conditions (`modflush_okb`, per row, with the value
       "before" = the `before` of the pending delta if there is one, else the cell before the ModifyColumn): every row of
       the popped delta exists and its `before` equals the value before up to encoding; a row that the popped delta
       changes (in encoding) holds the converted `after` afterwards; every other row survives the type round trip
       (Column.set under the new type keeps the encoding of the value before) and holds that value afterwards.
   The proof (Proofs/ActionLog_stage3.v) carries a ghost document g that follows only the doc actions, related to the
   real document through the pending deltas (calc_rel), with: the undo list so far restores the start document from any
   document that agrees with g outside the cells created in the bundle (tr_ok); the stored list so far, replayed on the
   start document, reaches g (redo_ok).  Deltas travel with the renames exactly as LabelRenames moves the keys
   (dget_rencol, dget_rentab); a doc action that keeps off the pending cells is taken by the ghost too, and the REAL
   undo actions are shown to work from the ghost side because neither the action nor its undo actions move an untouched
   cell (frame, undo_touch; Proofs/ActionLog_frame.v); the undo invariant carries exception sets (tr_okE: cells that
   differ before the replay are followed through the renames of the undo list, img_list), which is how the cells put
   back with a recalculated value reach the start document; the flush is analysed for ANY summary (flush_all_gen,
   Proofs/ActionLog_flush2.v: stored updates and appended restores are those of the pruned summary, the rest goes to the
   front); for the
   doModifyColumn triple the ghost takes the ModifyColumn and the stored update of the flush, and the restore block,
   which the flush places BEFORE the ModifyColumn undo, is shown to put back exactly the cells the type round trip
   does not (block_one, a restore block with a tight exception set; Proofs/ActionLog_cells.v). *)
Definition stage3_events (O : ValOps) (s : state O) (es : list (event O)) : Prop := bundle_ok3 O s es = true.
Definition docs_calcs_renames := stage3_events.

Theorem C01_undo_restores_stage3_partial : forall O, ValLaws O -> C01_statement O (stage3_events O).
Proof. intros O L s es s' out _ Hok H. exact (bundle_ok3_undo O L s es s' out Hok H). Qed.

(* the increments, by name (the same class, which grew with each of them) *)
Theorem C01_undo_restores_calc_then_rename_partial : forall O, ValLaws O -> C01_statement O (docs_calcs_renames O).
Proof. exact C01_undo_restores_stage3_partial. Qed.

Theorem C01_undo_restores_modify_flush_partial : forall O, ValLaws O -> C01_statement O (stage3_events O).
Proof. exact C01_undo_restores_stage3_partial. Qed.

Theorem C01_undo_restores_calc_then_remove_partial : forall O, ValLaws O -> C01_statement O (stage3_events O).
Proof. exact C01_undo_restores_stage3_partial. Qed.

Theorem C01_undo_restores_interleavings_partial : forall O, ValLaws O -> C01_statement O (stage3_events O).
Proof. exact C01_undo_restores_stage3_partial. Qed.

Theorem C01_undo_restores_calc_then_rename_encoded_partial : forall tt, tt_ok tt = true ->
  C01_statement (EOps tt) (stage3_events (EOps tt)).
Proof. intros tt H. apply C01_undo_restores_stage3_partial. apply EOps_laws. exact H. Qed.

(* the steps of the invariant, one statement per kind of event (gi s0 g D m: see above; D lists the cells of the start
   document that are left to front-inserted restores -- empty in the class proved so far) *)
Theorem C01_stage3_steps : forall O (L : ValLaws O) s0 g D m m',
  gi O s0 g D m ->
  (forall t c chs, calc_event_ok O m t c chs -> step O m (Calc O t c chs) = Ok m' -> gi O s0 g D m') /\
  (forall t old new, is_defunct new = false -> step O m (Doc O (RenameColumn O t old new)) = Ok m' -> exists g', gi O s0 g' D m') /\
  (forall old new, is_defunct new = false -> step O m (Doc O (RenameTable O old new)) = Ok m' -> exists g', gi O s0 g' D m') /\
  (forall a DN, is_rename O a = false ->
             (forall t c r, touch O a t c r -> dget O (m_sum O m) t c r <> None -> is_removal O a = true) ->
             (forall t c r, ~ lossy O a (m_doc O m) t c r) -> act_names_ok O a ->
             (forall t c r, img_list O (rev (m_undo O m))
                                     (fun t c r => pending O (m_sum O m) t c r /\ touch O a t c r) t c r -> inD DN t c r) ->
             step O m (Doc O a) = Ok m' -> exists g', gi O s0 g' (D ++ DN) m') /\
  (forall t c, no_delta_entry O (m_sum O m) t c = true -> step O m (FlushCol O t c) = Ok m' -> gi O s0 g D m') /\
  (forall t c mi ochs, modflush_okb O m t c mi ochs = true -> steps O m (modflush_events O t c mi ochs) = Ok m' ->
                       exists g', gi O s0 g' D m').
Proof.
  intros O L s0 g D m m' Hgi. split; [|split; [|split; [|split; [|split]]]].
  - intros t c chs H1 H2. exact (gi_calc O L D _ _ _ _ _ _ _ Hgi H1 H2).
  - intros t old new H1 H2. exact (gi_rename_col O L D _ _ _ _ _ _ _ Hgi H1 H2).
  - intros old new H1 H2. exact (gi_rename_table O L D _ _ _ _ _ _ Hgi H1 H2).
  - intros a DN H1 H2 H3 H4 H5 H6. exact (gi_doc_frame O L D _ _ _ _ _ DN Hgi H1 H2 H3 H4 H5 H6).
  - intros t c H1 H2. exact (gi_flushcol_nil O D _ _ _ _ _ _ Hgi H1 H2).
  - intros t c mi ochs H1 H2. exact (gi_modflush O L D _ _ _ _ _ _ _ _ Hgi H1 H2).
Qed.

(* ... and what the invariant gives at the flush that ends the bundle: whatever the summary holds, the flush appends
   the stored updates and the restores of the PRUNED summary (deltas of cells that are gone dropped) and inserts the
   restores all_fronts at the front of the undo list (flush_all_gen, unconditional); if those put values of the start
   document into cells of the start document and cover the cells D (fronts_okb, computable), undo and redo work *)
Theorem C01_stage3_flush : forall O (L : ValLaws O) s0 g D m,
  gi O s0 g D m -> wf_state O s0 -> fronts_okb O s0 (all_fronts O (m_sum O m)) D = true ->
  flush_all O (m_sum O m) (m_stored O m, m_undo O m) =
    Ok (m_stored O m ++ all_sblocks O (prune O (m_sum O m)),
        all_fronts O (m_sum O m) ++ m_undo O m ++ all_blocks O (prune O (m_sum O m))) /\
  (exists s'', replay_doc O (rev (all_fronts O (m_sum O m) ++ m_undo O m ++ all_blocks O (prune O (m_sum O m)))) (m_doc O m) = Ok s'' /\
               seq O s'' s0) /\
  (forall s1, seq O s1 s0 ->
     exists s2, replay_doc O (m_stored O m ++ all_sblocks O (prune O (m_sum O m))) s1 = Ok s2 /\ seq O s2 (m_doc O m)).
Proof. intros O L s0 g D m H Hwf Hfr. exact (gi_flush O L s0 g D m H Hwf Hfr). Qed.

Theorem C01_flush_in_general : forall O (sm : summary O) S U,
  flush_all O sm (S, U) = Ok (S ++ all_sblocks O (prune O sm), all_fronts O sm ++ U ++ all_blocks O (prune O sm)).
Proof. intros O sm S U. apply flush_all_gen. Qed.

(* The deciding code of undo construction, REGENERATED from /repo on every run (harness/da2v.py -> gen/DocActions_gen.v):
   - gen_effects: for every method of docactions.DocActions, in source order, the undo actions it appends, its calls on
     out_actions.summary, its document mutations, early returns and guards (local names normalised);
   - gen_skeletons: ActionSummary._changes_to_actions, Engine._get_undo_checkpoint and Engine._undo_to_checkpoint statement
     by statement.
   They are bridged to the tables the ActionLog model was written from, and apply_doc is proved to follow, for every doc
   action, one path of the regenerated effect program (which undo constructors, which summary calls, in which order). *)
Theorem C01_code_effects_bridge : gen_effects = model_effects.
Proof. exact gen_effects_bridge. Qed.

Theorem C01_code_glue_bridge : gen_skeletons = model_skeletons.
Proof. exact gen_skeletons_bridge. Qed.

Theorem C01_code_undo_paths : forall O a s s' u ops,
  apply_doc O a s = Ok (s', (u, ops)) -> act_names_ok O a ->
  In (map (kind_of O) u, map (okind O) ops) (paths (effects_of O a)).
Proof. intros O a s s' u ops H Hn. exact (apply_doc_paths O a s s' u ops H Hn). Qed.

(* Each doc action is undone by the undo actions it appended, except for the cells in `lossy` (restored by
   the engine through the calc summary, by recalculation, or by the conversion delta of doModifyColumn). *)
Theorem C01_each_action_inverse : forall O, ValLaws O -> forall a s s' u ops,
  wf_state O s -> apply_doc O a s = Ok (s', (u, ops)) ->
  exists s'', replay_doc O (rev u) s' = Ok s'' /\ seq_ex O (lossy O a s) s'' s.
Proof. intros O L a s s' u ops Hwf H. exact (undo_inverse O L a s Hwf s' u ops H). Qed.

(* ... and for any sequence of doc actions, with the exception set carried back through the renames. *)
Theorem C01_doc_sequence : forall O, ValLaws O -> forall acts s s' U,
  wf_state O s -> run_docs O s acts = Ok (s', U) ->
  exists s'', replay_doc O (rev U) s' = Ok s'' /\ seq_ex O (loss_docs O s acts) s'' s.
Proof. intros O L. exact (docs_undo O L). Qed.

(* Whole histories: if every bundle is undone by its own undo list, undoing the bundles in reverse order
   returns to the start (by induction over the bundle list, using the congruence of replay). *)
Theorem C01_history : forall O, ValLaws O -> forall bs s s' us,
  bundles_ok O s bs -> run_history O s bs = Ok (s', us) ->
  exists s'', undo_history O us s' = Ok s'' /\ seq O s'' s.
Proof. intros O L. exact (history_undo O L). Qed.

(* ... in particular histories whose bundles all have the proved shape (computable check along the history). *)
Theorem C01_history_docs_calcs_partial : forall O, ValLaws O -> forall bs s s' us,
  bundles_ok2 O s bs = true -> run_history O s bs = Ok (s', us) ->
  exists s'', undo_history O us s' = Ok s'' /\ seq O s'' s.
Proof. intros O L. exact (history_ok2_undo O L). Qed.

(* Documents stay well formed, so the hypotheses of the theorems hold again for the next bundle. *)
Theorem C01_wf_preserved : forall O, ValLaws O -> forall a s s' o,
  wf_state O s -> apply_doc O a s = Ok (s', o) -> wf_state O s'.
Proof. intros O L. exact (apply_doc_wf O L). Qed.

(* ------------------------------------------------------------------------------------------------ *)
(* Non-vacuity, on the smallest value structure (integers, no normalisation). *)

Definition ZOps : ValOps := mkValOps Z Z.eqb Z.eqb (fun _ => 0) (fun _ v => v).

Lemma ZLaws : ValLaws ZOps.
Proof.
  constructor; cbn; intros; try apply Z.eqb_refl; try assumption; try reflexivity.
  - rewrite Z.eqb_sym. assumption.
  - apply Z.eqb_eq in H. apply Z.eqb_eq in H0. apply Z.eqb_eq. congruence.
Qed.

Definition nT : name := [84].  Definition nA : name := [65].  Definition nB : name := [66].  Definition nC : name := [67].
Definition nInt : name := [73; 110; 116].
Definition ciData : colinfo := mkCI nInt false [] None.

Definition ex_state : state ZOps :=
  [mkTab ZOps nT [1; 2] [mkCol ZOps nA ciData [(1, 10); (2, 20)]; mkCol ZOps nB ciData [(1, 5)]]].

Definition ex_acts : list (action ZOps) :=
  [ BulkUpdateRecord ZOps nT [1] [(nA, [11])];
    AddColumn ZOps nT nC ciData;
    BulkAddRecord ZOps nT [3] [(nA, [30]); (nC, [7])];
    RenameColumn ZOps nT nC [68];
    BulkRemoveRecord ZOps nT [2];
    RemoveColumn ZOps nT nB;
    RenameTable ZOps nT [85];
    RemoveTable ZOps [85] ].

Example C01_doc_nonvacuous :
  wf_state ZOps ex_state /\ lossless_run ZOps ex_state ex_acts /\
  exists s' out s'', run ZOps ex_state (map (Doc ZOps) ex_acts) = Ok (s', out) /\ s' = [] /\ length (o_undo ZOps out) = 10%nat /\
                 replay_doc ZOps (rev (o_undo ZOps out)) s' = Ok s'' /\
                 find_table ZOps s'' nT <> None.
Proof.
  split.
  { intros t T Hf. cbn in Hf. destruct (name_eqb t nT); [|discriminate]. inversion Hf; subst T. cbn.
    split; [reflexivity|]. split; [reflexivity|]. intros c C _ r _. apply Z.eqb_refl. }
  split; [apply lossless_runb_sound; vm_compute; reflexivity|].
  eexists. eexists. eexists. split; [vm_compute; reflexivity|].
  split; [reflexivity|]. split; [reflexivity|]. split; [vm_compute; reflexivity|]. cbn. discriminate.
Qed.

(* ------------------------------------------------------------------------------------------------ *)
(* Stage 2 non-vacuity: add a formula column, add a record, update a record; then the recalculation of the new
   column for the old rows (restored on undo) and for the new row (created in the bundle: no restore). *)

(* what fetch_table shows of a document *)
Definition view (O : ValOps) (s : state O) :=
  map (fun T => (t_id O T, t_rows O T, map (fun C => (c_id O C, c_info O C, map (col_get O C) (t_rows O T))) (t_cols O T))) s.

Definition nF : name := [70].
Definition ciFormula : colinfo := mkCI nInt true [36; 65] None.

Definition ex2_events : list (event ZOps) :=
  [ Doc ZOps (AddColumn ZOps nT nF ciFormula);
    Doc ZOps (BulkAddRecord ZOps nT [3] [(nA, [30])]);
    Doc ZOps (BulkUpdateRecord ZOps nT [1] [(nA, [11])]);
    Calc ZOps nT nF [(1, (0, 11)); (2, (0, 20)); (3, (0, 30))];
    Calc ZOps nT nF [(1, (11, 12))] ].

Example C01_docs_calcs_nonvacuous :
  bundle_ok2 ZOps ex_state ex2_events = true /\
  exists s' out s'', run ZOps ex_state ex2_events = Ok (s', out) /\
                 o_undo ZOps out = [RemoveColumn ZOps nT nF; BulkRemoveRecord ZOps nT [3];
                                    BulkUpdateRecord ZOps nT [1] [(nA, [10])]] /\
                 replay_doc ZOps (rev (o_undo ZOps out)) s' = Ok s'' /\ view ZOps s'' = view ZOps ex_state.
Proof.
  split; [vm_compute; reflexivity|]. eexists. eexists. eexists.
  split; [vm_compute; reflexivity|]. split; [reflexivity|]. split; vm_compute; reflexivity.
Qed.

(* An existing formula column recalculated after an update: its restore is appended at the flush. *)
Definition ex3_state : state ZOps :=
  [mkTab ZOps nT [1; 2] [mkCol ZOps nA ciData [(1, 10); (2, 20)]; mkCol ZOps nF ciFormula [(1, 10); (2, 20)]]].

Definition ex3_events : list (event ZOps) :=
  [ Doc ZOps (BulkUpdateRecord ZOps nT [1] [(nA, [11])]); Calc ZOps nT nF [(1, (10, 11))] ].

Example C01_docs_calcs_restore :
  bundle_ok2 ZOps ex3_state ex3_events = true /\
  exists s' out, run ZOps ex3_state ex3_events = Ok (s', out) /\
                 o_undo ZOps out = [BulkUpdateRecord ZOps nT [1] [(nA, [10])]; BulkUpdateRecord ZOps nT [1] [(nF, [10])]] /\
                 o_stored ZOps out = [BulkUpdateRecord ZOps nT [1] [(nA, [11])]; BulkUpdateRecord ZOps nT [1] [(nF, [11])]].
Proof. split; [vm_compute; reflexivity|]. eexists. eexists. split; [vm_compute; reflexivity|]. split; reflexivity. Qed.

(* A bundle OUTSIDE the class of stage 3: it removes a FORMULA column that has values (lossy: the undo of RemoveColumn
   does not carry them, the engine recalculates).  What the model does with it: the delta follows the column through the
   rename, becomes defunct with the removals, is dropped because the column was created in the bundle, and the undo list
   restores the start document. *)
Definition ex4_events : list (event ZOps) :=
  [ Doc ZOps (AddColumn ZOps nT nF ciFormula);
    Calc ZOps nT nF [(1, (0, 10)); (2, (0, 20))];
    Doc ZOps (RenameColumn ZOps nT nF [71]);
    Calc ZOps nT nB [(2, (0, 7))];
    Doc ZOps (RemoveColumn ZOps nT [71]);
    Doc ZOps (RenameTable ZOps nT [85]);
    Doc ZOps (RemoveTable ZOps [85]) ].

Example C01_stage3_example :
  exists s' out s'', run ZOps ex_state ex4_events = Ok (s', out) /\ s' = [] /\
                 replay_doc ZOps (rev (o_undo ZOps out)) s' = Ok s'' /\
                 (forall t, t = nT -> exists T, find_table ZOps s'' t = Some T /\ t_rows ZOps T = [1; 2] /\
                     map (fun C => map (col_get ZOps C) [1; 2]) (t_cols ZOps T) = [[10; 20]; [5; 0]]).
Proof.
  eexists. eexists. eexists. split; [vm_compute; reflexivity|]. split; [reflexivity|].
  split; [vm_compute; reflexivity|]. intros t ->. eexists. split; [vm_compute; reflexivity|]. split; reflexivity.
Qed.

(* The first increment of stage 3 on a concrete bundle: a calc delta on an existing formula column, the column and
   then the table renamed, one more calc delta under the new names.  The restore appended at the flush names the
   latest names and precedes (in replay order, follows) the rename undos. *)
Definition ex5_events : list (event ZOps) :=
  [ Doc ZOps (BulkUpdateRecord ZOps nT [1] [(nA, [11])]);
    Calc ZOps nT nF [(1, (10, 11))];
    Doc ZOps (RenameColumn ZOps nT nF [71]);
    Doc ZOps (RenameTable ZOps nT [85]);
    Calc ZOps [85] [71] [(2, (20, 21))] ].

Example C01_calc_then_rename_nonvacuous :
  bundle_ok3 ZOps ex3_state ex5_events = true /\ bundle_ok2 ZOps ex3_state ex5_events = false /\
  exists s' out s'', run ZOps ex3_state ex5_events = Ok (s', out) /\
                 o_undo ZOps out = [BulkUpdateRecord ZOps nT [1] [(nA, [10])]; RenameColumn ZOps nT [71] nF;
                                    RenameTable ZOps [85] nT; BulkUpdateRecord ZOps [85] [1; 2] [([71], [10; 20])]] /\
                 replay_doc ZOps (rev (o_undo ZOps out)) s' = Ok s'' /\ view ZOps s'' = view ZOps ex3_state.
Proof.
  split; [vm_compute; reflexivity|]. split; [vm_compute; reflexivity|]. eexists. eexists. eexists.
  split; [vm_compute; reflexivity|]. split; [reflexivity|]. split; vm_compute; reflexivity.
Qed.

(* Doc actions after a calc delta that keep off the pending cell (row 1 of F): a record is added, another cell is
   updated, a column is added; more calc deltas follow.  The last event removes row 3, which has a pending delta by
   then; the row was added in the bundle, so no restore is needed for it. *)
Definition ex7_events : list (event ZOps) :=
  [ Doc ZOps (BulkUpdateRecord ZOps nT [1] [(nA, [11])]);
    Calc ZOps nT nF [(1, (10, 11))];
    Doc ZOps (BulkAddRecord ZOps nT [3] [(nA, [30])]);
    Doc ZOps (BulkUpdateRecord ZOps nT [2] [(nA, [21])]);
    Doc ZOps (AddColumn ZOps nT nC ciData);
    Calc ZOps nT nF [(3, (0, 30)); (2, (20, 21))];
    Doc ZOps (BulkRemoveRecord ZOps nT [3]) ].

Example C01_frame_nonvacuous :
  bundle_ok3 ZOps ex3_state ex7_events = true /\ bundle_ok2 ZOps ex3_state ex7_events = false /\
  exists s' out s'', run ZOps ex3_state ex7_events = Ok (s', out) /\
                 replay_doc ZOps (rev (o_undo ZOps out)) s' = Ok s'' /\ view ZOps s'' = view ZOps ex3_state.
Proof.
  split; [vm_compute; reflexivity|]. split; [vm_compute; reflexivity|].
  eexists. eexists. eexists. split; [vm_compute; reflexivity|]. split; vm_compute; reflexivity.
Qed.

(* A record with a pending delta is removed: the undo of the removal puts the row back with the RECALCULATED value of F,
   and the flush inserts the restore of F at the FRONT of the undo list, so that it is replayed last.  The class
   demands (fronts_okb) that this restore holds the value of the start document -- which fails when the bundle itself
   wrote the cell before the recalculation (ex9: the known defect C01_refuted_front_restore_written_cell). *)
Definition ex8_events : list (event ZOps) :=
  [ Doc ZOps (BulkUpdateRecord ZOps nT [2] [(nA, [21])]);
    Calc ZOps nT nF [(2, (20, 21))];
    Doc ZOps (BulkRemoveRecord ZOps nT [2]) ].

Example C01_remove_record_nonvacuous :
  bundle_ok3 ZOps ex3_state ex8_events = true /\
  exists s' out s'', run ZOps ex3_state ex8_events = Ok (s', out) /\
                 o_undo ZOps out = [BulkUpdateRecord ZOps nT [2] [(nF, [20])];
                                    BulkUpdateRecord ZOps nT [2] [(nA, [20])];
                                    BulkAddRecord ZOps nT [2] [(nA, [21]); (nF, [21])]] /\
                 replay_doc ZOps (rev (o_undo ZOps out)) s' = Ok s'' /\ view ZOps s'' = view ZOps ex3_state.
Proof.
  split; [vm_compute; reflexivity|].
  eexists. eexists. eexists. split; [vm_compute; reflexivity|]. split; [reflexivity|]. split; vm_compute; reflexivity.
Qed.

(* The same with the whole table removed after the calc delta (and renamed before that): the delta becomes defunct, the
   restore is inserted at the front under the ORIGINAL names. *)
Definition ex10_events : list (event ZOps) :=
  [ Doc ZOps (BulkUpdateRecord ZOps nT [1] [(nA, [11])]);
    Calc ZOps nT nF [(1, (10, 11))];
    Doc ZOps (RenameColumn ZOps nT nF [71]);
    Doc ZOps (RenameTable ZOps nT [85]);
    Doc ZOps (RemoveTable ZOps [85]) ].

Example C01_remove_table_nonvacuous :
  bundle_ok3 ZOps ex3_state ex10_events = true /\
  exists s' out s'', run ZOps ex3_state ex10_events = Ok (s', out) /\ s' = [] /\
                 hd_error (o_undo ZOps out) = Some (BulkUpdateRecord ZOps nT [1] [(nF, [10])]) /\
                 replay_doc ZOps (rev (o_undo ZOps out)) s' = Ok s'' /\ view ZOps s'' = view ZOps ex3_state.
Proof.
  split; [vm_compute; reflexivity|].
  eexists. eexists. eexists. split; [vm_compute; reflexivity|]. split; [reflexivity|]. split; [reflexivity|].
  split; vm_compute; reflexivity.
Qed.

(* The triple of doModifyColumn on a concrete bundle: the type of the data column A changes (with the values of this
   toy instance every conversion is the identity), row 1 gets a conversion delta, the column is flushed, and doc
   actions follow.  The restore of the flush sits BEFORE the ModifyColumn undo in the undo list. *)
Definition nText : name := [84; 101; 120; 116].
Definition ex6_events : list (event ZOps) :=
  [ Doc ZOps (BulkUpdateRecord ZOps nT [2] [(nA, [21])]);
    Calc ZOps nT nF [(2, (20, 21))];
    Doc ZOps (ModifyColumn ZOps nT nA (mkMI (Some nText) None None None));
    Calc ZOps nT nA [(1, (10, 11))];
    FlushCol ZOps nT nA;
    Doc ZOps (RenameTable ZOps nT [85]) ].

Example C01_modify_flush_nonvacuous :
  bundle_ok3 ZOps ex3_state ex6_events = true /\ bundle_ok2 ZOps ex3_state ex6_events = false /\
  exists s' out s'', run ZOps ex3_state ex6_events = Ok (s', out) /\
                 o_undo ZOps out = [BulkUpdateRecord ZOps nT [2] [(nA, [20])]; BulkUpdateRecord ZOps nT [1] [(nA, [10])];
                                    ModifyColumn ZOps nT nA (mkMI (Some nInt) None None None);
                                    RenameTable ZOps [85] nT; BulkUpdateRecord ZOps [85] [2] [(nF, [20])]] /\
                 replay_doc ZOps (rev (o_undo ZOps out)) s' = Ok s'' /\
                 (* the start document; ModifyColumn re-creates the column, which moves it to the end of the schema *)
                 view ZOps s'' = [(nT, [1; 2], [(nF, ciFormula, [10; 20]); (nA, ciData, [10; 20])])].
Proof.
  split; [vm_compute; reflexivity|]. split; [vm_compute; reflexivity|]. eexists. eexists. eexists.
  split; [vm_compute; reflexivity|]. split; [reflexivity|]. split; vm_compute; reflexivity.
Qed.

(* ... and on a column that has a pending delta: the formula column F is recalculated (10 -> 11) and then turned into a
   data column; the per-column flush pops the delta, whose restore ends up before the ModifyColumn undo. *)
Definition ex11_events : list (event ZOps) :=
  [ Doc ZOps (BulkUpdateRecord ZOps nT [1] [(nA, [11])]);
    Calc ZOps nT nF [(1, (10, 11))];
    Doc ZOps (ModifyColumn ZOps nT nF (mkMI None (Some false) None None));
    FlushCol ZOps nT nF;
    Doc ZOps (BulkUpdateRecord ZOps nT [2] [(nF, [99])]) ].

Example C01_modify_flush_pending_nonvacuous :
  bundle_ok3 ZOps ex3_state ex11_events = true /\
  exists s' out s'', run ZOps ex3_state ex11_events = Ok (s', out) /\
                 o_undo ZOps out = [BulkUpdateRecord ZOps nT [1] [(nA, [10])]; BulkUpdateRecord ZOps nT [1] [(nF, [10])];
                                    ModifyColumn ZOps nT nF (mkMI None (Some true) None None);
                                    BulkUpdateRecord ZOps nT [2] [(nF, [20])]] /\
                 replay_doc ZOps (rev (o_undo ZOps out)) s' = Ok s'' /\
                 view ZOps s'' = [(nT, [1; 2], [(nA, ciData, [10; 20]); (nF, ciFormula, [10; 20])])].
Proof.
  split; [vm_compute; reflexivity|].
  eexists. eexists. eexists. split; [vm_compute; reflexivity|]. split; [reflexivity|]. split; vm_compute; reflexivity.
Qed.

(* ------------------------------------------------------------------------------------------------ *)
(* The full statement (any interleaving of doc actions, calc deltas and flushes, with SC1 and SC2) is FALSE of
   the faithful model.  Two witnesses, each replayed on the running engine by the check (known findings); a third one
   (a removed table with rows added in the bundle) was repaired in the engine and is kept as a regression example. *)

(* Regression (was C01_refuted_removed_table_new_row before repo commit b239974): a row added in the bundle gets a
   calc delta, then its table is removed.  _changes_to_actions used to look the presence maps up under the ROOT
   table name although they had moved to the defunct key, so the front-inserted restore named the new row and the
   undo replay failed.  With the lookup under the latest (defunct) key the new row is filtered out, no restore is
   emitted for it, and the undo list restores the start document. *)
Definition r1_events : list (event ZOps) :=
  [ Doc ZOps (BulkAddRecord ZOps nT [3] [(nA, [7])]);
    Calc ZOps nT nF [(3, (0, 7)); (1, (10, 11))];
    Doc ZOps (RemoveTable ZOps nT) ].

Example C01_regression_removed_table_new_row :
  exists s' out s'', run ZOps ex3_state r1_events = Ok (s', out) /\ s' = [] /\
    hd_error (o_undo ZOps out) = Some (BulkUpdateRecord ZOps nT [1] [(nF, [10])]) /\
    replay_doc ZOps (rev (o_undo ZOps out)) s' = Ok s'' /\ view ZOps s'' = view ZOps ex3_state.
Proof.
  eexists. eexists. eexists. split; [vm_compute; reflexivity|]. split; [reflexivity|]. split; [reflexivity|].
  split; vm_compute; reflexivity.
Qed.

(* R3: a cell written by a doc action of the bundle gets a calc delta (its `before` is the value just written),
   then its row is removed.  The restore is inserted at the FRONT of the undo list, so it is replayed last,
   after the undo of the write: the cell ends at the written value 5, not at its original 10. *)
Definition r3_events : list (event ZOps) :=
  [ Doc ZOps (BulkUpdateRecord ZOps nT [1] [(nA, [5])]);
    Calc ZOps nT nA [(1, (5, 1050))];
    Doc ZOps (BulkRemoveRecord ZOps nT [1]) ].

(* ... and the class of stage 3 excludes it exactly at the final check on the front-inserted restores *)
Example C01_refuted_witness_outside_class : bundle_ok3 ZOps ex3_state r3_events = false.
Proof. vm_compute. reflexivity. Qed.

Theorem C01_refuted_front_restore_written_cell :
  exists s es s' out s'' T C, wf_state ZOps s /\ run ZOps s es = Ok (s', out) /\
    replay_doc ZOps (rev (o_undo ZOps out)) s' = Ok s'' /\
    find_table ZOps s'' nT = Some T /\ find_col ZOps (t_cols ZOps T) nA = Some C /\
    col_get ZOps C 1 = 5 /\ ~ seq ZOps s'' s.
Proof.
  exists ex3_state, r3_events. eexists. eexists. eexists. eexists. eexists.
  split; [apply (wf_stateb_sound ZOps); vm_compute; reflexivity|].
  split; [vm_compute; reflexivity|]. split; [vm_compute; reflexivity|].
  split; [vm_compute; reflexivity|]. split; [vm_compute; reflexivity|]. split; [reflexivity|].
  intro H. specialize (H nT). cbn in H. destruct H as [_ H]. specialize (H nA). cbn in H.
  destruct H as [_ H]. destruct (H 1 (or_introl eq_refl)) as [[]|H1]. vm_compute in H1. discriminate.
Qed.

Lemma seq_cell : forall O s1 s2 t c r T1 C1 T2 C2,
  seq O s1 s2 -> find_table O s1 t = Some T1 -> find_col O (t_cols O T1) c = Some C1 ->
  find_table O s2 t = Some T2 -> find_col O (t_cols O T2) c = Some C2 -> In r (t_rows O T1) ->
  venc O (col_get O C1 r) (col_get O C2 r) = true.
Proof.
  intros O s1 s2 t c r T1 C1 T2 C2 H H1 H2 H3 H4 Hr. specialize (H t). rewrite H1, H3 in H. destruct H as [_ H].
  specialize (H c). rewrite H2, H4 in H. destruct H as [_ H]. destruct (H r Hr) as [[]|H5]. exact H5.
Qed.

(* R2: ModifyColumn turns a data column into a formula column and changes its type (Int -> Bool, cell 1).
   doModifyColumn leaves the conversion delta pending, so its restore is appended AFTER the ModifyColumn undo and
   replayed BEFORE it: the old value is written while the column still has the new type (1 becomes true). *)
Definition nBool : name := [66; 111; 111; 108].
Definition r2_types : typetable := [(nInt, (EInt 0, 0)); (nBool, (EBool false, 1))].
Definition r2_state : state (EOps r2_types) :=
  [mkTab (EOps r2_types) nT [1] [mkCol (EOps r2_types) nA ciData [(1, EInt 1)]]].
Definition r2_events : list (event (EOps r2_types)) :=
  [ Doc (EOps r2_types) (ModifyColumn (EOps r2_types) nT nA (mkMI (Some nBool) (Some true) (Some [36; 105; 100]) None));
    Calc (EOps r2_types) nT nA [(1, (EInt 1, EBool true))];
    Calc (EOps r2_types) nT nA [(1, (EBool true, EBool false))] ].

Definition r2_check : bool :=
  wf_stateb (EOps r2_types) r2_state &&
  match run (EOps r2_types) r2_state r2_events with
  | Ok (s', out) =>
      match replay_doc (EOps r2_types) (rev (o_undo (EOps r2_types) out)) s' with
      | Ok s'' =>
          match find_table (EOps r2_types) s'' nT with
          | Some T =>
              match find_col (EOps r2_types) (t_cols (EOps r2_types) T) nA with
              | Some C => zmem 1 (t_rows (EOps r2_types) T) && ev_same (col_get (EOps r2_types) C 1) (EBool true) &&
                          colinfo_eqb (c_info (EOps r2_types) C) ciData &&
                          negb (ev_enc (col_get (EOps r2_types) C 1) (EInt 1))
              | None => false
              end
          | None => false
          end
      | Err _ => false
      end
  | Err _ => false
  end.

Lemma r2_check_true : r2_check = true.
Proof. vm_compute. reflexivity. Qed.

Theorem C01_refuted_to_formula_type_change :
  exists s es s' out s'' T C, wf_state (EOps r2_types) s /\ run (EOps r2_types) s es = Ok (s', out) /\
    replay_doc (EOps r2_types) (rev (o_undo (EOps r2_types) out)) s' = Ok s'' /\
    find_table (EOps r2_types) s'' nT = Some T /\ find_col (EOps r2_types) (t_cols (EOps r2_types) T) nA = Some C /\
    ev_same (col_get (EOps r2_types) C 1) (EBool true) = true /\ c_info (EOps r2_types) C = ciData /\
    ~ seq (EOps r2_types) s'' s.
Proof.
  pose proof r2_check_true as H. unfold r2_check in H.
  apply andb_true_iff in H. destruct H as [Hwf H].
  destruct (run (EOps r2_types) r2_state r2_events) as [[s' out]|] eqn:Erun; [|discriminate].
  destruct (replay_doc (EOps r2_types) (rev (o_undo (EOps r2_types) out)) s') as [s''|] eqn:Erep; [|discriminate].
  destruct (find_table (EOps r2_types) s'' nT) as [T|] eqn:Eft; [|discriminate].
  destruct (find_col (EOps r2_types) (t_cols (EOps r2_types) T) nA) as [C|] eqn:Efc; [|discriminate].
  apply andb_true_iff in H. destruct H as [H H4]. apply andb_true_iff in H. destruct H as [H H3].
  apply andb_true_iff in H. destruct H as [H1 H2].
  exists r2_state, r2_events, s', out, s'', T, C.
  split; [apply (wf_stateb_sound (EOps r2_types)); exact Hwf|].
  split; [exact Erun|]. split; [exact Erep|]. split; [exact Eft|]. split; [exact Efc|]. split; [exact H2|].
  split; [apply colinfo_eqb_eq; exact H3|].
  intro Hs.
  pose proof (seq_cell (EOps r2_types) s'' r2_state nT nA 1 T C
                (mkTab (EOps r2_types) nT [1] [mkCol (EOps r2_types) nA ciData [(1, EInt 1)]])
                (mkCol (EOps r2_types) nA ciData [(1, EInt 1)]) Hs Eft Efc eq_refl eq_refl
                (proj1 (zmem_In _ _) H1)) as H5.
  change (col_get (EOps r2_types) (mkCol (EOps r2_types) nA ciData [(1, EInt 1)]) 1) with (EInt 1) in H5.
  change (venc (EOps r2_types)) with ev_enc in H5. rewrite H5 in H4. discriminate.
Qed.
