(* C25 -- more migration bodies proved total (see Props/C25_bodies.v for the setting): the migrations that add
   records or tables.  Each premise is the decidable check of the same name in Model/MigrateBodies.v, evaluated
   by the harness on every generated document just before the real migration runs on it. *)
From Coq Require Import ZArith Bool String List.
Import ListNotations.
Require Import Grist.Model.Migrate Grist.Model.MigrateSites Grist.Model.MigrateBodies.
Require Import Grist.Proofs.MigrateBodies_proofs Grist.Proofs.MigrateBodies2_proofs Grist.Props.C25_bodies.
Open Scope Z_scope.

(* 25: _grist_Filters from the fields' filters.  pre25: the fields have filter, colRef and parentId cells. *)
Theorem C25_m25_total : forall s, pre25 s = true -> migrates m25 s.
Proof. exact pre25_sound. Qed.

(* 26 / 30 / 40: a raw (record-card) view section per table.  pre_sec_common: string tableIds; every column
   record has a parentId, a string colId and a parentPos that is a number (not nan); the section row ids are
   ints; _grist_Views_section and _grist_Views_section_field have typed schemas (AddRecord / BulkAddRecord
   default the cells they do not give).  26 also needs hashable primaryViewId cells and named views; 30 and 40
   the summarySourceTable (and rawViewSectionRef) cells. *)
Theorem C25_m26_total : forall s, pre26 s = true -> migrates m26 s.
Proof. exact pre26_sound. Qed.
Theorem C25_m30_total : forall s, pre30 s = true -> migrates m30 s.
Proof. exact pre30_sound. Qed.
Theorem C25_m40_total : forall s, pre40 s = true -> migrates m40 s.
Proof. exact pre40_sound. Qed.

(* 28: ModifyColumn on the Attachments columns.  pre28: for every column record of type Attachments the table it
   belongs to has that column in its schema (metadata consistent with the user tables). *)
Theorem C25_m28_total : forall s, pre28 s = true -> migrates m28 s.
Proof. exact pre28_sound. Qed.

(* non-vacuity: a version-29 document with one summary table through migration 30 *)
Example C25_m30_example :
  let mk := fun c t => (c, mkci c t false []) in
  let s := mkTds
    [(T_TABLES, ([Some 1; Some 2], [(zs "tableId", [VStr (zs "T"); VStr (zs "T_summary")]); (zs "summarySourceTable", [VInt 0; VInt 1]);
                                    (zs "rawViewSectionRef", [VInt 0; VInt 0])]));
     (T_COLUMNS, ([Some 1; Some 2; Some 3],
        [(zs "parentId", [VInt 1; VInt 2; VInt 2]); (zs "colId", [VStr (zs "A"); VStr (zs "count"); VStr (zs "A")]);
         (zs "parentPos", [VFlt 4607182418800017408; VInt 3; VFlt 4611686018427387904])]));
     (T_SECTIONS, ([Some 4], [(zs "tableRef", [VInt 1]); (zs "parentId", [VInt 0]); (zs "parentKey", [VStr []]); (zs "title", [VStr []]);
                              (zs "defaultWidth", [VInt 0]); (zs "borderWidth", [VInt 0])]));
     (T_FIELDS, ([], [(zs "parentId", []); (zs "colRef", []); (zs "parentPos", []); (zs "width", [])]))]
    [(T_TABLES, []); (T_COLUMNS, []);
     (T_SECTIONS, [mk (zs "tableRef") (zs "Ref:_grist_Tables"); mk (zs "parentId") (zs "Ref:_grist_Views"); mk (zs "parentKey") (zs "Text");
                   mk (zs "title") (zs "Text"); mk (zs "defaultWidth") (zs "Int"); mk (zs "borderWidth") (zs "Int")]);
     (T_FIELDS, [mk (zs "parentId") (zs "Ref:_grist_Views_section"); mk (zs "colRef") (zs "Ref:_grist_Tables_column");
                 mk (zs "parentPos") (zs "PositionNumber"); mk (zs "width") (zs "Int")])] in
  pre30 s = true /\
  match m30 s with
  | Ok [AddRecord _ (Some 5) _; UpdateRecord _ (Some 2) _; BulkAddRecord _ [None; None] cols] =>
      lookup (zs "colRef") cols = Some [VInt 3; VInt 2]        (* sorted by parentPos: 2.0 < 3 *)
  | _ => False
  end.
Proof. split; vm_compute; reflexivity. Qed.
