(* C02 -- Emitted doc actions are a faithful persistence delta.
   Model: Grist.Model.StoredLog (Tds = table_data_set.TableDataSet; the engine-side effect of doc actions,
   calc deltas and flushes).  creation_actions / meta_doc / td_gen are regenerated from /repo on every run
   (GristGen.StoredLog_gen).  Statements only; the proofs are in Proofs/StoredLog_proofs.v.

   Hypotheses (all executable and evaluated on every recorded trace of the real engine):
     wf_doc d          table names distinct, no name starts with '-', every cell belongs to a row of its table;
     wf_events_b d es  (SC1) a doc action never writes or creates a cell that has a pending calc delta, row ids
                       added are positive and distinct, no name created starts with '-';
                       (SC2) a calc change of a cell without a pending delta starts from the cell's value, and its
                       row exists;  rollbacks only as segments of record additions and their removals (see below);
                       no failed doc action or creation event. *)
From Coq Require Import ZArith List Bool.
Import ListNotations.
Require Import Grist.Model.StoredLog Grist.Proofs.StoredLog_proofs GristGen.StoredLog_gen.
Require Import GristGen.StoredLogPy_gen Grist.Proofs.StoredLogPy_bridge.
Open Scope Z_scope.

(* Stage 1 (doc actions only): whenever DocActions accepts an action, TableDataSet accepts it too and both
   documents are the same afterwards. *)
Theorem C02_doc_actions_agree : forall td a d d',
  wf_doc d -> rows_cond (bulk_of a) = true -> eng_apply td a d = Ok d' -> tds_apply td a d = Ok d'.
Proof. intros td a d d' [Hnd _]. apply eng_tds_apply. exact Hnd. Qed.

(* One bundle: the engine's document after the bundle is exactly the replay of the bundle's stored actions on
   the document before it -- for every interleaving of doc actions (all 13 kinds, at any indirection level),
   calc changes, per-column flushes, prunes, and the final flush, including renames and removals of rows,
   columns and tables between a calc change and its flush. *)
Theorem C02_stored_is_delta : forall td rep d es d' o,
  wf_doc d -> wf_events_b td rep d es = true -> run_bundle td rep d es = Ok (d', o) ->
  tds_apply_all td (o_stored o) d = Ok d'.
Proof. intros td rep d es d' o H1 H2 H3. exact (proj1 (stored_is_delta rep td d es d' o H1 H2 H3)). Qed.

(* Both inclusions of the property: nothing in the engine without a stored action, nothing stored that the
   engine did not do -- the replayed document has exactly the engine's tables, rows and cells. *)
Corollary C02_same_tables_rows_cells : forall td rep d es d' o dr,
  wf_doc d -> wf_events_b td rep d es = true -> run_bundle td rep d es = Ok (d', o) ->
  tds_apply_all td (o_stored o) d = Ok dr ->
  (forall t, amem str_eqb t dr = amem str_eqb t d') /\
  (forall t r, InRow dr t r <-> InRow d' t r) /\
  (forall t c r v, InCell dr t c r v <-> InCell d' t c r v).
Proof.
  intros td rep d es d' o dr H1 H2 H3 H4. rewrite (C02_stored_is_delta td rep d es d' o H1 H2 H3) in H4.
  inversion H4; subst. repeat split; intros; assumption.
Qed.

(* Well-formedness is kept, so bundles compose. *)
Theorem C02_wf_preserved : forall td rep d es d' o,
  wf_doc d -> wf_events_b td rep d es = true -> run_bundle td rep d es = Ok (d', o) -> wf_doc d'.
Proof. intros td rep d es d' o H1 H2 H3. exact (proj2 (stored_is_delta rep td d es d' o H1 H2 H3)). Qed.

(* Whole histories, by induction over the bundles. *)
Theorem C02_history : forall td rep bs d d' os,
  wf_doc d -> wf_history_b td rep d bs = true -> run_history td rep d bs = Ok (d', os) ->
  tds_apply_all td (flat_map o_stored os) d = Ok d'.
Proof. intros td rep bs d d' os H1 H2 H3. exact (proj1 (history_is_delta rep td bs d d' os H1 H2 H3)). Qed.

(* From document creation: InitNewDoc's creation actions (regenerated from schema.schema_create_actions())
   replayed into an empty TableDataSet give the metadata tables the engine starts with ... *)
Theorem C02_creation_builds_meta : tds_apply_all td_gen creation_actions [] = Ok meta_doc.
Proof. vm_compute. reflexivity. Qed.

Theorem C02_meta_wf : wf_doc meta_doc.
Proof. apply wf_doc_b_ok. vm_compute. reflexivity. Qed.

(* ... so the stored stream of every bundle since InitNewDoc, replayed from nothing, yields the engine's
   document. *)
Theorem C02_history_from_InitNewDoc : forall rep bs d' os,
  wf_history_b td_gen rep meta_doc bs = true -> run_history td_gen rep meta_doc bs = Ok (d', os) ->
  tds_apply_all td_gen (creation_actions ++ flat_map o_stored os) [] = Ok d'.
Proof.
  intros rep bs d' os H1 H2. rewrite tds_apply_all_app. rewrite C02_creation_builds_meta.
  exact (C02_history td_gen rep bs meta_doc d' os C02_meta_wf H1 H2).
Qed.

(* ------------------------------------------------------------------------------------------------ *)
(* The small pure pieces of action_summary.py are not hand-modelled: harness/sl2v.py translates them from /repo on
   every run (GristGen.StoredLogPy_gen) and these theorems identify the translation with the functions the model
   (and therefore every theorem above) is written with. *)
Theorem C02_regenerated_names : forall n,
  defunct_name_py n = defunct_name n /\ is_defunct_py n = is_defunct n /\ root_name_py n = root_name n.
Proof. intro n. split; [apply defunct_name_bridge|split; [apply is_defunct_bridge|apply root_name_bridge]]. Qed.

Theorem C02_regenerated_label_renames : forall m before after n,
  add_rename_py m before after = add_rename before after m /\
  is_created_py m n = lr_is_created m n /\ original_name_py m n = lr_original_name m n.
Proof.
  intros. split; [apply add_rename_bridge|split; [apply is_created_bridge|apply original_name_bridge]].
Qed.

Theorem C02_regenerated_row_filters : forall tables t rows,
  filter_out_new_rows_py tables t rows = filter_out_new_rows tables t rows /\
  filter_out_gone_rows_py tables t rows = filter_out_gone_rows tables t rows.
Proof. intros. split; [apply filter_out_new_rows_bridge|apply filter_out_gone_rows_bridge]. Qed.

(* the row selection of _changes_to_actions (full_row_ids, defunct, row_ids_after), assembled from the generated
   pieces in the order the source has them (the connecting statements are compared as syntax by sl2v) *)
Theorem C02_regenerated_row_selection : forall S t c dl,
  full_row_ids_py dl = full_rows dl /\ defunct_py t c = (is_defunct t || is_defunct c) /\
  changes_to_stored_py S t c dl = changes_to_stored false S t c dl.
Proof. intros. split; [apply full_row_ids_bridge|split; [apply defunct_bridge|apply changes_to_stored_bridge]]. Qed.

(* ------------------------------------------------------------------------------------------------ *)
(* Without the side conditions the statement is false of the faithful model (and of the code: each trace
   below is the recorded trace of a real bundle, see harness/props/c02.py KNOWN_WITNESSES). *)

Definition C02_unconditional : Prop := forall td d es d' o,
  wf_doc d -> run_bundle td false d es = Ok (d', o) -> tds_apply_all td (o_stored o) d = Ok d'.

Definition tT : str := [84].  Definition cA : str := [65].  Definition cF : str := [70].
Definition tyAny : str := [65; 110; 121].
Definition td0 (ty : str) : V := 0.
Definition doc1 : doc := [(tT, mkTable [3] [(cA, mkCol tyAny [(3, 10)]); (cF, mkCol tyAny [(3, 20)])])].

Lemma doc1_wf : wf_doc doc1.
Proof. apply wf_doc_b_ok. vm_compute. reflexivity. Qed.

(* (a) a row is removed and added again with the same id while a formula cell of it has a pending delta
   (20 -> 22); its recomputed value (20) equals the delta's first `before`, so flush drops the row as
   unchanged although the re-added row holds the type default in the stored stream. *)
Definition trace_readd : list event :=
  [ EDoc (UpdateRecord tT 3 [(cA, 11)]) 0 []; ECalc tT cF [(3, (20, 22))];
    EDoc (RemoveRecord tT 3) 0 []; EDoc (AddRecord tT 3 [(cA, 10)]) 0 []; ECalc tT cF [(3, (0, 20))] ].

Theorem C02_refuted_stale_delta_after_readd : exists d es d' o,
  wf_doc d /\ run_bundle td0 false d es = Ok (d', o) /\ tds_apply_all td0 (o_stored o) d <> Ok d' /\
  wf_events_b td0 false d es = false.
Proof.
  exists doc1, trace_readd. eexists. eexists. split; [exact doc1_wf|]. split; [vm_compute; reflexivity|].
  split; [vm_compute; discriminate|vm_compute; reflexivity].
Qed.

(* (b) docactions.BulkAddRecord does not reject a repeated row id (one row in the engine, two in the replay)
   nor row id 0 (no row in the engine, one in the replay). *)
Theorem C02_refuted_repeated_row_id : exists d es d' o,
  wf_doc d /\ run_bundle td0 false d es = Ok (d', o) /\ tds_apply_all td0 (o_stored o) d <> Ok d' /\
  wf_events_b td0 false d es = false.
Proof.
  exists doc1, [EDoc (BulkAddRecord tT [7; 7] [(cA, [1; 2])]) 0 []]. eexists. eexists.
  split; [exact doc1_wf|]. split; [vm_compute; reflexivity|]. split; [vm_compute; discriminate|vm_compute; reflexivity].
Qed.

Theorem C02_refuted_row_id_zero : exists d es d' o,
  wf_doc d /\ run_bundle td0 false d es = Ok (d', o) /\ tds_apply_all td0 (o_stored o) d <> Ok d' /\
  wf_events_b td0 false d es = false.
Proof.
  exists doc1, [EDoc (AddRecord tT 0 [(cA, 1)]) 0 []]. eexists. eexists.
  split; [exact doc1_wf|]. split; [vm_compute; reflexivity|]. split; [vm_compute; discriminate|vm_compute; reflexivity].
Qed.

Theorem C02_refuted : ~ C02_unconditional.
Proof.
  intro H. destruct C02_refuted_stale_delta_after_readd as [d [es [d' [o [H1 [H2 [H3 _]]]]]]].
  apply H3. apply (H td0 d es d' o H1 H2).
Qed.

(* The repaired variant (notes/proposed_fixes/C02-stale-delta-after-readd.diff; `repaired := true` in the model):
   the trace that refutes the unconditional statement is inside the side conditions and replays exactly. *)
Example C02_repaired_readd :
  wf_events_b td0 true doc1 trace_readd = true /\
  match run_bundle td0 true doc1 trace_readd with
  | Ok (d', o) => tds_apply_all td0 (o_stored o) doc1 = Ok d' /\
                  o_stored o = [UpdateRecord tT 3 [(cA, 11)]; RemoveRecord tT 3; AddRecord tT 3 [(cA, 10)];
                                UpdateRecord tT 3 [(cF, 20)]]
  | Err _ => False
  end.
Proof. split; vm_compute; [reflexivity|split; reflexivity]. Qed.

(* Rollbacks inside a successful bundle (a formula whose side effects are undone: Engine._recompute_one_cell takes a
   checkpoint, the formula adds records through lookupOrAddDerived and then fails, _undo_to_checkpoint applies the
   undo actions as doc actions and trims stored/direct).  C02_stored_is_delta covers them: wf_events_b accepts a
   segment  ECheckpoint; record additions; their removals in reverse order; ERollback n  (n = the stored length at
   the checkpoint; added rows fresh and without pending deltas; no calc/flush inside the segment).  The proof uses
   the undo-exactness of that action pair: *)
Theorem C02_undo_exact_add_remove : forall td t rs cols d d1,
  wf_doc d -> rows_fresh rs = true -> colvals_ok rs cols = true ->
  eng_bulk td (BulkAddRecord t rs cols) d = Ok d1 -> eng_bulk td (BulkRemoveRecord t rs) d1 = Ok d.
Proof. exact add_remove_exact. Qed.

(* the recorded trace shape of  AddColumn T F "D.lookupOrAddDerived(A=$A).id + (1/0 if $A == 2 else 0)" *)
Example C02_rollback_segment :
  let tD := [68] in
  let d := [(tT, mkTable [1; 2] [(cA, mkCol tyAny [(1, 1); (2, 2)]); (cF, mkCol tyAny [(1, 0); (2, 0)])]);
            (tD, mkTable [] [(cA, mkCol tyAny [])])] in
  let es := [EDoc (AddRecord tD 1 [(cA, 1)]) 0 []; ECheckpoint; EDoc (AddRecord tD 2 [(cA, 2)]) 0 [];
             EDoc (RemoveRecord tD 2) 0 []; ERollback 1; ECalc tT cF [(1, (0, 1)); (2, (0, 9))]] in
  wf_events_b td0 false d es = true /\
  match run_bundle td0 false d es with
  | Ok (d', o) => tds_apply_all td0 (o_stored o) d = Ok d' /\
                  o_stored o = [AddRecord tD 1 [(cA, 1)]; BulkUpdateRecord tT [1; 2] [(cF, [1; 9])]]
  | Err _ => False
  end.
Proof. cbv zeta. split; vm_compute; [reflexivity|split; reflexivity]. Qed.

(* Not reached: rolled-back segments that contain other doc actions than record additions (their undo actions are
   not modelled here), or calc changes/flushes; wf_events_b is false on such a trace and the recorder reports it. *)
Definition C02_general_rollback_statement : Prop := forall td rep d es d' o,
  wf_doc d -> run_bundle td rep d es = Ok (d', o) ->
  (forall e, In e es -> match e with EDocFail _ _ | ECreate _ => False | _ => True end) ->
  (forall es1 n es2 s1, es = es1 ++ ERollback n :: es2 -> run td rep (init_st d) es1 = Ok s1 ->
     exists es0 s0, run td rep (init_st d) es0 = Ok s0 /\ s_stored s0 = firstn (Z.to_nat n) (s_stored s1) /\
                    s_doc s0 = s_doc s1) ->
  tds_apply_all td (o_stored o) d = Ok d'.

(* ------------------------------------------------------------------------------------------------ *)
(* Non-vacuity: AddColumn -> calc -> RenameColumn -> calc -> AddRecord -> calc -> indirect RemoveRecord ->
   RenameTable -> RemoveColumn of a formula column, all in one bundle. *)
Definition trace_ok : list event :=
  [ EDoc (AddColumn tT [71] (Some tyAny)) 0 []; ECalc tT [71] [(3, (0, 5))]; EDoc (RenameColumn tT [71] [72]) 0 [];
    ECalc tT [72] [(3, (5, 6))]; EDoc (AddRecord tT 4 [(cA, 1)]) 0 []; ECalc tT [72] [(4, (0, 9))];
    ECalc tT cF [(4, (0, 2))]; EDoc (RemoveRecord tT 3) 1 []; EDoc (RenameTable tT [85]) 0 [];
    EDoc (RemoveColumn [85] cF) 0 [(4, (2, 0))] ].

Example C02_nonvacuous :
  wf_doc doc1 /\ wf_events_b td0 false doc1 trace_ok = true /\
  run_bundle td0 false doc1 trace_ok =
    Ok ([([85], mkTable [4] [(cA, mkCol tyAny [(4, 1)]); ([72], mkCol tyAny [(4, 9)])])],
        mkOut [AddColumn tT [71] (Some tyAny); RenameColumn tT [71] [72]; AddRecord tT 4 [(cA, 1)];
               RemoveRecord tT 3; RenameTable tT [85]; RemoveColumn [85] cF; UpdateRecord [85] 4 [([72], 9)]]
              [true; true; true; false; true; true; false]).
Proof. split; [exact doc1_wf|]. split; vm_compute; reflexivity. Qed.
