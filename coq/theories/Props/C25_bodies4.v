(* C25 -- migration bodies proved total, fourth batch (see Props/C25_bodies.v for the setting). *)
From Coq Require Import ZArith Bool String List.
Import ListNotations.
Require Import Grist.Model.Migrate Grist.Model.MigrateSites Grist.Model.MigrateBodies.
Require Import Grist.Proofs.MigrateBodies_proofs Grist.Proofs.MigrateBodies4_proofs Grist.Proofs.MigrateBodies5_proofs
               Grist.Props.C25_bodies.
Open Scope Z_scope.

(* 1: Attachments / TabItems created when missing, schemaVersion added when missing, TabItems rewritten from the
   sorted set of (tableRef, parentId) of the sections.  pre1: _grist_DocInfo exists, the sections' tableRef /
   parentId cells are hashable numbers, an already existing _grist_TabItems has a typed schema. *)
Theorem C25_m1_total : forall s, pre1 s = true -> migrates m1 s.
Proof. exact pre1_sound. Qed.

(* 2: TabBar, TableViews, primaryViewId.  pre2: the sections' tableRef / parentId cells are hashable numbers, they
   have a parentKey, and the tableRef of a 'record' section is the id of a _grist_Tables record (a section
   without a table is the documented robustness case, not covered). *)
Theorem C25_m2_total : forall s, pre2 s = true -> migrates m2 s.
Proof. exact pre2_sound. Qed.

Example C25_m2_example :
  let s := mkTds
    [(T_SECTIONS, ([Some 1; Some 2; Some 3],
        [(zs "tableRef", [VInt 2; VInt 1; VInt 2]); (zs "parentId", [VInt 7; VInt 5; VInt 6]);
         (zs "parentKey", [VStr (zs "record"); VStr (zs "record"); VStr (zs "detail")])]));
     (T_TABLES, ([Some 1; Some 2], [(zs "tableId", [VStr (zs "A"); VStr (zs "B")])]))]
    [(T_SECTIONS, []); (T_TABLES, [])] in
  pre2 s = true /\
  match m2 s with
  | Ok [_; _; _; BulkUpdateRecord _ ids cols; ReplaceTableData _ _ bar; ReplaceTableData _ _ tv] =>
      ids = [Some 1; Some 2] /\ cols = [(zs "primaryViewId", [VInt 5; VInt 7])] /\
      bar = [(zs "viewRef", [VInt 5; VInt 6; VInt 7])] /\
      tv = [(zs "tableRef", [VInt 2]); (zs "viewRef", [VInt 6])]
  | _ => False
  end.
Proof. split; [vm_compute; reflexivity|]. vm_compute. repeat split; reflexivity. Qed.

(* 31: new-style names for summary tables (pick_table, re_sub: any functions).  Proved: the BODY returns under pre31
   (string tableIds; a non-empty summarySourceTable is hashable and names a table record; columns with a hashable
   parentId, string colId and formula, and a summarySourceCol; ACL resources with a hashable tableId).  That its
   RenameTable actions then apply needs freshness of the picked names (C21's subject) and is NOT proved here. *)
Theorem C25_m31_body_total : forall pick_table re_sub s,
  pre31 s = true -> exists acts, m31 pick_table re_sub s = Ok acts.
Proof. exact m31_body_total. Qed.
