(* C16 -- Renames never change formula results.
   Statements only; the model is Model/Renames.v (trees, documents, evaluation, rename_doc / ren; text, Replacer) and
   Model/RenamesPrint.v (concrete syntax); proofs are in Proofs/Renames_*_proofs.v.

   Tree level: `ren` renames in a formula exactly the names whose table the static inference knows (the role of astroid
   in codebuilder.parse_grist_names), `rename_doc` renames the schema and every formula.  Text level: the formula text
   with the name positions REPORTED by the name discovery (an oracle: premise `names_complete`), patched by the model of
   textbuilder.Replacer as UserActions._prepare_formula_renames drives it. *)
From Coq Require Import ZArith List Bool.
Import ListNotations.
Require Import Grist.Model.Renames Grist.Model.RenamesPrint.
Require Import Grist.Proofs.Renames_proofs Grist.Proofs.Renames_fresh_proofs Grist.Proofs.Renames_text_proofs.
Require Import Grist.Proofs.Renames_print_proofs Grist.Proofs.Renames_check_proofs Grist.Proofs.Renames_doc_proofs.
Require Import Grist.Lib.RenPrelude GristGen.Renames_gen Grist.Proofs.Renames_bridge.
Open Scope Z_scope.

(* ---- the property for an engine that ACCEPTS every rename, and why some renames must be rejected ----------------- *)
(* "Renaming column a of table T to any fresh name b leaves every formula value unchanged" -- with no column
   protected.  Until fix b90267a the engine accepted RenameColumn <summary table> group X; it now rejects a rename of
   `group` in a summary table (and of manualSort), and the harness checks that such a rejection leaves no trace. *)
Definition C16_statement_unprotected (d : doc) (T a b : name) : Prop :=
  fresh_col d T b -> doc_wf d ->
  forall fuel self row f, wf_static d self [] f = true -> ~ In (T, b) (col_uses d self [] f) ->
    evalS fuel (rename_doc id_tab (col1 T a b) d) self row (ren id_tab (col1 T a b) d self [] f)
    = evalS fuel d self row f.

(* a document with a table Tt(A, R: Ref Uu, F = $R.V, B = SUM([r.V for r in Uu.lookupRecords(K=$A, order_by="-V")])),
   a table Uu(K, V) and the summary table Ss of Uu by K (group, count = len($group)) *)
Definition nT : name := [84; 116].   Definition nU : name := [85; 117].   Definition nS : name := [83; 115].
Definition nA : name := [65].   Definition nB : name := [66].   Definition nR : name := [82].   Definition nF : name := [70].
Definition nK : name := [75].   Definition nV : name := [86].   Definition nZ : name := [90].   Definition nL : name := [76].
Definition nCount : name := [99; 111; 117; 110; 116].   Definition nr : name := [114].
Definition f_chain : expr := ECol (EDollar nR) nV.
Definition f_sum : expr :=
  EPrim1 1 (EComp (ECol (EVar nr) nV) nr (ELookup false nU (KCons nK (EDollar nA) KNil) [(true, nV)])).
Definition f_count : expr := EPrim1 0 (EDollar GROUP).
Definition ex_doc : doc :=
  [ mktab nT [mkcol nA CPlain None [(1, VStr [97]); (2, VStr [98])];
              mkcol nR (CRef nU) None [(1, VInt 2); (2, VInt 3)];
              mkcol nL (CRefList nU) None [(1, VList [VInt 1; VInt 2])];
              mkcol nF CPlain (Some f_chain) []; mkcol nB CPlain (Some f_sum) []] [1; 2] [];
    mktab nU [mkcol nK CPlain None [(1, VStr [97]); (2, VStr [98]); (3, VStr [97])];
              mkcol nV CPlain None [(1, VInt 10); (2, VInt 20); (3, VInt 30)]] [1; 2; 3] [];
    mktab nS [mkcol nK CPlain None [(1, VStr [97]); (2, VStr [98])];
              mkcol GROUP (CRefList nU) (Some EGroup) [];
              mkcol nCount CPlain (Some f_count) []] [1; 2] [(1, [1; 3]); (2, [2])] ].

(* WHY the name `group` must be protected (DESIGN 2.3, fixed by b90267a): a table is recognised as a summary table by
   its column NAMED group; if that column could be renamed, the group would become empty and count = len($group) would
   drop from 2 to 0.  The witness is a rename the model of the protection (protected_col) rejects. *)
Theorem C16_group_rename_must_be_rejected :
  exists d T a b, ~ C16_statement_unprotected d T a b /\ protected_col d T a = true.
Proof.
  exists ex_doc, nS, GROUP, nZ. split; [|vm_compute; reflexivity]. intro H.
  assert (Hfr : fresh_col ex_doc nS nZ) by (apply fresh_colb_sound; vm_compute; reflexivity).
  assert (Hwf : doc_wf ex_doc) by (apply doc_wfb_sound; vm_compute; reflexivity).
  specialize (H Hfr Hwf 5%nat nS 1 (EDollar nCount) eq_refl).
  assert (Hn : ~ In (nS, nZ) (col_uses ex_doc nS [] (EDollar nCount))) by (apply not_mem_pair; vm_compute; reflexivity).
  specialize (H Hn). vm_compute in H. discriminate H.
Qed.

(* ---- what holds: consistent renaming changes no value -------------------------------------------------------- *)
(* For every injective renaming of table names and (per table) of column names that does not rename a group-formula
   column (is_grp: the reference list computed by table.getSummarySourceGroup) from or to the name `group`, every document whose formulas use the supported reference forms (doc_wf), every such formula, every row and every
   amount of fuel (so also for circular programs): evaluating the renamed formula in the renamed document gives the
   same value, records carrying the renamed table name. *)
Theorem C16_rename_preserves_eval_general :
  forall (rn_tab : name -> name) (rn_col : name -> name -> name) prim1 prim2,
  (forall a b, name_eqb (rn_tab a) (rn_tab b) = name_eqb a b) ->
  (forall t a b, name_eqb (rn_col t a) (rn_col t b) = name_eqb a b) ->
  (forall f v, prim1 f (rn_val rn_tab v) = rn_res rn_tab (prim1 f v)) ->
  (forall f a b, prim2 f (rn_val rn_tab a) (rn_val rn_tab b) = rn_res rn_tab (prim2 f a b)) ->
  forall d,
  (forall tb co, In tb d -> In co (tcols tb) -> is_grp co = true ->
     name_eqb (rn_col (tname tb) (cname co)) GROUP = name_eqb (cname co) GROUP) ->
  doc_wf d -> forall fuel self row f, wf_static d self [] f = true ->
  eval_formula prim1 prim2 fuel (rename_doc rn_tab rn_col d) (rn_tab self) row (ren rn_tab rn_col d self [] f)
  = rn_res rn_tab (eval_formula prim1 prim2 fuel d self row f).
Proof. exact eval_formula_rn. Qed.

(* RenameColumn T a -> b with b fresh: no value changes, whatever the builtins are.  group_ok: the names `group`
   matter only if the renamed column carries the group formula (then neither a nor b may be `group` -- the engine
   rejects a = group in a summary table); every other column may be renamed from or to `group`. *)
Theorem C16_rename_preserves_eval : forall prim1 prim2 fuel d T a b self row f,
  doc_wf d -> wf_static d self [] f = true ->
  group_ok d T a b ->
  fresh_col d T b -> ~ In (T, b) (col_uses d self [] f) ->
  eval_formula prim1 prim2 fuel (rename_doc id_tab (col1 T a b) d) self row (ren id_tab (col1 T a b) d self [] f)
  = eval_formula prim1 prim2 fuel d self row f.
Proof. exact rename_column_preserves_eval_proof. Qed.

(* RenameTable a -> b with b fresh: values are the same up to the table name carried by records (swap a b), hence
   the same as observed when table names are dropped (a typed reference cell is encoded as its row id) *)
Theorem C16_rename_table_preserves_eval : forall fuel d a b self row f,
  doc_wf d -> wf_static d self [] f = true ->
  fresh_tab d b -> ~ In b (tab_uses f) -> self <> b ->
  evalS fuel (rename_doc (ren1 a b) id_col d) (ren1 a b self) row (ren (ren1 a b) id_col d self [] f)
  = rn_res (swap a b) (evalS fuel d self row f).
Proof.
  intros. apply rename_table_preserves_eval_proof; try assumption.
  - intros. apply std_prim1_nat.
  - intros. apply std_prim2_nat. apply swap_inj.
Qed.

Theorem C16_rename_table_observed : forall fuel d a b self row f,
  doc_wf d -> wf_static d self [] f = true ->
  fresh_tab d b -> ~ In b (tab_uses f) -> self <> b ->
  obs_res (evalS fuel (rename_doc (ren1 a b) id_col d) (ren1 a b self) row (ren (ren1 a b) id_col d self [] f))
  = obs_res (evalS fuel d self row f).
Proof. intros. rewrite C16_rename_table_preserves_eval by assumption. apply obs_res_rn. Qed.

(* ---- the whole document, and histories of renames -------------------------------------------------------------- *)
(* After rename_doc EVERY cell (every table, row, column; data or formula) evaluates as before, addressed by its new
   table and column names.  rename_ok: injective on table names and per table on column names, builtins blind to table
   names, group-formula columns keep / do not get the name `group`. *)
Theorem C16_whole_document : forall prim1 prim2 rt rc d,
  rename_ok prim1 prim2 rt rc d -> doc_wf d ->
  forall fuel t r c,
    cell prim1 prim2 (rename_doc rt rc d) fuel (rt t) r (rc t c) = rn_res rt (cell prim1 prim2 d fuel t r c).
Proof. exact whole_document_proof. Qed.

Theorem C16_rename_column_whole_document : forall prim1 prim2 d T a b,
  doc_wf d -> group_ok d T a b -> fresh_col d T b ->
  forall fuel t r c, (t, c) <> (T, b) ->
    cell prim1 prim2 (rename_doc id_tab (col1 T a b) d) fuel t r (col1 T a b t c) = cell prim1 prim2 d fuel t r c.
Proof. exact rename_column_whole_document_proof. Qed.

Theorem C16_rename_table_whole_document : forall d a b,
  doc_wf d -> fresh_tab d b ->
  forall fuel t r c, t <> b ->
    cell std_prim1 std_prim2 (rename_doc (ren1 a b) id_col d) fuel (ren1 a b t) r c
    = rn_res (swap a b) (cell std_prim1 std_prim2 d fuel t r c).
Proof. exact rename_table_whole_document_proof. Qed.

(* RenameTable AS THE ENGINE PERFORMS IT: reference columns to the table are retyped to Int and back, which converts
   their cells (engine_rename_table = retype_doc, then rename_doc).  With no alternative text in those columns it is
   the plain rename, and every cell is unchanged ... *)
Theorem C16_engine_rename_table : forall d a b,
  no_alt_text d a -> doc_wf d -> fresh_tab d b ->
  forall fuel t r c, t <> b ->
    cell std_prim1 std_prim2 (engine_rename_table a b d) fuel (ren1 a b t) r c
    = rn_res (swap a b) (cell std_prim1 std_prim2 d fuel t r c).
Proof. exact engine_rename_table_proof. Qed.

(* ... and the hypothesis is needed (known finding rename_table_reinterprets_alt_text_in_reference_columns): the
   alternative text "2" in a Ref:Uu cell reads as the text "2" before RenameTable Uu -> Zz and as the record Zz[2] after *)
Definition alt_doc : doc :=
  [ mktab nT [mkcol nR (CRef nU) None [(1, VStr [50])]; mkcol nF CPlain (Some (EDollar nR)) []] [1] [];
    mktab nU [mkcol nK CPlain None [(1, VStr [97]); (2, VStr [98])]] [1; 2] [] ].
Theorem C16_refuted_alt_text_reinterpreted :
  doc_wf alt_doc /\ fresh_tab alt_doc nZ /\ no_alt_textb alt_doc nU = false /\
  cell std_prim1 std_prim2 alt_doc 5 nT 1 nF = ROk (VStr [50]) /\
  cell std_prim1 std_prim2 (engine_rename_table nU nZ alt_doc) 5 nT 1 nF = ROk (VRec nZ 2) /\
  cell std_prim1 std_prim2 (rename_doc (ren1 nU nZ) id_col alt_doc) 5 nT 1 nF = ROk (VStr [50]).
Proof.
  split; [apply doc_wfb_sound; vm_compute; reflexivity|]. split; [apply fresh_tabb_sound; vm_compute; reflexivity|].
  repeat split; vm_compute; reflexivity.
Qed.

Example C16_engine_rename_table_example :
  no_alt_text ex_doc nU /\ doc_wf ex_doc /\ fresh_tab ex_doc nZ /\
  cell std_prim1 std_prim2 (engine_rename_table nU nZ ex_doc) 6 nT 1 nB = ROk (VInt 40).
Proof.
  split; [exact (no_alt_textb_sound ex_doc nU eq_refl)|]. split; [apply doc_wfb_sound; vm_compute; reflexivity|].
  split; [apply fresh_tabb_sound; vm_compute; reflexivity|]. vm_compute. reflexivity.
Qed.

(* A history: any sequence of renames, each acceptable for the document as it is when applied.  Every cell, addressed
   through the history (tab_after / col_after), has its original value (records carrying the final table names). *)
Theorem C16_history : forall prim1 prim2 rs d,
  history_ok prim1 prim2 rs d -> doc_wf d ->
  forall fuel t r c,
    cell prim1 prim2 (rename_all rs d) fuel (tab_after rs t) r (col_after rs t c)
    = res_after rs (cell prim1 prim2 d fuel t r c).
Proof. exact history_proof. Qed.

Theorem C16_history_observed : forall prim1 prim2 rs d,
  history_ok prim1 prim2 rs d -> doc_wf d ->
  forall fuel t r c,
    obs_res (cell prim1 prim2 (rename_all rs d) fuel (tab_after rs t) r (col_after rs t c))
    = obs_res (cell prim1 prim2 d fuel t r c).
Proof. intros. rewrite C16_history by assumption. apply obs_res_after. Qed.

(* non-vacuity: V -> Z in Uu, then table Uu -> Zz (named nZ too), then A -> group in Tt *)
Example C16_history_example :
  let rs := [(id_tab, colS nU nV nZ); (swap nU nZ, id_col); (id_tab, colS nT nA GROUP)] in
  history_ok std_prim1 std_prim2 rs ex_doc /\ doc_wf ex_doc /\
  tab_after rs nT = nT /\ col_after rs nT nB = nB /\ col_after rs nU nV = nZ /\ tab_after rs nU = nZ /\
  cell std_prim1 std_prim2 ex_doc 6 nT 1 nB = ROk (VInt 40) /\
  cell std_prim1 std_prim2 (rename_all rs ex_doc) 6 nT 1 nB = ROk (VInt 40).
Proof.
  cbv zeta. split.
  - split; [apply rename_ok_column; apply group_okb_sound; vm_compute; reflexivity|].
    split; [apply rename_ok_table|].
    split; [apply rename_ok_column; apply group_okb_sound; vm_compute; reflexivity | exact I].
  - split; [apply doc_wfb_sound; vm_compute; reflexivity|]. repeat split; vm_compute; reflexivity.
Qed.

(* non-vacuity: the example document and its formulas satisfy every hypothesis; V -> Z really rewrites F and B *)
Example C16_rename_preserves_eval_example :
  doc_wf ex_doc /\ wf_static ex_doc nT [] f_sum = true /\ group_ok ex_doc nU nV nZ /\ fresh_col ex_doc nU nZ /\
  ~ In (nU, nZ) (col_uses ex_doc nT [] f_sum) /\
  ren id_tab (col1 nU nV nZ) ex_doc nT [] f_sum
    = EPrim1 1 (EComp (ECol (EVar nr) nZ) nr (ELookup false nU (KCons nK (EDollar nA) KNil) [(true, nZ)])) /\
  evalS 5 ex_doc nT 1 f_sum = ROk (VInt 40) /\
  evalS 5 (rename_doc id_tab (col1 nU nV nZ) ex_doc) nT 1 (ren id_tab (col1 nU nV nZ) ex_doc nT [] f_sum) = ROk (VInt 40).
Proof.
  split; [apply doc_wfb_sound; vm_compute; reflexivity|]. split; [reflexivity|].
  split; [apply group_okb_sound; vm_compute; reflexivity|]. split; [apply fresh_colb_sound; vm_compute; reflexivity|].
  split; [apply not_mem_pair; vm_compute; reflexivity|]. repeat split; vm_compute; reflexivity.
Qed.

(* the side condition is needed only for group-formula columns: a plain column may be renamed TO `group` (here A of Tt),
   and a rename the engine's protection rejects (group of the summary table Ss) is exactly one that group_ok excludes *)
Example C16_group_ok_example :
  group_ok ex_doc nT nA GROUP /\ fresh_col ex_doc nT GROUP /\ protected_col ex_doc nT nA = false /\
  evalS 5 (rename_doc id_tab (col1 nT nA GROUP) ex_doc) nT 1 (ren id_tab (col1 nT nA GROUP) ex_doc nT [] f_sum)
    = evalS 5 ex_doc nT 1 f_sum /\
  group_okb ex_doc nS GROUP nZ = false /\ protected_col ex_doc nS GROUP = true.
Proof.
  split; [apply group_okb_sound; vm_compute; reflexivity|]. split; [apply fresh_colb_sound; vm_compute; reflexivity|].
  repeat split; vm_compute; reflexivity.
Qed.

Example C16_rename_table_example :
  fresh_tab ex_doc nZ /\ ~ In nZ (tab_uses f_sum) /\ nT <> nZ /\
  evalS 5 ex_doc nT 1 (EDollar nR) = ROk (VRec nU 2) /\
  evalS 5 (rename_doc (ren1 nU nZ) id_col ex_doc) nT 1 (ren (ren1 nU nZ) id_col ex_doc nT [] (EDollar nR)) = ROk (VRec nZ 2).
Proof.
  split; [apply fresh_tabb_sound; vm_compute; reflexivity|]. split; [apply not_mem_name; vm_compute; reflexivity|].
  split; [discriminate|]. split; vm_compute; reflexivity.
Qed.

(* The hypothesis "supported reference forms" (wf_static) is needed: a comprehension over a reference LIST COLUMN,
   [r.V for r in $L], is not followed by the name discovery (InferLookupComprehension / InferAllComprehension only
   cover lookups and .all); the formula keeps r.V and fails with AttributeError after V -> Z. *)
Definition f_gap : expr := EComp (ECol (EVar nr) nV) nr (EDollar nL).
Theorem C16_refuted_comprehension_over_reference_list :
  wf_static ex_doc nT [] f_gap = false /\
  ren id_tab (col1 nU nV nZ) ex_doc nT [] f_gap = f_gap /\
  evalS 5 ex_doc nT 1 f_gap = ROk (VList [VInt 10; VInt 20]) /\
  evalS 5 (rename_doc id_tab (col1 nU nV nZ) ex_doc) nT 1 (ren id_tab (col1 nU nV nZ) ex_doc nT [] f_gap) = RErr EATTR.
Proof. repeat split; vm_compute; reflexivity. Qed.

(* ---- round trips ------------------------------------------------------------------------------------------------ *)
(* rename (T, a) -> b, then (T, b) -> a, b fresh: every formula is restored *)
Theorem C16_rename_roundtrip : forall d T a b self f,
  fresh_col d T b -> ~ In (T, b) (col_uses d self [] f) ->
  ren id_tab (col1 T b a) (rename_doc id_tab (col1 T a b) d) self [] (ren id_tab (col1 T a b) d self [] f) = f.
Proof. exact rename_column_roundtrip_proof. Qed.

Theorem C16_rename_table_roundtrip : forall d a b self f,
  fresh_tab d b -> ~ In b (tab_uses f) -> self <> b ->
  ren (ren1 b a) id_col (rename_doc (ren1 a b) id_col d) (ren1 a b self) [] (ren (ren1 a b) id_col d self [] f) = f.
Proof. exact rename_table_roundtrip_proof. Qed.

(* ---- text level ---------------------------------------------------------------------------------------------------- *)
(* s: a formula text; l: its division into literal text and name tokens with the entity each token refers to (ground
   truth); reported: what parse_grist_names reports (the oracle).  Under names_complete the text produced by
   _prepare_formula_renames is s with exactly the renamed name tokens replaced: everything that is not a name token is
   kept in place, and each patched span [pos, pos + len old) held the old name. *)
Theorem C16_patches_touch_only_spans : forall rt rc s l reported,
  names_complete rt rc s l reported ->
  rename_text rt rc s reported = ROk (flatten (map (rn_seg rt rc) l)) /\
  (forall g, rn_seg rt rc g <> g -> exists t c, g = Nm t c) /\
  (forall o, In o (filter (renamed rt rc) (occs l 0)) ->
     slice s (fst (fst o)) (fst (fst o) + tlen (occ_text o)) = occ_text o).
Proof. exact patches_touch_only_spans_proof. Qed.

Theorem C16_rename_roundtrip_text : forall rt rc rt' rc' s l reported reported',
  names_complete rt rc s l reported ->
  names_complete rt' rc' (flatten (map (rn_seg rt rc) l)) (map (rn_seg rt rc) l) reported' ->
  (forall g, In g l -> rn_seg rt' rc' (rn_seg rt rc g) = g) ->
  rbind (rename_text rt rc s reported) (fun s' => rename_text rt' rc' s' reported') = ROk s.
Proof. exact rename_roundtrip_text_proof. Qed.

(* for a -> b and back the third premise holds when the token (T, b) does not occur *)
Theorem C16_roundtrip_tokens : forall T a b g, g <> Nm T (Some b) ->
  rn_seg id_tab (col1 T b a) (rn_seg id_tab (col1 T a b) g) = g.
Proof. exact seg_col_roundtrip. Qed.

(* Tree and text agree: patching the text of a printed formula at the reported positions gives the text of the
   renamed tree -- whose value, by the theorems above, is the value of the original. *)
Theorem C16_print_rename_commutes : forall rt rc,
  (forall a b, name_eqb (rt a) (rt b) = name_eqb a b) ->
  (forall t a b, name_eqb (rc t a) (rc t b) = name_eqb a b) ->
  forall d self f reported,
  names_complete rt rc (flatten (pr d self [] f)) (pr d self [] f) reported ->
  rename_text rt rc (flatten (pr d self [] f)) reported
  = ROk (flatten (pr (rename_doc rt rc d) (rt self) [] (ren rt rc d self [] f))).
Proof. exact print_rename_commutes_proof. Qed.

(* non-vacuity of names_complete: `$R.V` in table Tt, reported out of order as astroid's walk does *)
Example C16_names_complete_example :
  let s := flatten (pr ex_doc nT [] f_chain) in
  let reported := [(3, nU, Some nV); (1, nT, Some nR)] in
  names_complete id_tab (colS nU nV nZ) s (pr ex_doc nT [] f_chain) reported /\
  rename_text id_tab (colS nU nV nZ) s reported = ROk [36; 82; 46; 90].
Proof. cbv zeta. split; [split|]; vm_compute; reflexivity. Qed.

(* ---- the code itself: definitions translated from /repo on every run (GristGen.Renames_gen, harness/c16v.py) ------- *)
(* UserActions._prepare_formula_renames, as translated: for every formula column k it returns an update exactly when a
   name reported for k is being renamed, and the new text is the model's rename_text on the names reported for k. *)
Theorem C16_code_prepare_formula_renames : forall rt rc renames_get formula_of,
  (forall t c, renames_get t c = if renamed rt rc (0, t, c) then Some (new_text rt rc (0, t, c)) else None) ->
  (forall t c, renamed rt rc (0, t, c) = true -> new_text rt rc (0, t, c) <> []) ->
  forall names k, cols_nonempty names ->
  res_get (gen_prepare_formula_renames renames_get formula_of names) k
  = match filter (renamed rt rc) (reported_for k names) with
    | [] => None
    | _ => Some (rename_text rt rc (formula_of k) (reported_for k names))
    end.
Proof. exact prepare_bridge. Qed.

(* ... hence, when the discovery is complete for column k, the code writes the old text with exactly the renamed name
   tokens replaced *)
Theorem C16_code_patches_touch_only_spans : forall rt rc renames_get formula_of,
  (forall t c, renames_get t c = if renamed rt rc (0, t, c) then Some (new_text rt rc (0, t, c)) else None) ->
  (forall t c, renamed rt rc (0, t, c) = true -> new_text rt rc (0, t, c) <> []) ->
  forall names k l, cols_nonempty names ->
  names_complete rt rc (formula_of k) l (reported_for k names) ->
  filter (renamed rt rc) (reported_for k names) <> [] ->
  res_get (gen_prepare_formula_renames renames_get formula_of names) k = Some (ROk (flatten (map (rn_seg rt rc) l))).
Proof.
  intros rt rc rg fo H1 H2 names k l Hne Hnc Hsome. rewrite (prepare_bridge rt rc rg fo H1 H2 names k Hne).
  rewrite (rename_text_spec _ _ _ _ _ Hnc). destruct (filter (renamed rt rc) (reported_for k names)); [contradiction|reflexivity].
Qed.

(* GenCode.grist_names, as translated: what the name discovery reports for the current builder (nothing remembered) *)
Theorem C16_code_grist_names : forall (B N : Type) (parse : B -> N) (b : B), gen_grist_names parse b = parse b.
Proof. exact grist_names_bridge. Qed.

(* _adjust_one_column_update.add, as translated: every sister / group-by column is queued with its own update *)
Theorem C16_code_add_own_update : forall (C D : Type) (skip : C -> D -> D) cols v c d,
  In (c, d) (gen_add skip [] cols v) -> d = skip c v.
Proof. exact add_own_dict. Qed.

(* _updateTableRecords' rename map, as translated: exactly the tables whose id changes in this update *)
Theorem C16_code_table_renames_complete : forall (T V : Type) (tid : T -> name) (vt : V -> name) (diff : V -> name -> bool)
  pairs t v, In (t, v) pairs -> diff v (tid t) = true -> In (tid t, vt v) (gen_table_renames tid vt diff pairs).
Proof. exact table_renames_complete. Qed.

(* _updateColumnRecords' merge of the rewritten formulas, as translated: every column gets ITS OWN formula *)
Theorem C16_code_merge_own_formula : forall sorted us d k,
  upd_get (gen_merge_formulas sorted d us) k
  = match upd_get d k with
    | Some (Some g) => Some (Some g)
    | other => match assoc_formula (sorted us) k with Some f => Some (Some f) | None => other end
    end.
Proof. exact merge_own_formula. Qed.
