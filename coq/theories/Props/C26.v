(* C26 placeholder while the correspondence is being validated. *)
From Coq Require Import ZArith List Bool.
Import ListNotations.
Require Import Grist.Lib.PyPrelude Grist.Lib.PyMonad Grist.Model.RowIds Grist.Model.TempIds.
Open Scope Z_scope.
Example C26_smoke : translate (map_update [] [Some (-1); None; Some 3] [4; 5; 6]) [-1; 3; -2] = [4; 3; -2].
Proof. vm_compute. reflexivity. Qed.
