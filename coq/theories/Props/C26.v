(* C26 -- Temporary row ids resolve consistently within a bundle.
   Statements only; proofs are in Proofs/TempIds_proofs.v; the model is Model/TempIds.v.  Its deciding definitions (the new-rows map,
   translation, reference-value preparation and rejection, the row-id preparation of updates and removals) are
   proved equal to the code translated from /repo on every run (C26_code_*_is_model below); the bundle interpreter
   around them is hand-written and compared with the real engine by harness/props/c26.py.  Ids allocated by an add
   are Model/RowIds.alloc, which Props/C27.v proves equal to the loops translated from useractions.py.
   "The bundle leaves no trace" after a rejection is the engine's rollback (C04): [run_bundle] returns PyErr and
   the check observes on the implementation that every table is unchanged. *)
From Coq Require Import ZArith List Bool Lia.
Import ListNotations.
Require Import Grist.Lib.PyPrelude Grist.Lib.PyMonad Grist.Lib.PyTmp Grist.Model.RowIds Grist.Model.TempIds
               GristGen.TempIds_gen Grist.Proofs.TempIds_proofs Grist.Proofs.TempIds_bridge.
Open Scope Z_scope.

(* ---- tie: the code translated from /repo on every run (GristGen.TempIds_gen, harness/tmp2v.py) IS the model -- *)

Theorem C26_code_translate_is_model : forall summ t ids,
  translate_new_row_ids summ t ids = translate (summ t) ids.
Proof. exact gen_translate_is_translate. Qed.

Theorem C26_code_update_map_is_model : forall summ t temps finals,
  update_new_rows_map summ t temps finals = set_map summ t (map_update (summ t) temps finals).
Proof. exact gen_update_is_map_update. Qed.

Theorem C26_code_ref_prepare_is_model : forall summ self_t tgt vals,
  ref_prepare_new_values summ self_t tgt (map cell_of_ref vals) = lift_cells cell_of_ref (prepare_ref (summ tgt) vals).
Proof. exact gen_ref_prepare. Qed.

Theorem C26_code_reflist_prepare_is_model : forall summ self_t tgt vals,
  reflist_prepare_new_values summ self_t tgt (map cell_of_list vals)
  = lift_cells cell_of_list (prepare_reflist (summ tgt) vals).
Proof. exact gen_reflist_prepare. Qed.

(* doBulkRemoveRecord: the doc action and the reference clean-up both get the TRANSLATED ids (step, ARemove) *)
Theorem C26_code_remove_is_model : forall summ t ids,
  remove_row_ids summ t ids = (translate (summ t) ids, py_set (translate (summ t) ids)).
Proof. exact gen_remove_is_step. Qed.

(* doBulkUpdateRecord: translate, then keep the last occurrence of every row (step, AUpdate) *)
Theorem C26_code_update_is_model : forall (A : Type) summ t ids (cols : list (Z * list A)),
  Forall (fun c => length (snd c) = length ids) cols ->
  let ids0 := translate (summ t) ids in
  update_row_ids summ t ids cols = (keep_last ids0 ids0, map (fun c => (fst c, keep_last ids0 (snd c))) cols).
Proof. exact gen_update_is_step. Qed.

(* ---- the property on the generated code ----------------------------------------------------------------- *)

Theorem C26_code_translate_after_update : forall summ t temps finals i a f,
  nth_error temps i = Some (Some a) -> a < 0 -> nth_error finals i = Some f ->
  (forall j, (i < j)%nat -> nth_error temps j <> Some (Some a)) ->
  translate_new_row_ids (update_new_rows_map summ t temps finals) t [a] = [f].
Proof. exact code_translate_after_update. Qed.

Theorem C26_code_other_tables_untouched : forall summ t temps finals t' ids, t' <> t ->
  translate_new_row_ids (update_new_rows_map summ t temps finals) t' ids = translate_new_row_ids summ t' ids.
Proof. exact code_other_tables_untouched. Qed.

Theorem C26_code_ref_values_translated : forall summ self_t tgt vals cs, wf_tmap (summ tgt) ->
  ref_prepare_new_values summ self_t tgt (map cell_of_ref vals) = PyOk cs ->
  exists vs, cs = map cell_of_ref vs /\ Forall2 (ref_resolved (summ tgt)) vals vs.
Proof. exact code_ref_values_translated. Qed.

Theorem C26_code_reflist_values_translated : forall summ self_t tgt vals cs, wf_tmap (summ tgt) ->
  reflist_prepare_new_values summ self_t tgt (map cell_of_list vals) = PyOk cs ->
  exists vs, cs = map cell_of_list vs /\ Forall2 (list_resolved (summ tgt)) vals vs.
Proof. exact code_reflist_values_translated. Qed.

Theorem C26_code_unresolved_negative_rejected : forall summ self_t tgt vals z,
  In (RInt z) vals -> z < 0 -> lookup z (summ tgt) = None ->
  ref_prepare_new_values summ self_t tgt (map cell_of_ref vals) = PyErr PyValueError.
Proof. exact code_unresolved_negative_rejected. Qed.

Theorem C26_code_unresolved_negative_rejected_list : forall summ self_t tgt vals l z,
  In (LList l) vals -> In z l -> z < 0 -> lookup z (summ tgt) = None ->
  reflist_prepare_new_values summ self_t tgt (map cell_of_list vals) = PyErr PyValueError.
Proof. exact code_unresolved_negative_rejected_list. Qed.

Theorem C26_code_remove_uses_allocated_rows : forall summ t ids, wf_tmap (summ t) ->
  remove_row_ids summ t ids = remove_row_ids summ t (translate_new_row_ids summ t ids).
Proof. exact code_remove_uses_allocated_rows. Qed.

Theorem C26_code_update_uses_allocated_rows : forall (A : Type) summ t ids (cols : list (Z * list A)),
  wf_tmap (summ t) -> Forall (fun c => length (snd c) = length ids) cols ->
  update_row_ids summ t ids cols = update_row_ids summ t (translate_new_row_ids summ t ids) cols.
Proof. exact code_update_uses_allocated_rows. Qed.

(* non-vacuity of the tie: the generated code on concrete arguments *)
Example C26_code_nonvacuous :
  let summ := update_new_rows_map (fun _ => []) 1 [Some (-1); None; Some (-1); Some 7] [4; 5; 6; 7] in
  translate_new_row_ids summ 1 [-1; -2; 7] = [6; -2; 7] /\
  remove_row_ids summ 1 [-1; 6; 3] = ([6; 6; 3], [6; 3]) /\
  update_row_ids summ 1 [-1; 6; 3] [(0, [10; 20; 30])] = ([6; 3], [(0, [20; 30])]) /\
  ref_prepare_new_values summ 0 1 [CInt (-1); COther 1; CInt 2] = PyOk [CInt 6; COther 1; CInt 2] /\
  reflist_prepare_new_values summ 0 1 [CList [2; -1]; CNone] = PyOk [CList [2; 6]; CNone] /\
  reflist_prepare_new_values summ 0 1 [CList [2; -9]] = PyErr PyValueError.
Proof. repeat split; vm_compute; reflexivity. Qed.

(* ---- the mapping (ActionSummary.update_new_rows_map / translate_new_row_ids) ------------------------- *)

(* After update_new_rows_map(t, temps, finals): a temporary id at position i translates to finals[i], provided
   it does not occur again later in the same request (then the later occurrence wins, see below). *)
Theorem C26_translate_after_update : forall tm temps finals i a f,
  nth_error temps i = Some (Some a) -> a < 0 -> nth_error finals i = Some f ->
  (forall j, (i < j)%nat -> nth_error temps j <> Some (Some a)) ->
  translate (map_update tm temps finals) [a] = [f].
Proof. exact translate_after_update. Qed.

(* Every id that is not a temporary id of the request keeps its translation ... *)
Theorem C26_translate_frame : forall tm temps finals r,
  (r < 0 -> forall j, nth_error temps j <> Some (Some r)) ->
  tr (map_update tm temps finals) r = tr tm r.
Proof. exact translate_frame. Qed.

(* ... non-negative ids are never translated, and translating twice changes nothing (maps built by the engine
   hold negative keys and positive allocated ids: wf_tmap, an invariant by C26_bundle_maps_wellformed). *)
Theorem C26_nonnegative_untouched : forall tm r, wf_tmap tm -> 0 <= r -> tr tm r = r.
Proof. exact tr_nonneg. Qed.

Theorem C26_translate_idempotent : forall tm ids, wf_tmap tm ->
  translate tm (translate tm ids) = translate tm ids.
Proof. exact translate_idempotent. Qed.

(* The last mapping wins: a map built by any sequence of updates returns, for a, the final id of the LAST pair
   recorded for a -- within one request and across requests. *)
Theorem C26_last_mapping_wins : forall tm temps finals a f,
  lookup a (map_update tm temps finals) =
  match lookup a (rev (temp_pairs temps finals)) with Some v => Some v | None => lookup a tm end /\
  (lookup a (rev (temp_pairs temps finals)) = Some f <-> last_pair (temp_pairs temps finals) a f).
Proof.
  intros. split; [rewrite map_update_pairs; apply lookup_app|apply lookup_rev_last].
Qed.

(* Bundle level, for every bundle prefix the interpreter accepts: the map of table t holds for a exactly the id
   RETURNED for the last occurrence of a among the adds to t so far (read off actions and retValues) ... *)
Theorem C26_bundle_last_mapping_wins : forall s d acts st rets t a f,
  run s (mkstate d no_maps) acts = PyOk (st, rets) ->
  (lookup a (st_maps st t) = Some f <-> last_pair (bundle_pairs acts rets t) a f).
Proof. exact bundle_last_mapping_wins. Qed.

(* ... and nothing for an id no add to t used. *)
Theorem C26_bundle_unmapped : forall s d acts st rets t a,
  run s (mkstate d no_maps) acts = PyOk (st, rets) ->
  (lookup a (st_maps st t) = None <-> ~ In a (keys (bundle_pairs acts rets t))).
Proof. exact bundle_unmapped. Qed.

Theorem C26_bundle_maps_wellformed : forall s d acts st rets,
  run s (mkstate d no_maps) acts = PyOk (st, rets) -> wf_maps (st_maps st).
Proof. exact bundle_wf. Qed.

(* ---- row-id arguments of later actions ---------------------------------------------------------------- *)

(* Right after an accepted add, a temporary id of the request translates to the returned id at its position,
   and that id is a row of the table. *)
Theorem C26_add_then_translate : forall s st t ids rv lv st' out i a f,
  In t (map fst (st_doc st)) ->
  step s st (AAdd t ids rv lv) = PyOk (st', RetIds out) ->
  nth_error ids i = Some (Some a) -> a < 0 -> nth_error out i = Some f ->
  (forall j, (i < j)%nat -> nth_error ids j <> Some (Some a)) ->
  translate (st_maps st' t) [a] = [f] /\ row_in f (table_ids (get_table (st_doc st') t)) = true.
Proof. exact add_then_translate. Qed.

(* An update / a removal that names temporary ids acts exactly as the update / removal of the rows they stand
   for (in any state a bundle can reach). *)
Theorem C26_update_acts_on_allocated_rows : forall s st t ids rv lv, wf_maps (st_maps st) ->
  step s st (AUpdate t ids rv lv) = step s st (AUpdate t (translate (st_maps st t) ids) rv lv).
Proof. exact step_update_resolved. Qed.

Theorem C26_remove_acts_on_allocated_rows : forall s st t ids, wf_maps (st_maps st) ->
  step s st (ARemove t ids) = step s st (ARemove t (translate (st_maps st t) ids)).
Proof. exact step_remove_resolved. Qed.

(* ---- reference values (Reference[List]Column.prepare_new_values) ------------------------------------- *)

(* Accepted Ref values: each negative id became the id the TARGET table's map holds for it; everything else is
   unchanged.  RefList: the same for every element of every list. *)
Theorem C26_ref_values_translated : forall tm vals vs, wf_tmap tm ->
  prepare_ref tm vals = PyOk vs -> Forall2 (ref_resolved tm) vals vs.
Proof. exact prepare_ref_ok. Qed.

Theorem C26_reflist_values_translated : forall tm vals vs, wf_tmap tm ->
  prepare_reflist tm vals = PyOk vs -> Forall2 (list_resolved tm) vals vs.
Proof. exact prepare_reflist_ok. Qed.

(* A negative reference id that the target table's map does not hold is rejected ... *)
Theorem C26_unresolved_negative_rejected : forall tm vals z,
  In (RInt z) vals -> z < 0 -> lookup z tm = None -> prepare_ref tm vals = PyErr PyValueError.
Proof. exact prepare_ref_rejects. Qed.

Theorem C26_unresolved_negative_rejected_list : forall tm vals l z,
  In (LList l) vals -> In z l -> z < 0 -> lookup z tm = None -> prepare_reflist tm vals = PyErr PyValueError.
Proof. exact prepare_reflist_rejects. Qed.

(* ... nothing else is, and no negative id is ever stored. *)
Theorem C26_only_unresolved_rejected : forall tm vals e, wf_tmap tm ->
  prepare_ref tm vals = PyErr e ->
  e = PyValueError /\ exists z, In (RInt z) vals /\ z < 0 /\ lookup z tm = None.
Proof. exact prepare_ref_rejects_only_unresolved. Qed.

Theorem C26_only_unresolved_rejected_list : forall tm vals e, wf_tmap tm ->
  prepare_reflist tm vals = PyErr e ->
  e = PyValueError /\ exists l z, In (LList l) vals /\ In z l /\ z < 0 /\ lookup z tm = None.
Proof. exact prepare_reflist_rejects_only_unresolved. Qed.

Theorem C26_no_negative_stored : forall tm,
  (forall vals vs z, prepare_ref tm vals = PyOk vs -> In (RInt z) vs -> 0 <= z) /\
  (forall vals vs l z, prepare_reflist tm vals = PyOk vs -> In (LList l) vs -> In z l -> 0 <= z).
Proof. intros tm. split; [apply prepare_ref_no_negative|apply prepare_reflist_no_negative]. Qed.

(* ---- non-vacuity -------------------------------------------------------------------------------------- *)

(* the bundle probed in the design phase: T1 gets rows -1,-2 -> 4,5; T0 row -1 refers to them (Ref -1, RefList
   [-2,-1,2]); T0 row -1 is updated; T1 row -2 is removed again (and drops out of the RefList) *)
Example C26_bundle_nonvacuous :
  let s := [(0, (1, 1)); (1, (1, 0)); (2, (0, 0))] in
  let d := [(0, [mkrow 1 (RInt 0) LNone; mkrow 2 (RInt 0) LNone]);
            (1, [mkrow 1 (RInt 0) LNone; mkrow 2 (RInt 0) LNone; mkrow 3 (RInt 0) LNone]); (2, [])] in
  run_bundle s d [AAdd 1 [Some (-1); Some (-2)] None None;
                  AAdd 0 [Some (-1)] (Some [RInt (-1)]) (Some [LList [-2; -1; 2]]);
                  AUpdate 0 [-1] None None;
                  ARemove 1 [-2]]
  = PyOk ([(0, [mkrow 1 (RInt 0) LNone; mkrow 2 (RInt 0) LNone; mkrow 3 (RInt 4) (LList [4; 2])]);
           (1, [mkrow 1 (RInt 0) LNone; mkrow 2 (RInt 0) LNone; mkrow 3 (RInt 0) LNone; mkrow 4 (RInt 0) LNone]);
           (2, [])],
          [RetIds [4; 5]; RetIds [3]; RetNone; RetNone]).
Proof. vm_compute. reflexivity. Qed.

(* hypotheses of C26_translate_after_update / last mapping wins: -1 occurs twice, the later position wins *)
Example C26_last_wins_nonvacuous :
  translate (map_update [(-1, 9)] [Some (-1); None; Some (-1); Some 7] [4; 5; 6; 7]) [-1; -2; 7] = [6; -2; 7] /\
  wf_tmap (map_update [(-1, 9)] [Some (-1); None; Some (-1); Some 7] [4; 5; 6; 7]).
Proof. split; [vm_compute; reflexivity|]. vm_compute. repeat constructor; cbn; lia. Qed.

(* an unresolved negative reference rejects the whole bundle; a temp id of ANOTHER table does not resolve *)
Example C26_rejects_nonvacuous :
  let s := [(0, (1, 1)); (1, (1, 0)); (2, (0, 0))] in
  let d := [(0, [mkrow 1 (RInt 0) LNone]); (1, [mkrow 1 (RInt 0) LNone]); (2, [])] in
  run_bundle s d [AAdd 0 [None] (Some [RInt (-5)]) None] = PyErr PyValueError /\
  run_bundle s d [AAdd 0 [Some (-5)] None None; AAdd 0 [None] (Some [RInt (-5)]) None] = PyErr PyValueError /\
  run_bundle s d [AAdd 0 [None] None (Some [LList [1; -5]])] = PyErr PyValueError /\
  run_bundle s d [AUpdate 0 [-5] None None] = PyErr PyAssertionError.
Proof. repeat split; vm_compute; reflexivity. Qed.

(* since fix 060dc6b an update that names a row twice keeps the last occurrence only: the earlier value (here an
   unresolved -8) is overridden inside the action and is neither stored nor checked *)
Example C26_repeated_row_keeps_last :
  let s := [(0, (0, 0)); (1, (0, 2)); (2, (2, 1))] in
  let d := [(0, []); (1, []); (2, [mkrow 1 (RInt 0) LNone; mkrow 6 (RInt 0) LNone])] in
  run_bundle s d [AUpdate 2 [1; 1] (Some [RInt (-8); RInt 6]) None]
  = PyOk ([(0, []); (1, []); (2, [mkrow 1 (RInt 6) LNone; mkrow 6 (RInt 0) LNone])], [RetNone]) /\
  run_bundle s d [AUpdate 2 [1; 1] (Some [RInt 6; RInt (-8)]) None] = PyErr PyValueError.
Proof. split; vm_compute; reflexivity. Qed.
