(* C31 -- Actions are marked direct only when the user asked for them.
   Model: Grist.Model.StoredLog (events carry the indirection level recorded at UserActions._do_doc_action).
   Statements only; the proofs are in Proofs/StoredLog_proofs.v. *)
From Coq Require Import ZArith List Bool.
Import ListNotations.
Require Import Grist.Model.StoredLog Grist.Proofs.StoredLog_proofs.
Open Scope Z_scope.

(* stored and direct have the same length at every point of every event sequence the model accepts: after
   doc actions at any level, failed doc actions, creation actions, calc changes, per-column and final flushes,
   prunes, and rollback trimming. *)
Theorem C31_direct_parallel : forall td rep d es1 es2 s,
  run td rep (init_st d) (es1 ++ es2) = Ok s ->
  exists s1, run td rep (init_st d) es1 = Ok s1 /\
             length (s_stored s1) = length (s_direct s1) /\ length (s_stored s) = length (s_direct s).
Proof. intros td rep. exact (direct_parallel rep td). Qed.

(* ... and for every interleaving at all of the four ways the engine touches the two lists (this covers
   bundles that fail half-way, whose doc actions the document model may not accept). *)
Theorem C31_direct_parallel_log : forall es,
  length (fst (lrun es ([], []))) = length (snd (lrun es ([], []))).
Proof. intro es. apply lrun_parallel. reflexivity. Qed.

(* every step of the full model is one of those four list operations, or leaves both lists alone *)
Theorem C31_steps_are_log_steps : forall td rep e s s',
  step td rep e s = Ok s' ->
  (s_stored s', s_direct s') = (s_stored s, s_direct s) \/
  exists le, lstep le (s_stored s, s_direct s) = (s_stored s', s_direct s') /\
    match e with
    | EDoc a lvl _ | EDocFail a lvl => le = LAppend a lvl
    | ECreate a => le = LCreate a
    | EFlushCol _ _ | EFlushAll => exists acts, le = LFlush acts
    | ERollback n => le = LTrim n
    | _ => False
    end.
Proof. intros td rep. exact (step_log rep td). Qed.

(* every action appended by a flush (per column or final) is non-direct, and a flush appends only *)
Theorem C31_calc_flush_nondirect : forall td rep e s s',
  (e = EFlushAll \/ exists t c, e = EFlushCol t c) -> step td rep e s = Ok s' ->
  exists acts, s_stored s' = s_stored s ++ acts /\ s_direct s' = s_direct s ++ repeat false (length acts).
Proof. intros td rep. exact (calc_flush_nondirect rep td). Qed.

(* a doc action recorded at indirection level > 0 is non-direct; at level 0 it is direct *)
Theorem C31_indirect_context_nondirect : forall td rep a lvl pre s s',
  0 < lvl -> step td rep (EDoc a lvl pre) s = Ok s' ->
  s_stored s' = s_stored s ++ [a] /\ s_direct s' = s_direct s ++ [false].
Proof. intros td rep. exact (indirect_context_nondirect rep td). Qed.

Theorem C31_doc_event_flag : forall td rep a lvl pre s s',
  step td rep (EDoc a lvl pre) s = Ok s' ->
  s_stored s' = s_stored s ++ [a] /\ s_direct s' = s_direct s ++ [lvl =? 0].
Proof. intros td rep. exact (doc_event_flag rep td). Qed.

(* Actions of a class that is only ever issued inside an indirect context (in the code: everything that maintains
   summary-table rows) are never direct -- neither the ones recorded as doc actions nor the ones flushes append,
   also after rollback trimming.  The hypothesis is about the levels useractions.py chooses; the classifier of
   harness/props/c31.py checks it on the implementation. *)
Definition on_tables (is_summary : str -> bool) (a : action) : bool := is_summary (action_table a).

Theorem C31_class_nondirect_partial : forall td rep P d es s,
  Forall (event_ok P) es -> run td rep (init_st d) es = Ok s ->
  forall a dir, In (a, dir) (combine (s_stored s) (s_direct s)) -> P a = true -> dir = false.
Proof.
  intros td rep P d es s Hok Hrun a dir Hin HP.
  assert (H : flags_ok P (s_stored s, s_direct s)).
  { apply (class_nondirect rep td P es (init_st d) s); try assumption; [reflexivity|constructor]. }
  unfold flags_ok in H. rewrite Forall_forall in H. exact (H (a, dir) Hin HP).
Qed.

(* Regression example (finding C31-summary-ref-cleanup-direct, repaired in /repo by 0419780): the recorded trace of
   [RemoveRecord T 1] on T(A, parent: Ref:T) summarised by `parent`.  The reference clean-up of the summary table's
   group-by column is now issued at level 1, so the trace satisfies the hypothesis of C31_class_nondirect_partial for
   the class "actions on the summary table" and no such action is direct.  (Before the repair that event was
   recorded at level 0, which is exactly what the hypothesis excludes.) *)
Example C31_regression_summary_ref_cleanup :
  let tT := [84] in let tS := [84; 95; 115] in let cA := [65] in let cP := [112] in let ty := [65; 110; 121] in
  let d := [(tT, mkTable [1; 2; 3] [(cA, mkCol ty [(1, 1); (2, 2); (3, 3)]); (cP, mkCol ty [(1, 0); (2, 1); (3, 1)])]);
            (tS, mkTable [1; 2] [(cP, mkCol ty [(1, 0); (2, 1)])])] in
  let es := [EDoc (RemoveRecord tT 1) 0 []; EDoc (BulkUpdateRecord tT [2; 3] [(cP, [0; 0])]) 0 [];
             EDoc (UpdateRecord tS 2 [(cP, 0)]) 1 []; EDoc (RemoveRecord tS 2) 1 []] in
  Forall (event_ok (on_tables (fun t => str_eqb t tS))) es /\
  match run (fun _ => 0) false (init_st d) es with
  | Ok s => s_direct s = [true; true; false; false]
  | Err _ => False
  end.
Proof.
  cbv zeta. split.
  - repeat constructor; cbn; intro H; try discriminate; reflexivity.
  - vm_compute. reflexivity.
Qed.

(* Non-vacuity: a user update (direct), a summary-row addition at level 1 (non-direct), a calc flush
   (non-direct), then a rollback to length 1. *)
Example C31_nonvacuous :
  let tT := [84] in let cA := [65] in let ty := [65; 110; 121] in
  let d := [(tT, mkTable [3] [(cA, mkCol ty [(3, 10)])])] in
  match run (fun _ => 0) false (init_st d)
            [EDoc (UpdateRecord tT 3 [(cA, 11)]) 0 []; EDoc (AddRecord tT 4 [(cA, 1)]) 1 [];
             ECalc tT cA [(4, (1, 2))]; EFlushAll; ERollback 1] with
  | Ok s => s_stored s = [UpdateRecord tT 3 [(cA, 11)]] /\ s_direct s = [true]
  | Err _ => False
  end /\
  match run (fun _ => 0) false (init_st d)
            [EDoc (UpdateRecord tT 3 [(cA, 11)]) 0 []; EDoc (AddRecord tT 4 [(cA, 1)]) 1 [];
             ECalc tT cA [(4, (1, 2))]; EFlushAll] with
  | Ok s => s_direct s = [true; false; false]
  | Err _ => False
  end.
Proof. cbv zeta. split; vm_compute; [split; reflexivity|reflexivity]. Qed.
