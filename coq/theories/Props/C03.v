(* C03 -- Redo after undo reproduces the post-bundle state.
   Kernel K1 (Model/ActionLog.v); ApplyDocActions replays the stored doc actions through DocActions.
   Statements only; proofs in Proofs/ActionLog_proofs.v. *)
From Coq Require Import ZArith List Bool.
Import ListNotations.
Require Import Grist.Model.ActionLog Grist.Model.ActionLogEnc Grist.Proofs.ActionLog_proofs Grist.Proofs.ActionLog_calc
  Grist.Proofs.ActionLog_stage3 Grist.Proofs.ActionLogEnc_laws
  Grist.Model.DocEffects GristGen.DocActions_gen Grist.Proofs.DocActions_bridge Grist.Props.C01.
Open Scope Z_scope.

(* Full statement, for a class `wf_events` of event lists: after the bundle has been undone, replaying its
   stored doc actions gives back the document the bundle produced (same tables, schema, row ids; cells equal
   up to encoding). *)
Definition C03_statement (O : ValOps) (wf_events : state O -> list (event O) -> Prop) : Prop :=
  forall s es s' out s0,
    wf_state O s -> wf_events s es -> run O s es = Ok (s', out) ->
    replay_doc O (rev (o_undo O out)) s' = Ok s0 ->
    exists s1, replay_doc O (o_stored O out) s0 = Ok s1 /\ seq O s1 s'.

(* Stage 1: bundles of doc actions (see C01.doc_events). *)
Theorem C03_redo_doc_partial : forall O, ValLaws O -> C03_statement O (doc_events O).
Proof.
  intros O L s es s' out s0 Hwf [acts [-> Hl]] H Hu.
  exact (doc_bundle_redo O L s acts s' out s0 Hwf Hl H Hu).
Qed.

(* Stages 1+2: doc actions, then calc deltas (formula recalculation), then the flush (C01.docs_then_calcs, a
   computable check evaluated on every recorded trace).  The stored list is the doc actions followed by one update
   per recalculated column carrying the `after` values of the rows whose encoding changed; replayed on the undone
   document it gives the document the bundle produced. *)
Theorem C03_redo_docs_calcs_partial : forall O, ValLaws O -> C03_statement O (docs_then_calcs O).
Proof. intros O L s es s' out s0 _ Hok H Hu. exact (bundle_ok2_redo O L s es s' out s0 Hok H Hu). Qed.

(* ... for the encoded values of the event-trace tie (see C01_undo_restores_encoded_values_partial). *)
Theorem C03_redo_encoded_values_partial : forall tt, tt_ok tt = true ->
  C03_statement (EOps tt) (docs_then_calcs (EOps tt)).
Proof. intros tt H. apply C03_redo_docs_calcs_partial. apply EOps_laws. exact H. Qed.

(* The stored actions of a sequence of doc actions replay to an equivalent document from any equivalent start
   (the lemma behind redo; also what a collaborator applying the same actions relies on). *)
Theorem C03_replay_congruence : forall O, ValLaws O -> forall acts s1 s2 s1',
  seq O s1 s2 -> replay_doc O acts s1 = Ok s1' -> exists s2', replay_doc O acts s2 = Ok s2' /\ seq O s1' s2'.
Proof. intros O L. exact (replay_doc_cong_seq O L). Qed.

Example C03_doc_nonvacuous :
  exists s' out s0 s1,
    run ZOps ex_state (map (Doc ZOps) ex_acts) = Ok (s', out) /\
    replay_doc ZOps (rev (o_undo ZOps out)) s' = Ok s0 /\
    replay_doc ZOps (o_stored ZOps out) s0 = Ok s1 /\ s1 = s' /\ length (o_stored ZOps out) = 8%nat.
Proof.
  eexists. eexists. eexists. eexists. split; [vm_compute; reflexivity|].
  split; [vm_compute; reflexivity|]. split; [vm_compute; reflexivity|]. split; reflexivity.
Qed.

Example C03_docs_calcs_nonvacuous :
  bundle_ok2 ZOps ex_state ex2_events = true /\
  exists s' out s0 s1,
    run ZOps ex_state ex2_events = Ok (s', out) /\
    o_stored ZOps out = [AddColumn ZOps nT nF ciFormula; BulkAddRecord ZOps nT [3] [(nA, [30])];
                         BulkUpdateRecord ZOps nT [1] [(nA, [11])];
                         BulkUpdateRecord ZOps nT [1; 2; 3] [(nF, [12; 20; 30])]] /\
    replay_doc ZOps (rev (o_undo ZOps out)) s' = Ok s0 /\
    replay_doc ZOps (o_stored ZOps out) s0 = Ok s1 /\ view ZOps s1 = view ZOps s'.
Proof.
  split; [vm_compute; reflexivity|]. eexists. eexists. eexists. eexists.
  split; [vm_compute; reflexivity|]. split; [reflexivity|]. split; [vm_compute; reflexivity|].
  split; vm_compute; reflexivity.
Qed.

(* Stage 3 (see C01_undo_restores_stage3_partial for the class `bundle_ok3` and the proof): calc deltas interleaved with
   renames, any lossless doc action that keeps off the pending cells, removals of records / data columns / tables with
   pending deltas, and the ModifyColumn / conversion delta / per-column flush triples of doModifyColumn.  The stored list is the doc actions in order, the stored update of each per-column
   flush right after its ModifyColumn, and the updates of the final flush under the latest names; replayed on the
   undone document it reproduces the post-bundle document. *)
Theorem C03_redo_stage3_partial : forall O, ValLaws O -> C03_statement O (stage3_events O).
Proof. intros O L s es s' out s0 _ Hok H Hu. exact (bundle_ok3_redo O L s es s' out s0 Hok H Hu). Qed.

Theorem C03_redo_calc_then_rename_partial : forall O, ValLaws O -> C03_statement O (docs_calcs_renames O).
Proof. exact C03_redo_stage3_partial. Qed.

Theorem C03_redo_modify_flush_partial : forall O, ValLaws O -> C03_statement O (stage3_events O).
Proof. exact C03_redo_stage3_partial. Qed.

Theorem C03_redo_calc_then_remove_partial : forall O, ValLaws O -> C03_statement O (stage3_events O).
Proof. exact C03_redo_stage3_partial. Qed.

Theorem C03_redo_interleavings_partial : forall O, ValLaws O -> C03_statement O (stage3_events O).
Proof. exact C03_redo_stage3_partial. Qed.

Theorem C03_redo_calc_then_rename_encoded_partial : forall tt, tt_ok tt = true ->
  C03_statement (EOps tt) (stage3_events (EOps tt)).
Proof. intros tt H. apply C03_redo_stage3_partial. apply EOps_laws. exact H. Qed.

Example C03_calc_then_rename_nonvacuous :
  bundle_ok3 ZOps ex3_state ex5_events = true /\
  exists s' out s0 s1,
    run ZOps ex3_state ex5_events = Ok (s', out) /\
    o_stored ZOps out = [BulkUpdateRecord ZOps nT [1] [(nA, [11])]; RenameColumn ZOps nT nF [71];
                         RenameTable ZOps nT [85]; BulkUpdateRecord ZOps [85] [1; 2] [([71], [11; 21])]] /\
    replay_doc ZOps (rev (o_undo ZOps out)) s' = Ok s0 /\
    replay_doc ZOps (o_stored ZOps out) s0 = Ok s1 /\ view ZOps s1 = view ZOps s'.
Proof.
  split; [vm_compute; reflexivity|]. eexists. eexists. eexists. eexists.
  split; [vm_compute; reflexivity|]. split; [reflexivity|]. split; [vm_compute; reflexivity|].
  split; vm_compute; reflexivity.
Qed.

Example C03_modify_flush_nonvacuous :
  bundle_ok3 ZOps ex3_state ex6_events = true /\
  exists s' out s0 s1,
    run ZOps ex3_state ex6_events = Ok (s', out) /\
    o_stored ZOps out = [BulkUpdateRecord ZOps nT [2] [(nA, [21])];
                         ModifyColumn ZOps nT nA (mkMI (Some nText) None None None);
                         BulkUpdateRecord ZOps nT [1] [(nA, [11])];
                         RenameTable ZOps nT [85]; BulkUpdateRecord ZOps [85] [2] [(nF, [21])]] /\
    replay_doc ZOps (rev (o_undo ZOps out)) s' = Ok s0 /\
    replay_doc ZOps (o_stored ZOps out) s0 = Ok s1 /\ view ZOps s1 = view ZOps s'.
Proof.
  split; [vm_compute; reflexivity|]. eexists. eexists. eexists. eexists.
  split; [vm_compute; reflexivity|]. split; [reflexivity|]. split; [vm_compute; reflexivity|].
  split; vm_compute; reflexivity.
Qed.

Example C03_remove_record_nonvacuous :
  bundle_ok3 ZOps ex3_state ex8_events = true /\
  exists s' out s0 s1,
    run ZOps ex3_state ex8_events = Ok (s', out) /\
    o_stored ZOps out = [BulkUpdateRecord ZOps nT [2] [(nA, [21])]; BulkRemoveRecord ZOps nT [2]] /\
    replay_doc ZOps (rev (o_undo ZOps out)) s' = Ok s0 /\
    replay_doc ZOps (o_stored ZOps out) s0 = Ok s1 /\ view ZOps s1 = view ZOps s'.
Proof.
  split; [vm_compute; reflexivity|]. eexists. eexists. eexists. eexists.
  split; [vm_compute; reflexivity|]. split; [reflexivity|]. split; [vm_compute; reflexivity|].
  split; vm_compute; reflexivity.
Qed.

(* The code that decides what ends up in the stored list and how it is trimmed, regenerated from /repo on every run (see
   C01_code_effects_bridge): the summary calls of every doc action in order (ReplaceTableData: remove_records BEFORE
   add_records), the stored updates of _changes_to_actions, the per-list checkpoint of Engine._undo_to_checkpoint. *)
Theorem C03_code_effects_bridge : gen_effects = model_effects.
Proof. exact gen_effects_bridge. Qed.

Theorem C03_code_glue_bridge : gen_skeletons = model_skeletons.
Proof. exact gen_skeletons_bridge. Qed.
