(* C03 -- Redo after undo reproduces the post-bundle state.
   Kernel K1 (Model/ActionLog.v); ApplyDocActions replays the stored doc actions through DocActions.
   Statements only; proofs in Proofs/ActionLog_proofs.v. *)
From Coq Require Import ZArith List Bool.
Import ListNotations.
Require Import Grist.Model.ActionLog Grist.Proofs.ActionLog_proofs Grist.Props.C01.
Open Scope Z_scope.

(* Full statement, for a class `wf_events` of event lists: after the bundle has been undone, replaying its
   stored doc actions gives back the document the bundle produced (same tables, schema, row ids; cells equal
   up to encoding). *)
Definition C03_statement (O : ValOps) (wf_events : state O -> list (event O) -> Prop) : Prop :=
  forall s es s' out s0,
    wf_state O s -> wf_events s es -> run O s es = Ok (s', out) ->
    replay_doc O (rev (o_undo O out)) s' = Ok s0 ->
    exists s1, replay_doc O (o_stored O out) s0 = Ok s1 /\ seq O s1 s'.

(* Stage 1: bundles of doc actions (see C01.doc_events). *)
Theorem C03_redo_doc_partial : forall O, ValLaws O -> C03_statement O (doc_events O).
Proof.
  intros O L s es s' out s0 Hwf [acts [-> Hl]] H Hu.
  exact (doc_bundle_redo O L s acts s' out s0 Hwf Hl H Hu).
Qed.

(* The stored actions of a sequence of doc actions replay to an equivalent document from any equivalent start
   (the lemma behind redo; also what a collaborator applying the same actions relies on). *)
Theorem C03_replay_congruence : forall O, ValLaws O -> forall acts s1 s2 s1',
  seq O s1 s2 -> replay_doc O acts s1 = Ok s1' -> exists s2', replay_doc O acts s2 = Ok s2' /\ seq O s1' s2'.
Proof. intros O L. exact (replay_doc_cong_seq O L). Qed.

Example C03_doc_nonvacuous :
  exists s' out s0 s1,
    run ZOps ex_state (map (Doc ZOps) ex_acts) = Ok (s', out) /\
    replay_doc ZOps (rev (o_undo ZOps out)) s' = Ok s0 /\
    replay_doc ZOps (o_stored ZOps out) s0 = Ok s1 /\ s1 = s' /\ length (o_stored ZOps out) = 8%nat.
Proof.
  eexists. eexists. eexists. eexists. split; [vm_compute; reflexivity|].
  split; [vm_compute; reflexivity|]. split; [vm_compute; reflexivity|]. split; reflexivity.
Qed.
