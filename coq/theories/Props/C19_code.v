(* C19 -- the tie to the source: coq/gen/CodeBuilder_gen.v is regenerated from /repo/sandbox/grist/codebuilder.py
   (and textbuilder.make_regexp_patches) by harness/cb2v.py on every run; Replacer/make_patch are the definitions
   generated for C37 (coq/gen/TextBuilder_gen.v).  Obligations: (1) POINTWISE, each generated function is the
   hand-written model the C19 theorems are about; (2) the main statements restated about the generated functions.
   A semantic edit of the translated code breaks (1).  Proofs: Proofs/CodeBuilder_bridge.v. *)
From Coq Require Import ZArith List Bool.
Import ListNotations.
Require Import Grist.Model.Codegen Grist.Proofs.Codegen_proofs.
Require Import Grist.Model.TextBuilder Grist.Lib.TbPrelude GristGen.TextBuilder_gen.
Require Import Grist.Lib.CbPrelude Grist.Model.CodeBuilder GristGen.CodeBuilder_gen Grist.Proofs.CodeBuilder_bridge.
Open Scope Z_scope.

(* ---- (1) bridging ---- *)
Theorem C19_bridge_make_regexp_patches : forall t r repl,
  gen_make_regexp_patches t r repl = map (fun m => make_patch t (m_start m) (m_end m) repl) (re_finditer r t).
Proof. exact bridge_make_regexp_patches. Qed.

Theorem C19_bridge_indent : forall body ind, gen_indent body ind = Ok (indent_re ind body).
Proof. exact bridge_indent. Qed.

Theorem C19_bridge_dedent : forall body, gen_dedent body = Ok (dedent_re body).
Proof. exact bridge_dedent. Qed.

Theorem C19_bridge_formula_text : forall f, gen_formula_text f = Ok (formula_text f).
Proof. exact bridge_formula_text. Qed.

Theorem C19_bridge_create_syntax_error_code : forall printable name msg line col ltext t,
  gen_create_syntax_error_code printable name msg line col ltext t
  = stub_code printable name msg line (col + 1) ltext t.
Proof. exact bridge_create_syntax_error_code. Qed.

Theorem C19_bridge_multiline_string_nodes : forall n, gen_multiline_string_nodes n = ml_nodes n.
Proof. exact bridge_multiline_string_nodes. Qed.

Theorem C19_bridge_unindent : forall ind t, re_sub (RE_unindent ind) [] t = unindent_re ind t.
Proof. exact bridge_unindent_sub. Qed.

Theorem C19_bridge_walk : forall formula io oo nodes,
  gen_walk io oo nodes formula = Ok (walk_model formula io oo nodes).
Proof. exact bridge_walk. Qed.

Theorem C19_bridge_make_formula_body : forall fb have_ml tree ind,
  gen_make_formula_body fb have_ml tree ind = make_body fb have_ml tree ind.
Proof. exact bridge_make_formula_body. Qed.

(* ---- (2) the statements of Props/C19.v about the generated code.  `formula` is what the generated first part of
   _do_make_formula_body (line ends, then _dedent) computes from the formula text f. ---- *)
Theorem C19_code_formula_text_has_no_cr : forall f formula, gen_formula_text f = Ok formula -> ~ In CR formula.
Proof. intros f formula H. rewrite bridge_formula_text in H. injection H as <-. apply formula_text_crfree. Qed.

Theorem C19_code_dedent_sound : forall f formula,
  gen_formula_text f = Ok formula -> dedent_ok f formula.
Proof. intros f formula H. rewrite bridge_formula_text in H. injection H as <-. apply dedent_sound. Qed.

Theorem C19_code_comment_out_all_lines : forall f formula,
  gen_formula_text f = Ok formula ->
  all_commented (re_sub gen_line_start_re [HASH; SP] (rstrip formula)).
Proof.
  intros f formula H. rewrite bridge_formula_text in H. injection H as <-. rewrite bridge_comment.
  apply comment_out_all_lines.
Qed.

Theorem C19_code_indent_all_lines : forall ind body out,
  ~ In NL ind -> ~ In CR ind -> ~ In CR body -> gen_indent body ind = Ok out -> all_indented ind out.
Proof.
  intros ind body out H1 H2 H3 H. rewrite bridge_indent in H. injection H as <-. apply indent_all_lines_body; assumption.
Qed.

Theorem C19_code_stub_is_wellformed : forall ind printable name msg line col ltext f formula out,
  ~ In NL ind -> ~ In CR ind -> Forall (fun c => c <> NL /\ c <> CR) name ->
  gen_formula_text f = Ok formula ->
  gen_indent (gen_create_syntax_error_code printable name msg line col ltext formula) ind = Ok out ->
  stub_wellformed ind out printable name msg line (col + 1) ltext /\ no_bare_cr out = true.
Proof.
  intros ind p name msg line col ltext f formula out H1 H2 H3 Hd Hi.
  rewrite bridge_formula_text in Hd. injection Hd as <-.
  rewrite bridge_indent, bridge_create_syntax_error_code in Hi. injection Hi as <-.
  split; [apply (stub_is_wellformed ind p name msg line (col + 1) ltext f)
         |apply (stub_body_no_bare_cr ind p name msg line (col + 1) ltext f)]; assumption.
Qed.

(* the un-indent regexp applied to what the generated _indent produced gives the lines back *)
Theorem C19_code_unindent_inverse : forall ind first l ls,
  ~ In NL ind -> ~ In NL first -> Forall (fun x => ~ In NL x) (l :: ls) ->
  re_sub (RE_unindent ind) [] (join_nl (first :: map (indent_line ind) (l :: ls))) = join_nl (first :: l :: ls).
Proof. intros. rewrite bridge_unindent_sub. apply unindent_inverse; assumption. Qed.

(* non-vacuity: the generated chain on "  foo(\r  bar": dedent finds the shared indentation, the stub is indented *)
Example C19_code_nonvacuous :
  let f := [32; 32; 102; 111; 111; 40; 13; 32; 32; 98; 97; 114] in
  gen_formula_text f = Ok [102; 111; 111; 40; 10; 98; 97; 114] /\
  gen_indent (gen_create_syntax_error_code (fun _ => true) [69] [] 1 0 [] [102; 111; 111; 40; 10; 98; 97; 114])
             [32; 32]
  = Ok ([32; 32; 35; 32; 102; 111; 111; 40; 10; 32; 32; 35; 32; 98; 97; 114; 10; 32; 32]
        ++ raise_stmt (fun _ => true) [69] [] 1 1 []).
Proof. split; vm_compute; reflexivity. Qed.
