(* C09 -- Metadata references always resolve.

   Model: Grist.Model.MetaCascade (the reference-carrying columns of _grist_Tables, _grist_Tables_column,
   _grist_Views, _grist_Views_section, _grist_Views_section_field, _grist_TabBar, _grist_Pages and the user
   tables of Engine.tables; the removal/creation cascades of useractions.py; the auto-removal loop of
   docmodel.py).  RefsResolve is the property's conjunction as one boolean.

   The statement for ALL modelled actions (C09_full) is refuted: doRemoveColumns regroups every view section of
   a summary table, its raw section included, so the old summary table loses its raw section until it is
   auto-removed at the end of the bundle; an action later in the same bundle that adds a column to it (or keeps
   it alive) leaves a dangling reference (C09_refuted); a section that shows one column twice is regrouped
   incompletely (C09_dup_refuted).  What is proved: the statement for every bundle of modelled actions in which
   update_summary_section keeps to its guard (C09_cascade_preserves; the guard is what the two defects break and
   is evaluated on every recorded bundle), for every bundle without the two regrouping actions with no guard
   at all (C09_cascade_preserves_partial), for every single action, for the auto-removal loop, for all reachable
   states, and that removals with back-reference clearing leave no reference to a removed record. *)
From Coq Require Import ZArith List Bool.
Import ListNotations.
Require Import Grist.Model.MetaCascade Grist.Proofs.MetaCascade_main Grist.Proofs.MetaCascade_norefs.
Open Scope Z_scope.

(* ---------------------------------------------------------------------------------------------- *)
(* the full statement, and its refutation on the faithful model *)

Definition C09_full : Prop :=
  forall os m m', RefsResolve m = true -> run_bundle os m = Ok m' -> RefsResolve m' = true.

(* AddTable T [A, B]; CreateViewSection(T, new view, group by B);
   then one bundle: RemoveColumn T.B (regroups the raw section 4 and the page section 5 of T_summary_B into a
   new table T_summary), AddColumn T_summary_B.Y *)
Definition c09_setup : list (list op) :=
  [[OAddTable 1 [0; 0] true]; [OCreateSummary 1 0 [3] 2 [0] [2; 0]]].
Definition c09_bad_bundle : list op :=
  [ORemoveColumnsG [3] [mkRG 4 0 3 1 [] [] [2; 0] [] [7] [(8, 8)] []; mkRG 5 3 0 1 [] [] [] [] [9] [(10, 8)] []];
   OAddColumn 2 0 0].

Fixpoint run_bundles (bs : list (list op)) (m : meta) : res meta :=
  match bs with [] => Ok m | b :: t => bind (run_bundle b m) (run_bundles t) end.

Definition c09_before : meta := match run_bundles c09_setup empty_meta with Ok m => m | _ => empty_meta end.
Definition c09_after : meta := match run_bundle c09_bad_bundle c09_before with Ok m => m | _ => empty_meta end.

Example c09_witness_runs :
  res_ok (run_bundles c09_setup empty_meta) = true /\ RefsResolve c09_before = true /\
  res_ok (run_bundle c09_bad_bundle c09_before) = true /\ RefsResolve c09_after = false /\
  (* the dangling cell: a field of section 4 with colRef = 0 *)
  existsb (fun f => (f_section f =? 4) && (f_col f =? 0)) (m_fields c09_after) = true.
Proof. vm_compute. repeat split; reflexivity. Qed.

Theorem C09_refuted : ~ C09_full.
Proof.
  intro H. specialize (H c09_bad_bundle c09_before c09_after).
  assert (E : RefsResolve c09_after = true).
  { apply H; vm_compute; reflexivity. }
  vm_compute in E. discriminate E.
Qed.

(* second root cause: a section that shows the same column twice (fields 10 and 11 both show column 6);
   update_summary_section moves one of them (its descriptor, as recorded from the engine), the other is left
   pointing at a column of the old summary table, which is auto-removed *)
Definition c09_dup_bundles : list (list op) :=
  [[OAddField 5 6]; [ORegroup (mkRG 5 0 3 1 [] [] [2; 0] [] [9] [(11, 8)] [])]].
Definition c09_dup_before : meta :=
  match run_bundles [[OAddField 5 6]] c09_before with Ok m => m | _ => empty_meta end.
Definition c09_dup_bundle : list op := [ORegroup (mkRG 5 0 3 1 [] [] [2; 0] [] [9] [(11, 8)] [])].

Theorem C09_dup_refuted :
  RefsResolve c09_dup_before = true /\
  exists m', run_bundle c09_dup_bundle c09_dup_before = Ok m' /\ RefsResolve m' = false.
Proof.
  split; [vm_compute; reflexivity|].
  destruct (run_bundle c09_dup_bundle c09_dup_before) as [m'| |] eqn:E.
  - exists m'. split; [reflexivity|]. vm_compute in E. inversion E; subst m'. vm_compute. reflexivity.
  - vm_compute in E. discriminate E.
  - vm_compute in E. discriminate E.
Qed.

(* ---------------------------------------------------------------------------------------------- *)
(* what holds: every bundle of modelled actions in which update_summary_section keeps to its guard (the
   regrouped section is not the raw/record-card section of a table, only its own fields are moved, and
   afterwards each of its fields shows a column of the target table): exactly what the two defects break.
   run_bundle_guarded is run_bundle wherever it is defined. *)

Theorem C09_cascade_preserves : forall os m m',
  RefsResolve m = true -> run_bundle_guarded os m = Ok m' -> RefsResolve m' = true.
Proof. exact run_bundle_guarded_preserves. Qed.

Theorem C09_guarded_is_faithful : forall os m m', run_bundle_guarded os m = Ok m' -> run_bundle os m = Ok m'.
Proof. exact run_bundle_guarded_agrees. Qed.

Theorem C09_reachable_guarded : forall m, reachable_g m -> RefsResolve m = true.
Proof. exact reachable_g_resolve. Qed.

(* the guard rejects both witnesses, and accepts a regrouping that behaves: UpdateSummaryViewSection(5, [])
   on the document of the first witness (the old summary table, left with its raw section only, is
   auto-removed) *)
Example c09_guard_examples :
  res_unmodelled (run_bundle_guarded c09_bad_bundle c09_before) = true /\
  res_unmodelled (run_bundle_guarded c09_dup_bundle c09_dup_before) = true /\
  match run_bundle_guarded [ORegroup (mkRG 5 0 3 1 [] [] [2; 0] [] [9] [(10, 8)] [])] c09_before with
  | Ok m => RefsResolve m && negb (mem 2 (tids m)) && mem 3 (tids m)
  | _ => false
  end = true.
Proof. vm_compute. repeat split; reflexivity. Qed.

(* without any guard: every bundle that does not run update_summary_section *)

Theorem C09_cascade_preserves_partial : forall os m m',
  no_regroups os = true -> RefsResolve m = true -> run_bundle os m = Ok m' -> RefsResolve m' = true.
Proof. exact run_bundle_preserves. Qed.

(* a single modelled action keeps every reference resolvable (unused helper columns are only collected at the
   end of the bundle, so the helper-usage conjunct is not part of this one) *)
Theorem C09_step_preserves : forall o m m',
  regroups_op o = false -> refs_core m = true -> step o m = Ok m' -> refs_core m' = true.
Proof. exact step_preserves_core. Qed.

(* the auto-removal loop ends in a state where, moreover, every helper column has a user *)
Theorem C09_auto_removes_resolve : forall fuel m m',
  refs_core m = true -> auto_fix fuel m = Ok m' -> RefsResolve m' = true.
Proof. exact auto_fix_resolves. Qed.

(* all states reachable from InitNewDoc by such bundles *)
Theorem C09_reachable : forall m, reachable m -> RefsResolve m = true.
Proof. exact reachable_resolve. Qed.

(* non-vacuity: a concrete history (tables, a summary table, views, sections, display and rule helper columns,
   removals that trigger the cascades and the auto-removal of helper columns and of the summary table) *)
Definition c09_example : list (list op) :=
  [[OAddTable 1 [0; 0; 0] true];
   [OAddTable 2 [0; 0] true; OAddColumn 2 0 1];
   [OCreateSummary 1 0 [3] 3 [0] [2; 0]];
   [OSetDisplay 2 0 8 true 0; OAddRule 1 0 2; OAddRule 1 0 0];
   [OCreateSection 1 0 false 0; OCreateSection 2 1 true 0];
   [OSetDisplay 2 0 8 false 0];          (* the display helper column 12 loses its user: auto-removed *)
   [ORemoveSections [8]];                (* the summary table loses its last page section: auto-removed *)
   [ORemoveViews [4]; ORemoveColumns [8]];
   [ORemoveTables [1]]].

Example c09_example_runs :
  match run_bundles c09_example empty_meta with
  | Ok m => RefsResolve m && (length (m_tables m) =? 1)%nat && (length (m_columns m) =? 3)%nat
  | _ => false
  end = true.
Proof. vm_compute. reflexivity. Qed.

Example c09_example_hyps : forallb no_regroups c09_example = true.
Proof. vm_compute. reflexivity. Qed.

(* ---------------------------------------------------------------------------------------------- *)
(* removing records and clearing back-references leaves no reference to a removed id (0 = no reference),
   for every reference cell of the modelled metadata; and the removed records are gone *)

Theorem removal_leaves_no_refs_columns : forall ids m x,
  In x (refs_to_columns (rm_columns ids m)) -> In x ids -> x = 0.
Proof. exact rm_columns_no_refs. Qed.

Theorem removal_leaves_no_refs_tables : forall ids m x,
  In x (refs_to_tables (rm_tables ids m)) -> In x ids -> x = 0.
Proof. exact rm_tables_no_refs. Qed.

Theorem removal_leaves_no_refs_sections : forall ids m x,
  In x (refs_to_sections (rm_sections ids m)) -> In x ids -> x = 0.
Proof. exact rm_sections_no_refs. Qed.

Theorem removal_leaves_no_refs_views : forall ids m x,
  In x (refs_to_views (rm_views ids m)) -> In x ids -> x = 0.
Proof. exact rm_views_no_refs. Qed.

Theorem removed_records_gone : forall ids m x, In x ids ->
  ~ In x (cids (rm_columns ids m)) /\ ~ In x (tids (rm_tables ids m)) /\
  ~ In x (sids (rm_sections ids m)) /\ ~ In x (m_views (rm_views ids m)).
Proof.
  intros ids m x H. repeat split.
  - apply rm_columns_gone; exact H.
  - apply rm_tables_gone; exact H.
  - apply rm_sections_gone; exact H.
  - apply rm_views_gone; exact H.
Qed.

Example removal_example :
  refs_to_columns (rm_columns [9] c09_before) = refs_to_columns c09_before /\
  In 4 (refs_to_columns c09_before) /\ ~ In 4 (refs_to_columns (rm_columns [4] c09_before)).
Proof. vm_compute. split; [reflexivity|]. split; [tauto | intuition discriminate]. Qed.
