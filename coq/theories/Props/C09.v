(* C09 -- Metadata references always resolve.

   Model: Grist.Model.MetaCascade (the reference-carrying columns of _grist_Tables, _grist_Tables_column,
   _grist_Views, _grist_Views_section, _grist_Views_section_field, _grist_TabBar, _grist_Pages and the user
   tables of Engine.tables; the removal/creation cascades of useractions.py; the auto-removal loop of
   docmodel.py).  RefsResolve is the property's conjunction as one boolean.

   C09_full -- every bundle of modelled actions keeps the property -- is a theorem, with no side condition:
   tables, columns (group-by source columns included), views, sections, fields, pages, display and rule helper
   columns, new summary tables, UpdateSummaryViewSection, and the auto-removal loop at the end of the bundle.
   Three defects of the snapshot were repaired on the way (e0ec788: doRemoveColumns regrouped the raw section
   of a summary table; ae5ee6e: update_summary_section moved one field per column id; ea10a38:
   UpdateSummaryViewSection accepted a raw section); their witnesses are the regression examples below.
   Also proved: every single action, the auto-removal loop, all reachable states, and that removals with
   back-reference clearing leave no reference to a removed record. *)
From Coq Require Import ZArith List Bool.
Import ListNotations.
Require Import Grist.Model.MetaCascade Grist.Proofs.MetaCascade_main Grist.Proofs.MetaCascade_norefs
  Grist.Proofs.MetaCascade_fuel Grist.Proofs.MetaCascade_fuel2.
Open Scope Z_scope.

Fixpoint run_bundles (bs : list (list op)) (m : meta) : res meta :=
  match bs with [] => Ok m | b :: t => bind (run_bundle b m) (run_bundles t) end.

(* ---------------------------------------------------------------------------------------------- *)
(* the property *)

Definition C09_full : Prop :=
  forall os m m', RefsResolve m = true -> run_bundle os m = Ok m' -> RefsResolve m' = true.

Theorem C09_cascade_preserves : C09_full.
Proof. exact run_bundle_preserves. Qed.

(* all states reachable from InitNewDoc *)
Theorem C09_reachable : forall m, reachable m -> RefsResolve m = true.
Proof. exact reachable_resolve. Qed.

(* ---------------------------------------------------------------------------------------------- *)
(* regression examples: the witnesses of the three repaired defects on the repaired cascades.
   AddTable T [A, B]; CreateViewSection(T, new view, group by B): table 2 = T_summary_B with raw section 4 and
   page section 5 *)
Definition c09_setup : list (list op) :=
  [[OAddTable 1 [0; 0] true]; [OCreateSummary 1 0 [3] 2 [0] [2; 0] [0]]].
Definition c09_before : meta := match run_bundles c09_setup empty_meta with Ok m => m | _ => empty_meta end.

Example c09_setup_runs : res_ok (run_bundles c09_setup empty_meta) = true /\ RefsResolve c09_before = true.
Proof. vm_compute. split; reflexivity. Qed.

(* [RemoveColumn T.B, AddColumn T_summary_B.Y]: only the page section 5 is regrouped; the column and its field
   in the raw section 4 go away with T_summary_B at the end of the bundle *)
Example c09_regression_raw_section :
  match run_bundle [ORemoveColumnsG [3] [mkRG 5 0 3 1 [] [] [2; 0] [] [] [(10, 8)] []]; OAddColumn 2 0 0] c09_before with
  | Ok m => RefsResolve m && negb (mem 2 (tids m)) && mem 3 (tids m)
  | _ => false
  end = true /\
  (* what the unrepaired doRemoveColumns did, regrouping the raw section 4 as well, is not a run of the model *)
  res_ok (run_bundle [ORemoveColumnsG [3] [mkRG 4 0 3 1 [] [] [2; 0] [] [] [(8, 8)] [];
                                           mkRG 5 3 0 1 [] [] [] [] [] [(10, 8)] []]; OAddColumn 2 0 0]
                     c09_before) = false.
Proof. vm_compute. split; reflexivity. Qed.

(* section 5 shows column 6 twice (fields 10 and 11): both fields are moved *)
Example c09_regression_duplicate_field :
  match run_bundles [[OAddField 5 6]; [ORegroup (mkRG 5 0 3 1 [] [] [2; 0] [] [] [(10, 8); (11, 8)] [])]] c09_before with
  | Ok m => RefsResolve m && negb (mem 2 (tids m))
  | _ => false
  end = true.
Proof. vm_compute. reflexivity. Qed.

(* UpdateSummaryViewSection(4, []) on the raw section of T_summary_B is refused: the bundle fails; on the page
   section 5 it regroups, and T_summary_B, left with its raw section only, is auto-removed *)
Example c09_regression_update_raw_section :
  match run_bundle [ORegroup (mkRG 4 0 3 1 [] [] [2; 0] [] [] [(8, 8)] [])] c09_before with
  | Fail => true | _ => false end = true /\
  match run_bundle [ORegroup (mkRG 5 0 3 1 [] [] [2; 0] [] [] [(10, 8)] [])] c09_before with
  | Ok m => RefsResolve m && negb (mem 2 (tids m)) && mem 3 (tids m)
  | _ => false
  end = true.
Proof. vm_compute. split; reflexivity. Qed.

(* DetachSummaryViewSection(4) on the raw section of T_summary_B is refused as well (811c657); on the page
   section 5 it makes a plain table 3 (columns 8 B, 9 count, 10 group) and moves the section and its fields there;
   T_summary_B, left with its raw section only, is auto-removed *)
Example c09_regression_detach_raw_section :
  match run_bundle [ODetach 4 9 [0; 0; 2] [(10, 1)] [(7, 8); (8, 9)]] c09_before with
  | Fail => true | _ => false end = true /\
  match run_bundle [ODetach 5 9 [0; 0; 2] [(10, 1)] [(9, 8); (10, 9)]] c09_before with
  | Ok m => RefsResolve m && negb (mem 2 (tids m)) && mem 3 (tids m) &&
            existsb (fun s => (s_id s =? 5) && (s_table s =? 3)) (m_sections m)
  | _ => false
  end = true.
Proof. vm_compute. split; reflexivity. Qed.

(* the auto-removal loop really iterates: table N (3) gets a reference column g (9) to the SUMMARY table 2 that
   shows its column B (4) through the display helper column 10.  Removing the summary table's only widget:
   round 1 removes the summary table, which converts g and clears its displayCol; only then is the helper
   unused, round 2 removes it. *)
Example c09_two_rounds :
  match run_bundles [[OAddTable 4 [0] true; OAddColumn 3 0 2]; [OSetVisible 9 4; OSetDisplay 3 0 9 true 0]] c09_before with
  | Ok m =>
    match steps [ORemoveSections [5]] m with
    | Ok m1 => (auto_rounds (fuel_of m1) m1 =? 2)%nat &&
               match auto_fix (fuel_of m1) m1 with
               | Ok m2 => RefsResolve m2 && mem 10 (cids m1) && negb (mem 10 (cids m2)) && negb (mem 2 (tids m2))
               | _ => false
               end
    | _ => false
    end
  | _ => false
  end = true.
Proof. vm_compute. reflexivity. Qed.

(* ---------------------------------------------------------------------------------------------- *)
(* parts *)
(* a single modelled action keeps every reference resolvable (unused helper columns are only collected at the
   end of the bundle, so the helper-usage conjunct is not part of this one) *)
Theorem C09_step_preserves : forall o m m',
  refs_core m = true -> step o m = Ok m' -> refs_core m' = true.
Proof. exact step_preserves_core. Qed.

(* the auto-removal loop ends in a state where, moreover, every helper column has a user *)
Theorem C09_auto_removes_resolve : forall fuel m m',
  refs_core m = true -> auto_fix fuel m = Ok m' -> RefsResolve m' = true.
Proof. exact auto_fix_resolves. Qed.

(* fuel: the loop needs at most (helper columns + summary tables) rounds, every round removes one of them and
   none is created; with that much fuel or more the result does not depend on the fuel, so the fuel run_bundle
   gives (all columns + all tables + 1) never cuts the loop short *)
Theorem C09_auto_fix_fuel : forall n m, (measure m <= n)%nat -> auto_fix n m = auto_fix (measure m) m.
Proof. exact auto_fix_enough_fuel. Qed.

Theorem C09_fuel_of_enough : forall m, auto_fix (fuel_of m) m = auto_fix (measure m) m.
Proof.
  intros m. apply auto_fix_enough_fuel. unfold fuel_of. pose proof (measure_le_fuel m).
  apply le_S. exact H.
Qed.

(* non-vacuity: a concrete history (tables, a summary table, views, sections, display and rule helper columns,
   removals that trigger the cascades and the auto-removal of helper columns and of the summary table) *)
Definition c09_example : list (list op) :=
  [[OAddTable 1 [0; 0; 0] true];
   [OAddTable 2 [0; 0] true; OAddColumn 2 0 1];
   [OCreateSummary 1 0 [3] 3 [0] [2; 0] [0]];
   [OSetDisplay 2 0 8 true 0; OAddRule 1 0 2; OAddRule 1 0 0];
   [OCreateSection 1 0 false 0; OCreateSection 2 1 true 0];
   [OSetDisplay 2 0 8 false 0];          (* the display helper column 12 loses its user: auto-removed *)
   [ORemoveSections [8]];                (* the summary table loses its last page section: auto-removed *)
   [ORemoveViews [4]; ORemoveColumns [8]];
   [ORemoveTables [1]]].

Example c09_example_runs :
  match run_bundles c09_example empty_meta with
  | Ok m => RefsResolve m && (length (m_tables m) =? 1)%nat && (length (m_columns m) =? 3)%nat
  | _ => false
  end = true.
Proof. vm_compute. reflexivity. Qed.


(* ---------------------------------------------------------------------------------------------- *)
(* removing records and clearing back-references leaves no reference to a removed id (0 = no reference),
   for every reference cell of the modelled metadata; and the removed records are gone *)

Theorem removal_leaves_no_refs_columns : forall ids m x,
  In x (refs_to_columns (rm_columns ids m)) -> In x ids -> x = 0.
Proof. exact rm_columns_no_refs. Qed.

Theorem removal_leaves_no_refs_tables : forall ids m x,
  In x (refs_to_tables (rm_tables ids m)) -> In x ids -> x = 0.
Proof. exact rm_tables_no_refs. Qed.

Theorem removal_leaves_no_refs_sections : forall ids m x,
  In x (refs_to_sections (rm_sections ids m)) -> In x ids -> x = 0.
Proof. exact rm_sections_no_refs. Qed.

Theorem removal_leaves_no_refs_views : forall ids m x,
  In x (refs_to_views (rm_views ids m)) -> In x ids -> x = 0.
Proof. exact rm_views_no_refs. Qed.

Theorem removed_records_gone : forall ids m x, In x ids ->
  ~ In x (cids (rm_columns ids m)) /\ ~ In x (tids (rm_tables ids m)) /\
  ~ In x (sids (rm_sections ids m)) /\ ~ In x (m_views (rm_views ids m)).
Proof.
  intros ids m x H. repeat split.
  - apply rm_columns_gone; exact H.
  - apply rm_tables_gone; exact H.
  - apply rm_sections_gone; exact H.
  - apply rm_views_gone; exact H.
Qed.

Example removal_example :
  refs_to_columns (rm_columns [9] c09_before) = refs_to_columns c09_before /\
  In 4 (refs_to_columns c09_before) /\ ~ In 4 (refs_to_columns (rm_columns [4] c09_before)).
Proof. vm_compute. split; [reflexivity|]. split; [tauto | intuition discriminate]. Qed.

(* ---------------------------------------------------------------------------------------------- *)
(* the code as regenerated from /repo on this run (GristGen.MetaCascade_gen, harness/mc2v_gen.py) *)
Require Import Grist.Model.MetaCascadePlan Grist.Model.MetaCascadePlanRef GristGen.MetaCascade_gen
  Grist.Proofs.MetaCascade_bridge.

(* bridging obligations: each regenerated definition is the model's *)
Theorem C09_code_auto_loop_bridge : forall fuel m, gen_auto_fix fuel m = auto_fix fuel m.
Proof. exact gen_auto_fix_is_auto_fix. Qed.

Theorem C09_code_goa_bridge : forall prior infos, gen_goa prior infos = model_goa prior infos.
Proof. exact gen_goa_is_model. Qed.

Theorem C09_code_plans_bridge :
  gen_plan_removeTableRecords = plan_removeTableRecords /\ gen_plan_doRemoveColumns = plan_doRemoveColumns /\
  gen_plan_removeColumnRecords = plan_removeColumnRecords /\ gen_plan_removeViewRecords = plan_removeViewRecords /\
  gen_plan_removeViewSectionRecords = plan_removeViewSectionRecords /\
  gen_plan_doRemoveViewSectionRecords = plan_doRemoveViewSectionRecords /\
  gen_plan_removeViewSectionFieldRecords = plan_removeViewSectionFieldRecords /\
  gen_plan_doBulkRemoveRecord = plan_doBulkRemoveRecord /\
  gen_plan_UpdateSummaryViewSection = plan_UpdateSummaryViewSection /\
  gen_plan_DetachSummaryViewSection = plan_DetachSummaryViewSection /\
  gen_plan_apply_auto_removes = plan_apply_auto_removes.
Proof.
  exact (conj plan_removeTableRecords_same (conj plan_doRemoveColumns_same (conj plan_removeColumnRecords_same
        (conj plan_removeViewRecords_same (conj plan_removeViewSectionRecords_same
        (conj plan_doRemoveViewSectionRecords_same (conj plan_removeViewSectionFieldRecords_same
        (conj plan_doBulkRemoveRecord_same (conj plan_UpdateSummaryViewSection_same
        (conj plan_DetachSummaryViewSection_same plan_apply_auto_removes_same)))))))))).
Qed.

(* the property, with the end-of-bundle loop as the code has it *)
Definition run_bundle_code (os : list op) (m : meta) : res meta :=
  bind (steps os m) (fun m1 => gen_auto_fix (fuel_of m1) m1).

Theorem C09_code_cascade_preserves : forall os m m',
  RefsResolve m = true -> run_bundle_code os m = Ok m' -> RefsResolve m' = true.
Proof.
  intros os m m' HR H. apply (run_bundle_preserves os m m' HR). unfold run_bundle, run_bundle_code in *.
  destruct (steps os m) as [m1| |]; unfold bind in *; try exact H.
Qed.

Theorem C09_code_auto_removes_resolve : forall fuel m m',
  refs_core m = true -> gen_auto_fix fuel m = Ok m' -> RefsResolve m' = true.
Proof. intros fuel m m' HR H. rewrite gen_auto_fix_is_auto_fix in H. apply (auto_fix_resolves fuel m m' HR H). Qed.

(* _get_or_add_columns as the code has it hands back one column per requested column: what the regrouping
   model relies on when it moves or deletes every field of the section *)
Theorem C09_code_goa_complete : forall prior infos, goa_yields (gen_goa prior infos) = List.length infos.
Proof. exact gen_goa_yields. Qed.
