(* C12, statements about the code REGENERATED from /repo on every run (coq/gen/Summary_gen.v, harness/sum2v.py):
   Table._add_update_summary_col._updateSummary (both modes), Table.lookupOrAddDerived,
   Table.getSummarySourceGroup, column._raw_get_without.  A semantic edit of those functions breaks one of these. *)
From Coq Require Import ZArith List Bool.
Import ListNotations.
Require Import Grist.Model.Summary Grist.Model.SummaryChain Grist.Lib.SmPrelude GristGen.Summary_gen
  Grist.Proofs.Summary_proofs Grist.Proofs.Summary_bridge Grist.Props.C12.
Open Scope Z_scope.

(* the list-mode helper formula is Model/Summary.helper_list: same summary table afterwards, same returned ids; it
   raises exactly when the model says the formula raises *)
Theorem C12_code_list_mode : forall kinds cells stale summ,
  length cells = length kinds -> ids_positive summ ->
  match row_keys kinds cells with
  | Some _ => gen_update_summary_list false (combine kinds cells) summ = Ret (helper_list kinds stale summ cells)
  | None => is_exc (gen_update_summary_list false (combine kinds cells) summ) = true
  end.
Proof. exact gen_list_bridge. Qed.

(* the simple-mode formula with lookupOrAddDerived is Model/Summary.helper_simple *)
Theorem C12_code_simple_mode : forall kinds cells stale summ,
  length cells = length kinds -> ids_positive summ ->
  match simple_values kinds cells with
  | Some (_, false) =>
      gen_update_summary_simple false (combine kinds cells) summ = Ret (helper_simple kinds stale summ cells)
  | _ => is_exc (gen_update_summary_simple false (combine kinds cells) summ) = true
  end.
Proof. exact gen_simple_bridge. Qed.

Theorem C12_code_helper : forall kinds stale summ cells,
  length cells = length kinds -> ids_positive summ ->
  helper_gen kinds stale summ cells = helper kinds stale summ cells.
Proof. exact helper_gen_bridge. Qed.

Theorem C12_code_round : forall kinds prev src summ,
  Forall (fun r => length (snd r) = length kinds) src -> ids_positive summ ->
  pass_gen kinds prev src summ = pass kinds prev src summ.
Proof. exact pass_gen_bridge. Qed.

(* getSummarySourceGroup: the group and the auto-remove mark *)
Theorem C12_code_group : forall hs i, gen_group false hs i = (group_of hs i, negb (keepb hs i)).
Proof. exact gen_group_bridge. Qed.

Theorem C12_code_group_simple : forall hs i,
  Forall (fun rh => (length (snd rh) <= 1)%nat) hs -> gen_group true hs i = (group_of hs i, negb (keepb hs i)).
Proof. exact gen_group_simple_bridge. Qed.

(* reference clean-up of the chain model *)
Theorem C12_code_cleanup_reflist : forall rem l,
  gen_reflist_without rem (CSeq l) = clean_cell true rem (CSeq l).
Proof. exact gen_reflist_without_bridge. Qed.

Theorem C12_code_cleanup_ref : forall rem j, mem_z j rem = true ->
  gen_ref_without rem (CAtom (AInt j)) = clean_cell true rem (CAtom (AInt j)).
Proof. exact gen_ref_without_bridge. Qed.

(* ------------------------------------------------------------------ the property, about the generated code *)

(* the table the settle loop ends with, computed by the generated functions only: one round of the generated helper
   formula, `group` and the auto-remove mark by the generated getSummarySourceGroup, marked rows dropped *)
Definition settled_table_gen (kinds : list kind) (prev : list (Z * list Z)) (src : list srow) (summ : list mrow)
  : list orow :=
  let '(s1, hs) := pass_gen kinds prev src summ in
  map (fun r => (fst r, snd r, fst (gen_group false hs (fst r))))
      (filter (fun r => negb (snd (gen_group false hs (fst r)))) s1).

Theorem C12_code_settled_exact : forall kinds prev src summ,
  Forall (fun r => length (snd r) = length kinds) src -> ids_positive summ ->
  NoDup (map fst src) -> NoDup (map fst summ) -> no_raise kinds src ->
  settle_loop 2 kinds prev src summ = Some (settled_table_gen kinds prev src summ) /\
  exact_group_by kinds src (settled_table_gen kinds prev src summ) /\
  (forall row, In row (settled_table_gen kinds prev src summ) -> ogroup row <> []).
Proof.
  intros kinds prev src summ Hl Hp Hnd Hids Hg.
  assert (E : settle_loop 2 kinds prev src summ = Some (settled_table_gen kinds prev src summ)).
  { unfold settled_table_gen. rewrite (pass_gen_bridge _ _ _ _ Hl Hp).
    destruct (pass kinds prev src summ) as [s1 hs] eqn:Ep.
    rewrite (settle_loop_closed _ _ _ _ _ _ Hnd Ep 0). rewrite filter_with_groups. unfold with_groups.
    f_equal. erewrite filter_ext; [apply map_ext|].
    all: intros r; cbv beta; rewrite gen_group_bridge; simpl; rewrite ?negb_involutive; reflexivity. }
  split; [exact E|]. split.
  - eapply C12_settled_exact_partial; eassumption.
  - intros row Hin. eapply C12_no_empty_groups; eassumption.
Qed.
