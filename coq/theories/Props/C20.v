(* C20 -- Row positions stay unique and order-preserving (relabeling.prepare_inserts; PositionColumn).
   Model/Relabel.v is a hand-written executable model of relabeling.py over Lib/Fl64.v (binary64 as exact
   integer arithmetic); it is compared bit for bit with the implementation on every run.  Statements only;
   proofs are in Proofs/Fl64_proofs.v, Sort_by_proofs.v, Relabel_check_proofs.v, Relabel_ungroup_proofs.v,
   Relabel_total_proofs.v, Fl64_mono_proofs.v, Relabel_plain_proofs.v, Relabel_plain2_proofs.v,
   Relabel_renumber_proofs.v, Relabel_guard_proofs.v, Relabel_sparse_proofs.v, Fl64_err_proofs.v,
   Relabel_spread_proofs.v, Relabel_block_proofs.v, Relabel_adjbisect_proofs.v,
   Relabel_widespread_proofs.v, Relabel_levels_proofs.v, Relabel_single_proofs.v,
   Relabel_getkey_proofs.v, Relabel_widegap_proofs.v.

   [Spec orig keys adj ins] is the property's postcondition for one call (Model/Relabel.v): adjustments name
   existing rows once each with finite values; existing rows keep their order (strictly where they were
   strictly apart); every new row gets a finite position that lies after every existing row whose old position
   was smaller than the request and before all others (so before rows with an equal position); new rows are
   strictly in the order of their requests (equal requests: batch order). *)
From Coq Require Import ZArith List Bool Sorted.
Import ListNotations.
Require Import Grist.Lib.Fl64 Grist.Model.Relabel.
Require Import Grist.Proofs.Fl64_proofs Grist.Proofs.Fl64_mono_proofs Grist.Proofs.Relabel_check_proofs
               Grist.Proofs.Relabel_ungroup_proofs Grist.Proofs.Relabel_total_proofs
               Grist.Proofs.Relabel_plain_proofs Grist.Proofs.Relabel_plain2_proofs
               Grist.Proofs.Relabel_renumber_proofs Grist.Proofs.Relabel_guard_proofs
               Grist.Proofs.Relabel_sparse_proofs Grist.Proofs.Fl64_err_proofs Grist.Proofs.Relabel_spread_proofs
               Grist.Proofs.Relabel_block_proofs Grist.Proofs.Relabel_adjbisect_proofs
               Grist.Proofs.Relabel_widespread_proofs Grist.Proofs.Relabel_levels_proofs Grist.Proofs.Relabel_single_proofs
               Grist.Proofs.Relabel_getkey_proofs Grist.Proofs.Relabel_widegap_proofs.
Open Scope Z_scope.

(* ---- 1. the certified checker: for ALL inputs and ALL candidate results, acceptance implies the
   precondition and the postcondition.  The harness evaluates [check] inside Coq on every result the
   implementation returns, so each explored input carries a kernel-checked proof of Spec. *)
Theorem C20_checker_sound : forall orig keys adj ins,
  check orig keys adj ins = true -> Pre orig keys /\ Spec orig keys adj ins.
Proof. exact checker_sound. Qed.

(* ---- 2. _group_insertions / ungroup, for all request lists without NaN and ANY strictly increasing list of
   new keys of the right length: the result has one key per request and new rows keep the order of their
   requested positions (equal requests keep the batch order) ... *)
Theorem C20_ungroup_order : forall keys L,
  Forall (fun x => is_nan x = false) keys -> length L = length keys -> StronglySorted Flt L ->
  length (ungroup keys L) = length keys /\
  forall k1 k2, (k1 < length keys)%nat -> (k2 < length keys)%nat -> req_before keys k1 k2 ->
    Flt (nth k1 (ungroup keys L) FNaN) (nth k2 (ungroup keys L) FNaN).
Proof.
  intros keys L Hnn Hlen Hs. split; [apply ungroup_len; exact Hlen|].
  intros k1 k2. apply ungroup_order; assumption.
Qed.
(* ... precisely: the request sorted into place j (by (position, batch index)) receives the j-th new key ... *)
Theorem C20_ungroup_assignment : forall keys L, length L = length keys ->
  forall j, (j < length keys)%nat ->
    nth (Z.to_nat (snd (nth j (sorted_requests keys) (FNaN, 0)))) (ungroup keys L) FNaN = nth j L FNaN.
Proof. exact ungroup_nth. Qed.
(* ... and the groups count every sorted request under the index bisect_left gives it (the number of leading
   existing rows with a smaller position: ties go before equal existing positions), with positive sizes. *)
Theorem C20_groups_cover : forall orig keys,
  concat (map (fun g => repeat (fst g) (Z.to_nat (snd g))) (ins_groups orig keys)) =
    map (fun p => bkl orig (fst p)) (sorted_requests keys) /\
  Forall (fun g => 0 < snd g) (ins_groups orig keys).
Proof. intros. apply group_counts_flatten. Qed.

(* ---- 3. one step keeps positions distinct and finite; hence any history does.  [step]/[reachable]
   (Model/Relabel.v): additions with any result satisfying Spec, removals; a move of existing rows is an
   addition followed by the removal of the old entries. *)
Theorem C20_apply_preserves_distinct : forall orig keys adj ins,
  Forall (fun x => is_nan x = false) keys -> strictly_sorted orig -> Spec orig keys adj ins ->
  strictly_sorted (positions_after orig adj ins).
Proof. exact apply_preserves_distinct. Qed.
Theorem C20_apply_preserves_finite : forall orig keys adj ins,
  all_finite orig -> Spec orig keys adj ins -> all_finite (positions_after orig adj ins).
Proof. exact apply_preserves_finite. Qed.
Theorem C20_history_invariant : forall s, reachable s -> strictly_sorted s /\ all_finite s.
Proof. exact history_invariant. Qed.
(* the same with the model in the loop and the checker as a guard: whatever history of batches the guarded
   model completes from an empty table ends with distinct finite positions *)
Theorem C20_model_history_invariant : forall batches s,
  model_run [] batches = Some s -> strictly_sorted s /\ all_finite s.
Proof.
  intros batches s H. apply history_invariant. eapply model_run_invariant; [constructor | exact H].
Qed.

(* ---- 4. renumber-all (_adjust_all): the new keys for N rows are exactly 1.0, 2.0, ..., N.0 *)
Theorem C20_renumber_all_ok : forall N, 0 <= N -> N + 1 < 2 ^ 53 ->
  get_range fzero (fadd (of_Z N) (of_Z 1)) N = map of_Z (zrange 1 (N + 1)).
Proof. exact renumber_all_ok. Qed.

(* ---- 5. total correctness.  The statement at full strength: *)
Definition C20_total_stmt : Prop :=
  forall orig keys, Pre orig keys ->
    exists adj ins, prepare_inserts_model orig keys = Ok (adj, ins) /\ Spec orig keys adj ins.

(* It does not hold for the code (known findings, replayed by the harness on the implementation): *)
(* (b) last position >= 2^53, append: begin + count + 1 == begin -> AssertionError in prep_inserts_at_index *)
Theorem C20_refuted_append_beyond_2p53 :
  prepare_inserts_model [decode 4845873199050653696] [FInf false] = Err 1.        (* [2^53], [inf] *)
Proof. vm_compute. reflexivity. Qed.
(* (c) crowding in the top binade: math.ldexp overflows in range_around_float *)
Theorem C20_refuted_top_binade :
  prepare_inserts_model [decode 9218868437227405310; decode 9218868437227405311] [decode 9218868437227405311] = Err 5.
Proof. vm_compute. reflexivity. Qed.
(* (d) an existing row at -inf and a request at -inf: the new row is placed after it *)
Theorem C20_refuted_existing_neginf :
  exists adj ins, prepare_inserts_model [FInf true] [FInf true] = Ok (adj, ins) /\ ~ Spec [FInf true] [FInf true] adj ins.
Proof.
  eexists. eexists. split; [vm_compute; reflexivity|].
  intros HS. pose proof (sp_place _ _ _ _ HS 0%nat 0%nat) as H. vm_compute in H.
  specialize (H (le_n 1) (le_n 1)). discriminate H.
Qed.
Theorem C20_total_refuted : ~ C20_total_stmt.
Proof.
  intros H. destruct (H [decode 4845873199050653696] [FInf false]) as (adj & ins & Heq & _).
  - apply check_pre_sound. vm_compute. reflexivity.
  - rewrite C20_refuted_append_beyond_2p53 in Heq. discriminate.
Qed.

(* Two former counterexamples, repaired in /repo (fix commits 0fbacc5: range_around_float handles subnormals;
   488eb97: the final assert of prep_inserts_at_index uses the neighbours' adjusted keys).  On the model of the
   repaired code they are regression examples: a result is returned and the certified checker accepts it.
   (a) two adjacent subnormal positions, one request between them (was: AssertionError, empty range) *)
Example C20_regression_subnormal_crowding :
  let orig := [FFin false 1; FFin false 2] in let keys := [FFin false 2] in
  exists adj ins, prepare_inserts_model orig keys = Ok (adj, ins) /\ adj <> [] /\ check orig keys adj ins = true.
Proof. cbv zeta. eexists. eexists. split; [vm_compute; reflexivity|]. split; [discriminate | vm_compute; reflexivity]. Qed.
(* (e) 1 + 256 ulp and its successor (the middle of an aligned block of 512 doubles), one request between them
   (was: AssertionError from the final assert, which compared with the neighbours' keys from before the
   adjustment) *)
Example C20_regression_final_assert :
  let orig := [decode 4607182418800017664; decode 4607182418800017665] in let keys := [decode 4607182418800017665] in
  exists adj ins, prepare_inserts_model orig keys = Ok (adj, ins) /\ adj <> [] /\ check orig keys adj ins = true.
Proof. cbv zeta. eexists. eexists. split; [vm_compute; reflexivity|]. split; [discriminate | vm_compute; reflexivity]. Qed.

(* What should hold, and for which no counterexample is known on the repaired code (about 130 000 targeted and
   random inputs with valid positions, every offset of an aligned block of 1024 doubles at 7 anchors, plus the
   harness runs): existing positions valid -- positive, finite, below 2^53, subnormals included -- and fewer
   than 2^20 rows in all.  It is NOT proved in general: on the partial renumbering path
   (_find_sparse_enough_range / _adjust_range: doubling ranges, thresholds 1.14^i / 1.3^i) neither the absence of
   exceptions nor Spec is established by proof; every input the harness explores gets its own kernel-checked
   certificate through C20_checker_sound instead. *)
Definition valid_position (x : fl) : Prop := exists u, x = FFin false u /\ 0 < u < 2 ^ 1127.
Definition C20_total_restricted_stmt : Prop :=
  forall orig keys, Pre orig keys -> Forall valid_position orig -> Forall wf_fl orig -> lenZ orig + lenZ keys < 2 ^ 20 ->
    exists adj ins, prepare_inserts_model orig keys = Ok (adj, ins) /\ Spec orig keys adj ins.
(* its two halves *)
Definition C20_no_exception_stmt : Prop :=
  forall orig keys, Pre orig keys -> Forall valid_position orig -> Forall wf_fl orig -> lenZ orig + lenZ keys < 2 ^ 20 ->
    exists adj ins, prepare_inserts_model orig keys = Ok (adj, ins).
Definition C20_partial_correctness_stmt : Prop :=
  forall orig keys adj ins, Pre orig keys -> Forall valid_position orig -> Forall wf_fl orig ->
    prepare_inserts_model orig keys = Ok (adj, ins) -> Spec orig keys adj ins.

(* A first piece of C20_no_exception_stmt on the partial renumbering path: the first assertion of
   prep_inserts_at_index ("assert self.count_range(begin, end) > 0", error 1) cannot fire for a group whose
   neighbours are doubles 0 <= begin < end while no existing row has been adjusted yet in the call (work list
   = earlier new keys, all below begin): the count new keys just added are all counted.  Still missing for the
   whole statement: a range is always found (lower bounds for the float powers 1.14^i, 1.3^i against the
   number of keys in the doubled ranges), evenly spread keys in it are distinct, and the invariants of
   _adj_bisect_key_left / count_range once rows have been adjusted. *)
Theorem C20_first_assert_guard_partial : forall orig prev sb ub ue c,
  let b := FFin sb ub in let e := FFin false ue in
  wf_fl b -> 0 <= ue < UOVER -> 0 <= ford b -> flt b e = true -> 1 <= c /\ c + 1 < 2 ^ 53 ->
  (forall x, In x prev -> Flt x b) -> StronglySorted Fle prev ->
  c <= count_range orig (mkwl [] (sl_update prev (get_range b e c))) b e.
Proof. exact first_assert_guard. Qed.

(* Further pieces for the partial renumbering path, each for all inputs.
   (P-a) _adjust_range's new keys: in an aligned block of 2^i doubles of spacing 2^g inside one binade,
   [rb, re) with rb = A * 2^g and re = rb + 2^i * 2^g, the c keys that get_range spreads are strictly increasing and
   strictly inside (rb, re), provided the block is sparse enough for K = c + 1 ([sparse_enough i K]).  Three
   roundings (step, step * k, rb + step * k) are accounted for; ties-to-even is why "one double apart" would not do. *)
Theorem C20_spread_keys_strict_partial : forall g A i c,
  0 <= g -> 0 <= A -> 1 <= i -> 1 <= c ->
  g = 0 \/ 2 ^ (52 + g) <= A * 2 ^ g ->
  A * 2 ^ g + 2 ^ i * 2 ^ g <= 2 ^ (53 + g) -> A * 2 ^ g + 2 ^ i * 2 ^ g < UOVER ->
  sparse_enough i (c + 1) ->
  StronglySorted Flt (FFin false (A * 2 ^ g) ::
                      get_range (FFin false (A * 2 ^ g)) (FFin false (A * 2 ^ g + 2 ^ i * 2 ^ g)) c ++
                      [FFin false (A * 2 ^ g + 2 ^ i * 2 ^ g)]).
Proof. intros g A i c Hg HA Hi Hc Hlo Hhi Hov (T1 & T2 & T3). apply spread_strict; assumption. Qed.
(* (P-b) the density test of _find_sparse_enough_range implies that condition: at every level 2 <= i < 64, with
   either threshold sequence (the float powers 1.14^i, 1.3^i as the loop computes them; table checked by
   computation), "count < thresh" gives sparse_enough i (count + 1).  (Level 0 admits no count >= 1; level 1 admits
   count = 1 only, the block of two doubles.) *)
Theorem C20_density_test_suffices : forall (i : nat) frac c,
  (2 <= i < 64)%nat -> frac = f114 \/ frac = f130 -> 1 <= c < 2 ^ 53 ->
  flt (of_Z c) (thr frac i) = true -> sparse_enough (Z.of_nat i) (c + 1).
Proof. exact level_dense. Qed.
(* (P-c) _find_sparse_enough_range as a search: if no level raises (range_around_float does not overflow, every
   range counts at least one key) and some level j < 64 passes "end <= rend and count < 1.3^j", a range is
   returned, and it is a level's range that passed the test with one of the two threshold sequences. *)
Theorem C20_find_sparse_finds : forall orig w b e (j : nat), (j < 64)%nat ->
  (forall a, (a < 64)%nat -> level_passes orig w b (Z.of_nat a) = true) ->
  level_ok orig w b e (thr f130 j) (Z.of_nat j) = true ->
  exists r a frac, (a < 64)%nat /\ (frac = f114 \/ frac = f130) /\
    find_sparse_enough_range orig w b e = Ok r /\
    range_around_float b (Z.of_nat a) = Ok r /\
    level_ok orig w b e (thr frac a) (Z.of_nat a) = true.
Proof. exact find_sparse_finds. Qed.

(* (P-a') with range_around_float: at a level 1 <= i <= 52 around a positive double u the range is an aligned block
   of 2^i doubles inside u's binade that contains u, and the keys spread over it are strictly increasing and
   strictly inside it. *)
Theorem C20_adjust_range_keys_strict_partial : forall u i c,
  0 < u -> 2 * u < UOVER -> 1 <= i <= 52 -> 1 <= c -> sparse_enough i (c + 1) ->
  exists rb re, range_around u i = Some (FFin false rb, FFin false re) /\ 0 <= rb <= u /\ u < re /\
    StronglySorted Flt (FFin false rb :: get_range (FFin false rb) (FFin false re) c ++ [FFin false re]) /\
    Forall posfin (get_range (FFin false rb) (FFin false re) c).
Proof. exact adjust_range_keys_strict. Qed.
(* (P-a'') ... and at EVERY level 1 <= i < 64, around every double 0 <= u < 2^1012: whenever the number of keys c
   passed the density test of the level ("c < thresh", either threshold sequence), range_around_float returns a
   range that contains u and the c keys that _adjust_range spreads over it are strictly increasing and strictly
   inside it.  (Levels 2..52 around u > 0: blocks inside one binade, fine analysis of the three roundings; level
   1: the block of two doubles; levels >= 53 and everything around 0.0: ranges (0, 2^T), by error bounds.) *)
Theorem C20_levels_keys_strict_partial : forall u (i : nat) frac c,
  0 <= u < 2 ^ 2086 -> (0 < u -> u mod 2 ^ ulp_exp u = 0) -> (1 <= i < 64)%nat -> frac = f114 \/ frac = f130 ->
  1 <= c < 2 ^ 53 -> flt (of_Z c) (thr frac i) = true ->
  exists rb re, range_around u (Z.of_nat i) = Some (FFin false rb, FFin false re) /\ 0 <= rb <= u /\ u < re /\
    StronglySorted Flt (FFin false rb :: get_range (FFin false rb) (FFin false re) c ++ [FFin false re]) /\
    Forall posfin (get_range (FFin false rb) (FFin false re) c).
Proof. exact levels_keys_strict. Qed.
(* (P-d) _adj_bisect_key_left is exact -- it returns the number of rows of the adjusted list V below the key --
   whenever the adjustments are sorted by index, V is the existing list with them applied, both lists are sorted,
   and NOT (the last adjusted row below the key had an original key >= the key and the next row is unadjusted).
   (That excluded configuration is the only way the shortcut of _adj_bisect_key_left can miscount.) *)
Theorem C20_adj_bisect_exact_partial : forall (orig V : list fl) (al : list (Z * fl)) (inss : list fl) (q : fl),
  let n := lenZ orig in let m := lenZ al in
  let idx := fun pos => fst (nthZ al pos (0, FNaN)) in let key := fun pos => snd (nthZ al pos (0, FNaN)) in
  (forall i j, 0 <= i <= j -> j < n -> fle (nthZ orig i FNaN) (nthZ orig j FNaN) = true) ->
  lenZ V = n ->
  (forall i j, 0 <= i <= j -> j < n -> fle (nthZ V i FNaN) (nthZ V j FNaN) = true) ->
  is_nan q = false ->
  (forall pos, 0 <= pos < m -> 0 <= idx pos < n) ->
  (forall pos pos', 0 <= pos < pos' -> pos' < m -> idx pos < idx pos') ->
  (forall pos, 0 <= pos < m -> nthZ V (idx pos) FNaN = key pos) ->
  (forall j, 0 <= j < n -> (forall pos, 0 <= pos < m -> idx pos <> j) -> nthZ V j FNaN = nthZ orig j FNaN) ->
  let a := bkl (map snd al) q in
  (0 < a -> flt (nthZ orig (idx (a - 1)) FNaN) q = false -> (if a <? m then idx a else n) = idx (a - 1) + 1) ->
  adj_bisect_key_left orig (mkwl al inss) q = bkl V q.
Proof. intros. apply adj_bisect_exact; assumption. Qed.

(* (P-e) ASSEMBLED for calls whose requests all fall into ONE gap (every request has the same bisect_left index g
   -- e.g. any single AddRecord, or a batch inserted at one place): C20_partial_correctness_stmt holds, including
   the partial renumbering path.  Existing positions valid (positive doubles below 2^1012, strictly increasing),
   neighbours of the gap valid (begin >= 0, end > 0, finite, begin < end): WHATEVER the model returns satisfies Spec.
   The proof follows the code: get_range; if is_valid_range fails, the range found by _find_sparse_enough_range is
   a level's range that passed the density test (inversion of the search), its new keys are strictly increasing
   inside it (P-a''), _adjust_range renumbers exactly the rows bisected by the range ends and all new keys in the
   order rows-below, new keys, rows-above (the sort of (key, is_insert, index) triples and the remove/add loop on the
   two sorted containers are followed step by step), and the adjusted list stays strictly sorted around it. *)
Theorem C20_partial_correctness_one_gap_partial : forall (orig keys : list fl) (g : nat),
  Pre orig keys -> Forall wf_fl orig ->
  Forall (fun x => exists u, x = FFin false u /\ 0 < u < 2 ^ 2086) orig -> StronglySorted Flt orig ->
  lenZ orig + lenZ keys + 1 < 2 ^ 53 -> keys <> [] ->
  (forall k, In k keys -> bkl orig k = Z.of_nat g) ->
  flt (group_begin orig (Z.of_nat g)) fzero || fle (group_end orig (Z.of_nat g) (Z.of_nat (length keys))) fzero ||
    is_inf (fmax (group_begin orig (Z.of_nat g)) (group_end orig (Z.of_nat g) (Z.of_nat (length keys)))) = false ->
  flt (group_begin orig (Z.of_nat g)) (group_end orig (Z.of_nat g) (Z.of_nat (length keys))) = true ->
  forall adj ins, prepare_inserts_model orig keys = Ok (adj, ins) -> Spec orig keys adj ins.
Proof. exact single_gap_correct. Qed.

(* (P-f) _adj_get_key (bisect.bisect_left over the adjustments compared as (index, key) tuples, the C loop modelled
   step by step) reads the adjusted list, whenever the adjustments are sorted by index and in range. *)
Theorem C20_adj_get_key_partial : forall orig al inss (j : nat),
  StronglySorted idx_lt al -> Forall (fun q => 0 <= fst q < lenZ orig) al -> (j < length orig)%nat ->
  adj_get_key orig (mkwl al inss) (Z.of_nat j) = nth j (apply_adj orig al) FNaN.
Proof. exact adj_get_key_virtual. Qed.
(* (P-g) a wide gap is never crowded: between doubles 0 <= b < e with e >= 2^-1020 and e >= 4 b, up to 2^24 - 1 keys
   spread by get_range are strictly increasing inside (b, e) (four roundings, by error bounds).  Hence
   prep_inserts_at_index renumbers only when end < 4 * max(begin, 2^-1022), which bounds the level at which a
   range containing end exists. *)
Theorem C20_wide_gap_valid_partial : forall ub ue c,
  0 <= ub -> ue mod 2 ^ ulp_exp ue = 0 -> 2 ^ 54 <= ue -> 4 * ub <= ue -> ue < UOVER -> 1 <= c -> c + 1 <= 2 ^ 24 ->
  StronglySorted Flt (FFin false ub :: get_range (FFin false ub) (FFin false ue) c ++ [FFin false ue]).
Proof. exact wide_gap_strict. Qed.
(* (P-h) ASSEMBLED: C20_total_restricted_stmt for calls whose requests all fall into one gap BEFORE AN EXISTING ROW
   (any single AddRecord above a row, any batch inserted at one place): existing positions valid (positive doubles
   below 2^1012, strictly increasing), fewer than 2^20 rows in all.  No exception and Spec -- on the plain path AND
   on the partial renumbering path: the first assertion cannot fire (P-first-assert), every level counts at least
   one key and does not overflow, a range is found at the latest at level 55 because a crowded gap is narrow (P-g)
   and 2^20 < 1.3^55 (P-c), its keys are strictly increasing (P-a''), _adjust_range renumbers the right rows (P-e),
   _adj_get_key then reads the adjusted neighbours (P-f) and the final assertion holds. *)
Theorem C20_total_one_gap_partial : forall orig keys (g : nat),
  Pre orig keys -> Forall wf_fl orig ->
  Forall (fun x => exists u, x = FFin false u /\ 0 < u < 2 ^ 2086) orig -> StronglySorted Flt orig ->
  lenZ orig + lenZ keys < 2 ^ 20 -> keys <> [] ->
  (forall k, In k keys -> bkl orig k = Z.of_nat g) -> (g < length orig)%nat ->
  exists adj ins, prepare_inserts_model orig keys = Ok (adj, ins) /\ Spec orig keys adj ins.
Proof. exact one_gap_total. Qed.

(* Proved: total correctness (no exception AND Spec) on the paths that do not renumber partially.
   (i) Appending: the last existing position (0.0 for an empty table) is an integer b,
   every request lies above every existing row (the default request is +inf), b + count + 1 < 2^53: no
   exception, no adjustment, the new rows get b+1, b+2, ... in request order, and Spec holds. *)
Theorem C20_total_append_partial : forall orig keys b,
  Pre orig keys -> keys <> [] -> 0 <= b -> b + Z.of_nat (length keys) + 1 < 2 ^ 53 ->
  last orig fzero = fint b ->
  (forall x k, In x orig -> In k keys -> flt x k = true) ->
  let news := map (fun k => fint (b + k)) (zrange 1 (Z.of_nat (length keys) + 1)) in
  prepare_inserts_model orig keys = Ok ([], ungroup keys news) /\ Spec orig keys [] (ungroup keys news).
Proof. intros. apply total_append; assumption. Qed.

(* (ii) The whole path without renumbering, from the implementation's own dynamic test: if for every group the
   neighbours are valid (begin >= 0, end > 0, finite, begin < end) and is_valid_range accepts get_range(begin,
   end, count) -- which is what prep_inserts_at_index checks before it returns without touching anything --
   then for ALL such inputs the model raises nothing, adjusts nothing, returns the concatenated ranges in
   request order, and Spec holds.  (Uses: rounding is monotone, so get_range is weakly increasing and lies
   in [begin, prevfloat(end)]; "no two neighbours equal" then makes it strictly increasing.)
   [wf_fl]: the existing positions are doubles (true of everything decode produces). *)
Theorem C20_total_no_renumbering_partial : forall orig keys,
  Pre orig keys -> Forall wf_fl orig -> lenZ keys + 1 < 2 ^ 53 -> plain_path orig keys = true ->
  prepare_inserts_model orig keys = Ok ([], ungroup keys (plain_result orig keys)) /\
  Spec orig keys [] (ungroup keys (plain_result orig keys)).
Proof. exact total_plain. Qed.

(* (iii) The simple renumbering path (_adjust_all, as in test_relabeling.test_with_invalid): every request lands
   before the first existing row and that row's position is invalid -- <= 0 or +inf, but not -inf (see (d)
   above) -- so everything is renumbered: for ALL such inputs no exception, the new rows get 1..c in request
   order, existing row j gets c+1+j, and Spec holds. *)
Theorem C20_total_renumber_front_partial : forall orig keys x0 rest,
  Pre orig keys -> keys <> [] -> orig = x0 :: rest ->
  (forall k, In k keys -> flt x0 k = false) ->
  (fle x0 fzero = true \/ x0 = FInf false) -> flt fneginf x0 = true ->
  Z.of_nat (length orig + length keys) + 1 < 2 ^ 53 ->
  let c := length keys in
  let adj := map (fun j => (Z.of_nat j, fint (Z.of_nat (1 + c + j)))) (seq 0 (length orig)) in
  let news := map (fun j => fint (Z.of_nat j)) (seq 1 c) in
  prepare_inserts_model orig keys = Ok (adj, ungroup keys news) /\ Spec orig keys adj (ungroup keys news).
Proof.
  intros orig keys x0 rest HPre Hk Ho Hfirst Hinv Hnn Hsmall.
  exact (total_renumber_front orig keys HPre Hk x0 rest Ho Hfirst Hinv Hnn Hsmall).
Qed.

(* the arithmetic behind it, for all doubles: rounding to nearest-even is monotone, and prevfloat(u) is the
   largest double below u *)
Theorem C20_rounding_monotone : forall n1 n2 s, 0 <= s -> 0 <= n1 <= n2 ->
  ford (round_p2 false n1 s) <= ford (round_p2 false n2 s).
Proof. exact round_p2_mono. Qed.
Theorem C20_prevfloat_largest_below : forall u v, 0 < u -> 0 <= v < u -> v mod 2 ^ ulp_exp v = 0 ->
  v <= upred u /\ upred u < u.
Proof. intros u v Hu Hv Hd. split; [apply upred_max; assumption | apply upred_lt; assumption]. Qed.

(* ---- non-vacuity *)
Definition d (b : Z) : fl := decode b.
Definition f1 := d 4607182418800017408.   (* 1.0 *)
Definition f2 := d 4611686018427387904.   (* 2.0 *)
Definition f3 := d 4613937818241073152.   (* 3.0 *)

(* the checker accepts the model's own answer on a crowded neighbourhood (1.0, its successor, request in between
   twice): existing rows are adjusted *)
Example C20_checker_nonvacuous :
  let orig := [f1; nextfloat f1] in let keys := [nextfloat f1; nextfloat f1; FInf false] in
  exists adj ins, prepare_inserts_model orig keys = Ok (adj, ins) /\ adj <> [] /\ check orig keys adj ins = true.
Proof. cbv zeta. eexists. eexists. split; [vm_compute; reflexivity|]. split; [discriminate | vm_compute; reflexivity]. Qed.

Example C20_append_nonvacuous :
  let orig := [f1; f2; f3] in let keys := [FInf false; d 4617315517961601024; FInf false] in   (* inf, 5.0, inf *)
  Pre orig keys /\ last orig fzero = fint 3 /\
  (forall x k, In x orig -> In k keys -> flt x k = true) /\
  prepare_inserts_model orig keys = Ok ([], map d [4617315517961601024; 4616189618054758400; 4618441417868443648]).
Proof.
  cbv zeta. split; [apply check_pre_sound; vm_compute; reflexivity|]. split; [vm_compute; reflexivity|].
  split; [|vm_compute; reflexivity].
  intros x k Hx Hk. cbn in Hx, Hk.
  repeat (destruct Hx as [<-|Hx]; [repeat (destruct Hk as [<-|Hk]; [vm_compute; reflexivity|]); destruct Hk|]).
  destruct Hx.
Qed.

Example C20_no_renumbering_nonvacuous :
  let orig := [f1; f2; f3] in let keys := [f2; f2; d 4602678819172646912; FInf false; nextfloat f2] in  (* 2, 2, 0.5, inf, 2+ulp *)
  Pre orig keys /\ Forall wf_fl orig /\ plain_path orig keys = true /\ length (plain_result orig keys) = 5%nat.
Proof.
  cbv zeta. split; [apply check_pre_sound; vm_compute; reflexivity|].
  split; [repeat (constructor; [apply wf_flb_sound; vm_compute; reflexivity|]); constructor|].
  split; vm_compute; reflexivity.
Qed.

Example C20_renumber_front_nonvacuous :
  let orig := [fzero; fzero; f1] in let keys := [fzero; FInf true] in     (* rows at 0, 0, 1; requests 0.0 and -inf *)
  Pre orig keys /\ (forall k, In k keys -> flt fzero k = false) /\ fle fzero fzero = true /\ flt fneginf fzero = true /\
  prepare_inserts_model orig keys = Ok ([(0, f3); (1, d 4616189618054758400); (2, d 4617315517961601024)], [f2; f1]).
Proof.
  cbv zeta. split; [apply check_pre_sound; vm_compute; reflexivity|].
  split; [intros k [<-|[<-|[]]]; vm_compute; reflexivity|].
  repeat split; vm_compute; reflexivity.
Qed.

(* non-vacuity of (P-a): the block [1, 1 + 512 ulp) (g = 1022, A = 2^52, i = 9) and 3 keys (3 < 1.14^9) *)
Example C20_spread_nonvacuous :
  sparse_enough 9 4 /\ 2 ^ (52 + 1022) <= 2 ^ 52 * 2 ^ 1022 /\ 2 ^ 52 * 2 ^ 1022 + 2 ^ 9 * 2 ^ 1022 <= 2 ^ (53 + 1022) /\
  flt (of_Z 3) (thr f114 9) = true.
Proof.
  split; [apply sparse_enoughb_sound; vm_compute; reflexivity|].
  split; [apply Z.leb_le; vm_compute; reflexivity|]. split; [apply Z.leb_le; vm_compute; reflexivity | vm_compute; reflexivity].
Qed.

(* non-vacuity of (P-e): the former counterexample (e): two adjacent doubles, one request between them; the model
   returns adjustments for both rows, and the hypotheses of (P-e) hold *)
Example C20_one_gap_nonvacuous :
  let orig := [decode 4607182418800017664; decode 4607182418800017665] in let keys := [decode 4607182418800017665] in
  Pre orig keys /\ Forall wf_fl orig /\ StronglySorted Flt orig /\ (forall k, In k keys -> bkl orig k = Z.of_nat 1) /\
  flt (group_begin orig 1) (group_end orig 1 1) = true /\
  exists adj ins, prepare_inserts_model orig keys = Ok (adj, ins) /\ length adj = 2%nat.
Proof.
  cbv zeta. split; [apply check_pre_sound; vm_compute; reflexivity|].
  split; [repeat (constructor; [apply wf_flb_sound; vm_compute; reflexivity|]); constructor|].
  split; [repeat constructor; vm_compute; reflexivity|].
  split; [intros k [<-|[]]; vm_compute; reflexivity|].
  split; [vm_compute; reflexivity|]. eexists. eexists. split; [vm_compute; reflexivity | reflexivity].
Qed.

Example C20_history_nonvacuous :
  exists s, model_run [] [[FInf false; FInf false]; [f1]; [f2; f2; FInf true]] = Some s /\ length s = 6%nat.
Proof. eexists. split; [vm_compute; reflexivity | reflexivity]. Qed.

Example C20_ungroup_nonvacuous :
  ungroup [f2; f1; f2; f1] [f1; f2; f3; d 4616189618054758400] = [f3; f1; d 4616189618054758400; f2].
Proof. vm_compute. reflexivity. Qed.

(* ---- 9. THE CODE TIE.  coq/gen/Relabel_gen.v is rewritten from /repo/sandbox/grist/relabeling.py by harness/relabel2v.py
   on every run (get_range, _adj_bisect_key_left, _adj_get_key, count_range, _adjust_range, _adjust_all,
   _find_sparse_enough_range with its two thresholds, prep_inserts_at_index, prepare_inserts).  Each generated function
   equals the hand-written model function for ALL arguments; an edit of the Python source that changes what is computed
   makes the corresponding proof below fail (or leaves the translated subset: TieBroken). *)
Require Import GristGen.Relabel_gen Grist.Proofs.Relabel_bridge.

Theorem C20_bridge_get_range : forall s e n, gen_get_range s e n = get_range s e n.
Proof. exact gen_get_range_eq. Qed.
Theorem C20_bridge_adj_bisect_key_left : forall orig w key,
  gen_adj_bisect_key_left orig w key = adj_bisect_key_left orig w key.
Proof. exact gen_adj_bisect_key_left_eq. Qed.
Theorem C20_bridge_adj_get_key : forall orig w index, gen_adj_get_key orig w index = adj_get_key orig w index.
Proof. exact gen_adj_get_key_eq. Qed.
Theorem C20_bridge_count_range : forall orig w b e, gen_count_range orig w b e = count_range orig w b e.
Proof. exact gen_count_range_eq. Qed.
Theorem C20_bridge_adjust_range : forall orig w b e, gen_adjust_range orig w b e = adjust_range orig w b e.
Proof. exact gen_adjust_range_eq. Qed.
Theorem C20_bridge_adjust_all : forall orig w, gen_adjust_all orig w = adjust_all orig w.
Proof. exact gen_adjust_all_eq. Qed.
Theorem C20_bridge_find_sparse_enough_range : forall orig w b e,
  gen_find_sparse_enough_range orig w b e = find_sparse_enough_range orig w b e.
Proof. exact gen_find_sparse_enough_range_eq. Qed.
Theorem C20_bridge_prep_inserts_at_index : forall orig w index count,
  gen_prep_inserts_at_index orig w index count = prep_inserts_at_index orig w index count.
Proof. exact gen_prep_inserts_at_index_eq. Qed.
Theorem C20_bridge_prepare_inserts : forall orig keys, gen_prepare_inserts orig keys = prepare_inserts_model orig keys.
Proof. exact gen_prepare_inserts_eq. Qed.
Theorem C20_bridge_prepare_inserts_chain : forall orig keys,
  gen_prepare_inserts_code orig keys = prepare_inserts_model orig keys.
Proof. exact gen_prepare_inserts_code_eq. Qed.

(* the main theorems, restated about the GENERATED prepare_inserts *)
Theorem C20_code_total_one_gap_partial : forall orig keys (g : nat),
  Pre orig keys -> Forall wf_fl orig ->
  Forall (fun x => exists u, x = FFin false u /\ 0 < u < 2 ^ 2086) orig -> StronglySorted Flt orig ->
  lenZ orig + lenZ keys < 2 ^ 20 -> keys <> [] ->
  (forall k, In k keys -> bkl orig k = Z.of_nat g) -> (g < length orig)%nat ->
  exists adj ins, gen_prepare_inserts orig keys = Ok (adj, ins) /\ Spec orig keys adj ins.
Proof. intros. rewrite gen_prepare_inserts_eq. eapply one_gap_total; eassumption. Qed.

Theorem C20_code_total_no_renumbering_partial : forall orig keys,
  Pre orig keys -> Forall wf_fl orig -> lenZ keys + 1 < 2 ^ 53 -> plain_path orig keys = true ->
  gen_prepare_inserts orig keys = Ok ([], ungroup keys (plain_result orig keys)) /\
  Spec orig keys [] (ungroup keys (plain_result orig keys)).
Proof. intros. rewrite gen_prepare_inserts_eq. apply total_plain; assumption. Qed.

Theorem C20_code_total_append_partial : forall orig keys b,
  Pre orig keys -> keys <> [] -> 0 <= b -> b + Z.of_nat (length keys) + 1 < 2 ^ 53 ->
  last orig fzero = fint b ->
  (forall x k, In x orig -> In k keys -> flt x k = true) ->
  let news := map (fun k => fint (b + k)) (zrange 1 (Z.of_nat (length keys) + 1)) in
  gen_prepare_inserts orig keys = Ok ([], ungroup keys news) /\ Spec orig keys [] (ungroup keys news).
Proof. intros. rewrite gen_prepare_inserts_eq. apply total_append; assumption. Qed.

Theorem C20_code_total_renumber_front_partial : forall orig keys x0 rest,
  Pre orig keys -> keys <> [] -> orig = x0 :: rest ->
  (forall k, In k keys -> flt x0 k = false) ->
  (fle x0 fzero = true \/ x0 = FInf false) -> flt fneginf x0 = true ->
  Z.of_nat (length orig + length keys) + 1 < 2 ^ 53 ->
  let c := length keys in
  let adj := map (fun j => (Z.of_nat j, fint (Z.of_nat (1 + c + j)))) (seq 0 (length orig)) in
  let news := map (fun j => fint (Z.of_nat j)) (seq 1 c) in
  gen_prepare_inserts orig keys = Ok (adj, ungroup keys news) /\ Spec orig keys adj (ungroup keys news).
Proof.
  intros orig keys x0 rest HPre Hk Ho Hfirst Hinv Hnn Hsmall. rewrite gen_prepare_inserts_eq.
  exact (total_renumber_front orig keys HPre Hk x0 rest Ho Hfirst Hinv Hnn Hsmall).
Qed.

Theorem C20_code_partial_correctness_one_gap_partial : forall (orig keys : list fl) (g : nat),
  Pre orig keys -> Forall wf_fl orig ->
  Forall (fun x => exists u, x = FFin false u /\ 0 < u < 2 ^ 2086) orig -> StronglySorted Flt orig ->
  lenZ orig + lenZ keys + 1 < 2 ^ 53 -> keys <> [] ->
  (forall k, In k keys -> bkl orig k = Z.of_nat g) ->
  flt (group_begin orig (Z.of_nat g)) fzero || fle (group_end orig (Z.of_nat g) (Z.of_nat (length keys))) fzero ||
    is_inf (fmax (group_begin orig (Z.of_nat g)) (group_end orig (Z.of_nat g) (Z.of_nat (length keys)))) = false ->
  flt (group_begin orig (Z.of_nat g)) (group_end orig (Z.of_nat g) (Z.of_nat (length keys))) = true ->
  forall adj ins, gen_prepare_inserts_code orig keys = Ok (adj, ins) -> Spec orig keys adj ins.
Proof. intros until ins. rewrite gen_prepare_inserts_code_eq. eapply single_gap_correct; eassumption. Qed.

(* range_around_float itself (math.frexp / ldexp / floor, regenerated into the vocabulary of Model/RelabelFrexp.v) is the
   shift-and-round model on its whole domain of use: x a non-negative double (begin >= 0 is guarded by
   prep_inserts_at_index), i one of the 64 levels of _find_sparse_enough_range. *)
Require Import Grist.Model.RelabelFrexp Grist.Proofs.Relabel_raf_bridge.
Theorem C20_bridge_range_around_float : forall u i,
  0 <= i < 64 -> 0 <= u < UOVER -> u mod 2 ^ ulp_exp u = 0 ->
  gen_range_around_float (FFin false u) i = range_around_float (FFin false u) i.
Proof. exact gen_range_around_float_eq. Qed.
Example C20_bridge_range_around_float_nonvacuous :
  gen_range_around_float f3 2 = Ok (f3, d 4613937818241073156) /\ gen_range_around_float (d 9218868437227405311) 1 = Err 5.
Proof. split; vm_compute; reflexivity. Qed.
