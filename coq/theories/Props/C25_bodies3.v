(* C25 -- migration bodies proved total, third batch (see Props/C25_bodies.v for the setting). *)
From Coq Require Import ZArith Bool String List.
Import ListNotations.
Require Import Grist.Model.Migrate Grist.Model.MigrateSites Grist.Model.MigrateBodies.
Require Import Grist.Proofs.MigrateBodies_proofs Grist.Proofs.MigrateBodies2_proofs Grist.Proofs.MigrateBodies3_proofs.
Require Import Grist.Props.C25_bodies GristGen.MigrateConst_gen.
Open Scope Z_scope.

(* 3: Derived -> Any and the rewritten lookupOrAddDerived formulas (re.sub is the oracle re_sub, any function).
   pre3: every column has a type and an empty-or-string formula; a column of type Derived, or with a formula,
   names a table record with a string tableId, has a string colId, and that table's schema has the column. *)
Theorem C25_m3_total : forall re_sub s, pre3 s = true -> migrates (m3 re_sub) s.
Proof. exact pre3_sound. Qed.

(* 17: Image -> Attachments, cells converted.  pre17: as pre3 for the Image columns, which also have an isFormula
   cell and, when not formulas, a data column in their user table. *)
Theorem C25_m17_total : forall s, pre17 s = true -> migrates m17 s.
Proof. exact pre17_sound. Qed.

(* 20: _grist_Pages.  pre20: string tableIds, hashable tableRef / viewRef cells in _grist_TableViews, views with
   string names and int ids. *)
Theorem C25_m20_total : forall s, pre20 s = true -> migrates m20 s.
Proof. exact pre20_sound. Qed.

(* Constant bodies that also add records to the tables they create (const_ok2): migration 14 (ACL tables). *)
Theorem C25_const2_migration_total : forall acts s,
  const_ok2 [] acts = true -> J s ->
  (forall t, In t (const_needs [] acts) -> has_table t s) ->
  (forall t r, In (t, r) (const_row_needs acts) -> In r (rows_of t s)) ->
  migrates (fun _ => Ok acts) s.
Proof. exact const2_migration_total. Qed.

Theorem C25_m14_total : forall acts s, In (14, acts) const_bodies -> J s -> migrates (fun _ => Ok acts) s.
Proof.
  intros acts s Hin HJ.
  assert (Hok : const_ok2 [] acts = true /\ const_needs [] acts = [] /\ const_row_needs acts = []).
  { vm_compute in Hin. repeat (destruct Hin as [Hin|Hin]; [try discriminate Hin; try (injection Hin as <-; repeat split; vm_compute; reflexivity)|]).
    contradiction. }
  destruct Hok as [Hok [Hn Hr]]. apply C25_const2_migration_total; [exact Hok|exact HJ| |].
  - rewrite Hn. intros t [].
  - rewrite Hr. intros t r [].
Qed.

(* non-vacuity: migration 17 on a table with one Image column *)
Example C25_m17_example :
  let s := mkTds
    [(T_TABLES, ([Some 1], [(zs "tableId", [VStr (zs "T")])]));
     (T_COLUMNS, ([Some 7], [(zs "parentId", [VInt 1]); (zs "colId", [VStr (zs "Pic")]); (zs "type", [VStr (zs "Image")]);
                            (zs "isFormula", [VBool false])]));
     (zs "T", ([Some 1; Some 2; Some 3], [(zs "Pic", [VInt 5; VNull; VInt 0])]))]
    [(T_TABLES, []); (T_COLUMNS, []); (zs "T", [(zs "Pic", mkci (zs "Pic") (zs "Image") false [])])] in
  pre17 s = true /\
  m17 s = Ok [ModifyColumn (zs "T") (zs "Pic") [(zs "type", VStr (zs "Attachments"))];
              BulkUpdateRecord T_COLUMNS [Some 7] [(zs "type", [VStr (zs "Attachments")])];
              BulkUpdateRecord (zs "T") [Some 1; Some 2; Some 3] [(zs "Pic", [VList [VInt 5]; VList []; VList []])]].
Proof. split; vm_compute; reflexivity. Qed.
