(* C10 -- Removing rows leaves no references to them.
   Statements only; proofs are in Proofs/RefIndex_proofs.v and Proofs/RefIndex_removal.v.  The model
   (Model/RefIndex.v) is hand-written and compared with the running code on every run (harness/props/c10.py). *)
From Coq Require Import ZArith List Bool Arith Lia.
Import ListNotations.
Require Import Grist.Model.RefIndex Grist.Proofs.RefIndex_proofs Grist.Proofs.RefIndex_removal.

(* The reverse index of a reference column is EXACTLY the reverse of its cells after ANY sequence of
   set / unset / copy_from_column / growto / clear on a new column: for every target t the set kept for t is the
   increasing list of the rows whose cell refers to t.  No operation raises.
   (clear = BaseReferenceColumn.clear, which since /repo commit 474dc3f also clears the relation.) *)
Theorem inverse_map_exact : forall hack k ops,
  exists c, run hack k ops = Ok c /\
    forall t, inv_get t (rc_inv c) = filter (fun r => memZ t (refs c r)) (seq 0 (length (rc_data c))).
Proof.
  intros hack k ops.
  destruct (run_from_ok hack true ops (col_new k) (col_new_ok k) (or_introl eq_refl)) as [c [E [Hok _]]].
  exists c. split; [exact E|]. apply inv_ok_exact. exact Hok.
Qed.

(* Regression example (repaired by 474dc3f, finding C10-clear-keeps-reverse-index): with the clear of the old code
   (run_old: BaseColumn.clear, which left the relation's entries behind) the same statement is false. *)
Definition inverse_map_exact_old_code : Prop := forall hack k ops,
  exists c, run_old hack k ops = Ok c /\
    forall t, inv_get t (rc_inv c) = filter (fun r => memZ t (refs c r)) (seq 0 (length (rc_data c))).

Example inverse_map_exact_refuted_clear : ~ inverse_map_exact_old_code.
Proof.
  intros H. destruct (H (fun _ => None) KRef [OSet 1 (CInt 1); OClear]) as [c [E Hc]].
  vm_compute in E. inversion E; subst c. specialize (Hc 1%Z). vm_compute in Hc. discriminate.
Qed.

(* doBulkRemoveRecord on a table T whose rows are wd_rows, in a world of data Ref/RefList columns of T (w_own) and
   targeting T (w_back), every one with an exact reverse index and with references only on existing rows:
   the removal succeeds; afterwards, for every column targeting T and every row r, the cell is the old cell with
   exactly the removed ids filtered out in order ([] becomes None, a Ref becomes 0; the table's own removed rows
   are reset), so no cell refers to a removed row; and the world satisfies the hypotheses again. *)
Theorem C10_removal : forall hack wd removed, world_ok wd ->
  let existing := filter (fun r => memN r (wd_rows wd)) removed in
  let targets := map Z.of_nat removed in
  exists wd', remove_rows hack wd removed = Ok wd' /\
    wd_rows wd' = filter (fun r => negb (memN r removed)) (wd_rows wd) /\
    world_ok wd' /\
    Forall2 (fun w w' =>
               w_own w' = w_own w /\ w_back w' = w_back w /\ rc_kind (w_col w') = rc_kind (w_col w) /\
               forall r, raw_get (w_col w') r = expected_cell w existing targets r /\
                         (w_back w = true -> forall t, In t targets -> ~ In t (refs (w_col w') r)))
            (wd_cols wd) (wd_cols wd').
Proof.
  intros hack wd removed Hok existing targets.
  destruct (remove_rows_spec hack wd removed Hok) as [wd' [E [Hr [Hok' HF]]]].
  exists wd'. split; [exact E|]. split; [exact Hr|]. split; [exact Hok'|].
  fold existing in HF. fold targets in HF.
  induction HF as [|w w' l l' H HF IH]; constructor; [|exact IH].
  cbv beta in H. destruct H as [Ho [Hb [Hk [Hg _]]]]. split; [exact Ho|]. split; [exact Hb|]. split; [exact Hk|].
  intros r. split; [apply Hg|]. intros Hback t Ht. unfold refs. rewrite Hk, Hg.
  apply expected_no_refs; assumption.
Qed.

(* ... through any history of removals *)
Theorem C10_removal_histories : forall hack l wd, world_ok wd ->
  exists wd', remove_seq hack wd l = Ok wd' /\ world_ok wd'.
Proof. intros hack l wd H. apply remove_seq_ok. exact H. Qed.

(* the hypothesis world_ok is what every column history gives *)
Theorem world_ok_from_runs : forall hack k ops c (trows rows : list nat) (own back : bool),
  run hack k ops = Ok c ->
  (forall r, refs c r <> [] -> In r (if own then trows else rows)) ->
  wcol_ok trows {| w_col := c; w_rows := rows; w_own := own; w_back := back |}.
Proof.
  intros hack k ops c trows rows own back E Hr. split.
  - cbn [w_col]. apply (run_inv_ok hack k ops c E).
  - exact Hr.
Qed.

(* Regression example (repaired by 474dc3f): without an exact index (what the clear of the OLD code left behind) the
   cleanup goes wrong: a Ref cell pointing at a row that is NOT removed is reset to 0, and a RefList cell that has
   become None makes the removal raise TypeError. *)
Definition stale_ref : res refcol := run_old (fun _ => None) KRef [OSet 1 (CInt 1); OClear; OSet 1 (CInt 2)].
Definition stale_reflist : res refcol := run_old (fun _ => None) KRefList [OSet 1 (CList [1%Z]); OClear; OGrow 2].

Example C10_refuted_stale_index :
  (exists c wd', stale_ref = Ok c /\
     remove_rows (fun _ => None)
        {| wd_rows := [1; 2]; wd_cols := [{| w_col := c; w_rows := [1]; w_own := false; w_back := true |}] |} [1]
       = Ok wd' /\
     raw_get c 1 = CInt 2 /\ cell_without KRef (raw_get c 1) [1%Z] = CInt 2 /\
     map (fun w => raw_get (w_col w) 1) (wd_cols wd') = [CInt 0]) /\
  (exists c, stale_reflist = Ok c /\
     remove_rows (fun _ => None)
        {| wd_rows := [1; 2]; wd_cols := [{| w_col := c; w_rows := [1]; w_own := false; w_back := true |}] |} [1]
       = Err ETypeError).
Proof.
  split.
  - eexists. eexists. split; [vm_compute; reflexivity|]. split; [vm_compute; reflexivity|].
    repeat split; vm_compute; reflexivity.
  - eexists. split; [vm_compute; reflexivity|]. vm_compute. reflexivity.
Qed.

(* The property quantifies over removal "by any means".  ReplaceTableData removes the rows that are not in its id
   list and does NOT run the cleanup: in a world satisfying all the hypotheses of C10_removal, replacing the data
   of T (rows 1,2) by row 2 alone leaves the Ref and the RefList of another table pointing at row 1. *)
Definition rep_ref : res refcol := run (fun _ => None) KRef [OSet 1 (CInt 1)].
Definition rep_rl : res refcol := run (fun _ => None) KRefList [OSet 1 (CList [2; 1]%Z)].

Theorem C10_refuted_replace_table_data : exists c1 c2 wd',
  rep_ref = Ok c1 /\ rep_rl = Ok c2 /\
  let wd := {| wd_rows := [1; 2];
               wd_cols := [{| w_col := c1; w_rows := [1]; w_own := false; w_back := true |};
                           {| w_col := c2; w_rows := [1]; w_own := false; w_back := true |}] |} in
  world_ok wd /\ replace_table_data (fun _ => None) wd [2] [] = Ok wd' /\ wd_rows wd' = [2] /\
  map (fun w => refs (w_col w) 1) (wd_cols wd') = [[1%Z]; [2%Z; 1%Z]].
Proof.
  eexists. eexists. eexists.
  split; [vm_compute; reflexivity|]. split; [vm_compute; reflexivity|]. cbv zeta.
  split; [|split; [vm_compute; reflexivity|split; vm_compute; reflexivity]].
  unfold world_ok. cbn [wd_rows wd_cols].
  apply Forall_cons; [split|apply Forall_cons; [split|apply Forall_nil]]; cbn [w_col w_rows w_own col_rows].
  - match goal with
    | |- inv_ok ?c => exact (proj1 (run_inv_ok (fun _ => None) KRef [OSet 1 (CInt 1)] c
                                      ltac:(vm_compute; reflexivity)))
    end.
  - intros r. do 2 (destruct r as [|r]; [vm_compute; intuition congruence|]).
    intros H; exfalso; apply H; apply refs_overflow; cbn [rc_data length]; lia.
  - match goal with
    | |- inv_ok ?c => exact (proj1 (run_inv_ok (fun _ => None) KRefList [OSet 1 (CList [2; 1]%Z)] c
                                      ltac:(vm_compute; reflexivity)))
    end.
  - intros r. do 2 (destruct r as [|r]; [vm_compute; intuition congruence|]).
    intros H; exfalso; apply H; apply refs_overflow; cbn [rc_data length]; lia.
Qed.

(* Non-vacuity: a world with a Ref column and a RefList column pointing at T (rows 1..3) and a self-reference of T;
   removing rows 1 and 3 filters [1;2;3;2] to [2;2], resets the Ref to 1, empties [3] to None. *)
Definition ex_ref : res refcol := run (fun _ => None) KRef [OSet 1 (CInt 1); OSet 2 (CInt 2); OSet 4 (CStr [97%Z])].
Definition ex_rl : res refcol :=
  run (fun _ => None) KRefList [OSet 1 (CList [1; 2; 3; 2]%Z); OSet 2 (CList [3%Z]); OSet 3 (CList [2%Z])].
Definition ex_self : res refcol := run (fun _ => None) KRef [OSet 1 (CInt 3); OSet 2 (CInt 1); OSet 3 (CInt 2)].

Ltac from_run k ops :=
  match goal with
  | |- inv_ok ?c => exact (proj1 (run_inv_ok (fun _ => None) k ops c ltac:(vm_compute; reflexivity)))
  end.
Ltac past_end := intros H; exfalso; apply H; apply refs_overflow; cbn [rc_data length]; lia.

Example C10_nonvacuous : exists c1 c2 c3 wd',
  ex_ref = Ok c1 /\ ex_rl = Ok c2 /\ ex_self = Ok c3 /\
  let wd := {| wd_rows := [1; 2; 3];
               wd_cols := [{| w_col := c1; w_rows := [1; 2; 4]; w_own := false; w_back := true |};
                           {| w_col := c2; w_rows := [1; 2; 3]; w_own := false; w_back := true |};
                           {| w_col := c3; w_rows := []; w_own := true; w_back := true |}] |} in
  world_ok wd /\ remove_rows (fun _ => None) wd [1; 3] = Ok wd' /\
  wd_rows wd' = [2] /\
  map (fun w => map (raw_get (w_col w)) [1; 2; 3; 4]) (wd_cols wd') =
    [[CInt 0; CInt 2; CInt 0; CStr [97%Z]]; [CList [2; 2]%Z; CNone; CList [2%Z]; CNone];
     [CInt 0; CInt 0; CInt 0; CInt 0]].
Proof.
  eexists. eexists. eexists. eexists.
  split; [vm_compute; reflexivity|]. split; [vm_compute; reflexivity|]. split; [vm_compute; reflexivity|].
  cbv zeta. split; [|split; [vm_compute; reflexivity|split; vm_compute; reflexivity]].
  unfold world_ok. cbn [wd_rows wd_cols].
  apply Forall_cons; [split|apply Forall_cons; [split|apply Forall_cons; [split|apply Forall_nil]]];
    cbn [w_col w_rows w_own col_rows].
  - from_run KRef [OSet 1 (CInt 1); OSet 2 (CInt 2); OSet 4 (CStr [97%Z])].
  - intros r. do 5 (destruct r as [|r]; [vm_compute; intuition congruence|]). past_end.
  - from_run KRefList [OSet 1 (CList [1; 2; 3; 2]%Z); OSet 2 (CList [3%Z]); OSet 3 (CList [2%Z])].
  - intros r. do 4 (destruct r as [|r]; [vm_compute; intuition congruence|]). past_end.
  - from_run KRef [OSet 1 (CInt 3); OSet 2 (CInt 1); OSet 3 (CInt 2)].
  - intros r. do 4 (destruct r as [|r]; [vm_compute; intuition congruence|]). past_end.
Qed.
