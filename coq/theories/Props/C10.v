(* C10 -- Removing rows leaves no references to them.  Statements only; proofs in Proofs/RefIndex_proofs.v. *)
From Coq Require Import ZArith List Bool.
Import ListNotations.
Require Import Grist.Model.RefIndex.
