(* C38 -- Node and the engine agree on metadata schema and type defaults.
   py_schema, js_ts_types, py_type_defaults (GristGen.PySchema_gen) and schema_ts_text, ts_default_values
   (GristGen.TsSchema_gen) are written from /repo's current files on every run; render is the model of
   sandbox/gen_js_schema.py main().  Statements only; proofs are in Proofs/JsSchema_proofs.v. *)
From Coq Require Import String ZArith List Bool.
Import ListNotations.
Require Import Grist.Model.JsSchema Grist.Proofs.JsSchema_proofs GristGen.PySchema_gen GristGen.TsSchema_gen.
Open Scope Z_scope.

(* app/common/schema.ts is, character for character, what the generator prints for the current Python
   schema (version, every table, every column with its type, and the TypeScript interface block). *)
Theorem C38_schema_text_equal : render js_ts_types py_schema = schema_ts_text.
Proof. apply zs_eqb_eq. vm_compute. reflexivity. Qed.

(* For EVERY type name T (listed on either side or not), the default Node uses,
   (_defaultValues[T] || _defaultValues.Any)[0], is the value Node receives for Python's
   _type_defaults.get(T, None); and that value exists. *)
Theorem C38_defaults_equal : forall T : list Z,
  ts_wire (ts_default ts_default_values T) = py_wire (py_default py_type_defaults T) /\
  ts_wire (ts_default ts_default_values T) <> WBad.
Proof. apply defaults_equal_all. vm_compute. reflexivity. Qed.

(* ... hence also for every full column type such as "Ref:Table1" or "DateTime:UTC" (both sides strip the suffix). *)
Theorem C38_col_defaults_equal : forall col_type : list Z,
  ts_wire (ts_col_default ts_default_values col_type) = py_wire (py_col_default py_type_defaults col_type).
Proof. intro ct. exact (proj1 (C38_defaults_equal (take_until 58 ct))). Qed.

(* For all schemas: equal generated text implies the same version, the same tables in the same order and
   the same column ids and types in the same order -- provided the generator's unescaped output can be read
   back: no double quote in table ids and types, no space or colon in column ids (schema_ok). *)
Theorem C38_render_injective : forall tt1 tt2 s1 s2,
  schema_ok s1 = true -> schema_ok s2 = true ->
  render tt1 s1 = render tt2 s2 -> schema_core s1 = schema_core s2.
Proof. exact render_injective. Qed.

(* The converse: the text carries nothing else (isFormula and formula are not printed by the generator). *)
Theorem C38_render_core_only : forall tt s1 s2, schema_core s1 = schema_core s2 -> render tt s1 = render tt s2.
Proof. exact render_core_only. Qed.

(* The hypothesis holds of the real schema (24 tables at the time of writing) ... *)
Theorem C38_real_schema_ok : schema_ok py_schema = true.
Proof. vm_compute. reflexivity. Qed.

(* ... so agreement of the TEXT is agreement of the SCHEMA: any readable schema that the generator would
   turn into the current schema.ts has the version, tables, column ids and types of the current schema.py. *)
Theorem C38_schema_ts_determines_schema : forall tt s,
  schema_ok s = true -> render tt s = schema_ts_text -> schema_core s = schema_core py_schema.
Proof.
  intros tt s Hs E. rewrite <- C38_schema_text_equal in E.
  exact (render_injective tt js_ts_types s py_schema Hs C38_real_schema_ok E).
Qed.

(* Non-vacuity: a small schema satisfying schema_ok, what it renders to, and two schemas that differ only
   in a formula flag render alike while a changed type does not. *)
Example C38_nonvacuous :
  let c  := mkColumn (str "tableId"%string) (str "Text"%string) false [] in
  let c' := mkColumn (str "tableId"%string) (str "Text"%string) true (str "1"%string) in
  let d  := mkColumn (str "tableId"%string) (str "Int"%string) false [] in
  let s x := mkSchema 7 [mkTable (str "_grist_Tables"%string) [x]] in
  schema_ok (s c) = true /\
  render js_ts_types (s c) = render js_ts_types (s c') /\
  render js_ts_types (s c) <> render js_ts_types (s d) /\
  schema_core (s c) <> schema_core (s d) /\
  ts_default ts_default_values (str "NoSuchType"%string) = TsNull.
Proof.
  cbv zeta. repeat split; try (vm_compute; reflexivity); vm_compute; discriminate.
Qed.
