(* C38 -- Node and the engine agree on metadata schema and type defaults.
   py_schema, js_ts_types, py_type_defaults (GristGen.PySchema_gen) and schema_ts_text, ts_default_values
   (GristGen.TsSchema_gen) are written from /repo's current files on every run; render is the model of
   sandbox/gen_js_schema.py main().  Statements only; proofs are in Proofs/JsSchema_proofs.v. *)
From Coq Require Import String ZArith List Bool.
Import ListNotations.
Require Import Grist.Model.JsSchema Grist.Proofs.JsSchema_proofs GristGen.PySchema_gen GristGen.TsSchema_gen.
Require Import Grist.Proofs.JsSchema_bridge.
Require GristGen.JsGen_gen GristGen.TsGen_gen.
Open Scope Z_scope.

(* app/common/schema.ts is, character for character, what the generator prints for the current Python
   schema (version, every table, every column with its type, and the TypeScript interface block). *)
Theorem C38_schema_text_equal : render js_ts_types py_schema = schema_ts_text.
Proof. apply zs_eqb_eq. vm_compute. reflexivity. Qed.

(* For EVERY type name T (listed on either side or not), the default Node uses,
   (_defaultValues[T] || _defaultValues.Any)[0], is the value Node receives for Python's
   _type_defaults.get(T, None); and that value exists. *)
Theorem C38_defaults_equal : forall T : list Z,
  ts_wire (ts_default ts_default_values T) = py_wire (py_default py_type_defaults T) /\
  ts_wire (ts_default ts_default_values T) <> WBad.
Proof. apply defaults_equal_all. vm_compute. reflexivity. Qed.

(* ... hence also for every full column type such as "Ref:Table1" or "DateTime:UTC" (both sides strip the suffix). *)
Theorem C38_col_defaults_equal : forall col_type : list Z,
  ts_wire (ts_col_default ts_default_values col_type) = py_wire (py_col_default py_type_defaults col_type).
Proof. intro ct. exact (proj1 (C38_defaults_equal (take_until 58 ct))). Qed.

(* For all schemas: equal generated text implies the same version, the same tables in the same order and
   the same column ids and types in the same order -- provided the generator's unescaped output can be read
   back: no double quote in table ids and types, no space or colon in column ids (schema_ok). *)
Theorem C38_render_injective : forall tt1 tt2 s1 s2,
  schema_ok s1 = true -> schema_ok s2 = true ->
  render tt1 s1 = render tt2 s2 -> schema_core s1 = schema_core s2.
Proof. exact render_injective. Qed.

(* The converse: the text carries nothing else (isFormula and formula are not printed by the generator). *)
Theorem C38_render_core_only : forall tt s1 s2, schema_core s1 = schema_core s2 -> render tt s1 = render tt s2.
Proof. exact render_core_only. Qed.

(* The hypothesis holds of the real schema (24 tables at the time of writing) ... *)
Theorem C38_real_schema_ok : schema_ok py_schema = true.
Proof. vm_compute. reflexivity. Qed.

(* ... so agreement of the TEXT is agreement of the SCHEMA: any readable schema that the generator would
   turn into the current schema.ts has the version, tables, column ids and types of the current schema.py. *)
Theorem C38_schema_ts_determines_schema : forall tt s,
  schema_ok s = true -> render tt s = schema_ts_text -> schema_core s = schema_core py_schema.
Proof.
  intros tt s Hs E. rewrite <- C38_schema_text_equal in E.
  exact (render_injective tt js_ts_types s py_schema Hs C38_real_schema_ok E).
Qed.

(* Non-vacuity: a small schema satisfying schema_ok, what it renders to, and two schemas that differ only
   in a formula flag render alike while a changed type does not. *)
Example C38_nonvacuous :
  let c  := mkColumn (str "tableId"%string) (str "Text"%string) false [] in
  let c' := mkColumn (str "tableId"%string) (str "Text"%string) true (str "1"%string) in
  let d  := mkColumn (str "tableId"%string) (str "Int"%string) false [] in
  let s x := mkSchema 7 [mkTable (str "_grist_Tables"%string) [x]] in
  schema_ok (s c) = true /\
  render js_ts_types (s c) = render js_ts_types (s c') /\
  render js_ts_types (s c) <> render js_ts_types (s d) /\
  schema_core (s c) <> schema_core (s d) /\
  ts_default ts_default_values (str "NoSuchType"%string) = TsNull.
Proof.
  cbv zeta. repeat split; try (vm_compute; reflexivity); vm_compute; discriminate.
Qed.

(* ================= the CODE, translated from /repo on every run =================
   GristGen.JsGen_gen: get_ts_type and main of sandbox/gen_js_schema.py, get_pure_type and get_type_default of
   usertypes.py (harness/js2v.py).  GristGen.TsGen_gen: extractTypeFromColType and getDefaultForType of
   app/common/gristTypes.ts (harness/ts2v.py).  Bridging obligations: pointwise equal to the hand model. *)

Theorem C38_bridge_main : forall tt s, JsGen_gen.main tt s = Some (render tt s).
Proof. exact gen_main_eq. Qed.

Theorem C38_bridge_get_ts_type : forall tt s ty, JsGen_gen.get_ts_type tt s ty = get_ts_type tt ty.
Proof. exact gen_get_ts_type_eq. Qed.

Theorem C38_bridge_get_type_default : forall pyd ct, JsGen_gen.get_type_default pyd ct = py_col_default pyd ct.
Proof. exact gen_get_type_default_eq. Qed.

Theorem C38_bridge_extractTypeFromColType : forall s, TsGen_gen.extractTypeFromColType s = take_until 58 s.
Proof. exact ts_extract_eq. Qed.

Theorem C38_bridge_getDefaultForType : forall pairs ct,
  zs_mem (take_until 58 ct) js_object_prototype_names = false ->
  TsGen_gen.getDefaultForType pairs ct false = ts_col_default (first_components pairs) ct.
Proof. exact ts_getDefaultForType_eq. Qed.

(* The main statements again, now about the translated functions. *)

(* what the generator script writes for the current schema.py is exactly app/common/schema.ts *)
Theorem C38_code_schema_text_equal : JsGen_gen.main js_ts_types py_schema = Some schema_ts_text.
Proof. rewrite gen_main_eq, C38_schema_text_equal. reflexivity. Qed.

(* the script never raises, whatever the schema *)
Theorem C38_code_main_total : forall tt s, exists text, JsGen_gen.main tt s = Some text.
Proof. intros tt s. exists (render tt s). apply gen_main_eq. Qed.

Theorem C38_code_render_injective : forall tt1 tt2 s1 s2 text,
  schema_ok s1 = true -> schema_ok s2 = true ->
  JsGen_gen.main tt1 s1 = Some text -> JsGen_gen.main tt2 s2 = Some text -> schema_core s1 = schema_core s2.
Proof.
  intros tt1 tt2 s1 s2 text H1 H2 E1 E2. rewrite gen_main_eq in E1, E2.
  injection E1 as E1. injection E2 as E2. apply (render_injective tt1 tt2 s1 s2 H1 H2). congruence.
Qed.

Theorem C38_code_schema_ts_determines_schema : forall tt s,
  schema_ok s = true -> JsGen_gen.main tt s = Some schema_ts_text -> schema_core s = schema_core py_schema.
Proof.
  intros tt s Hs E.
  exact (C38_code_render_injective tt js_ts_types s py_schema schema_ts_text Hs C38_real_schema_ok E C38_code_schema_text_equal).
Qed.

(* For every column type whose pure type is not the name of a property of Object.prototype, what
   getDefaultForType(colType) returns is what Node receives for get_type_default(colType). *)
Theorem C38_code_defaults_equal : forall ct : list Z,
  zs_mem (TsGen_gen.extractTypeFromColType ct) js_object_prototype_names = false ->
  ts_wire (TsGen_gen.getDefaultForType ts_default_pairs ct false) =
    py_wire (JsGen_gen.get_type_default py_type_defaults ct) /\
  ts_wire (TsGen_gen.getDefaultForType ts_default_pairs ct false) <> WBad.
Proof.
  intros ct H. rewrite ts_extract_eq in H. rewrite (ts_getDefaultForType_eq _ _ H), gen_get_type_default_eq.
  exact (C38_defaults_equal (take_until 58 ct)).
Qed.

(* The hypothesis cannot be dropped: _defaultValues["constructor"] finds Object.prototype.constructor, a
   function, whose element 0 is undefined -- Node gets undefined where Python gives None.  Twelve names, none
   of them a Grist type; the full-strength statement (every string) is refuted by this one. *)
Definition C38_defaults_equal_for_every_string : Prop := forall ct : list Z,
  ts_wire (TsGen_gen.getDefaultForType ts_default_pairs ct false) = py_wire (JsGen_gen.get_type_default py_type_defaults ct) /\
  ts_wire (TsGen_gen.getDefaultForType ts_default_pairs ct false) <> WBad.

Theorem C38_defaults_refuted_on_prototype_names : ~ C38_defaults_equal_for_every_string.
Proof. intro H. destruct (H (str "constructor"%string)) as [_ N]. apply N. vm_compute. reflexivity. Qed.

Example C38_code_nonvacuous :
  zs_mem (TsGen_gen.extractTypeFromColType (str "Ref:Table1"%string)) js_object_prototype_names = false /\
  TsGen_gen.getDefaultForType ts_default_pairs (str "Ref:Table1"%string) false = TsInt 0 /\
  JsGen_gen.get_type_default py_type_defaults (str "Ref:Table1"%string) = PyInt 0 /\
  TsGen_gen.getDefaultForType ts_default_pairs (str "constructor"%string) false = TsUndefined.
Proof. repeat split; vm_compute; reflexivity. Qed.
