(* C11 -- Two-way references stay symmetric.
   Statements only; proofs are in Proofs/TwoWay_adj.v, TwoWay_proofs.v, TwoWay_more.v, TwoWay_gen.v.
   A pair is a column A of table TA (Ref/RefList:TB) and a column B of TB (Ref/RefList:TA), each the reverse of the
   other (TA = TB for a self-referential pair).  `gra` below is reverse_references.get_reverse_adjustments as
   REGENERATED from the source on every run (coq/gen/RevAdj_gen.v); Proofs/TwoWay_gen.v proves it equal to the
   hand model used in the proofs.  The rest of the model (Model/TwoWay.v) is hand-written and compared with the
   running engine on every run (harness/props/c11.py). *)
From Coq Require Import ZArith List Bool Arith Lia.
Import ListNotations.
Require Import Grist.Model.RefIndex Grist.Model.TwoWay Grist.Proofs.RefIndex_proofs Grist.Proofs.RefIndex_removal
               Grist.Proofs.TwoWay_adj Grist.Proofs.TwoWay_proofs Grist.Proofs.TwoWay_more Grist.Proofs.TwoWay_gen.

(* pair_ok: both reverse indexes exact, row ids positive and short, references only on existing rows and only to
   existing rows.  sym: b in A[a] <-> a in B[b]. *)

(* A user-level update of column A ([Bulk]UpdateRecord: doBulkUpdateRecord, which since /repo commit 060dc6b keeps
   the last occurrence of a row id named more than once) that succeeds keeps the pair symmetric (and well formed);
   any row list, Ref or RefList on either side. *)
Theorem twoway_symmetric_step : forall hack s rows vals s',
  pair_ok s -> sym s -> length vals = length rows ->
  user_update_a hack gra s rows vals = Ok s' -> pair_ok s' /\ sym s'.
Proof.
  intros hack s rows vals s' Hok Hsym Hlen H. rewrite user_update_a_gra in H.
  exact (user_update_a_sym hack s rows vals s' Hok Hsym Hlen H).
Qed.

(* ... the same from the other side *)
Theorem twoway_symmetric_step_b : forall hack s rows vals s',
  pair_ok s -> sym s -> length vals = length rows ->
  user_update_b hack gra s rows vals = Ok s' -> pair_ok s' /\ sym s'.
Proof.
  intros hack s rows vals s' Hok Hsym Hlen H. rewrite user_update_b_gra in H.
  exact (user_update_b_sym hack s rows vals s' Hok Hsym Hlen H).
Qed.

(* The part of doBulkUpdateRecord after the de-duplication (update_a: convert/prepare, trim, extra actions, doc
   action), on its own, needs DISTINCT row ids. *)
Theorem twoway_symmetric_step_distinct : forall hack s rows vals s',
  pair_ok s -> sym s -> NoDup rows -> length vals = length rows ->
  update_a hack gra s rows vals = Ok s' -> pair_ok s' /\ sym s'.
Proof.
  intros hack s rows vals s' Hok Hsym Hnd Hlen H. rewrite update_a_gra in H.
  destruct (update_a_sym hack s rows vals s' Hok Hsym Hnd Hlen H) as [H1 [H2 _]]. split; assumption.
Qed.

Theorem twoway_symmetric_step_b_distinct : forall hack s rows vals s',
  pair_ok s -> sym s -> NoDup rows -> length vals = length rows ->
  update_b hack gra s rows vals = Ok s' -> pair_ok s' /\ sym s'.
Proof. intros hack s rows vals s' Hok Hsym Hnd Hlen H. rewrite update_b_gra in H. eapply update_b_sym; eassumption. Qed.

(* ... and for records added with values for column A (new, distinct, well-formed row ids) *)
Theorem twoway_symmetric_add : forall hack same s rows vals s',
  pair_ok s -> sym s -> NoDup rows -> length vals = length rows -> rows_ok rows ->
  (same = true -> p_rows_b s = p_rows_a s) ->
  add_a hack gra same s rows vals = Ok s' -> pair_ok s' /\ sym s'.
Proof. intros hack same s rows vals s' H1 H2 H3 H4 H5 H6 H. rewrite add_a_gra in H. eapply add_a_sym; eassumption. Qed.

(* A change that would give a single-valued (Ref) side two targets is rejected: the update fails with the UNIQUE
   error exactly when the reverse column is a Ref and some adjusted row would be referred to by two or more rows
   (rows', vals': the action after the de-duplication)... *)
Theorem unique_violation_rejected : forall hack s rows vals,
  let rows' := select (keep_last rows) rows in
  let vals' := select (keep_last rows) vals in
  let ka := rc_kind (p_a s) in
  let radj := gra rows' (map (raw_get (p_a s)) rows') (map (clean_up hack ka) vals') (value_iterable ka) (rc_inv (p_a s)) in
  user_update_a hack gra s rows vals = Err EUnique <->
  rc_kind (p_b s) = KRef /\ exists t l, In (t, l) radj /\ 2 <= length l.
Proof. intros. unfold user_update_a. apply unique_violation_iff. Qed.

(* ... and the error is raised by prepare_new_values, before any doc action is applied: no cell, no index entry has
   been touched (the model's result carries no state; the engine's rollback of earlier actions of the bundle is C04). *)
Theorem unique_violation_leaves_state : forall hack s rows vals,
  user_update_a hack gra s rows vals = Err EUnique ->
  prepare_new_values hack gra (p_a s) (rc_kind (p_b s)) (select (keep_last rows) rows) (select (keep_last rows) vals)
    = Err EUnique.
Proof. intros. apply unique_error_is_pure. assumption. Qed.

(* recalc_from_reverse_values (AddReverseColumn; after a Ref<->RefList switch of A): whatever B held on its rows,
   a successful rebuild makes the pair symmetric. *)
Theorem rebuild_after_type_switch : forall hack s s',
  inv_ok (p_a s) -> inv_ok (p_b s) -> rows_ok (p_rows_a s) -> rows_ok (p_rows_b s) -> NoDup (p_rows_b s) ->
  closed (p_a s) (p_rows_a s) (p_rows_b s) ->
  (forall y, ~ In y (p_rows_b s) -> refs (p_b s) y = []) ->
  recalc_from_a hack s = Ok s' -> pair_ok s' /\ sym s' /\ p_a s' = p_a s.
Proof.
  intros hack s s' H1 H2 H3 H4 H5 H6 H7 H.
  destruct (recalc_sym hack s s' H1 H2 H3 H4 H5 H6 H7 H) as [A [B [C _]]]. auto.
Qed.

(* Removing records of TA (doBulkRemoveRecord, as modelled for C10) keeps the pair symmetric. *)
Theorem removal_keeps_sym : forall hack same s removed,
  pair_ok s -> sym s -> (same = true -> p_rows_b s = p_rows_a s) ->
  let rows' := filter (fun r => negb (memN r removed)) (p_rows_a s) in
  exists a' b',
    remove_rows hack (pair_world same s) removed =
      Ok {| wd_rows := rows';
            wd_cols := [ {| w_col := a'; w_rows := rows'; w_own := true; w_back := same |};
                         {| w_col := b'; w_rows := if same then rows' else p_rows_b s; w_own := same; w_back := true |} ] |} /\
    let s' := {| p_a := a'; p_b := b'; p_rows_a := rows'; p_rows_b := if same then rows' else p_rows_b s |} in
    pair_ok s' /\ sym s'.
Proof. intros. apply removal_keeps_sym_proof; assumption. Qed.

(* Regression example (repaired by 060dc6b, finding C11-bulk-update-repeated-row-id): WITHOUT the de-duplication, i.e.
   for update_a applied to the raw row list as doBulkUpdateRecord did before, the statement without NoDup is false:
   a bulk update naming the same row twice was accepted and left the pair asymmetric (get_reverse_adjustments
   records both values of the row as additions, the doc action keeps only the last). *)
Definition twoway_symmetric_step_old_code : Prop := forall hack s rows vals s',
  pair_ok s -> sym s -> length vals = length rows ->
  update_a hack gra s rows vals = Ok s' -> sym s'.

Definition empty_pair (ka kb : kind) (rows_a rows_b : list nat) : pair_state :=
  {| p_a := col_new ka; p_b := col_new kb; p_rows_a := rows_a; p_rows_b := rows_b |}.

Lemma empty_pair_ok : forall ka kb ra rb, rows_ok ra -> rows_ok rb -> pair_ok (empty_pair ka kb ra rb) /\ sym (empty_pair ka kb ra rb).
Proof.
  intros ka kb ra rb Ha Hb.
  assert (Hn : forall k x, refs (col_new k) x = []).
  { intros k x. unfold refs, raw_get. cbn [col_new rc_data rc_kind]. destruct x as [|[|x]]; cbn [nth]; apply iter_default. }
  split.
  - unfold pair_ok, empty_pair. cbn [p_a p_b p_rows_a p_rows_b].
    split; [apply col_new_ok|]. split; [apply col_new_ok|]. split; [assumption|]. split; [assumption|].
    split; intros x t Hin; rewrite Hn in Hin; destruct Hin.
  - intros a b. unfold empty_pair. cbn [p_a p_b]. rewrite !Hn. tauto.
Qed.

Lemma rows_ok_12 : rows_ok [1; 2].
Proof. intros r [<-|[<-|[]]]; split; cbn; lia. Qed.

Example C11_refuted_duplicate_row_ids : ~ twoway_symmetric_step_old_code.
Proof.
  intros H.
  destruct (empty_pair_ok KRefList KRefList [1; 2] [1; 2] rows_ok_12 rows_ok_12) as [Hok Hsym].
  assert (E : exists s', update_a (fun _ => None) gra (empty_pair KRefList KRefList [1; 2] [1; 2]) [1; 1]
                           [CList [1%Z]; CList [2%Z]] = Ok s' /\
                         refs (p_a s') 1 = [2%Z] /\ refs (p_b s') 1 = [1%Z]).
  { eexists. split; [vm_compute; reflexivity|]. split; vm_compute; reflexivity. }
  destruct E as [s' [E [Ea Eb]]].
  specialize (H (fun _ => None) _ [1; 1] [CList [1%Z]; CList [2%Z]] s' Hok Hsym eq_refl E 1 1).
  rewrite Ea, Eb in H. cbn in H. destruct H as [_ H]. destruct (H (or_introl eq_refl)) as [H1|[]]. discriminate.
Qed.

(* ... and with the de-duplication the same input is fine: A[1] = [2], B = [None; [1]]. *)
Example C11_duplicate_row_ids_now_symmetric : exists s',
  user_update_a (fun _ => None) gra (empty_pair KRefList KRefList [1; 2] [1; 2]) [1; 1] [CList [1%Z]; CList [2%Z]] = Ok s' /\
  map (raw_get (p_a s')) [1; 2] = [CList [2%Z]; CNone] /\ map (raw_get (p_b s')) [1; 2] = [CNone; CList [1%Z]] /\
  pair_ok s' /\ sym s'.
Proof.
  destruct (empty_pair_ok KRefList KRefList [1; 2] [1; 2] rows_ok_12 rows_ok_12) as [Hok Hsym].
  assert (E : exists s', user_update_a (fun _ => None) gra (empty_pair KRefList KRefList [1; 2] [1; 2]) [1; 1]
                           [CList [1%Z]; CList [2%Z]] = Ok s') by (eexists; vm_compute; reflexivity).
  destruct E as [s' E]. exists s'. split; [exact E|].
  destruct (twoway_symmetric_step _ _ [1; 1] [CList [1%Z]; CList [2%Z]] _ Hok Hsym eq_refl E) as [H1 H2].
  vm_compute in E. inversion E; subst s'. split; [vm_compute; reflexivity|]. split; [vm_compute; reflexivity|].
  split; assumption.
Qed.

(* The way the code still escapes the property: ONE action that writes both columns of a self-referential pair
   (both columns live in the same table).  Each column's adjustments are computed from the old state and then
   overwritten by the explicit values, so contradictory values are accepted: from the empty pair on rows 1..3,
   A[1] := [2] together with B[2] := [3] succeeds and leaves A[1] = [2] with B[2] = [3]. *)
Lemma rows_ok_123 : rows_ok [1; 2; 3].
Proof. intros r [<-|[<-|[<-|[]]]]; split; cbn; lia. Qed.

Theorem C11_refuted_both_sides : exists s rows va vb s',
  pair_ok s /\ sym s /\ NoDup rows /\ p_rows_a s = p_rows_b s /\
  user_update_both (fun _ => None) gra s rows va vb = Ok s' /\ ~ sym s'.
Proof.
  destruct (empty_pair_ok KRefList KRefList [1; 2; 3] [1; 2; 3] rows_ok_123 rows_ok_123) as [Hok Hsym].
  exists (empty_pair KRefList KRefList [1; 2; 3] [1; 2; 3]), [1; 2], [CList [2%Z]; CNone], [CNone; CList [3%Z]].
  eexists. split; [exact Hok|]. split; [exact Hsym|]. split; [repeat constructor; cbn; intuition lia|].
  split; [reflexivity|]. split; [vm_compute; reflexivity|].
  intros H. specialize (H 1 2). vm_compute in H. destruct H as [H _].
  destruct (H (or_introl eq_refl)) as [H1|[]]. discriminate.
Qed.

(* Non-vacuity of the positive theorems: from the empty pair (Ref on the B side), A[1] := [1;2] succeeds and gives
   B = [1, 1]; then A[2] := [2] is rejected (row 2 of TB would be referred to by rows 1 and 2); A[1] := [1] then
   A[2] := [2] succeeds; removing row 1 of TA leaves A[2] = [2], B[2] = 2. *)
Example C11_nonvacuous :
  let s0 := empty_pair KRefList KRef [1; 2] [1; 2] in
  exists s1 s2 s3,
    update_a (fun _ => None) gra s0 [1] [CList [1; 2]%Z] = Ok s1 /\
    map (raw_get (p_b s1)) [1; 2] = [CInt 1; CInt 1] /\
    update_a (fun _ => None) gra s1 [2] [CList [2%Z]] = Err EUnique /\
    update_a (fun _ => None) gra s1 [1; 2] [CList [1%Z]; CList [2%Z]] = Ok s2 /\
    map (raw_get (p_b s2)) [1; 2] = [CInt 1; CInt 2] /\ pair_ok s2 /\ sym s2 /\
    update_b (fun _ => None) gra s2 [1] [CInt 2] = Ok s3 /\
    map (raw_get (p_a s3)) [1; 2] = [CNone; CList [1; 2]%Z] /\ pair_ok s3 /\ sym s3.
Proof.
  cbv zeta. destruct (empty_pair_ok KRefList KRef [1; 2] [1; 2] rows_ok_12 rows_ok_12) as [Hok Hsym].
  assert (E1 : exists s1, update_a (fun _ => None) gra (empty_pair KRefList KRef [1; 2] [1; 2]) [1] [CList [1; 2]%Z] = Ok s1)
    by (eexists; vm_compute; reflexivity).
  destruct E1 as [s1 E1].
  assert (Hnd1 : NoDup [1]) by (repeat constructor; cbn; intuition lia).
  assert (Hnd2 : NoDup [1; 2]) by (repeat constructor; cbn; intuition lia).
  destruct (twoway_symmetric_step_distinct _ _ [1] [CList [1; 2]%Z] _ Hok Hsym Hnd1 eq_refl E1) as [Hok1 Hsym1].
  assert (E2 : exists s2, update_a (fun _ => None) gra s1 [1; 2] [CList [1%Z]; CList [2%Z]] = Ok s2).
  { vm_compute in E1. inversion E1; subst s1. eexists. vm_compute. reflexivity. }
  destruct E2 as [s2 E2].
  destruct (twoway_symmetric_step_distinct _ _ [1; 2] [CList [1%Z]; CList [2%Z]] _ Hok1 Hsym1 Hnd2 eq_refl E2) as [Hok2 Hsym2].
  assert (E3 : exists s3, update_b (fun _ => None) gra s2 [1] [CInt 2] = Ok s3).
  { vm_compute in E1. inversion E1; subst s1. vm_compute in E2. inversion E2; subst s2. eexists. vm_compute. reflexivity. }
  destruct E3 as [s3 E3].
  destruct (twoway_symmetric_step_b_distinct _ _ [1] [CInt 2] _ Hok2 Hsym2 Hnd1 eq_refl E3) as [Hok3 Hsym3].
  exists s1, s2, s3. split; [exact E1|].
  vm_compute in E1. inversion E1; subst s1. vm_compute in E2. inversion E2; subst s2.
  vm_compute in E3. inversion E3; subst s3.
  split; [vm_compute; reflexivity|]. split; [vm_compute; reflexivity|]. split; [vm_compute; reflexivity|].
  split; [vm_compute; reflexivity|]. split; [exact Hok2|]. split; [exact Hsym2|].
  split; [vm_compute; reflexivity|]. split; [vm_compute; reflexivity|]. split; [exact Hok3|exact Hsym3].
Qed.

(* ... and of the other three: on the pair A = [[1;2]; [2]], B = [[1]; [1;2]] (RefList both sides),
   - forgetting B and rebuilding it from A gives B back,
   - adding row 3 of TA with A[3] = [1] puts 3 into B[1],
   - removing row 1 of TA leaves A[2] = [2], B = [None; [2]]. *)
Example C11_nonvacuous_more :
  let s0 := empty_pair KRefList KRefList [1; 2] [1; 2] in
  exists s1 s2 s3 a' b',
    update_a (fun _ => None) gra s0 [1; 2] [CList [1; 2]%Z; CList [2%Z]] = Ok s1 /\ pair_ok s1 /\ sym s1 /\
    map (raw_get (p_b s1)) [1; 2] = [CList [1%Z]; CList [1; 2]%Z] /\
    recalc_from_a (fun _ => None)
      {| p_a := p_a s1; p_b := col_new KRefList; p_rows_a := [1; 2]; p_rows_b := [1; 2] |} = Ok s2 /\
    map (raw_get (p_b s2)) [1; 2] = [CList [1%Z]; CList [1; 2]%Z] /\ sym s2 /\
    add_a (fun _ => None) gra false s1 [3] [CList [1%Z]] = Ok s3 /\
    map (raw_get (p_b s3)) [1; 2] = [CList [1; 3]%Z; CList [1; 2]%Z] /\ p_rows_a s3 = [1; 2; 3] /\ sym s3 /\
    remove_rows (fun _ => None) (pair_world false s1) [1] =
      Ok {| wd_rows := [2];
            wd_cols := [ {| w_col := a'; w_rows := [2]; w_own := true; w_back := false |};
                         {| w_col := b'; w_rows := [1; 2]; w_own := false; w_back := true |} ] |} /\
    map (raw_get a') [1; 2] = [CNone; CList [2%Z]] /\ map (raw_get b') [1; 2] = [CNone; CList [2%Z]] /\
    sym {| p_a := a'; p_b := b'; p_rows_a := [2]; p_rows_b := [1; 2] |}.
Proof.
  cbv zeta. destruct (empty_pair_ok KRefList KRefList [1; 2] [1; 2] rows_ok_12 rows_ok_12) as [Hok Hsym].
  assert (Hnd2 : NoDup [1; 2]) by (repeat constructor; cbn; intuition lia).
  assert (E1 : exists s1, update_a (fun _ => None) gra (empty_pair KRefList KRefList [1; 2] [1; 2]) [1; 2]
                            [CList [1; 2]%Z; CList [2%Z]] = Ok s1) by (eexists; vm_compute; reflexivity).
  destruct E1 as [s1 E1].
  destruct (twoway_symmetric_step_distinct _ _ [1; 2] [CList [1; 2]%Z; CList [2%Z]] _ Hok Hsym Hnd2 eq_refl E1) as [Hok1 Hsym1].
  pose proof Hok1 as [Hia [Hib [Hra [Hrb [Hca Hcb]]]]].
  assert (Rows : p_rows_a s1 = [1; 2] /\ p_rows_b s1 = [1; 2]).
  { vm_compute in E1. inversion E1; subst s1. split; reflexivity. }
  destruct Rows as [Ra Rb].
  (* rebuild *)
  assert (E2 : exists s2, recalc_from_a (fun _ => None)
            {| p_a := p_a s1; p_b := col_new KRefList; p_rows_a := [1; 2]; p_rows_b := [1; 2] |} = Ok s2).
  { vm_compute in E1. inversion E1; subst s1. eexists. vm_compute. reflexivity. }
  destruct E2 as [s2 E2].
  assert (Hsym2 : sym s2).
  { rewrite Ra, Rb in *. refine (proj1 (proj2 (rebuild_after_type_switch _ _ _ _ _ _ _ _ _ _ E2))); cbn [p_a p_b p_rows_a p_rows_b];
      try assumption; try apply col_new_ok.
    intros y _. unfold refs, raw_get. cbn [col_new rc_data rc_kind]. destruct y as [|[|y]]; reflexivity. }
  (* add *)
  assert (E3 : exists s3, add_a (fun _ => None) gra false s1 [3] [CList [1%Z]] = Ok s3).
  { vm_compute in E1. inversion E1; subst s1. eexists. vm_compute. reflexivity. }
  destruct E3 as [s3 E3].
  assert (Hsym3 : sym s3).
  { refine (proj2 (twoway_symmetric_add _ false _ [3] [CList [1%Z]] _ Hok1 Hsym1 _ eq_refl _ _ E3)).
    - repeat constructor; cbn; intuition.
    - intros r [<-|[]]. split; cbn; lia.
    - discriminate. }
  (* removal *)
  destruct (removal_keeps_sym (fun _ => None) false s1 [1] Hok1 Hsym1 ltac:(discriminate)) as [a' [b' [E4 [_ Hsym4]]]].
  exists s1, s2, s3, a', b'.
  split; [exact E1|]. split; [exact Hok1|]. split; [exact Hsym1|].
  vm_compute in E1. inversion E1; subst s1. vm_compute in E2. inversion E2; subst s2.
  vm_compute in E3. inversion E3; subst s3.
  split; [vm_compute; reflexivity|]. split; [vm_compute; reflexivity|]. split; [vm_compute; reflexivity|].
  split; [exact Hsym2|]. split; [vm_compute; reflexivity|]. split; [vm_compute; reflexivity|].
  split; [reflexivity|]. split; [exact Hsym3|].
  cbn [p_rows_a p_rows_b filter memN existsb Nat.eqb negb] in E4, Hsym4.
  split; [exact E4|].
  assert (E5 := E4). vm_compute in E5. inversion E5; subst a' b'.
  split; [vm_compute; reflexivity|]. split; [vm_compute; reflexivity|]. exact Hsym4.
Qed.
