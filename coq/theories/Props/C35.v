(* C35 -- SCHEDULE yields exactly the scheduled occurrences.
   Model: Model/Schedule.v (the loop of functions/schedule.py Schedule.series, with explicit fuel for
   `while True`).  Statements only; proofs are in Proofs/Schedule_proofs.v.

   Time is any strict total order.  Calendar arithmetic (round_down = _round_down_to_unit,
   next = interval.add_to, slots = [slot.add_to]) and the string parser are abstract: the premise of the
   property about them is the hypotheses of section Premise, each monitored on the implementation by
   harness/props/c35.py. *)
From Coq Require Import ZArith List Bool Lia.
Import ListNotations.
Require Import Grist.Model.Schedule Grist.Proofs.Schedule_proofs.
Require Import Grist.Lib.PySched Grist.Model.ScheduleCode GristGen.Schedule_gen Grist.Proofs.Schedule_bridge Grist.Lib.SchedDiff.
Open Scope Z_scope.

Section C35.
  Variable T : Type.
  Variable lt : T -> T -> Prop.
  Variable ltb : T -> T -> bool.
  Hypothesis ltb_lt : forall a b, ltb a b = true <-> lt a b.
  Hypothesis lt_irrefl : forall a, ~ lt a a.
  Hypothesis lt_trans : forall a b c, lt a b -> lt b c -> lt a c.
  Hypothesis lt_total : forall a b, lt a b \/ a = b \/ lt b a.
  Variable next : T -> T.
  Variable slots : list (T -> T).
  Variable round_down : T -> T.

  Local Notation series := (series T ltb next slots round_down).
  Local Notation spec := (spec T ltb next slots round_down).
  Local Notation instants := (instants T slots).
  Local Notation period := (period T next).
  Local Notation enum := (enum T next slots).
  Local Notation in_range := (in_range T ltb).
  Local Notation ssorted := (ssorted T lt).
  Local Notation le := (le T lt).

  Section Premise.
    Variable start : T.
    Let base := round_down start.
    (* "a valid schedule whose slots are listed in increasing order and fall within one interval":
       there is a slot, and on every period the generator visits,
       slot_1 t < ... < slot_n t < slot_1 (next t) < ... < slot_n (next t) *)
    Hypothesis has_slot : slots <> [].
    Hypothesis slots_chain : forall k, ssorted (instants (period base k) ++ instants (period base (S k))).
    (* "unit boundary at or before start" *)
    Hypothesis base_le_start : le base start.

    Let chain : chain_from T lt next slots base := conj has_slot slots_chain.

    (* Whenever the generator returns, it has yielded exactly the first `count` scheduled instants that
       are >= start and <= end, however many periods (n >= fuel) one enumerates. *)
    Theorem C35_series_eq_spec : forall fuel end_ count o,
      series fuel start end_ count = Done o ->
      forall n, (fuel <= n)%nat -> o = spec n start end_ count.
    Proof. intros fuel end_ count o. exact (series_eq_spec T lt ltb ltb_lt lt_trans next slots round_down fuel start end_ count o chain). Qed.

    (* ... in strictly increasing order *)
    Theorem C35_strictly_increasing : forall fuel end_ count o,
      series fuel start end_ count = Done o -> ssorted o.
    Proof. intros fuel end_ count o. exact (series_sorted T lt ltb ltb_lt lt_trans next slots round_down fuel start end_ count o chain). Qed.

    (* ... and "exactly": every output is a scheduled instant within [start, end]; a scheduled instant
       within [start, end] of ANY period n is output, unless `count` smaller ones were *)
    Theorem C35_exactly_the_first_count : forall fuel end_ count o,
      series fuel start end_ count = Done o ->
      (forall x, In x o -> In x (enum base fuel) /\ in_range start end_ x = true) /\
      (forall n x, In x (enum base n) -> in_range start end_ x = true ->
         In x o \/ (length o = Z.to_nat count /\ forall y, In y o -> lt y x)).
    Proof. intros fuel end_ count o. exact (series_exact T lt ltb ltb_lt lt_trans next slots round_down fuel start end_ count o chain). Qed.

    (* the `out > end => return` shortcut drops nothing *)
    Theorem C35_stop_after_end_sound : forall end_ n l1 out l2,
      enum base n = l1 ++ out :: l2 -> after_end T ltb end_ out = true ->
      forall y, In y l2 -> in_range start end_ y = false.
    Proof. intros end_ n l1 out l2. exact (stop_after_end_sound T lt ltb ltb_lt lt_trans next slots round_down start end_ n l1 out l2 chain). Qed.

    (* termination with a fuel bound: when nothing of period k0 is before start (so at most
       k0 * #slots slots are skipped), (fuel - k0) * #slots > max count 0 passes suffice.  For the
       calendar, k0 = 1 (start lies inside the first period; monitored). *)
    Theorem C35_fuel_bound : forall fuel end_ count k0,
      (forall x, In x (instants (period base k0)) -> le start x) ->
      Z.of_nat (fuel - k0) * Z.of_nat (length slots) > Z.max count 0 ->
      exists o, series fuel start end_ count = Done o.
    Proof.
      intros fuel end_ count k0.
      exact (series_terminates T lt ltb ltb_lt lt_irrefl lt_trans lt_total next slots round_down fuel start end_ count k0 chain).
    Qed.

    (* what base <= start is for: with every slot inside its own interval, the periods that end at or
       before the base contribute nothing at or after start, so enumerating from the base is complete *)
    Theorem C35_nothing_before_base : forall t x,
      (forall u y, In y (instants u) -> lt y (next u)) ->
      le (next t) base -> In x (instants t) -> lt x start.
    Proof.
      intros t x Hin. exact (before_base_excluded T lt lt_trans lt_total next slots round_down start t x base_le_start Hin).
    Qed.

    (* the premise excludes a zero interval *)
    Theorem C35_premise_excludes_zero_interval : next base <> base.
    Proof. exact (chain_excludes_zero_interval T lt lt_irrefl next slots base chain). Qed.
  End Premise.

  (* the premise stated for every t (slot_1 t < ... < slot_n t < slot_1 (next t)) implies the one above *)
  Theorem C35_global_premise_suffices : forall b,
    slots <> [] ->
    (forall t, ssorted (instants t ++ firstn 1 (instants (next t)))) ->
    forall k, ssorted (instants (period b k) ++ instants (period b (S k))).
  Proof. intros b Hne H. exact (proj2 (chain_of_global T lt lt_trans next slots b Hne H)). Qed.

  (* count <= 0 yields nothing (needs no premise beyond a slot to look at) *)
  Theorem C35_nonpositive_count : forall fuel start end_ count,
    slots <> [] -> count <= 0 -> series (S fuel) start end_ count = Done [].
  Proof. exact (series_nonpositive_count T ltb next slots round_down). Qed.

  (* out of fuel is never a silent answer: it reports everything in range of the periods visited *)
  Theorem C35_out_of_fuel_is_partial : forall fuel start end_ count o,
    series fuel start end_ count = OutOfFuel o ->
    o = filter (in_range start end_) (enum (round_down start) fuel) /\
    (fuel <> O -> slots <> [] -> Z.of_nat (length o) <= count).
  Proof. exact (series_out_of_fuel T ltb next slots round_down). Qed.

  (* the finding, in general: if adding the interval does not move the period start and every slot of
     the period is before start, no amount of fuel produces anything *)
  Theorem C35_zero_interval_never_progresses : forall fuel b start end_ count,
    next b = b -> 0 < count -> (forall s, In s slots -> lt (s b) start) ->
    series_from T ltb next slots fuel b start end_ count = OutOfFuel [].
  Proof. exact (zero_interval_no_progress T lt ltb ltb_lt next slots). Qed.
End C35.

(* ---- non-vacuity: time = Z, interval = +k, slots = offsets ---- *)

(* every fixed-length schedule with k > 0 whose offsets are increasing and span less than k satisfies the
   premise, so all the theorems above apply to it *)
Theorem C35_fixed_interval_instance : forall unit k offs fuel start end_ count o,
  offs <> [] -> ssorted Z Z.lt offs -> (forall x y, In x offs -> In y offs -> x < y + k) ->
  zseries unit k offs fuel start end_ count = Done o ->
  (forall n, (fuel <= n)%nat -> o = zspec unit k offs n start end_ count) /\ ssorted Z Z.lt o.
Proof. exact z_instance_spec. Qed.

(* ... and with interval >= unit > 0 and offsets >= 0 it terminates within count/#slots + 2 passes *)
Theorem C35_fixed_interval_terminates : forall unit k offs fuel start end_ count,
  0 < unit <= k -> offs <> [] -> ssorted Z Z.lt offs -> (forall x y, In x offs -> In y offs -> x < y + k) ->
  (forall x, In x offs -> 0 <= x) ->
  Z.of_nat (fuel - 1) * Z.of_nat (length offs) > Z.max count 0 ->
  exists o, zseries unit k offs fuel start end_ count = Done o.
Proof. exact z_instance_terminates. Qed.

(* the docstring's `daily: 07:30, 21:00` from 2pm (seconds since that day's midnight), count 4 *)
Example C35_nonvacuous_daily :
  let offs := [27000; 75600] in
  offs <> [] /\ ssorted Z Z.lt offs /\ (forall x y, In x offs -> In y offs -> x < y + 86400) /\
  zround 86400 50400 <= 50400 /\
  zseries 86400 86400 offs 3 50400 None 4 = Done [75600; 113400; 162000; 199800] /\
  zseries 86400 86400 offs 3 50400 (Some 162000) 4 = Done [75600; 113400; 162000] /\
  zseries 86400 86400 offs 3 50400 (Some 161999) 4 = Done [75600; 113400] /\
  zseries 86400 86400 offs 2 50400 None 4 = OutOfFuel [75600; 113400; 162000].
Proof.
  cbv zeta. repeat split; try (vm_compute; reflexivity); try discriminate.
  - intros y [<-|[]]. lia.
  - intros y [].
  - intros x y [<-|[<-|[]]] [<-|[<-|[]]]; lia.
Qed.

(* ---- the finding: `0-day: 1am` (interval 0, one slot at +3600 s) ----
   start = 02:00: every pass skips the 1am slot and the period never advances: OutOfFuel for every fuel
   (the real generator never returns);
   start = 00:30: the same instant is yielded `count` times, not in strictly increasing order;
   and the premise fails for this schedule. *)
Theorem C35_refuted_zero_interval :
  (forall fuel, zseries 86400 0 [3600] fuel 7200 None 2 = OutOfFuel []) /\
  zseries 86400 0 [3600] 3 1800 None 2 = Done [3600; 3600] /\
  ~ ssorted Z Z.lt [3600; 3600] /\
  ~ chain_from Z Z.lt (fun t => t + 0) (zslots [3600]) (zround 86400 7200).
Proof.
  split; [|split; [|split]].
  - intros fuel. unfold zseries, series. apply zero_interval_stuck; vm_compute; reflexivity.
  - vm_compute. reflexivity.
  - intros [H _]. specialize (H 3600 (or_introl eq_refl)). lia.
  - intros Hc. apply (chain_excludes_zero_interval Z Z.lt Z.lt_irrefl _ _ _ Hc).
    lia.
Qed.

(* ================= the code itself =================
   GristGen.Schedule_gen is translated from sandbox/grist/functions/schedule.py on every run
   (harness/sch2v*.py): Delta.__init__/add_interval/add_to, Schedule.series, _parse_interval, _parse_slot, the six
   slot parsers and the _SLOT_PARSERS table; the module's tables are regenerated as data.  Calendar
   arithmetic, string primitives, int() and the two regular expressions are the fields of [prims].
   C35_bridge_*: each generated function equals the hand model (Model/ScheduleCode.v), pointwise.
   C35_code_*: the property theorems restated about the generated functions. *)
Section C35_code.
  Context {T TD date tz smatch : Type} (P : prims T TD date tz smatch).

  Theorem C35_bridge_Delta_init : Delta_init P = m_delta_init P.
  Proof. exact (bridge_delta_init P). Qed.
  Theorem C35_bridge_Delta_add_interval : forall d n u, Delta_add_interval P d n u = m_add_interval P d n u.
  Proof. exact (bridge_add_interval P). Qed.
  (* Delta.add_to adds the months first (DATEADD on the date), then the timedelta *)
  Theorem C35_bridge_Delta_add_to : forall d t,
    Delta_add_to P d t = p_plus P (p_combine P (p_dateadd_months P t (d_months d)) (p_timetz P t)) (d_timedelta d).
  Proof. exact (bridge_add_to P). Qed.
  (* Schedule.series is the generator of Model/Schedule.v over Delta.add_to and _round_down_to_unit *)
  Theorem C35_bridge_Schedule_series : forall self fuel start end_ count,
    Schedule_series P self fuel start end_ count =
    series T (p_ltb P) (m_add_to P (s_interval self)) (map (m_add_to P) (s_slots self))
      (fun s => p_round_down P s (s_interval_unit self)) fuel (p_DTIME P start) (option_map (p_DTIME P) end_) count.
  Proof. exact (bridge_series P). Qed.
  Theorem C35_bridge_parse_interval : forall s,
    parse_interval P s = m_parse_interval P INTERVAL_ALIASES SINGULAR_UNITS VALID_UNITS s.
  Proof. exact (bridge_parse_interval P). Qed.
  Theorem C35_bridge_slot_parsers : forall k m,
    SLOT_PARSERS P k m = m_slot_parsers P MONTH_OFFSETS WEEKDAY_OFFSETS SHORT_UNITS k m.
  Proof. exact (bridge_slot_parsers P). Qed.
  Theorem C35_bridge_parse_slot : forall s u,
    parse_slot P s u =
    m_parse_slot P ALLOWED_SLOTS_BY_UNIT (m_slot_parsers P MONTH_OFFSETS WEEKDAY_OFFSETS SHORT_UNITS) s u.
  Proof. exact (bridge_parse_slot P). Qed.

  Theorem C35_bridge_tables :
    INTERVAL_ALIASES = m_INTERVAL_ALIASES /\ SINGULAR_UNITS = m_SINGULAR_UNITS /\ VALID_UNITS = m_VALID_UNITS /\
    SHORT_UNITS = m_SHORT_UNITS /\ WEEKDAY_OFFSETS = m_WEEKDAY_OFFSETS /\ MONTH_OFFSETS = m_MONTH_OFFSETS /\
    ALLOWED_SLOTS_BY_UNIT = m_ALLOWED_SLOTS_BY_UNIT.
  Proof. exact bridge_tables. Qed.

  Variable lt : T -> T -> Prop.
  Hypothesis ltb_lt : forall a b, p_ltb P a b = true <-> lt a b.
  Hypothesis lt_irrefl : forall a, ~ lt a a.
  Hypothesis lt_trans : forall a b c, lt a b -> lt b c -> lt a c.
  Hypothesis lt_total : forall a b, lt a b \/ a = b \/ lt b a.

  Section Premise.
    Variable self : schedule TD.
    Variable start : T.
    Let next := Delta_add_to P (s_interval self).
    Let slots := map (Delta_add_to P) (s_slots self).
    Let round_down := fun s => p_round_down P s (s_interval_unit self).
    Let base := round_down (p_DTIME P start).
    Hypothesis premise : chain_from T lt next slots base.

    Theorem C35_code_series_eq_spec : forall fuel end_ count o,
      Schedule_series P self fuel start end_ count = Done o ->
      forall n, (fuel <= n)%nat ->
      o = spec T (p_ltb P) next slots round_down n (p_DTIME P start) (option_map (p_DTIME P) end_) count.
    Proof. intros fuel end_ count o. exact (code_series_eq_spec P lt ltb_lt lt_trans self fuel start end_ count o premise). Qed.

    Theorem C35_code_strictly_increasing : forall fuel end_ count o,
      Schedule_series P self fuel start end_ count = Done o -> ssorted T lt o.
    Proof. intros fuel end_ count o. exact (code_series_sorted P lt ltb_lt lt_trans self fuel start end_ count o premise). Qed.

    Theorem C35_code_fuel_bound : forall fuel end_ count k0,
      (forall x, In x (instants T slots (period T next base k0)) -> le T lt (p_DTIME P start) x) ->
      Z.of_nat (fuel - k0) * Z.of_nat (length (s_slots self)) > Z.max count 0 ->
      exists o, Schedule_series P self fuel start end_ count = Done o.
    Proof.
      intros fuel end_ count k0.
      exact (code_series_terminates P lt ltb_lt lt_irrefl lt_trans lt_total self fuel start end_ count k0 premise).
    Qed.
  End Premise.

  Theorem C35_code_nonpositive_count : forall self fuel start end_ count,
    s_slots self <> [] -> count <= 0 -> Schedule_series P self (S fuel) start end_ count = Done [].
  Proof. exact (code_series_nonpositive_count P). Qed.

  (* the parser's obligation: an accepted interval is a positive multiple of a known unit *)
  Theorem C35_code_parse_interval_positive : forall s n u,
    parse_interval P s = Val (n, u) -> 0 < n /\ str_mem u VALID_UNITS = true.
  Proof. exact (code_parse_interval_positive P). Qed.

  Theorem C35_code_parse_interval_only_ValueError : forall s e,
    (forall x e', p_int P x = Exn e' -> e' = ValueError) ->
    parse_interval P s = Exn e -> e = ValueError.
  Proof. exact (code_parse_interval_only_ValueError P). Qed.

  (* _parse_slot raises nothing but ValueError, or the OverflowError of the timedelta constructor.
     Assumed of the opaque primitives (each monitored on the implementation): int() of a str raises only
     ValueError; timedelta(unit=n) for the five fixed-length units raises only OverflowError; when the
     group of a slot type took part in a match of _SLOT_RE, so did the groups its parser reads. *)
  Section ParseSlotErrors.
    Local Notation G m name := (p_group P m name).
    Hypothesis int_raises : forall x e, p_int P x = Exn e -> e = ValueError.
    Hypothesis td_raises : forall u n e, In u td_units -> p_td_unit P u n = Exn e -> e = OverflowError.
    Hypothesis re_date : forall m, ostr_truthy (G m [100; 97; 116; 101]) = true ->
      G m [109; 111; 110; 116; 104; 95; 100; 97; 121] <> None /\
      (ostr_truthy (G m [109; 111; 110; 116; 104; 95; 110; 97; 109; 101]) = true \/
       G m [109; 111; 110; 116; 104; 95; 110; 117; 109] <> None).
    Hypothesis re_mday : forall m, ostr_truthy (G m [109; 100; 97; 121]) = true ->
      G m [109; 111; 110; 116; 104; 95; 100; 97; 121; 50] <> None.
    Hypothesis re_wday : forall m, ostr_truthy (G m [119; 100; 97; 121]) = true ->
      G m [119; 101; 101; 107; 100; 97; 121] <> None.
    Hypothesis re_time : forall m, ostr_truthy (G m [116; 105; 109; 101]) = true -> G m [104; 111; 117; 114; 115] <> None.
    Hypothesis re_mins : forall m, ostr_truthy (G m [109; 105; 110; 115]) = true ->
      G m [109; 105; 110; 117; 116; 101; 115; 50] <> None.
    Hypothesis re_delta : forall m, ostr_truthy (G m S_delta) = true -> G m [99; 111; 117; 110; 116] <> None.

    Theorem C35_code_parse_slot_errors : forall s u e,
      parse_slot P s u = Exn e -> e = ValueError \/ e = OverflowError.
    Proof. exact (parse_slot_errors P int_raises td_raises re_date re_mday re_wday re_time re_mins re_delta). Qed.
  End ParseSlotErrors.
End C35_code.

(* the generated parser at work on the ASCII instance of the primitives used by the differential check, with a
   one-entry regex table for the part "+2d": accepted once, rejected twice ("Duplicate unit") *)
Example C35_code_parse_slot_nonvacuous :
  let part := [43; 50; 100] in
  let m := [([100; 101; 108; 116; 97], Some part); ([99; 111; 117; 110; 116], Some [50]); ([117; 110; 105; 116], Some [100])] in
  let P := fun parts => Grist.Lib.SchedDiff.parse_prims parts [] [(part, Some m)] in
  parse_slot (P [part]) part S_days = Val (mkDelta (2 * 86400000000) 0) /\
  parse_slot (P [part; part]) part S_days = Exn ValueError /\
  parse_slot (P []) part S_days = Exn ValueError.
Proof. cbv zeta. repeat split; vm_compute; reflexivity. Qed.
