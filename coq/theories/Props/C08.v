(* C08 -- Internal schema always matches the metadata.
   Statements only.  Model: Model/SchemaSync.v (build_schema, the schema doc actions, the record actions on
   _grist_Tables/_grist_Tables_column, and the coupled steps of useractions that derive the schema doc actions from
   the metadata change).  Proofs: Proofs/SchemaSync_*.v.

   Inv base s (Proofs/SchemaSync_proofs.v) is:
     the metadata are well formed (unique row ids, unique table ids, unique column ids per table, positive
     column row ids, reverseCol pointers resolve, no user table named like a built-in one)
     /\ no column record has a missing parent
     /\ exists sch, build_schema base (meta s) = Ok sch /\ schema s and sch are the same dicts
   (schema_equiv: same table ids, and per table the same column ids with the same type, isFormula, formula and
   reverseColId -- the comparison Engine.assert_schema_consistent makes). *)
From Coq Require Import ZArith List Bool Lia.
Import ListNotations.
Require Import Grist.Model.SchemaSync Grist.Proofs.SchemaSync_spec Grist.Proofs.SchemaSync_steps
               Grist.Proofs.SchemaSync_proofs Grist.Proofs.SchemaSync_main
               Grist.Model.SchemaCode GristGen.SchemaSync_gen Grist.Proofs.SchemaSync_bridge.
Open Scope Z_scope.

(* The invariant is the property: the engine schema is what build_schema gives on the metadata, and there is no
   stray column record. *)
Theorem C08_inv_is_the_property : forall base s, Inv base s ->
  (exists sch, build_schema base (st_meta s) = Ok sch /\ schema_equiv (st_schema s) sch) /\
  (forall c, In c (m_cols (st_meta s)) -> exists t, In t (m_tables (st_meta s)) /\ t_id t = c_parent c).
Proof. intros base s [_ [_ [_ [_ [Hns Hb]]]]]. split; [exact Hb | exact Hns]. Qed.

(* Every coupled step (AddColumn + its record, RemoveColumn(s) + record removal, RenameColumn / ModifyColumn +
   the colId / type / formula / isFormula / reverseCol update, AddTable / RemoveTable(s) / RenameTable(s) with their
   records and the Int detour of referring columns), taken with the precondition the earlier phases of the same user
   action establish, keeps the invariant. *)
Theorem C08_coupled_step : forall base op s s',
  Inv base s -> cop_pre op s = true -> step op s = Ok s' -> Inv base s'.
Proof. exact coupled_step_Inv. Qed.

(* Hence every history of coupled steps from an empty document (or from any state in the invariant). *)
Theorem C08_reachable : forall base ops s, reach ops (empty_doc base) = Ok s -> Inv base s.
Proof. intros base ops s H. exact (reach_Inv base ops (empty_doc base) s (Inv_empty base) H). Qed.

Theorem C08_reachable_from : forall base ops s s', Inv base s -> reach ops s = Ok s' -> Inv base s'.
Proof. exact reach_Inv. Qed.

(* After a rollback (failed bundle) and after an undo, schema and metadata are those of an earlier state that was in
   the invariant (C04 / C01 give the restoration; the oracle of this check compares the engine after every failed
   bundle and every undo): the restored state is in the invariant. *)
Theorem C08_after_rollback : forall base s0 s, Inv base s0 ->
  st_meta s = st_meta s0 -> schema_equiv (st_schema s) (st_schema s0) -> Inv base s.
Proof. exact Inv_restored. Qed.

Theorem C08_after_undo : forall base op s0 s1 s, Inv base s0 -> cop_pre op s0 = true -> step op s0 = Ok s1 ->
  st_meta s = st_meta s0 -> schema_equiv (st_schema s) (st_schema s0) -> Inv base s1 /\ Inv base s.
Proof.
  intros base op s0 s1 s Hi Hp Hs Hm He. split; [exact (coupled_step_Inv base op s0 s1 Hi Hp Hs) | exact (Inv_restored base s0 s Hi Hm He)].
Qed.

(* ---- non-vacuity: a history with a table, an added column, a rename and a type change ---- *)
Definition sT : str := [84].
Definition rA : crec := {| c_id := 1; c_parent := 1; c_pos := 1; c_colId := [65]; c_type := [73; 110; 116];
                           c_isf := false; c_formula := []; c_rev := 0 |}.
Definition no_upd : cpatch :=
  {| u_parent := None; u_pos := None; u_colId := None; u_type := None; u_isf := None; u_formula := None; u_rev := None |}.
Definition ops0 : list cop :=
  [ CAddTable {| t_id := 1; t_tableId := sT |} [rA];
    CAddColumn 2 1 2 [66] [84; 101; 120; 116] false [];
    CUpdateColumns [(2, {| u_parent := None; u_pos := None; u_colId := Some [67]; u_type := Some [73; 110; 116];
                           u_isf := None; u_formula := None; u_rev := None |})];
    CUpdateTables [(1, Some [85])] [] ].
Definition s_ex : state := match reach ops0 (empty_doc []) with Ok s => s | Err _ => empty_doc [] end.

Example C08_nonvacuous :
  reach ops0 (empty_doc []) = Ok s_ex /\ Inv [] s_ex /\
  st_schema s_ex = [([85], [([65], {| ci_type := [73; 110; 116]; ci_isf := false; ci_formula := []; ci_rev := None |});
                            ([67], {| ci_type := [73; 110; 116]; ci_isf := false; ci_formula := []; ci_rev := None |})])].
Proof.
  assert (H : reach ops0 (empty_doc []) = Ok s_ex) by (vm_compute; reflexivity).
  split; [exact H|]. split; [exact (C08_reachable [] ops0 s_ex H) | vm_compute; reflexivity].
Qed.

(* ---- steps that are NOT coupled break the invariant in the model; the engine must therefore reject them ----
   A record action applied on its own to _grist_Tables/_grist_Tables_column has no schema doc action derived from it.
   Since commit b79769b such a doc action sets Engine._schema_updated, so assert_schema_consistent runs at the end of
   the user action, raises, and the bundle is rolled back.  The check's engine-side oracle: an uncoupled direct
   metadata edit either keeps schema == metadata or the bundle fails and leaves no trace.
   (1) a record added directly to _grist_Tables_column: the metadata would gain a column the schema does not have *)
Definition rZ : crec := {| c_id := 9; c_parent := 1; c_pos := 9; c_colId := [90]; c_type := [84; 101; 120; 116];
                           c_isf := false; c_formula := []; c_rev := 0 |}.

Theorem C08_uncoupled_column_record_breaks_inv :
  exists s s', Inv [] s /\ step (CRaw (EM (MAddCols [rZ]))) s = Ok s' /\ ~ Inv [] s'.
Proof.
  exists s_ex. eexists. split; [exact (proj1 (proj2 C08_nonvacuous))|]. split; [vm_compute; reflexivity|].
  intros [_ [_ [_ [_ [_ [sch [Hb He]]]]]]]. vm_compute in Hb. inversion Hb; subst sch; clear Hb.
  specialize (He [85]). vm_compute in He. specialize (He [90]). vm_compute in He. discriminate He.
Qed.

(* (2) a parentId update: _updateColumnRecords derives no schema action from it (cop_pre excludes it) *)
Definition ops1 : list cop := ops0 ++ [CAddTable {| t_id := 2; t_tableId := [86] |}
                                        [{| c_id := 3; c_parent := 2; c_pos := 1; c_colId := [65]; c_type := [73; 110; 116];
                                            c_isf := false; c_formula := []; c_rev := 0 |};
                                         {| c_id := 4; c_parent := 2; c_pos := 2; c_colId := [75]; c_type := [73; 110; 116];
                                            c_isf := false; c_formula := []; c_rev := 0 |}]].
Definition s_ex1 : state := match reach ops1 (empty_doc []) with Ok s => s | Err _ => empty_doc [] end.

Theorem C08_uncoupled_parent_update_breaks_inv :
  exists s s', Inv [] s /\
    step (CUpdateColumns [(4, {| u_parent := Some 1; u_pos := None; u_colId := None; u_type := None; u_isf := None;
                                 u_formula := None; u_rev := None |})]) s = Ok s' /\ ~ Inv [] s'.
Proof.
  exists s_ex1. eexists.
  assert (H : reach ops1 (empty_doc []) = Ok s_ex1) by (vm_compute; reflexivity).
  split; [exact (C08_reachable [] ops1 s_ex1 H)|]. split; [vm_compute; reflexivity|].
  intros [_ [_ [_ [_ [_ [sch [Hb He]]]]]]]. vm_compute in Hb. inversion Hb; subst sch; clear Hb.
  specialize (He [85]). vm_compute in He. specialize (He [75]). vm_compute in He. discriminate He.
Qed.

(* ---- the code itself: regenerated from /repo on every run (GristGen.SchemaSync_gen, translated by harness/sm2v.py
   from schema.py and docactions.py) and bridged pointwise to the model ---- *)
Theorem C08_bridge_build_schema : forall base ts cs,
  build_schema_gen base ts cs = build_schema base {| m_tables := ts; m_cols := cs |}.
Proof. exact build_schema_bridge. Qed.

Theorem C08_bridge_col_to_dict : forall c i,
  col_to_dict_gen (c, i) false true =
  {| d_type := Some (ci_type i); d_isf := Some (ci_isf i); d_formula := Some (ci_formula i); d_rev := Some (ci_rev i);
     d_id := None |}.
Proof. exact col_to_dict_bridge. Qed.

Theorem C08_bridge_modify_column : forall t c p (s : schema) (cols : scols) old,
  od_get t s = Some cols -> od_get c cols = Some old ->
  apply_s (SModifyColumn t c p) s =
  Ok (match modify_column_gen cols c p with Some (cols', _) => od_set t cols' s | None => s end) /\
  modify_column_gen cols c p =
  (if colinfo_eqb (patch_info p old) old then None
   else Some (od_set c (patch_info p old) (od_del c cols), cdict_of_patch (undo_patch old p))).
Proof.
  intros t c p s cols old Ht Hc. split; [exact (modify_column_apply_s t c p s cols old Ht Hc) | exact (modify_column_bridge cols c p old Hc)].
Qed.

Theorem C08_bridge_add_column : forall t c i (s : schema) (cols : scols), od_get t s = Some cols -> od_get c cols = None ->
  apply_s (SAddColumn t c i) s = Ok (add_column_gen s t c i).
Proof. exact add_column_bridge. Qed.
Theorem C08_bridge_remove_column : forall t c (s : schema) (cols : scols) i, od_get t s = Some cols -> od_get c cols = Some i ->
  apply_s (SRemoveColumn t c) s = Ok (remove_column_gen s t c).
Proof. exact remove_column_bridge. Qed.
Theorem C08_bridge_rename_column : forall t c c' (s : schema) (cols : scols) i d,
  od_get t s = Some cols -> od_get c cols = Some i -> od_get c' cols = None ->
  apply_s (SRenameColumn t c c') s = Ok (od_set t (rename_column_gen s t c c' d) s).
Proof. exact rename_column_bridge. Qed.
Theorem C08_bridge_add_table : forall t cols (s : schema), od_get t s = None -> apply_s (SAddTable t cols) s = Ok (add_table_gen s t cols).
Proof. exact add_table_bridge. Qed.
Theorem C08_bridge_remove_table : forall t (s : schema) (cols : scols), od_get t s = Some cols ->
  apply_s (SRemoveTable t) s = Ok (remove_table_gen s t).
Proof. exact remove_table_bridge. Qed.
Theorem C08_bridge_rename_table : forall t t' (s : schema) (cols : scols), od_get t s = Some cols -> od_get t' s = None ->
  apply_s (SRenameTable t t') s = Ok (rename_table_gen s t t').
Proof. exact rename_table_bridge. Qed.

(* the property, about the regenerated build_schema: in every reachable state the engine schema is what the code's
   build_schema gives on the metadata *)
Theorem C08_code_reachable : forall base ops s, reach ops (empty_doc base) = Ok s ->
  exists sch, build_schema_gen base (m_tables (st_meta s)) (m_cols (st_meta s)) = Ok sch /\ schema_equiv (st_schema s) sch.
Proof.
  intros base ops s H. destruct (C08_inv_is_the_property base s (C08_reachable base ops s H)) as [[sch [Hb He]] _].
  exists sch. split; [|exact He]. rewrite C08_bridge_build_schema. destruct (st_meta s). exact Hb.
Qed.

(* the undo action the code builds for ModifyColumn restores the column (rollback and undo rely on it): applying the
   regenerated ModifyColumn with the regenerated undo col_info gives back the old column dict *)
Theorem C08_code_modify_undo_restores : forall (cols : scols) c p old cols' undo, od_get c cols = Some old ->
  modify_column_gen cols c p = Some (cols', undo) ->
  forall k, od_get k (match modify_column_gen cols' c (patch_of_cdict undo) with Some (cols'', _) => cols'' | None => cols' end)
            = od_get k cols.
Proof. exact modify_undo_restores. Qed.
