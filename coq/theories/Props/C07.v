(* C07 -- Reopening a saved document changes nothing.

   Cell level.  A stored cell is the raw Python object in column._data (for a RaisedException together with the class name
   and text of its .error attribute, which is what a reader of the cell is shown).  `reload` (Model/Reload.v) is the load path as coded: encode_object, the database leg (an
   encoded list becomes a marshalled blob; main._decode_db_value unmarshals blobs and applies decode_object) and
   <ColumnClass>.set; `recompute_cell`/`flush_cell` are the change detection of Engine._recompute_step (strict_equal) and
   ActionSummary._changes_to_actions (equal_encoding); `observe` is what column.get_cell_value shows a dependent formula.
   marshal.dumps/loads are arbitrary functions constrained only by `marshal_rt` (loads (dumps x) = x for the two things
   the reload of this cell hands to marshal); library behaviour is the oracle record of Model/Values.v constrained by
   `lib_facts` (the facts of C24).  Statements only; proofs are in Proofs/Reload_proofs.v. *)
From Coq Require Import ZArith List Bool String.
Import ListNotations.
Require Import Grist.Lib.PyFloat Grist.Model.Values Grist.Model.Reload Grist.Model.ReloadPrims Grist.Proofs.Values_enc_proofs Grist.Proofs.Reload_proofs.
Require Import GristGen.Reload_gen Grist.Proofs.Reload_bridge.
Open Scope Z_scope.

(* 'UTC' is a zone; timedelta(seconds=td.total_seconds()) is exact on whole days and within 16 microseconds otherwise; a
   zone's offset at an instant is below a day and is the offset the zone reports back for the resulting wall time *)
Definition lib_facts (orc : oracles) : Prop :=
  zone_ok orc (Str "UTC") = true /\
  (forall d, MIN_DAY <= d <= MAX_DAY ->
     o_td_seconds orc (o_total_seconds orc (d * US_PER_DAY)) = UsOk (d * US_PER_DAY)) /\
  (forall u, in_dt_range u = true ->
     exists u', o_td_seconds orc (o_total_seconds orc u) = UsOk u' /\ Z.abs (u' - u) <= 16 /\
                o_total_seconds orc u' = o_total_seconds orc u) /\
  (forall z u, in_dt_range u = true ->
     Z.abs (o_ts_offset orc z u) < US_PER_DAY /\
     o_dt_offset orc z (Some (o_ts_offset orc z u)) (u + o_ts_offset orc z u) = o_ts_offset orc z u).

(* ---- 1. the reloaded cell encodes as the saved one ----------------------------------------------------------- *)

(* Full statement: every storable cell value of every column type, any fuel, any library. *)
Definition C07_value_roundtrip : Prop := forall orc marshal unmarshal T n v err,
  lib_facts orc -> marshal_rt marshal unmarshal (encode_f orc n v) -> storable orc T v ->
  exists w err', reload orc marshal unmarshal T n (v, err) = Ok (w, err') /\ encode_f orc n w = encode_f orc n v.

(* Proved for the values C24 proves encode/decode/encode for: at every node the unencoded fields of errors and stubs are
   marshalable and no dict key is a str-subclass instance (node_ok), dates are calendar dates and datetimes lie a day
   inside the calendar in a known zone (node_dt).  storable: any object for Text/Blob/Any/Int/Id/Choice columns (their
   class stores what it is given); for the other types an object of an exact builtin type that set stores unchanged. *)
Theorem C07_value_roundtrip_partial : forall orc marshal unmarshal T n v err,
  lib_facts orc -> marshal_rt marshal unmarshal (encode_f orc n v) ->
  vforall node_ok v = true -> vforall (node_dt orc) v = true -> storable orc T v ->
  exists w err', reload orc marshal unmarshal T n (v, err) = Ok (w, err') /\ encode_f orc n w = encode_f orc n v.
Proof.
  intros orc m u T n v err [H1 [H2 [H3 H4]]] Hm Hok Hdt Hst.
  exact (value_roundtrip orc m u H1 H2 H3 H4 T n v err Hm Hok Hdt Hst).
Qed.

(* storable is not a restriction on what the engine stores: whatever a column class stores for an object of an exact
   builtin type (decode_object and the type conversions produce only such) is storable *)
Theorem C07_storable_covers_set : forall orc T d w,
  plain_top d = true -> col_set orc T d = Ok w -> storable orc T w.
Proof. exact set_result_storable. Qed.

(* ---- 2. no stored action for a cell whose encoding did not change --------------------------------------------- *)

Theorem C07_no_stored : forall orc fuel before after,
  equal_encoding orc fuel before after = true ->
  flush_cell orc fuel (recompute_cell orc before after) = None.
Proof. exact no_stored. Qed.

(* 1 and 2 together: after the reload, a formula cell that recomputes to an object with the saved cell's encoding emits
   nothing, provided that encoding compares equal to itself under == (false only with a NaN inside a container). *)
Theorem C07_reloaded_cell_quiet_partial : forall orc marshal unmarshal T n v err new,
  lib_facts orc -> marshal_rt marshal unmarshal (encode_f orc n v) ->
  vforall node_ok v = true -> vforall (node_dt orc) v = true -> storable orc T v ->
  encode_f orc n new = encode_f orc n v ->
  py_eq orc (encode_f orc n v) (encode_f orc n v) = true ->
  exists w err', reload orc marshal unmarshal T n (v, err) = Ok (w, err') /\
                 flush_cell orc n (recompute_cell orc w new) = None.
Proof.
  intros orc m u T n v err new Hl Hm Hok Hdt Hst Hnew Hrefl.
  destruct (C07_value_roundtrip_partial orc m u T n v err Hl Hm Hok Hdt Hst) as [w [err' [Hr He]]].
  exists w, err'. split; [exact Hr|]. apply no_stored. apply same_encoding_equal; rewrite He; [symmetry; exact Hnew|exact Hrefl].
Qed.

(* ---- 3. what a dependent formula sees ---------------------------------------------------------------------------- *)

(* constructor invariant of RaisedException: the saved name is the class name of .error *)
Definition cell_inv (c : cell) : Prop :=
  match fst c, snd c with
  | PErr (PStr _ nm) _ _ _, Some (n, _) => n = nm
  | PErr _ _ _ _, _ => True
  | _, None => True
  | _, Some _ => False
  end.

(* Full statement: reading the reloaded cell shows a dependent formula what reading the saved cell showed. *)
Definition C07_reload_observably_equal : Prop := forall orc marshal unmarshal T n c c',
  lib_facts orc -> marshal_rt marshal unmarshal (encode_f orc n (fst c)) ->
  vforall node_ok (fst c) = true -> vforall (node_dt orc) (fst c) = true -> storable orc T (fst c) -> cell_inv c ->
  reload orc marshal unmarshal T n c = Ok c' -> observe c' = observe c.

(* Proved for cells that are not errors and whose object is made of None, bool, short int, float, str and plain lists of
   such (ChoiceList: a tuple of such) -- every right-type value and every alt text of the typed columns is of this
   kind: the reloaded cell is the same object description, with the same exact types. *)
Theorem C07_reload_observably_equal_partial : forall orc marshal unmarshal T n v,
  marshal_rt marshal unmarshal (encode_f orc n (match T, v with TChoiceList, PTuple l => PList LPlain l | _, _ => v end)) ->
  exact_cell T n v = true -> col_set orc T v = Ok v ->
  reload orc marshal unmarshal T n (v, None) = Ok (v, None).
Proof. exact reload_exact. Qed.

(* Error cells (after commit 2fb0387).  An error cell whose saved name is a str comes back, in every column type, as an
   error with the same name, message and details whose .error is a stand-in exception of a class with that name, carrying
   the saved message; the user input comes back as decode_object makes it (ui'). *)
Theorem C07_reload_error_cell : forall orc marshal unmarshal T n nm msg details ui err,
  marshal_rt marshal unmarshal (encode_f orc n (PErr (PStr false nm) msg details ui)) ->
  vforall node_ok (PErr (PStr false nm) msg details ui) = true ->
  (ui = None \/ exists k, n = S k) ->
  exists ui', reload orc marshal unmarshal T n (PErr (PStr false nm) msg details ui, err) =
              Ok (PErr (PStr false nm) msg details ui', Some (nm, Some (exc_text orc msg))).
Proof. exact reload_error_cell. Qed.

(* Hence a reader is shown the same thing -- the class name, and the text where the saved message is the text of the saved
   exception (an error saved with its message, as the errors of data columns are, that is not itself the echo of another
   cell's error; then the message carries a location suffix the stand-in repeats). *)
Theorem C07_reload_observably_equal_error_partial : forall orc marshal unmarshal T n nm msg details ui,
  let c := (PErr (PStr false nm) msg details ui, Some (nm, Some (exc_text orc msg))) in
  marshal_rt marshal unmarshal (encode_f orc n (fst c)) -> vforall node_ok (fst c) = true ->
  (ui = None \/ exists k, n = S k) ->
  exists c', reload orc marshal unmarshal T n c = Ok c' /\ observe c' = observe c.
Proof.
  intros orc m u T n nm msg details ui c Hm Hok Hf.
  destruct (reload_error_cell orc m u T n nm msg details ui (snd c) Hm Hok Hf) as [ui' H].
  eexists. split; [exact H|reflexivity].
Qed.

(* a library satisfying lib_facts (seconds kept exactly, no zone offsets) and marshal given by a finite table *)
Definition ideal_orc : oracles := {|
  o_float_of_str := fun _ => None; o_float_of_bytes := fun _ => None;
  o_float_repr := fun _ => []; o_fmt15g := fun _ => []; o_str := fun _ => None; o_repr := fun _ => None;
  o_type_name := fun _ => []; o_json_loads := fun _ => None; o_iso_parse := fun _ => None;
  o_int_of_str := fun _ => None; o_lower := fun s => s; o_utf8_decode := fun _ => None;
  o_zone_known := fun _ => Ok true; o_dt_offset := fun _ _ _ => 0; o_ts_offset := fun _ _ => 0;
  o_total_seconds := fun u => FNum u 0;
  o_td_seconds := fun f => match f with FNum m _ => UsOk m | _ => UsValueError end;
  o_truthy := fun _ => None; o_float_of_opaque := fun _ => None; o_iter := fun _ => None |}.

Lemma ideal_lib_facts : lib_facts ideal_orc.
Proof.
  repeat split; try reflexivity.
  intros u _. exists u. cbn. repeat split; try reflexivity. rewrite Z.sub_diag. cbn. discriminate.
Qed.

(* marshal tables for one encoded list e: e <-> bytes [1], the blob holding those bytes <-> bytes [2] *)
Definition blob_table (e : value) : list (value * list Z) := [(e, [1]); (PBytes false [1], [2])].

(* (a) Regression (the finding repaired by 2fb0387).  A data column whose trigger formula raised NameError holds
   RaisedException(NameError(...), user_input=''), saved as ['E', 'NameError', "name 'NoSuch' is not defined", None, {'u': ''}].
   decode_args used to leave .error = None, and a formula reading the reloaded cell reported 'NoneType'; now the reloaded
   cell carries a stand-in NameError with the saved message and the reader is shown what it was shown before. *)
Definition err_cell : cell :=
  (PErr (PStr false (Str "NameError")) (PStr false (Str "name 'NoSuch' is not defined")) PNone (Some (PStr false [])),
   Some (Str "NameError", Some (Str "name 'NoSuch' is not defined"))).
Definition err_table := blob_table (encode_f ideal_orc 5 (fst err_cell)).

Example C07_regression_error_cell :
  reload ideal_orc (marshal_of err_table) (unmarshal_of err_table) TText 5 err_cell = Ok err_cell /\
  observe err_cell = ORaise (Str "NameError") (Some (Str "name 'NoSuch' is not defined")) /\ cell_inv err_cell.
Proof. split; [vm_compute; reflexivity|]. split; reflexivity. Qed.

(* (b) A rich object in an Any data column (a trigger formula returned the tuple (1, 2)): saved as ['L', 1, 2], reloaded
   as the list [1, 2]; type($A), $A == (1, 2), hash($A) differ. *)
Definition tuple_cell : cell := (PTuple [PInt false 1; PInt false 2], None).
Definition tuple_cell_reloaded : cell := (PList LPlain [PInt false 1; PInt false 2], None).
Definition tuple_table := blob_table (encode_f ideal_orc 5 (fst tuple_cell)).

Theorem C07_refuted_rich_value :
  reload ideal_orc (marshal_of tuple_table) (unmarshal_of tuple_table) TAny 5 tuple_cell = Ok tuple_cell_reloaded /\
  observe tuple_cell_reloaded <> observe tuple_cell /\
  ~ C07_reload_observably_equal.
Proof.
  split; [vm_compute; reflexivity|]. split; [vm_compute; discriminate|].
  intros H.
  specialize (H ideal_orc (marshal_of tuple_table) (unmarshal_of tuple_table) TAny 5%nat tuple_cell tuple_cell_reloaded ideal_lib_facts).
  assert (Hobs : observe tuple_cell_reloaded = observe tuple_cell).
  { apply H; try (vm_compute; reflexivity); try exact I. split; vm_compute; reflexivity. }
  vm_compute in Hobs. discriminate Hobs.
Qed.

(* (c) A datetime in the last microseconds of year 9999 in an Any data column: the C24 defect (its float timestamp
   rounds past the calendar) makes the reloaded cell an OverflowError value, whose encoding differs: the full statement
   of part 1 fails without node_dt.  utc_tables: 'UTC' known, offset 0; seconds by the executable Lib/PyFloat.v model. *)
Definition utc_tables : tables :=
  Build_tables [] [] [] [] [] [] [] [] [] [] [] [] [(PStr false (Str "UTC"), Ok true)] [] [((Str "UTC", 253402300800000000), 0)] [] [] [].
Definition dtmax_cell : cell := (PDateTime MAX_US TzNaive, None).
Definition dtmax_table := blob_table (encode_f (oracles_of utc_tables) 5 (fst dtmax_cell)).

Theorem C07_refuted_datetime_max :
  exists w err', reload (oracles_of utc_tables) (marshal_of dtmax_table) (unmarshal_of dtmax_table) TAny 5 dtmax_cell = Ok (w, err') /\
                 encode_f (oracles_of utc_tables) 5 w = tag "E" [PStr false (Str "OverflowError")] /\
                 encode_f (oracles_of utc_tables) 5 (fst dtmax_cell) = tag "D" [PFloat false (FNum 1979705475 7); PStr false (Str "UTC")].
Proof. eexists; eexists. split; [vm_compute; reflexivity|]. split; vm_compute; reflexivity. Qed.

(* ---- non-vacuity ------------------------------------------------------------------------------------------------ *)

(* the hypotheses of part 1 hold for a ChoiceList tuple, a Numeric float, a RefList list and an error with user input *)
Example C07_nonvacuous_roundtrip :
  let v := PTuple [PStr false (Str "red"); PStr false (Str "green")] in
  let tbl := blob_table (encode_f ideal_orc 5 v) in
  lib_facts ideal_orc /\ marshal_rt (marshal_of tbl) (unmarshal_of tbl) (encode_f ideal_orc 5 v) /\
  vforall node_ok v = true /\ vforall (node_dt ideal_orc) v = true /\ storable ideal_orc TChoiceList v /\
  storable ideal_orc TNumeric (PFloat false (FNum 3 (-1))) /\ storable ideal_orc (TRefList (Str "T")) (PList LPlain [PInt false 1]) /\
  storable ideal_orc TBool (fst err_cell) /\
  reload ideal_orc (marshal_of tbl) (unmarshal_of tbl) TChoiceList 5 (v, None) = Ok (v, None).
Proof.
  cbv zeta. split; [exact ideal_lib_facts|]. split; [split; vm_compute; reflexivity|].
  repeat split; vm_compute; reflexivity.
Qed.

(* part 3: a nested list in an Any column and a tuple in a ChoiceList column come back as the same objects *)
Example C07_nonvacuous_exact :
  let v := PList LPlain [PInt false 1; PList LPlain [PStr false (Str "a"); PNone]; PFloat false (FNum 3 (-1))] in
  let tbl := blob_table (encode_f ideal_orc 5 v) in
  marshal_rt (marshal_of tbl) (unmarshal_of tbl) (encode_f ideal_orc 5 v) /\
  exact_cell TAny 5 v = true /\ col_set ideal_orc TAny v = Ok v /\
  exact_cell TChoiceList 5 (PTuple [PStr false (Str "red")]) = true.
Proof. cbv zeta. split; [split; vm_compute; reflexivity|]. repeat split; vm_compute; reflexivity. Qed.

(* part 2: 1 and 1.0 have equal encodings (no action); True and 1 do not *)
Example C07_nonvacuous_no_stored :
  equal_encoding ideal_orc 5 (PInt false 1) (PFloat false (FNum 1 0)) = true /\
  flush_cell ideal_orc 5 (recompute_cell ideal_orc (PInt false 1) (PBool true)) = Some (PBool true).
Proof. split; vm_compute; reflexivity. Qed.

(* A NaN inside a container (a formula of an Any column returning [float('nan')]): Python's == on the two encodings
   ['L', nan] compares the NaN items, which are distinct objects after a load (and after every recalculation), so
   equal_encoding says "changed" although the encodings are the same data: the hypothesis py_eq e e of
   C07_reloaded_cell_quiet_partial fails and the cell is stored again with the value it has. *)
Example C07_refuted_nan_in_container :
  let v := PList LPlain [PFloat false FNan] in
  py_eq ideal_orc (encode_f ideal_orc 5 v) (encode_f ideal_orc 5 v) = false /\
  flush_cell ideal_orc 5 (recompute_cell ideal_orc v v) = Some v.
Proof. split; vm_compute; reflexivity. Qed.

(* ================================================================================================================== *)
(* The code itself.  coq/gen/Reload_gen.v is translated from /repo on every run (harness/rl2v.py): main._decode_db_value,
   BoolColumn/NumericColumn/ChoiceListColumn.set, ReferenceColumn/ReferenceListColumn._clean_up_value, objtypes.safe_shift,
   RaisedException.decode_args, strict_equal, equal_encoding, and the table of which set() each column type resolves to.
   Each translated function is, pointwise, the hand-written model (a semantic edit of the source breaks one of these). *)

Theorem C07_bridge_decode_db_value : forall orc unmarshal fuel x,
  gen_decode_db_value (decode_f orc fuel) (loads_of unmarshal) x = Ok (fst (from_db orc unmarshal fuel x)).
Proof. exact bridge_decode_db_value. Qed.

Theorem C07_bridge_BoolColumn_set : forall v, gen_BoolColumn_set v = Ok (bool_set v).
Proof. exact bridge_BoolColumn_set. Qed.

Theorem C07_bridge_NumericColumn_set : forall orc v, gen_NumericColumn_set orc v = numeric_set v.
Proof. exact bridge_NumericColumn_set. Qed.

Theorem C07_bridge_ChoiceListColumn_set : forall orc v, gen_ChoiceListColumn_set orc v = Ok (choicelist_set orc v).
Proof. exact bridge_ChoiceListColumn_set. Qed.

Theorem C07_bridge_ReferenceColumn_clean_up_value : forall v, gen_ReferenceColumn_clean_up_value v = Ok (ref_cleanup v).
Proof. exact bridge_ReferenceColumn_clean_up_value. Qed.

Theorem C07_bridge_ReferenceListColumn_clean_up_value : forall orc v,
  gen_ReferenceListColumn_clean_up_value orc v = Ok (reflist_cleanup orc v).
Proof. exact bridge_ReferenceListColumn_clean_up_value. Qed.

Theorem C07_bridge_col_set : forall orc T v, gen_col_set orc T v = col_set orc T v.
Proof. exact bridge_col_set. Qed.

Theorem C07_bridge_strict_equal : forall orc a b, gen_strict_equal orc a b = Ok (strict_equal orc a b).
Proof. exact bridge_strict_equal. Qed.

Theorem C07_bridge_equal_encoding : forall orc fuel a b,
  gen_equal_encoding orc (encode_f orc fuel) a b = Ok (equal_encoding orc fuel a b).
Proof. exact bridge_equal_encoding. Qed.

Theorem C07_bridge_safe_shift : forall orc k l d,
  gen_safe_shift orc (PList k l) d = Ok (fst (shift_or d l), PList k (snd (shift_or d l))).
Proof. exact bridge_safe_shift. Qed.

(* decode_args builds the fields (name, message, details, decoded user input or NO_INPUT, stand-in exception) *)
Theorem C07_bridge_decode_args : forall orc dec a rest,
  gen_decode_args orc dec (PTuple (a :: rest)) = exc_tuple dec a rest.
Proof. exact bridge_decode_args. Qed.

(* ... which is the E branch of decode_object in Model/Values.v, and the .error of Model/Reload.v *)
Theorem C07_bridge_decode_E : forall orc n a rest, forallb marshalableb rest = true ->
  decode_f orc (S n) (tag "E" (a :: rest)) = err_of_tuple (gen_decode_args orc (decode_f orc n) (PTuple (a :: rest))).
Proof. exact decode_E_by_gen. Qed.

Theorem C07_bridge_decoded_err : forall orc n a rest,
  decoded_err orc (S n) (tag "E" (a :: rest)) = errdesc_of_tuple orc (gen_decode_args orc (decode_f orc n) (PTuple (a :: rest))).
Proof. exact decoded_err_by_gen. Qed.

Theorem C07_bridge_reload : forall orc marshal unmarshal T fuel c,
  code_reload orc marshal unmarshal T fuel c = reload orc marshal unmarshal T fuel c.
Proof. exact bridge_reload. Qed.

(* ---- the property theorems, about the translated code ------------------------------------------------------------- *)

Theorem C07_code_value_roundtrip_partial : forall orc marshal unmarshal T n v err,
  lib_facts orc -> marshal_rt marshal unmarshal (encode_f orc n v) ->
  vforall node_ok v = true -> vforall (node_dt orc) v = true -> storable orc T v ->
  exists w err', code_reload orc marshal unmarshal T n (v, err) = Ok (w, err') /\ encode_f orc n w = encode_f orc n v.
Proof. intros orc m u T n v err. rewrite bridge_reload. apply C07_value_roundtrip_partial. Qed.

Theorem C07_code_no_stored : forall orc fuel before after,
  gen_equal_encoding orc (encode_f orc fuel) before after = Ok true ->
  bind (code_recompute_cell orc before after) (code_flush_cell orc fuel) = Ok None.
Proof.
  intros orc fuel b a H. rewrite bridge_recompute_cell. cbn [bind]. rewrite bridge_flush_cell.
  rewrite bridge_equal_encoding in H. injection H as H. rewrite (no_stored orc fuel b a H). reflexivity.
Qed.

Theorem C07_code_reloaded_cell_quiet_partial : forall orc marshal unmarshal T n v err new,
  lib_facts orc -> marshal_rt marshal unmarshal (encode_f orc n v) ->
  vforall node_ok v = true -> vforall (node_dt orc) v = true -> storable orc T v ->
  encode_f orc n new = encode_f orc n v ->
  py_eq orc (encode_f orc n v) (encode_f orc n v) = true ->
  exists w err', code_reload orc marshal unmarshal T n (v, err) = Ok (w, err') /\
                 bind (code_recompute_cell orc w new) (code_flush_cell orc n) = Ok None.
Proof.
  intros orc m u T n v err new Hl Hm Hok Hdt Hst Hnew Hrefl.
  destruct (C07_reloaded_cell_quiet_partial orc m u T n v err new Hl Hm Hok Hdt Hst Hnew Hrefl) as [w [err' [Hr Hq]]].
  exists w, err'. rewrite bridge_reload. split; [exact Hr|].
  rewrite bridge_recompute_cell. cbn [bind]. rewrite bridge_flush_cell, Hq. reflexivity.
Qed.

Theorem C07_code_reload_observably_equal_partial : forall orc marshal unmarshal T n v,
  marshal_rt marshal unmarshal (encode_f orc n (match T, v with TChoiceList, PTuple l => PList LPlain l | _, _ => v end)) ->
  exact_cell T n v = true -> gen_col_set orc T v = Ok v ->
  code_reload orc marshal unmarshal T n (v, None) = Ok (v, None).
Proof. intros orc m u T n v Hm He Hs. rewrite bridge_reload. rewrite bridge_col_set in Hs. apply reload_exact; assumption. Qed.

Theorem C07_code_reload_error_cell : forall orc marshal unmarshal T n nm msg details ui err,
  marshal_rt marshal unmarshal (encode_f orc n (PErr (PStr false nm) msg details ui)) ->
  vforall node_ok (PErr (PStr false nm) msg details ui) = true ->
  (ui = None \/ exists k, n = S k) ->
  exists ui', code_reload orc marshal unmarshal T n (PErr (PStr false nm) msg details ui, err) =
              Ok (PErr (PStr false nm) msg details ui', Some (nm, Some (exc_text orc msg))).
Proof. intros orc m u T n nm msg details ui err. rewrite bridge_reload. apply reload_error_cell. Qed.
