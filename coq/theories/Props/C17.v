(* C17 -- Renames inside access rules and conditions are exact.
   Statements only; the model is Model/PredicateRename.v over Model/Predicate.v (hand-written, compared with the
   running predicate_formula.process_renames, the three collectors and the perform_*_renames functions on generated
   formulas by every run of the check), proofs in Proofs/PredicateRename_proofs.v.
   The CPython parser, asttokens and the $-replacer are oracles: the step "the patched text parses to the renamed
   AST" is checked on the implementation for every case (harness/pred_e2e.py), not proved. *)
From Coq Require Import ZArith List Bool String Lia.
Import ListNotations.
Require Import Grist.Model.Predicate Grist.Model.PredicateRename.
Require Import Grist.Proofs.Predicate_proofs Grist.Proofs.PredicateRename_proofs.
Open Scope Z_scope.
Open Scope list_scope.

(* ------------------------------------------------------------------------------------------------- *)
(* 1. The collectors are exact.  When the traversal of a collector succeeds it returns the converter's tree, and
   the entities it appended are, in visit order, exactly the Attribute nodes `value.attr` anywhere in the
   expression whose `value` has one of the collector's shapes (classify_ast), each with its own position. *)
Theorem C17_collect_exact : forall k e t ents,
  visit k e = Ok (t, ents) ->
  convert e = Ok t /\ ents = collect k e /\
  forall ent, In ent ents <->
              exists p v a ap, subexpr (EAttribute p v a ap) e /\ In ent (classify_ast k v a ap).
Proof.
  intros k e t ents H. split; [exact (visit_ok_convert k e t ents H)|].
  pose proof (visit_collect k e (t, ents) H) as Hc. cbn in Hc. split; [exact Hc|]. subst ents.
  intros ent. split; [apply collect_sound | apply collect_complete].
Qed.

(* a collector fails exactly when the converter fails (then the formula is left alone) *)
Theorem C17_collector_rejects_iff : forall k e, is_ok (visit k e) = is_ok (convert e).
Proof. exact visit_is_ok. Qed.

(* Arbitrary attribute chains  name.a1.a2...an  (positions p1...pn). *)
Definition ent (ty : ent_type) (pos : Z) (name : str) (extra : option str) : entity := Build_entity ty pos name extra.

Theorem C17_chain_acl_rec : forall p n a1 p1 rest,
  n = lit "rec" \/ n = lit "newRec" ->
  collect ACL (chain (EName p n) ((a1, p1) :: rest)) = [ent RecCol p1 a1 None].
Proof.
  intros p n a1 p1 rest Hn. rewrite collect_chain. cbn [collect chain_ents app].
  rewrite chain_ents_after_name by (left; destruct Hn; subst; reflexivity).
  destruct Hn; subst; reflexivity.
Qed.

Theorem C17_chain_acl_user : forall p a1 p1 rest,
  collect ACL (chain (EName p (lit "user")) ((a1, p1) :: rest)) =
  ent UserAttr p1 a1 None ::
  match rest with (a2, p2) :: _ => [ent UserAttrCol p2 a2 (Some a1)] | [] => [] end.
Proof.
  intros p a1 p1 rest. rewrite collect_chain. cbn [collect chain_ents app].
  destruct rest as [|[a2 p2] rest']; [reflexivity|]. cbn [chain_ents]. rewrite chain_ents_deep. reflexivity.
Qed.

Theorem C17_chain_acl_other : forall p n attrs,
  is_ename (EName p n) "rec" = false -> is_ename (EName p n) "newRec" = false -> is_ename (EName p n) "user" = false ->
  collect ACL (chain (EName p n) attrs) = [].
Proof.
  intros p n attrs H1 H2 H3. rewrite collect_chain. destruct attrs as [|[a ap] t]; [reflexivity|].
  cbn [collect chain_ents app]. rewrite chain_ents_after_name by (left; exact H3).
  unfold classify_ast. rewrite H1, H2, H3. reflexivity.
Qed.

Theorem C17_chain_dc : forall p n a1 p1 rest,
  collect DC (chain (EName p n) ((a1, p1) :: rest)) =
  if str_eqb n (lit "choice") then [ent ChoiceAttr p1 a1 None]
  else if str_eqb n (lit "rec") then [ent RecCol p1 a1 None] else [].
Proof.
  intros. rewrite collect_chain. cbn [collect chain_ents app].
  rewrite chain_ents_after_name by (right; discriminate). rewrite app_nil_r. reflexivity.
Qed.

Theorem C17_chain_trigger : forall p n a1 p1 rest,
  collect Trigger (chain (EName p n) ((a1, p1) :: rest)) =
  if str_eqb n (lit "rec") || str_eqb n (lit "oldRec") then [ent RecCol p1 a1 None] else [].
Proof.
  intros. rewrite collect_chain. cbn [collect chain_ents app].
  rewrite chain_ents_after_name by (right; discriminate). rewrite app_nil_r. reflexivity.
Qed.

Example C17_chain_example :      (* user.Cust.Name.lower : the attribute, its column, nothing deeper *)
  collect ACL (chain (EName (1, 0) (lit "user")) [(lit "Cust", 5); (lit "Name", 10); (lit "lower", 15)])
  = [ent UserAttr 5 (lit "Cust") None; ent UserAttrCol 10 (lit "Name") (Some (lit "Cust"))].
Proof. reflexivity. Qed.

(* ------------------------------------------------------------------------------------------------- *)
(* 2. Renaming commutes with conversion: the tree of the renamed expression is the old tree with exactly the
   collected references renamed. *)
Theorem C17_rename_commutes : forall k (r : renamer) e,
  convert (rename_ast k r e) = map_cres (rename_tree k r) (convert e).
Proof. exact rename_commutes_lemma. Qed.

(* The renamers of the three callers rename a reference only when its table matches: rec.X of an ACL rule
   belongs to the table of the rule's resource, user.A.X to the lookup table of attribute A, choice.X to the
   referenced table, and user.A itself is never renamed. *)
Theorem C17_acl_renamer_exact : forall rs rule_table (attr_table : str -> option str) ty name extra new,
  acl_renamer rs rule_table attr_table ty name extra = Some new ->
  (ty = RecCol /\ exists t, rule_table = Some t /\ renames_get rs t name = Some new) \/
  (ty = UserAttrCol /\ exists a t, extra = Some a /\ attr_table a = Some t /\ renames_get rs t name = Some new).
Proof.
  intros rs rt at' ty name extra new H. destruct ty; cbn in H; try discriminate.
  - left. split; [reflexivity|]. destruct rt; [eauto|discriminate].
  - right. split; [reflexivity|]. destruct extra as [a|]; [|discriminate].
    destruct (at' a) as [t|] eqn:E; [|discriminate]. eauto.
Qed.

Theorem C17_dc_renamer_exact : forall rs ref_table self_table ty name extra new,
  dc_renamer rs ref_table self_table ty name extra = Some new ->
  (ty = ChoiceAttr /\ exists t, ref_table = Some t /\ renames_get rs t name = Some new) \/
  (ty <> ChoiceAttr /\ renames_get rs self_table name = Some new).
Proof.
  intros rs rt st ty name extra new H. destruct ty; cbn in H;
    try (right; split; [discriminate | exact H]).
  left. split; [reflexivity|]. destruct rt; [eauto|discriminate].
Qed.

(* ------------------------------------------------------------------------------------------------- *)
(* 3. The ACL resource column list.  With new column ids that contain no comma: an update is issued exactly when
   the renamed list differs, the new text splits into the old elements renamed one by one, and a list in which
   nothing is renamed is textually unchanged (join o split = identity). *)
Theorem C17_acl_colids_rename : forall rs t colids,
  renames_comma_free rs = true ->
  match rename_colids rs t colids with
  | Some new => new <> colids /\ split_comma new = map (rename_col rs t) (split_comma colids)
  | None => colids = [] \/ colids = lit "*" \/ map (rename_col rs t) (split_comma colids) = split_comma colids
  end.
Proof. exact rename_colids_spec. Qed.

Theorem C17_colids_text_roundtrip : forall s, join_comma (split_comma s) = s.
Proof. exact join_split. Qed.

Example C17_colids_example :
  let rs := [(lit "Students", lit "lastName", lit "Family_Name")] in
  renames_comma_free rs = true /\
  rename_colids rs (lit "Students") (lit "firstName,lastName") = Some (lit "firstName,Family_Name") /\
  rename_colids rs (lit "Schools") (lit "firstName,lastName") = None /\
  rename_colids rs (lit "Students") (lit "*") = None.
Proof. vm_compute. repeat split; reflexivity. Qed.

(* ------------------------------------------------------------------------------------------------- *)
(* 4. Formulas that do not parse are left untouched.  "Does not parse" = parse_predicate_formula raises SyntaxError:
   the text is not even a module ([dollar_ok = false]: get_dollar_replacer raises), or not an expression
   ([ast = None]), or the converter rejects it. *)
Definition unparsable (dollar_ok : bool) (ast : option expr) : Prop :=
  dollar_ok = false \/ ast = None \/ exists e, ast = Some e /\ is_ok (convert e) = false.

Theorem C17_unparsable_untouched : forall k r formula dollar_ok dollars ast,
  unparsable dollar_ok ast -> process_renames k r formula dollar_ok dollars ast = PRText formula.
Proof.
  intros k r formula dollar_ok dollars ast [H|[H|[e [-> H]]]].
  - subst. reflexivity.
  - subst. destruct dollar_ok; reflexivity.
  - destruct dollar_ok; [apply process_renames_rejected; exact H | reflexivity].
Qed.

(* Regression example: the stored formula  rec.A ==  (not even a module: get_dollar_replacer raises), on which
   process_renames let the SyntaxError escape before fix commit 8212ac8, is returned unchanged. *)
Example C17_regression_unparsable :
  process_renames ACL (acl_renamer [(lit "T", lit "AA", lit "X")] (Some (lit "T")) (fun _ => None)) (lit "rec.A ==") false [] None
  = PRText (lit "rec.A ==").
Proof. reflexivity. Qed.

(* ------------------------------------------------------------------------------------------------- *)
(* 5. Text.  A formula in which the renamer hits no collected reference is returned character for character. *)
Theorem C17_nothing_to_rename_text_unchanged : forall k r formula dollars e t ents,
  visit k e = Ok (t, ents) ->
  (forall x, In x ents -> r (e_type x) (e_name x) (e_extra x) = None) ->
  process_renames k r formula true dollars (Some e) = PRText formula.
Proof.
  intros k r formula dollars e t ents Hv Hr. unfold process_renames. cbn [negb]. rewrite Hv.
  rewrite (rename_patches_no_hit r dollars ents Hr). reflexivity.
Qed.

(* Non-vacuity, on text:  $A == rec.A  (the $-free text is  rec.A == rec.A ; the names sit at 4 and 13)
   with A renamed to Zed becomes  $Zed == rec.Zed ; a rename of another table's column changes nothing. *)
Definition ex17_ast : expr :=
  ECompare (1, 0) (EAttribute (1, 0) (EName (1, 0) (lit "rec")) (lit "A") 4) [OpEq]
           [EAttribute (1, 9) (EName (1, 9) (lit "rec")) (lit "A") 13].

Example C17_nonvacuous :
  let rs := [(lit "T", lit "A", lit "Zed")] in
  undollar_text (lit "$A == rec.A") [0] = lit "rec.A == rec.A" /\
  process_renames ACL (acl_renamer rs (Some (lit "T")) (fun _ => None)) (lit "$A == rec.A") true [0] (Some ex17_ast)
    = PRText (lit "$Zed == rec.Zed") /\
  process_renames ACL (acl_renamer rs (Some (lit "C")) (fun _ => None)) (lit "$A == rec.A") true [0] (Some ex17_ast)
    = PRText (lit "$A == rec.A") /\
  convert (rename_ast ACL (acl_renamer rs (Some (lit "T")) (fun _ => None)) ex17_ast)
    = Ok (TCmp OpEq (TAttr (TName (lit "rec")) (lit "Zed")) (TAttr (TName (lit "rec")) (lit "Zed"))) /\
  unparsable false None /\ unparsable true (Some (EUnsupported (1, 0) (lit "Lambda"))).
Proof.
  cbv zeta. repeat split; try (vm_compute; reflexivity).
  - left; reflexivity.
  - right; right. eexists; split; reflexivity.
Qed.

(* For patches given in ascending order, disjoint and inside the text, the patched text is: the text before the
   first patch, its new text, the text between it and the next patch, ... , the text after the last patch --
   i.e. everything outside the renamed name tokens is kept character for character (this is also how
   textbuilder.Replacer assembles its output). *)
Theorem C17_text_outside_patches_unchanged : forall text ps,
  wf_patches 0 text ps -> apply_patches text ps = spec_apply 0 text ps.
Proof. exact apply_patches_spec. Qed.

Example C17_text_patch_example :
  let text := lit "$A == rec.A" in
  let ps := [Build_patch 1 2 (lit "Zed"); Build_patch 10 11 (lit "Zed")] in
  wf_patches 0 text ps /\
  spec_apply 0 text ps = lit "$" ++ lit "Zed" ++ lit " == rec." ++ lit "Zed" ++ [] /\
  rename_patches (acl_renamer [(lit "T", lit "A", lit "Zed")] (Some (lit "T")) (fun _ => None)) [0] (collect ACL ex17_ast) = ps.
Proof. cbv zeta. split; [cbn; lia|]. split; vm_compute; reflexivity. Qed.

(* ------------------------------------------------------------------------------------------------- *)
(* 6. The code itself.  GristGen.Predicate_gen is generated by harness/pf2v.py on every run from the three
   visit_Attribute methods (acl.py, dropdown_condition.py, trigger_expression.py) and the TreeConverter methods they
   inherit; gen_visit (Some k) is the collector's visit with self.entities as state.  Bridge: on every AST the
   harness can produce, the generated collector returns the serialised tree and has appended exactly the model's
   entities (in order), or fails with the model's SyntaxError; it never raises another exception. *)
Require Import Grist.Model.PredVisit GristGen.Predicate_gen Grist.Proofs.Predicate_bridge.

Theorem C17_code_bridge : forall k e, wf_expr e = true -> gen_visit (Some k) e [] = lift_visit [] (visit k e).
Proof. exact gen_collect_bridge. Qed.

(* collect_exact about the generated code: the entities it appends are exactly the classified Attribute nodes *)
Theorem C17_code_collect_exact : forall k e v ents,
  wf_expr e = true -> gen_visit (Some k) e [] = GOk (v, ents) ->
  ents = map gent_of (collect k e) /\ exists t, convert e = Ok t /\ v = to_py t.
Proof.
  intros k e v ents Hwf H. rewrite (gen_collect_bridge k e Hwf) in H.
  destruct (visit k e) as [[t es]|err] eqn:E; [|discriminate]. cbn in H. inversion H; subst.
  pose proof (visit_collect k e (t, es) E) as Hc. cbn in Hc. subst es.
  split; [reflexivity|]. exists t. split; [exact (visit_ok_convert k e t _ E) | reflexivity].
Qed.

(* ... and it fails exactly when the converter rejects the expression (then process_renames leaves the text alone) *)
Theorem C17_code_rejects_iff : forall k e,
  wf_expr e = true -> (exists err, gen_visit (Some k) e [] = GFail err) <-> is_ok (convert e) = false.
Proof.
  intros k e Hwf. rewrite (gen_collect_bridge k e Hwf), <- (visit_is_ok k e).
  destruct (visit k e) as [[t es]|err]; cbn; split; intros H; try discriminate; eauto.
  destruct H; discriminate.
Qed.

Example C17_code_nonvacuous :
  wf_expr ex17_ast = true /\
  gen_visit (Some ACL) ex17_ast [] =
    GOk (to_py (TCmp OpEq (TAttr (TName (lit "rec")) (lit "A")) (TAttr (TName (lit "rec")) (lit "A"))),
         [(lit "recCol", 4, lit "A", None); (lit "recCol", 13, lit "A", None)]) /\
  gen_visit (Some ACL) (chain (EName (1, 0) (lit "user")) [(lit "Cust", 5); (lit "Name", 10)]) [] =
    GOk (to_py (TAttr (TAttr (TName (lit "user")) (lit "Cust")) (lit "Name")),
         [(lit "userAttr", 5, lit "Cust", None); (lit "userAttrCol", 10, lit "Name", Some (PLeaf (CStr (lit "Cust"))))]).
Proof. vm_compute. repeat split; reflexivity. Qed.

(* ------------------------------------------------------------------------------------------------- *)
(* 7. acl.perform_acl_rule_renames itself.  GristGen.PerformAcl_gen.gen_perform_acl is generated from the source by
   harness/pr2v.py on every run (its three loops, the try/except, the dict, the closure); JSON access, the table of a
   resource, process_renames and parse_predicate_formula_json are parameters (acl_prims).  Bridge: for all rows,
   renames and primitives the generated function is the model; in particular every formula is rewritten with the
   user-attribute dict built from ALL rules (two passes), wherever the defining rule sits. *)
Require Import GristGen.PerformAcl_gen Grist.Proofs.PerformAcl_bridge.

Theorem C17_code_perform_acl_bridge : forall P rs resources rules,
  gen_perform_acl P rs resources rules = perform_acl_model P rs resources rules.
Proof. exact gen_perform_acl_bridge. Qed.

(* the resource column lists: exactly the C17_acl_colids_rename updates, in row order *)
Theorem C17_code_acl_resources : forall P rs resources rules,
  fst (gen_perform_acl P rs resources rules) =
  flat_map (fun r => match rename_colids rs (res_tableId r) (res_colIds r) with
                     | Some new => [(r, [("colIds"%string, new)])]
                     | None => []
                     end) resources.
Proof. intros. rewrite gen_perform_acl_bridge. reflexivity. Qed.

(* the rules: first the lookup-column updates, then the formula updates, each formula renamed by the renamer of
   its own resource table and of the COMPLETE attribute dict *)
Theorem C17_code_acl_rules : forall P rs resources rules,
  snd (gen_perform_acl P rs resources rules) =
  flat_map (acl_lookup_update P rs) rules ++ flat_map (acl_formula_update P rs (acl_attr_tables P rules)) rules.
Proof. intros. rewrite gen_perform_acl_bridge. reflexivity. Qed.

(* the renamer handed to process_renames is the model renamer of section 2 (acl_renamer), read on NamedEntity *)
Theorem C17_code_acl_subject_renamer : forall rs t d ty name extra,
  (ty = UserAttrCol -> extra <> None) ->
  acl_subject_renamer rs t d (ent_type_name ty, name, extra) =
  acl_renamer rs (Some t) (fun a => odict_get d (Some a)) ty name extra.
Proof.
  intros rs t d ty name extra Hx. unfold acl_subject_renamer, s_type, s_name, s_extra. cbn [fst snd].
  destruct ty; cbn; try reflexivity.
  destruct extra as [a|]; [|destruct (Hx eq_refl); reflexivity]. cbn.
  destruct (odict_get d (Some a)); reflexivity.
Qed.

Example C17_code_two_pass_example :
  (* rule 1 uses user.Cust.Name, rule 2 (stored AFTER it) defines Cust with lookup table C; renaming C.Name *)
  let P := {| info := list (string * str);
              json_loads := fun s => if str_eqb s (lit "J") then Some [("name"%string, lit "Cust"); ("tableId"%string, lit "C")] else None;
              info_get := fun i k => match find (fun kv => String.eqb (fst kv) k) i with Some kv => Some (snd kv) | None => None end;
              info_set := fun i k v => (k, v) :: i;
              json_dumps := fun _ => lit "dumped";
              resource_tableId := fun _ => lit "T";
              process_renames_acl := fun f r => match r (lit "userAttrCol", lit "Name", Some (lit "Cust")) with Some n => n | None => f end;
              parse_json := fun s => s |} in
  let rules := [{| rule_resource := 1; rule_aclFormula := lit "user.Cust.Name"; rule_userAttributes := [] |};
                {| rule_resource := 1; rule_aclFormula := []; rule_userAttributes := lit "J" |}] in
  snd (gen_perform_acl P [(lit "C", lit "Name", lit "Title")] [] rules) =
  [(nth 0 rules (Build_rule 0 [] []), [("aclFormula"%string, lit "Title"); ("aclFormulaParsed"%string, lit "Title")])].
Proof. vm_compute. reflexivity. Qed.

(* ------------------------------------------------------------------------------------------------- *)
(* 8. predicate_formula.process_renames itself.  GristGen.ProcessRenames_gen.gen_process_renames is generated from
   the source by harness/pr2v.py on every run (the try block and its handler, the loop that builds the patches, the
   final Replacer); get_dollar_replacer, ast.parse, asttokens positions, map_back_patch and Replacer.get_text are
   the oracles / model functions named in harness/pr2v.py PR_OPAQUE.  Bridge: for every renamer that looks at type,
   name and extra only, the generated function is the model; the statements of sections 4 and 5 hold of it. *)
Require Import GristGen.ProcessRenames_gen Grist.Proofs.ProcessRenames_bridge.

Theorem C17_code_process_renames_bridge :
  forall k (r : renamer) (rn : gent -> option str) (formula : str) (dollar_ok : bool) (dollars : list Z) (ast : option expr),
  (forall e, rn (gent_of e) = r (e_type e) (e_name e) (e_extra e)) ->
  match ast with Some e => wf_expr e = true | None => True end ->
  gen_process_renames k rn formula (if dollar_ok then Some dollars else None) ast
  = process_renames k r formula dollar_ok dollars ast.
Proof. intros. apply gen_process_renames_bridge; assumption. Qed.

Theorem C17_code_unparsable_untouched :
  forall k (r : renamer) (rn : gent -> option str) (formula : str) (dollar_ok : bool) (dollars : list Z) (ast : option expr),
  (forall e, rn (gent_of e) = r (e_type e) (e_name e) (e_extra e)) ->
  match ast with Some e => wf_expr e = true | None => True end ->
  unparsable dollar_ok ast ->
  gen_process_renames k rn formula (if dollar_ok then Some dollars else None) ast = PRText formula.
Proof.
  intros k r rn formula dollar_ok dollars ast Hr Hwf Hu.
  rewrite (gen_process_renames_bridge k r rn Hr formula dollar_ok dollars ast Hwf).
  apply C17_unparsable_untouched. exact Hu.
Qed.

Example C17_code_process_renames_example :
  let rn := fun g : gent => if str_eqb (g_name g) (lit "A") then Some (lit "Zed") else None in
  gen_process_renames ACL rn (lit "$A == rec.A") (Some [0]) (Some ex17_ast) = PRText (lit "$Zed == rec.Zed") /\
  gen_process_renames ACL rn (lit "rec.A ==") None None = PRText (lit "rec.A ==").
Proof. vm_compute. split; reflexivity. Qed.
