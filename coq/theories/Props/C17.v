(* C17 -- Renames inside access rules and conditions are exact.
   Statements only; the model is Model/PredicateRename.v over Model/Predicate.v (hand-written, compared with the
   running predicate_formula.process_renames, the three collectors and the perform_*_renames functions on generated
   formulas by every run of the check), proofs in Proofs/PredicateRename_proofs.v.
   The CPython parser, asttokens and the $-replacer are oracles: the step "the patched text parses to the renamed
   AST" is checked on the implementation for every case (harness/pred_e2e.py), not proved. *)
From Coq Require Import ZArith List Bool String Lia.
Import ListNotations.
Require Import Grist.Model.Predicate Grist.Model.PredicateRename.
Require Import Grist.Proofs.Predicate_proofs Grist.Proofs.PredicateRename_proofs.
Open Scope Z_scope.
Open Scope list_scope.

(* ------------------------------------------------------------------------------------------------- *)
(* 1. The collectors are exact.  When the traversal of a collector succeeds it returns the converter's tree, and
   the entities it appended are, in visit order, exactly the Attribute nodes `value.attr` anywhere in the
   expression whose `value` has one of the collector's shapes (classify_ast), each with its own position. *)
Theorem C17_collect_exact : forall k e t ents,
  visit k e = Ok (t, ents) ->
  convert e = Ok t /\ ents = collect k e /\
  forall ent, In ent ents <->
              exists p v a ap, subexpr (EAttribute p v a ap) e /\ In ent (classify_ast k v a ap).
Proof.
  intros k e t ents H. split; [exact (visit_ok_convert k e t ents H)|].
  pose proof (visit_collect k e (t, ents) H) as Hc. cbn in Hc. split; [exact Hc|]. subst ents.
  intros ent. split; [apply collect_sound | apply collect_complete].
Qed.

(* a collector fails exactly when the converter fails (then the formula is left alone) *)
Theorem C17_collector_rejects_iff : forall k e, is_ok (visit k e) = is_ok (convert e).
Proof. exact visit_is_ok. Qed.

(* Arbitrary attribute chains  name.a1.a2...an  (positions p1...pn). *)
Definition ent (ty : ent_type) (pos : Z) (name : str) (extra : option str) : entity := Build_entity ty pos name extra.

Theorem C17_chain_acl_rec : forall p n a1 p1 rest,
  n = lit "rec" \/ n = lit "newRec" ->
  collect ACL (chain (EName p n) ((a1, p1) :: rest)) = [ent RecCol p1 a1 None].
Proof.
  intros p n a1 p1 rest Hn. rewrite collect_chain. cbn [collect chain_ents app].
  rewrite chain_ents_after_name by (left; destruct Hn; subst; reflexivity).
  destruct Hn; subst; reflexivity.
Qed.

Theorem C17_chain_acl_user : forall p a1 p1 rest,
  collect ACL (chain (EName p (lit "user")) ((a1, p1) :: rest)) =
  ent UserAttr p1 a1 None ::
  match rest with (a2, p2) :: _ => [ent UserAttrCol p2 a2 (Some a1)] | [] => [] end.
Proof.
  intros p a1 p1 rest. rewrite collect_chain. cbn [collect chain_ents app].
  destruct rest as [|[a2 p2] rest']; [reflexivity|]. cbn [chain_ents]. rewrite chain_ents_deep. reflexivity.
Qed.

Theorem C17_chain_acl_other : forall p n attrs,
  is_ename (EName p n) "rec" = false -> is_ename (EName p n) "newRec" = false -> is_ename (EName p n) "user" = false ->
  collect ACL (chain (EName p n) attrs) = [].
Proof.
  intros p n attrs H1 H2 H3. rewrite collect_chain. destruct attrs as [|[a ap] t]; [reflexivity|].
  cbn [collect chain_ents app]. rewrite chain_ents_after_name by (left; exact H3).
  unfold classify_ast. rewrite H1, H2, H3. reflexivity.
Qed.

Theorem C17_chain_dc : forall p n a1 p1 rest,
  collect DC (chain (EName p n) ((a1, p1) :: rest)) =
  if str_eqb n (lit "choice") then [ent ChoiceAttr p1 a1 None]
  else if str_eqb n (lit "rec") then [ent RecCol p1 a1 None] else [].
Proof.
  intros. rewrite collect_chain. cbn [collect chain_ents app].
  rewrite chain_ents_after_name by (right; discriminate). rewrite app_nil_r. reflexivity.
Qed.

Theorem C17_chain_trigger : forall p n a1 p1 rest,
  collect Trigger (chain (EName p n) ((a1, p1) :: rest)) =
  if str_eqb n (lit "rec") || str_eqb n (lit "oldRec") then [ent RecCol p1 a1 None] else [].
Proof.
  intros. rewrite collect_chain. cbn [collect chain_ents app].
  rewrite chain_ents_after_name by (right; discriminate). rewrite app_nil_r. reflexivity.
Qed.

Example C17_chain_example :      (* user.Cust.Name.lower : the attribute, its column, nothing deeper *)
  collect ACL (chain (EName (1, 0) (lit "user")) [(lit "Cust", 5); (lit "Name", 10); (lit "lower", 15)])
  = [ent UserAttr 5 (lit "Cust") None; ent UserAttrCol 10 (lit "Name") (Some (lit "Cust"))].
Proof. reflexivity. Qed.

(* ------------------------------------------------------------------------------------------------- *)
(* 2. Renaming commutes with conversion: the tree of the renamed expression is the old tree with exactly the
   collected references renamed. *)
Theorem C17_rename_commutes : forall k (r : renamer) e,
  convert (rename_ast k r e) = map_cres (rename_tree k r) (convert e).
Proof. exact rename_commutes_lemma. Qed.

(* The renamers of the three callers rename a reference only when its table matches: rec.X of an ACL rule
   belongs to the table of the rule's resource, user.A.X to the lookup table of attribute A, choice.X to the
   referenced table, and user.A itself is never renamed. *)
Theorem C17_acl_renamer_exact : forall rs rule_table attr_tables ty name extra new,
  acl_renamer rs rule_table attr_tables ty name extra = Some new ->
  (ty = RecCol /\ exists t, rule_table = Some t /\ renames_get rs t name = Some new) \/
  (ty = UserAttrCol /\ exists a t, extra = Some a /\ assoc_str a attr_tables = Some t /\ renames_get rs t name = Some new).
Proof.
  intros rs rt at' ty name extra new H. destruct ty; cbn in H; try discriminate.
  - left. split; [reflexivity|]. destruct rt; [eauto|discriminate].
  - right. split; [reflexivity|]. destruct extra as [a|]; [|discriminate].
    destruct (assoc_str a at') as [t|] eqn:E; [|discriminate]. eauto.
Qed.

Theorem C17_dc_renamer_exact : forall rs ref_table self_table ty name extra new,
  dc_renamer rs ref_table self_table ty name extra = Some new ->
  (ty = ChoiceAttr /\ exists t, ref_table = Some t /\ renames_get rs t name = Some new) \/
  (ty <> ChoiceAttr /\ renames_get rs self_table name = Some new).
Proof.
  intros rs rt st ty name extra new H. destruct ty; cbn in H;
    try (right; split; [discriminate | exact H]).
  left. split; [reflexivity|]. destruct rt; [eauto|discriminate].
Qed.

(* ------------------------------------------------------------------------------------------------- *)
(* 3. The ACL resource column list.  With new column ids that contain no comma: an update is issued exactly when
   the renamed list differs, the new text splits into the old elements renamed one by one, and a list in which
   nothing is renamed is textually unchanged (join o split = identity). *)
Theorem C17_acl_colids_rename : forall rs t colids,
  renames_comma_free rs = true ->
  match rename_colids rs t colids with
  | Some new => new <> colids /\ split_comma new = map (rename_col rs t) (split_comma colids)
  | None => colids = [] \/ colids = lit "*" \/ map (rename_col rs t) (split_comma colids) = split_comma colids
  end.
Proof. exact rename_colids_spec. Qed.

Theorem C17_colids_text_roundtrip : forall s, join_comma (split_comma s) = s.
Proof. exact join_split. Qed.

Example C17_colids_example :
  let rs := [(lit "Students", lit "lastName", lit "Family_Name")] in
  renames_comma_free rs = true /\
  rename_colids rs (lit "Students") (lit "firstName,lastName") = Some (lit "firstName,Family_Name") /\
  rename_colids rs (lit "Schools") (lit "firstName,lastName") = None /\
  rename_colids rs (lit "Students") (lit "*") = None.
Proof. vm_compute. repeat split; reflexivity. Qed.

(* ------------------------------------------------------------------------------------------------- *)
(* 4. Formulas that do not parse are left untouched.  "Does not parse" = parse_predicate_formula raises SyntaxError:
   the text is not even a module ([dollar_ok = false]: get_dollar_replacer raises), or not an expression
   ([ast = None]), or the converter rejects it. *)
Definition unparsable (dollar_ok : bool) (ast : option expr) : Prop :=
  dollar_ok = false \/ ast = None \/ exists e, ast = Some e /\ is_ok (convert e) = false.

Theorem C17_unparsable_untouched : forall k r formula dollar_ok dollars ast,
  unparsable dollar_ok ast -> process_renames k r formula dollar_ok dollars ast = PRText formula.
Proof.
  intros k r formula dollar_ok dollars ast [H|[H|[e [-> H]]]].
  - subst. reflexivity.
  - subst. destruct dollar_ok; reflexivity.
  - destruct dollar_ok; [apply process_renames_rejected; exact H | reflexivity].
Qed.

(* Regression example: the stored formula  rec.A ==  (not even a module: get_dollar_replacer raises), on which
   process_renames let the SyntaxError escape before fix commit 8212ac8, is returned unchanged. *)
Example C17_regression_unparsable :
  process_renames ACL (acl_renamer [(lit "T", lit "AA", lit "X")] (Some (lit "T")) []) (lit "rec.A ==") false [] None
  = PRText (lit "rec.A ==").
Proof. reflexivity. Qed.

(* ------------------------------------------------------------------------------------------------- *)
(* 5. Text.  A formula in which the renamer hits no collected reference is returned character for character. *)
Theorem C17_nothing_to_rename_text_unchanged : forall k r formula dollars e t ents,
  visit k e = Ok (t, ents) ->
  (forall x, In x ents -> r (e_type x) (e_name x) (e_extra x) = None) ->
  process_renames k r formula true dollars (Some e) = PRText formula.
Proof.
  intros k r formula dollars e t ents Hv Hr. unfold process_renames. cbn [negb]. rewrite Hv.
  rewrite (rename_patches_no_hit r dollars ents Hr). reflexivity.
Qed.

(* Non-vacuity, on text:  $A == rec.A  (the $-free text is  rec.A == rec.A ; the names sit at 4 and 13)
   with A renamed to Zed becomes  $Zed == rec.Zed ; a rename of another table's column changes nothing. *)
Definition ex17_ast : expr :=
  ECompare (1, 0) (EAttribute (1, 0) (EName (1, 0) (lit "rec")) (lit "A") 4) [OpEq]
           [EAttribute (1, 9) (EName (1, 9) (lit "rec")) (lit "A") 13].

Example C17_nonvacuous :
  let rs := [(lit "T", lit "A", lit "Zed")] in
  undollar_text (lit "$A == rec.A") [0] = lit "rec.A == rec.A" /\
  process_renames ACL (acl_renamer rs (Some (lit "T")) []) (lit "$A == rec.A") true [0] (Some ex17_ast)
    = PRText (lit "$Zed == rec.Zed") /\
  process_renames ACL (acl_renamer rs (Some (lit "C")) []) (lit "$A == rec.A") true [0] (Some ex17_ast)
    = PRText (lit "$A == rec.A") /\
  convert (rename_ast ACL (acl_renamer rs (Some (lit "T")) []) ex17_ast)
    = Ok (TCmp OpEq (TAttr (TName (lit "rec")) (lit "Zed")) (TAttr (TName (lit "rec")) (lit "Zed"))) /\
  unparsable false None /\ unparsable true (Some (EUnsupported (1, 0) (lit "Lambda"))).
Proof.
  cbv zeta. repeat split; try (vm_compute; reflexivity).
  - left; reflexivity.
  - right; right. eexists; split; reflexivity.
Qed.

(* For patches given in ascending order, disjoint and inside the text, the patched text is: the text before the
   first patch, its new text, the text between it and the next patch, ... , the text after the last patch --
   i.e. everything outside the renamed name tokens is kept character for character (this is also how
   textbuilder.Replacer assembles its output). *)
Theorem C17_text_outside_patches_unchanged : forall text ps,
  wf_patches 0 text ps -> apply_patches text ps = spec_apply 0 text ps.
Proof. exact apply_patches_spec. Qed.

Example C17_text_patch_example :
  let text := lit "$A == rec.A" in
  let ps := [Build_patch 1 2 (lit "Zed"); Build_patch 10 11 (lit "Zed")] in
  wf_patches 0 text ps /\
  spec_apply 0 text ps = lit "$" ++ lit "Zed" ++ lit " == rec." ++ lit "Zed" ++ [] /\
  rename_patches (acl_renamer [(lit "T", lit "A", lit "Zed")] (Some (lit "T")) []) [0] (collect ACL ex17_ast) = ps.
Proof. cbv zeta. split; [cbn; lia|]. split; vm_compute; reflexivity. Qed.
