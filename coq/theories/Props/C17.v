(* C17 -- placeholder while the model is being validated; replaced by the theorem file. *)
Require Import Grist.Model.PredicateRename.
Example C17_placeholder : True. Proof. exact I. Qed.
