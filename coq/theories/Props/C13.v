(* C13 -- Lookups return exactly the matching rows in documented order.
   Model: Grist.Model.Lookup (hand-written from twowaymap.py, lookup.py, sort_key.py, table.py; compared with
   the running code on every check run).  Statements only; proofs are in Proofs/Lookup*_proofs.v. *)
From Coq Require Import ZArith List Bool QArith Permutation Sorted.
Import ListNotations.
Require Import Grist.Model.Lookup Grist.Proofs.Lookup_proofs Grist.Proofs.LookupVal_proofs
  Grist.Proofs.LookupIndex_proofs Grist.Proofs.LookupSort_proofs Grist.Proofs.LookupWorld_proofs
  Grist.Proofs.LookupSpec_proofs.
Require Import Grist.Lib.LkMonad Grist.Model.LookupRt GristGen.Lookup_gen Grist.Proofs.LookupGen_proofs.
Open Scope Z_scope.

(* ---- TwoWayMap ------------------------------------------------------------------------------ *)

(* For every pair of bin kinds (single, strict, set, list, LookupSet on either side), every element type with
   an == that is an equivalence respected by hash(), and every op sequence (insert, remove, remove_left,
   remove_right, clear; ops that raise -- a strict violation, an unhashable value -- included): the forward
   and backward maps are mutually inverse afterwards. *)
Theorem C13_twoway_consistent :
  forall (L R : Type) (leq : L -> L -> bool) (req : R -> R -> bool) (lhash : L -> bool) (rhash : R -> bool)
         (lfmt : L -> bool) (rfmt : R -> bool) (lk rk : kind),
    equiv leq -> equiv req ->
    (forall a b, leq a b = true -> lhash a = lhash b) -> (forall a b, req a b = true -> rhash a = rhash b) ->
    forall ops t outs, tw_run leq req lhash rhash lfmt rfmt lk rk (mkTwm [] []) ops = (t, outs) ->
    forall l r, memb req r (lookup_left leq t l) = memb leq l (lookup_right req t r).
Proof.
  intros L R leq req lhash rhash lfmt rfmt lk rk EL ER HL HR ops t outs H l r.
  destruct (tw_run_inv leq req lhash rhash lfmt rfmt lk rk EL ER HL HR ops _ t outs
              (tw_inv_empty leq req lhash rhash lk rk) H) as [_ [_ C]].
  apply C.
Qed.

(* ... in particular for Python values with Python's ==. *)
Theorem C13_twoway_consistent_values : forall lk rk ops t outs,
  tw_run val_eqb val_eqb hashable hashable val_fmt_fails val_fmt_fails lk rk (mkTwm [] []) ops = (t, outs) ->
  forall l r, memb val_eqb r (lookup_left val_eqb t l) = memb val_eqb l (lookup_right val_eqb t r).
Proof.
  intros lk rk. apply C13_twoway_consistent; try apply val_equiv; apply hashable_congr.
Qed.

(* A failing strict insert really happens and leaves both maps as they were. *)
Example C13_failing_strict_insert :
  let ops := [TInsert (VInt 1) (VStr [97]); TInsert (VInt 2) (VStr [97]); TInsert (VInt 1) (VList [])] in
  tw_run val_eqb val_eqb hashable hashable val_fmt_fails val_fmt_fails KStrict KSingle (mkTwm [] []) ops =
  (fst (tw_run val_eqb val_eqb hashable hashable val_fmt_fails val_fmt_fails KStrict KSingle (mkTwm [] [])
          [TInsert (VInt 1) (VStr [97])]),
   [Done; Raise ValueErr; Raise TypeErr]).
Proof. vm_compute. reflexivity. Qed.

(* ---- the index and the sorted versions -------------------------------------------------------- *)

(* After ANY history of table writes/removals, update_record / unset / _reset_sorted_versions calls and
   lookups, in any order: if every changed row was update_record'ed (unset, when removed) since its last
   change [dirty = false] and the reset for the spec ran after its last write [pending = false], then
   do_lookup(key) with the spec is exactly: the rows whose key set contains the key, sorted by the spec.
   cols is any tuple of plain and CONTAINS(match_empty) columns: both SimpleLookupMapping and
   ContainsLookupMapping. *)
Theorem C13_lookup_refines_filter : forall cols colids tr key s,
  let k := run_track cols colids tr in
  let w := tk_world k in
  (forall r, tk_dirty k r = false) ->
  (forall r, tk_pending k r s = false) ->
  key_hashable key = true ->
  rows_sortable (w_tbl w) s (matching_rows cols colids key (w_tbl w)) ->
  exists l, spec_lookup cols colids (w_tbl w) key s = Some l /\
            snd (do_lookup (w_idx w) (w_tbl w) key s) = LRows l.
Proof. exact lookup_refines_filter_lemma. Qed.

(* ... and the specification side is what it says: the matching rows (each once), sorted. *)
Theorem C13_spec_is_filter_then_sort : forall cols colids t key s,
  tbl_ok t -> rows_sortable t s (matching_rows cols colids key t) ->
  exists l, spec_lookup cols colids t key s = Some l /\
    Permutation (matching_rows cols colids key t) l /\ StronglySorted (row_le t s) l /\
    NoDup l /\
    forall r, In r l <-> memb vals_eqb key (keys_of_row cols colids t r) = true.
Proof.
  intros cols colids t key s T H. destruct (sort_rows_sorted_perm t s _ H) as [l [E [P S]]].
  exists l. split; [exact E|split; [exact P|split; [exact S|split]]].
  - eapply Permutation_NoDup; [exact P|]. apply matching_rows_nodup. exact T.
  - intros r. rewrite <- (matching_rows_in cols colids t key r T).
    split; intros X; [apply (Permutation_in r (Permutation_sym P) X)|apply (Permutation_in r P X)].
Qed.

(* A remembered sorted version is valid whenever no row of its set awaits index maintenance. *)
Theorem C13_sorted_cache_valid : forall cols colids tr key b s rows,
  let k := run_track cols colids tr in
  let w := tk_world k in
  dget vals_eqb (bwd (w_idx w)) key = Some b -> cache_get (cache b) s = Some rows ->
  (forall r, In r (items b) -> tk_pending k r s = false /\ tk_dirty k r = false) ->
  sort_rows (w_tbl w) s (items b) = Some rows.
Proof. exact sorted_cache_valid_lemma. Qed.

(* The index invariant itself (rows <-> keys mutually inverse, bins well formed) holds after every history. *)
Theorem C13_index_consistent : forall cols colids tr r key,
  let m := w_idx (tk_world (run_track cols colids tr)) in
  memb Z.eqb r (key_rows m key) = memb vals_eqb key (mapped_keys m r).
Proof.
  intros cols colids tr r key m. destruct (inv_run cols colids tr) as [I _].
  apply (key_rows_mrel cols _ r key I).
Qed.

(* ---- make_sort_spec ----------------------------------------------------------------------------- *)

(* sort_by: its single column, no manualSort fallback, order_by ignored *)
Theorem C13_sort_by_single_column : forall ob s ms, s <> [] -> make_sort_spec ob (SStr s) ms = Some [s].
Proof. exact sort_by_single. Qed.

(* 'id' cuts the spec: the columns before it, nothing after, no manualSort *)
Theorem C13_id_cuts_spec : forall ob sb ms pre post, sarg_truthy sb = false ->
  order_list ob = Some (pre ++ s_id :: post) -> memb str_eqb s_id pre = false ->
  make_sort_spec ob sb ms = Some pre.
Proof. exact id_cuts. Qed.

(* order_by without 'id': manualSort is appended exactly when the table has it and it is not named already *)
Theorem C13_manual_sort_fallback : forall ob sb ms l, sarg_truthy sb = false -> order_list ob = Some l ->
  memb str_eqb s_id l = false ->
  make_sort_spec ob sb ms = Some (if ms && negb (memb str_eqb s_manualSort l) then l ++ [s_manualSort] else l).
Proof. exact manual_sort_fallback. Qed.

Theorem C13_sort_spec_type_errors : forall ob sb ms,
  (sarg_truthy sb = true -> (forall s, sb <> SStr s) -> make_sort_spec ob sb ms = None) /\
  (sarg_truthy sb = false -> forall b, make_sort_spec (SOther b) sb ms = None).
Proof.
  intros ob sb ms. split; [apply sort_by_not_str|]. intros H b. now apply order_by_type_error.
Qed.

Example C13_sort_spec_examples :
  let A := [65] in let B := [66] in let mB := [45; 66] in
  make_sort_spec (STuple [A; s_id; B]) SNone true = Some [A] /\
  make_sort_spec (STuple [A; mB]) SNone true = Some [A; mB; s_manualSort] /\
  make_sort_spec (STuple [A; mB]) SNone false = Some [A; mB] /\
  make_sort_spec (SStr s_id) SNone true = Some [] /\
  make_sort_spec SNone SNone true = Some [s_manualSort] /\
  make_sort_spec (STuple [A]) (SStr mB) true = Some [mB] /\
  make_sort_spec (STuple [A]) (STuple [B]) true = None.
Proof. vm_compute. repeat split; reflexivity. Qed.

(* ---- SortKey ------------------------------------------------------------------------------------ *)

(* On mutually comparable values (None, bool, int, finite float, str, alt text, objects ordered inside their
   class; NaN is not a value of the model) SortKey.__lt__ never raises and is a strict total order on rows
   with distinct ids. *)
Theorem C13_sortkey_strict_total : forall t spec rows, rows_sortable t spec rows ->
  (forall a b, In a rows -> In b rows -> exists x, row_lt t spec a b = Some x) /\
  (forall a, In a rows -> row_lt t spec a a = Some false) /\
  (forall a b, In a rows -> In b rows -> a <> b ->
     (row_lt t spec a b = Some true /\ row_lt t spec b a = Some false) \/
     (row_lt t spec a b = Some false /\ row_lt t spec b a = Some true)) /\
  (forall a b c, In a rows -> In b rows -> In c rows ->
     row_lt t spec a b = Some true -> row_lt t spec b c = Some true -> row_lt t spec a c = Some true).
Proof. exact row_lt_strict_total. Qed.

(* what the order is: columns in spec order, each by the value order [vcmp] (None first, then numbers by value,
   then other types by type name and value), reversed for '-', ties broken by row id *)
Theorem C13_sortkey_order : forall va vb asc ra rb, all_sortable va -> all_sortable vb ->
  sortkey_lt va vb asc ra rb = Some (is_lt (rowcmp va vb asc ra rb)).
Proof. intros. now apply sortkey_lt_rowcmp. Qed.

Theorem C13_value_order_is_total_preorder : good vcmp.
Proof. exact good_vcmp. Qed.

(* the domain restriction is needed: tuples with incomparable members break transitivity *)
Example C13_sortable_needed :
  let x := [VTuple [VInt 1; VStr [97]]] in let y := [VTuple [VInt 1; VInt 2]] in
  let z := [VTuple [VInt 1; VStr [98]]] in
  sortkey_lt z y [true] 1 2 = Some true /\ sortkey_lt y x [true] 2 3 = Some true /\
  sortkey_lt z x [true] 1 3 = Some false.
Proof. vm_compute. repeat split; reflexivity. Qed.

Example C13_mixed_type_order :
  let S := [83] in
  let t := [(1, [(S, VStr [97])]); (2, [(S, VFloat (5 # 2))]); (3, [(S, VNone)]); (4, [(S, VInt 1)]);
            (5, [(S, VBool true)]); (6, [(S, VAlt [120])]); (7, [(S, VStr [66])])] in
  rows_sortable t [S] [1; 2; 3; 4; 5; 6; 7] /\
  sort_rows t [S] [1; 2; 3; 4; 5; 6; 7] = Some [3; 4; 5; 2; 6; 7; 1] /\
  sort_rows t [45 :: S] [7; 6; 5; 4; 3; 2; 1] = Some [1; 7; 6; 2; 4; 5; 3].
Proof.
  cbv zeta. split; [|vm_compute; split; reflexivity].
  intros r Hr. cbn in Hr.
  repeat (destruct Hr as [<-|Hr]; [eexists; split; [vm_compute; reflexivity|repeat constructor]|]).
  contradiction.
Qed.

(* ---- lookupOne ----------------------------------------------------------------------------------- *)

Theorem C13_lookup_one_is_head : forall m t k ob sb ms,
  snd (lookup_one m t k ob sb ms) =
  match snd (lookup_records m t k ob sb ms) with LRows l => Some (hd 0 l) | LError => None end.
Proof. exact lookup_one_head. Qed.

(* ---- non-vacuity: concrete histories satisfy the hypotheses of C13_lookup_refines_filter ------------ *)

Definition ex_row (l s : val) : row := [([76], l); ([83], s)].

(* CONTAINS(..., match_empty='') on column L, sorted by S; rows are written, re-written, removed; a lookup in
   the middle leaves a sorted version behind that the later write + reset must invalidate *)
Definition ex_trace1 : list step :=
  [SWrite 1 (ex_row (VTuple [VStr [97]; VStr [98]]) (VInt 3)); SUpdate 1; SReset 1 [[83]];
   SWrite 2 (ex_row (VTuple [VStr [98]]) (VFloat (5 # 2))); SReset 2 [[83]]; SUpdate 2;
   SWrite 3 (ex_row (VTuple []) VNone); SUpdate 3;
   SLookup [VStr [98]] [[83]]].
Definition ex_trace : list step :=
  ex_trace1 ++
  [SWrite 1 (ex_row (VTuple [VStr [97]; VStr [98]]) (VInt 1)); SReset 1 [[83]]; SUpdate 1;
   SWrite 4 (ex_row (VStr [98]) (VInt 0)); SUpdate 4; SReset 4 [[83]];
   SDelete 3; SUnset 3;
   SLookup [VStr [98]] [[83]]].

Example C13_lookup_refines_filter_nonvacuous :
  let cols := [CContains (Some (VStr []))] in
  let colids := [[76]] in
  let k := run_track cols colids ex_trace in
  let w := tk_world k in
  (forall r, tk_dirty k r = false) /\ (forall r, tk_pending k r [[83]] = false) /\
  rows_sortable (w_tbl w) [[83]] (matching_rows cols colids [VStr [98]] (w_tbl w)) /\
  matching_rows cols colids [VStr [98]] (w_tbl w) = [2; 1] /\
  snd (do_lookup (w_idx w) (w_tbl w) [VStr [98]] [[83]]) = LRows [1; 2] /\
  (* before the second write the remembered version was [2; 1] *)
  snd (do_lookup (w_idx (tk_world (run_track cols colids ex_trace1)))
                 (w_tbl (tk_world (run_track cols colids ex_trace1))) [VStr [98]] [[83]]) = LRows [2; 1].
Proof.
  cbv zeta.
  assert (Hclean : forall r, tk_dirty (run_track [CContains (Some (VStr []))] [[76]] ex_trace) r = false /\
                             tk_pending (run_track [CContains (Some (VStr []))] [[76]] ex_trace) r [[83]] = false).
  { intros r. destruct (in_dec Z.eq_dec r (flat_map step_row ex_trace)) as [Hin|Hout].
    - cbn in Hin. repeat (destruct Hin as [<-|Hin]; [split; vm_compute; reflexivity|]). contradiction.
    - destruct (clean_outside [CContains (Some (VStr []))] [[76]] ex_trace r Hout) as [H1 H2]. auto. }
  split; [intros r; apply Hclean|]. split; [intros r; apply Hclean|].
  split; [|vm_compute; repeat split; reflexivity].
  intros r Hr. vm_compute in Hr.
  repeat (destruct Hr as [<-|Hr]; [eexists; split; [vm_compute; reflexivity|repeat constructor]|]).
  contradiction.
Qed.

(* a simple (two-column) mapping with an unhashable key cell, 1 == 1.0 == True as keys, descending order *)
Definition ex_trace2 : list step :=
  [SWrite 1 [([65], VInt 1); ([66], VStr [120]); ([83], VInt 5)]; SUpdate 1; SReset 1 [[45; 83]];
   SWrite 2 [([65], VFloat 1); ([66], VStr [120]); ([83], VInt 7)]; SUpdate 2; SReset 2 [[45; 83]];
   SWrite 3 [([65], VList [VInt 1]); ([66], VStr [120]); ([83], VInt 9)]; SReset 3 [[45; 83]]; SUpdate 3;
   SWrite 4 [([65], VBool true); ([66], VStr [121]); ([83], VInt 1)]; SUpdate 4;
   SWrite 4 [([65], VBool true); ([66], VStr [120]); ([83], VInt 6)]; SUpdate 4; SReset 4 [[45; 83]]].

Example C13_lookup_refines_filter_nonvacuous_simple :
  let cols := [CPlain; CPlain] in
  let colids := [[65]; [66]] in
  let k := run_track cols colids ex_trace2 in
  let w := tk_world k in
  (forall r, tk_dirty k r = false) /\ (forall r, tk_pending k r [[45; 83]] = false) /\
  rows_sortable (w_tbl w) [[45; 83]] (matching_rows cols colids [VInt 1; VStr [120]] (w_tbl w)) /\
  snd (do_lookup (w_idx w) (w_tbl w) [VInt 1; VStr [120]] [[45; 83]]) = LRows [2; 4; 1] /\
  mapped_keys (w_idx w) 3 = [].
Proof.
  cbv zeta.
  assert (Hclean : forall r, tk_dirty (run_track [CPlain; CPlain] [[65]; [66]] ex_trace2) r = false /\
                             tk_pending (run_track [CPlain; CPlain] [[65]; [66]] ex_trace2) r [[45; 83]] = false).
  { intros r. destruct (in_dec Z.eq_dec r (flat_map step_row ex_trace2)) as [Hin|Hout].
    - cbn in Hin. repeat (destruct Hin as [<-|Hin]; [split; vm_compute; reflexivity|]). contradiction.
    - destruct (clean_outside [CPlain; CPlain] [[65]; [66]] ex_trace2 r Hout) as [H1 H2]. auto. }
  split; [intros r; apply Hclean|]. split; [intros r; apply Hclean|].
  split; [|vm_compute; repeat split; reflexivity].
  intros r Hr. vm_compute in Hr.
  repeat (destruct Hr as [<-|Hr]; [eexists; split; [vm_compute; reflexivity|repeat constructor]|]).
  contradiction.
Qed.


(* ---- the model is the code: bridging to the functions translated from the source on every run ---------- *)
(* GristGen.Lookup_gen is produced by harness/lk2v.py from table.py, twowaymap.py and lookup.py of the tree being
   checked.  Each translated function equals the model function the theorems above speak about. *)

Theorem C13_gen_make_sort_spec : forall ob sb ms,
  gen_make_sort_spec ob sb ms tt =
  match make_sort_spec ob sb ms with Some s => Ok s tt | None => Exc TypeErr tt end.
Proof. exact gen_make_sort_spec_ok. Qed.

(* TwoWayMap.insert (with its rollback), remove, remove_left, remove_right, clear: for all bin kinds *)
Theorem C13_gen_twoway : forall (L R : Type) (leq : L -> L -> bool) (req : R -> R -> bool) lhash rhash lfmt rfmt lk rk
                                (t : twm L R) (left : L) (right : R),
  run_out (gen_tw_insert leq req lhash rhash lfmt rfmt lk rk left right t) = tw_insert leq req lhash rhash lfmt rfmt lk rk t left right /\
  run_out (gen_tw_remove leq req lhash rhash lfmt rfmt lk rk left right t) = tw_remove leq req lhash rhash lk rk t left right /\
  run_out (gen_tw_remove_left leq req lhash rhash lfmt rfmt lk rk left t) = tw_remove_left leq req lhash rhash lk rk t left /\
  run_out (gen_tw_remove_right leq req lhash rhash lfmt rfmt lk rk right t) = tw_remove_right leq req lhash rhash lk rk t right /\
  run_out (gen_tw_clear leq req lhash rhash lfmt rfmt lk rk t) = tw_step leq req lhash rhash lfmt rfmt lk rk t TClear.
Proof.
  intros. split; [apply gen_tw_insert_ok|split; [apply gen_tw_remove_ok|split; [apply gen_tw_remove_left_ok|
    split; [apply gen_tw_remove_right_ok|apply gen_tw_clear_ok]]]].
Qed.

(* the bin classes (_SingleValueBin, _SingleValueStrictBin, _ContainerBin with the registered set / list / LookupSet
   functions) of twowaymap.py, dispatched by kind as _mapper_types does: they are the model's add_item / remove_item /
   remove_key ... *)
Theorem C13_gen_bins : forall (K A : Type) (keq : K -> K -> bool) (aeq : A -> A -> bool) khash ahash kfmt, equiv keq ->
  forall kd (m : dict K (bin A)) key value,
  gen_bin_add_item keq aeq khash ahash kfmt kd key value m =
    embed_add m (add_item keq aeq khash ahash kfmt kd m key value) /\
  gen_bin_remove_item keq aeq khash ahash kfmt kd key value m =
    match remove_item keq aeq khash ahash kd m key value with Some m' => Ok tt m' | None => Exc TypeErr m end /\
  gen_bin_remove_key keq aeq khash ahash kfmt kd key m =
    match remove_key keq khash kd m key with Some (m', l) => Ok l m' | None => Exc TypeErr m end.
Proof.
  intros. split; [apply gen_bin_add_item_ok|split; [apply gen_bin_remove_item_ok; assumption|apply gen_bin_remove_key_ok]].
Qed.

(* ... and the calls TwoWayMap makes on its two bin objects (C13_gen_twoway is stated over these calls) *)
Theorem C13_gen_bin_calls : forall (L R : Type) (leq : L -> L -> bool) (req : R -> R -> bool) lhash rhash lfmt rfmt lk rk,
  equiv leq -> equiv req -> forall (t : twm L R) (left : L) (right : R),
  gen_right_bin_add_item_fwd leq req lhash rhash lfmt rk left right t = right_bin_add_item_fwd leq req lhash rhash lfmt rk left right t /\
  gen_left_bin_add_item_bwd leq req lhash rhash rfmt lk right left t = left_bin_add_item_bwd leq req lhash rhash rfmt lk right left t /\
  gen_right_bin_remove_item_fwd leq req lhash rhash lfmt rk left right t = right_bin_remove_item_fwd leq req lhash rhash rk left right t /\
  gen_left_bin_remove_item_bwd leq req lhash rhash rfmt lk right left t = left_bin_remove_item_bwd leq req lhash rhash lk right left t /\
  gen_right_bin_remove_key_fwd leq req lhash rhash lfmt rk left t = right_bin_remove_key_fwd leq lhash rk left t /\
  gen_left_bin_remove_key_bwd leq req lhash rhash rfmt lk right t = left_bin_remove_key_bwd req rhash lk right t.
Proof. intros. apply gen_bin_calls_ok; assumption. Qed.

(* the bin kinds of the two mapping classes (_make_row_key_map) *)
Theorem C13_gen_kinds : forall cols,
  (uses_contains cols = false -> (simple_left_kind, simple_right_kind) = (KLookupSet, right_kind cols)) /\
  (uses_contains cols = true -> (contains_left_kind, contains_right_kind) = (KLookupSet, right_kind cols)).
Proof. exact gen_kinds_ok. Qed.

(* get_new_keys_iter of both classes (CONTAINS: match_empty, strings not iterated, unhashable cells ignored, the
   product over the columns) is the model's new_keys_iter, which update_record / _reset_sorted_versions use *)
Theorem C13_gen_get_new_keys_iter : forall cols r cells,
  (uses_contains cols = false -> gen_simple_get_new_keys_iter cols r cells tt = Ok (new_keys_iter cols cells) tt) /\
  (uses_contains cols = true -> forall s0,
     gen_contains_get_new_keys_iter cols r cells s0 = Ok (new_keys_iter cols cells) (zip_groups cols cells)).
Proof.
  intros cols r cells. split; [apply gen_simple_get_new_keys_iter_ok|].
  intros Hu s0. now apply gen_contains_get_new_keys_iter_ok.
Qed.

(* update_record / remove_row_id of both mapping classes leave the index the model computes *)
Theorem C13_gen_update_record : forall cols m r cells, lm_inv cols m ->
  (uses_contains cols = false ->
     res_state (gen_simple_update_record cols r cells m) = fst (update_record cols m r cells)) /\
  (uses_contains cols = true ->
     gen_contains_update_record cols r cells m =
     Ok (keyset_symdiff (new_keys cols cells) (mapped_keys m r)) (fst (update_record cols m r cells))).
Proof.
  intros cols m r cells I. split; intros Hu.
  - apply gen_simple_update_record_ok. exact Hu.
  - apply gen_contains_update_record_ok; [exact Hu|]. eapply inv_mapped_hashable; eauto.
Qed.

Theorem C13_gen_remove_row_id : forall cols m r, lm_inv cols m ->
  (uses_contains cols = false -> res_state (gen_simple_remove_row_id r m) = fst (remove_row_id cols m r)) /\
  (uses_contains cols = true -> gen_contains_remove_row_id r m = Ok (mapped_keys m r) (fst (remove_row_id cols m r))).
Proof.
  intros cols m r I. split; intros Hu.
  - apply gen_simple_remove_row_id_ok; [exact Hu|]. apply (single_mapped cols m r I).
    unfold right_kind. now rewrite Hu.
  - apply gen_contains_remove_row_id_ok; [exact Hu|]. eapply inv_mapped_hashable; eauto.
Qed.

(* _do_lookup_with_sort (cache get / sorted() / cache set) and _reset_sorted_versions *)
Theorem C13_gen_do_lookup_with_sort : forall t key s m,
  gen_do_lookup_with_sort t key s m =
  match do_lookup m t (map extract key) s with
  | (m', LRows l) => Ok (l, tt) m'
  | (m', LError) => Exc (if key_hashable (map extract key) then OtherErr else TypeErr) m'
  end.
Proof. exact gen_do_lookup_with_sort_ok. Qed.

Theorem C13_gen_reset_sorted_versions : forall cols r cells s m,
  gen_reset_sorted_versions cols r cells s m =
  match reset_sorted cols m cells s with
  | Some m' => Ok (dedup vals_eqb (new_keys_iter cols cells)) m'
  | None => Exc TypeErr m
  end.
Proof. exact gen_reset_sorted_versions_ok. Qed.

(* SortKey.__lt__ (native comparison, the TypeError fallback on (is None, is Number, type name), the sign, the row id) *)
Theorem C13_gen_sortkey_lt : forall va vb ascs ra rb,
  gen_sortkey_lt va vb ascs ra rb tt =
  match sortkey_lt va vb ascs ra rb with Some b => Ok b tt | None => Exc OtherErr tt end.
Proof. exact gen_sortkey_lt_ok. Qed.
