(* C04 -- Failed bundles leave no trace.
   Model: Model/Rollback.v (micro-steps of the 14 doc actions in source order, apply_doc_action's saved_schema
   restore, ActionSummary + the flush of pending calc deltas that apply_user_actions performs before reverting
   (f80d48c), _undo_to_checkpoint).  Statements only; proofs are in Proofs/Rollback_*.v.
   Documents are canonical (a column stores its non-default cells only), so "every table, the metadata and the
   schema are exactly as before" is Leibniz equality of `doc` (tables, Column objects and engine.schema). *)
From stdpp Require Import gmap.
Require Import Grist.Model.Rollback Grist.Proofs.Rollback_proofs Grist.Proofs.Rollback_run Grist.Proofs.Rollback_inside
  Grist.Proofs.Rollback_flush Grist.Proofs.Rollback_calc Grist.Proofs.Rollback_calc_multi Grist.Proofs.Rollback_calc_rows Grist.Proofs.Rollback_calc_removes Grist.Proofs.Rollback_schema Grist.Proofs.Rollback_usable
  Grist.Proofs.Rollback_witness Grist.Proofs.Rollback_bounded Grist.Proofs.Rollback_bridge
  Grist.Lib.RbPrelude GristGen.Rollback_gen.
Require Grist.Model.StoredLog GristGen.StoredLogPy_gen.
Open Scope Z_scope.

(* what the except branch of apply_user_actions computes after a crash before micro-step k of the bundle es *)
Definition reverted (ord : name -> list name) (s : doc) (es : list event) (k : nat) (st : mstate) : option doc :=
  rollback_flush ord st (sum_log (run_log ord (init_state s []) es k)).

(* The property at full strength: for EVERY micro-step index k, crashing the bundle there, flushing and rolling back
   succeeds and gives the document (and engine schema) of before the call. *)
Definition C04_rollback_statement : Prop :=
  forall ord (s : doc) (es : list event) (k : nat) st cur done,
    wf s -> run_until_crash ord (init_state s []) es k = Crashed st cur done ->
    exists s_r, reverted ord s es k st = Some s_r /\ s_r = s /\ d_schema s_r = d_schema s.

(* It is still FALSE of the faithful model (and of the code: each witness is replayed on the engine). *)
Definition refuted (ord : name -> list name) (s : doc) (es : list event) (k : nat) : Prop :=
  wf s /\ exists st cur done,
    run_until_crash ord (init_state s []) es k = Crashed st cur done /\ reverted ord s es k st ≠ Some s.

(* (i) crash strictly inside BulkRemoveRecord: rows are unset before the undo is appended *)
Theorem C04_refuted_midaction : refuted w_ord w_doc w_remove 1.
Proof. split; [exact w_doc_wf|apply leaves_trace_flush_spec; exact w_remove_trace]. Qed.

(* (iii) crash inside a schema action after rebuild_usercode and before its undo: the saved_schema restore
   re-creates the destroyed Column object empty (RemoveColumn) or keeps the re-typed one (ModifyColumn) *)
Theorem C04_refuted_schema_restore : refuted w_ord w_doc w_remove_column 3 /\ refuted w_ord w_doc w_to_formula 7.
Proof.
  split; (split; [exact w_doc_wf|apply leaves_trace_flush_spec]); [exact w_remove_column_trace|exact w_to_formula_trace7].
Qed.

(* (iv) crash inside a schema action after its undo was appended: restore and undo both revert it, the replayed
   undo fails its assert, the rollback raises and earlier actions stay applied *)
Theorem C04_refuted_restore_conflict :
  wf w_doc /\ exists st cur done,
    run_until_crash w_ord (init_state w_doc []) w_add_column 6 = Crashed st cur done /\
    reverted w_ord w_doc w_add_column 6 st = None.
Proof.
  split; [exact w_doc_wf|]. pose proof w_add_column_flush_raises as H. unfold reverted.
  destruct (run_until_crash w_ord (init_state w_doc []) w_add_column 6) as [st cur done|]; [|contradiction]. eauto.
Qed.

(* (v) ReplaceTableData: its undo reloads data columns only *)
Theorem C04_refuted_replace_table_data : refuted w_ord w_doc w_replace 11.
Proof. split; [exact w_doc_wf|apply leaves_trace_flush_spec; exact w_replace_trace]. Qed.

(* (vi) crash between the cell write of a recalculation and its summary.add_changes: nothing recorded yet *)
Theorem C04_refuted_inside_calc : refuted w_ord w_doc w_calc 3.
Proof. split; [exact w_doc_wf|apply leaves_trace_flush_spec; exact w_calc_inside_trace]. Qed.

(* (vii) at an EVENT BOUNDARY, after the flush: a recomputed cell whose row is removed and added again under the
   same id within the bundle keeps the recomputed value (the restoring update is appended at the back of the undo
   list, so it runs before the undo of the remove re-adds the row with the value captured at removal).  Without the
   re-add, or with the recalculation after the re-add, the bundle is reverted. *)
Theorem C04_refuted_readded_row :
  refuted w_ord w_doc w_readd 14 /\
  match run_until_crash w_ord (init_state w_doc []) w_readd 14 with Crashed _ None [] => True | _ => False end.
Proof.
  split; [split; [exact w_doc_wf|apply leaves_trace_flush_spec; exact w_readd_trace]|exact w_readd_boundary].
Qed.

(* (viii) crash inside BulkRemoveRecord after its undo was appended and before summary.remove_records, with a pending
   calc delta on the removed row: the flush appends the restoring update of a row that is gone, the replay fails its
   assert, the rollback raises and the whole bundle stays applied.  One step later the bundle is reverted. *)
Theorem C04_refuted_remove_before_summary_mark :
  wf w_doc /\ (exists st cur done,
    run_until_crash w_ord (init_state w_doc []) w_remove_calc 9 = Crashed st cur done /\
    reverted w_ord w_doc w_remove_calc 9 st = None) /\
  leaves_trace_flush w_ord w_doc w_remove_calc 10 = false.
Proof.
  split; [exact w_doc_wf|]. split; [|exact w_remove_after_mark_no_trace].
  pose proof w_remove_before_mark_raises as H. unfold reverted.
  destruct (run_until_crash w_ord (init_state w_doc []) w_remove_calc 9) as [st cur done|]; [|contradiction].
  destruct H as [_ H]. apply bool_decide_eq_true in H. eauto.
Qed.

Theorem C04_rollback_statement_is_false : ~ C04_rollback_statement.
Proof.
  intros H. destruct C04_refuted_midaction as (Hw & st & cur & done & Hrun & Hne).
  destruct (H w_ord w_doc w_remove 1%nat st cur done Hw Hrun) as (s_r & Hr & -> & _). exact (Hne Hr).
Qed.

(* REGRESSION (were refutations before the repairs): no crash point of BulkUpdateRecord leaves a trace, also not
   the KeyError for an unknown second column (6f648c6); the pending calc delta of
   [UpdateRecord T 1 {A:10}, CopyFromColumn T B C, <raises>] is reverted at every event boundary (f80d48c). *)
Example C04_fixed_midaction_update :
  forallb (fun k => negb (leaves_trace_flush w_ord w_doc w_update k)) (seq 0 7) = true /\
  leaves_trace_flush w_ord w_doc w_update_keyerror 5 = false.
Proof. split; [exact w_update_no_trace|exact w_update_keyerror_no_trace]. Qed.

Example C04_fixed_pending_calc :
  forallb (fun k => negb (leaves_trace_flush w_ord w_doc w_calc k)) [0; 2; 4; 5; 6; 7]%nat = true /\
  leaves_trace w_ord w_doc w_calc 7 = true.          (* the bare _undo_to_checkpoint alone would not *)
Proof. split; [exact w_calc_flush_no_trace|exact w_calc_trace]. Qed.

(* What IS proved, for all documents, all event sequences and all crash points of the stated kind:
   crash between doc actions (at most the schema clone of the next schema action has run; this includes a later
   action failing its asserts) or ANYWHERE inside the undo-first actions [Bulk]AddRecord and [Bulk]UpdateRecord
   (covered_point); no calc delta pending in the summary; no ReplaceTableData in the bundle. *)
Theorem C04_rollback_partial : forall ord (s : doc) (es : list event) (k : nat) st cur done,
  wf s -> Forall no_replace_ev es ->
  run_until_crash ord (init_state s []) es k = Crashed st cur done ->
  ms_pending st = [] -> covered_point cur done ->
  exists s_r, reverted ord s es k st = Some s_r /\ s_r = s /\ d_schema s_r = d_schema s.
Proof. intros. exists s. split; [eapply rollback_flush_partial; eauto|split; reflexivity]. Qed.

(* Crash points INSIDE schema doc actions, with apply_doc_action's saved_schema restore: the snapshot repairs
   (a) every schema action (AddColumn, RemoveColumn, RenameColumn, ModifyColumn, AddTable, RemoveTable, RenameTable) when
       the failure strikes after the clone and the in-place mutation of engine.schema but before rebuild_usercode, and
   (b) AddColumn and AddTable also after rebuild_usercode, before their undo append (snapshot_point).
   It does NOT repair RemoveColumn / RenameColumn / ModifyColumn / RenameTable once rebuild_usercode has run (the old
   Column / Table objects are destroyed: C04_refuted_schema_restore, C04_refuted_rename_after_rebuild), nor any schema
   action after its undo append (C04_refuted_restore_conflict), nor RemoveTable after its data undo. *)
Theorem C04_rollback_partial_snapshot : forall ord (s : doc) (es : list event) (k : nat) st cur done,
  wf s -> Forall no_replace_ev es ->
  run_until_crash ord (init_state s []) es k = Crashed st cur done ->
  ms_pending st = [] -> covered_point cur done \/ snapshot_point cur done ->
  reverted ord s es k st = Some s.
Proof. exact rollback_flush_snapshot. Qed.

Theorem C04_refuted_rename_after_rebuild : refuted w_ord w_doc w_rename_column 3 /\ refuted w_ord w_doc w_rename_table 3.
Proof.
  destruct w_rename_trace as [H1 H2].
  split; (split; [exact w_doc_wf|apply leaves_trace_flush_spec]); assumption.
Qed.

Example C04_snapshot_nonvacuous :
  snapshot_point (Some (EDoc (RenameColumn T A N))) [MSave; MSchema ∅] /\
  snapshot_point (Some (EDoc (AddColumn T N ci_int))) [MSave; MSchema ∅; MRebuild] /\
  forallb (fun es => negb (leaves_trace_flush w_ord w_doc es 2))
          [w_remove_column; w_rename_column; w_rename_table; w_to_formula] = true /\
  leaves_trace_flush w_ord w_doc [EDoc (AddColumn T N ci_int)] 3 = false /\
  leaves_trace_flush w_ord w_doc [EDoc (AddTable 5 [(A, ci_int)])] 3 = false.
Proof.
  split; [left; eexists; split; [reflexivity|repeat constructor; eexists; reflexivity]|].
  split; [right; eexists _, _; split; [reflexivity|]; split; [exists T, N, ci_int; left; reflexivity|reflexivity]|].
  exact w_snapshot_no_trace.
Qed.

(* the same for the bare _undo_to_checkpoint with any undo prefix u0 (nested checkpoints, get_formula_value) *)
Theorem C04_rollback_partial_bare : forall ord (s : doc) (u0 : list action) (es : list event) (k : nat) st cur done,
  wf s -> Forall no_replace_ev es ->
  run_until_crash ord (init_state s u0) es k = Crashed st cur done ->
  ms_pending st = [] -> covered_point cur done ->
  rollback ord (length u0) st = Some s.
Proof. exact rollback_partial_covered. Qed.

(* Pending calc deltas ARE rolled back by the flush.  Proved for bundles made of record updates and recalculation
   batches of ONE column (t, c), in any order and number (UpdateRecord, CopyFromColumn between data columns, the
   bundle of the old finding), at every event boundary (a later action failing), when no update of the bundle writes
   (t, c).  NOT proved (tied to the engine by the harness's rollback prediction and enumerated on the implementation
   only): several recomputed columns in one bundle; pending deltas together with record additions/removals or
   schema actions in the same bundle (the new-row / gone-row filters, the front insertion and the original-name
   logic of _changes_to_actions for renamed, removed or re-added columns and tables). *)
Theorem C04_pending_calc_rolled_back : forall ord (s : doc) (t c : name) (es : list event) (k : nat) st cur,
  wf s -> is_Some (d_tables s !! t ≫= fun tb => t_cols tb !! c) ->
  Forall (upd_or_calc t c) es ->
  run_until_crash ord (init_state s []) es k = Crashed st cur [] ->
  reverted ord s es k st = Some s.
Proof. exact pending_calc_rolled_back. Qed.

Example C04_pending_calc_nonvacuous :
  Forall (upd_or_calc T B) w_calc /\ is_Some (d_tables w_doc !! T ≫= fun tb => t_cols tb !! B) /\
  match run_until_crash w_ord (init_state w_doc []) w_calc 7 with
  | Crashed st None [] => ms_pending st <> [] | _ => False end.
Proof.
  split; [repeat constructor; simpl; intros [_ H]; repeat (apply elem_of_cons in H as [H|H]; [discriminate|]); inversion H|].
  split; [vm_compute; eexists; reflexivity|]. vm_compute. discriminate.
Qed.

(* ... and for SEVERAL recomputed columns CC in one bundle (any tables), again with record updates that write none of
   them, in any order and number, at every event boundary. *)
Theorem C04_pending_calcs_rolled_back : forall ord (s : doc) (CC : list (name * name)) (es : list event) (k : nat) st cur,
  wf s -> Forall (upd_or_calc_in CC) es ->
  run_until_crash ord (init_state s []) es k = Crashed st cur [] ->
  reverted ord s es k st = Some s.
Proof. exact pending_calcs_rolled_back. Qed.

Example C04_pending_calcs_nonvacuous :
  let es := [EDoc (UpdateRecord T 1 [(A, 10)]); ECalc T B [(1, 20)]; ECalc T C [(2, 9)]; ECalc T B [(2, 40); (1, 21)]] in
  Forall (upd_or_calc_in [(T, B); (T, C)]) es /\
  match run_until_crash w_ord (init_state w_doc []) es 9 with
  | Crashed st None [] => length (ms_pending st) = 4%nat /\ bool_decide (reverted w_ord w_doc es 9 st = Some w_doc) = true
  | _ => False end.
Proof.
  split.
  - repeat constructor; simpl; set_solver.
  - vm_compute. split; reflexivity.
Qed.

(* ... and in bundles that also ADD records (BulkAddRecord writing none of the recomputed columns): the recomputed
   cells of the NEW rows are not in the flushed undo (new-row filter of _changes_to_actions: `before` mark False);
   they disappear with the BulkRemoveRecord that undoes the add.  Any number and order of updates, adds and
   recomputations of the columns CC, at every event boundary. *)
Theorem C04_pending_calcs_with_adds_rolled_back :
  forall ord (s : doc) (CC : list (name * name)) (es : list event) (k : nat) st cur,
  wf s -> Forall (upd_add_or_calc_in CC) es ->
  run_until_crash ord (init_state s []) es k = Crashed st cur [] ->
  reverted ord s es k st = Some s.
Proof. intros ord s CC es k st cur Hw. exact (pending_calcs_with_adds_rolled_back ord s Hw CC es k st cur). Qed.

Example C04_pending_calcs_with_adds_nonvacuous :
  let es := [EDoc (AddRecord T 3 [(A, 5)]); ECalc T B [(3, 10); (1, 20)]; EDoc (UpdateRecord T 3 [(A, 6)]);
             ECalc T C [(3, 7); (2, 9)]; ECalc T B [(3, 12)]] in
  Forall (upd_add_or_calc_in [(T, B); (T, C)]) es /\
  match run_until_crash w_ord (init_state w_doc []) es 14 with
  | Crashed st None [] =>
      length (ms_pending st) = 5%nat /\ length (ms_undo st) = 2%nat /\
      bool_decide (reverted w_ord w_doc es 14 st = Some w_doc) = true /\
      bool_decide (rollback w_ord 0 st = Some w_doc) = false
  | _ => False end.
Proof.
  split.
  - repeat constructor; simpl; set_solver.
  - vm_compute. repeat split; reflexivity.
Qed.

(* ... and in bundles that also REMOVE records: the recomputed cells of checkpoint rows that are gone at the crash are
   restored by updates inserted at the FRONT of the undo list (they run last, after the undo of the BulkRemoveRecord
   has re-added the rows with the values it captured), those of rows still there by appended updates, those of rows
   added in the bundle by neither.  Hypothesis (narrowest found): rows are only added under ids the checkpoint table
   does not have -- a removed row id coming back in the same bundle is REFUTED (C04_refuted_readded_row).
   Any number and order of updates / adds / removes / recomputations of the columns CC, every event boundary. *)
Theorem C04_pending_calcs_with_removes_rolled_back :
  forall ord (s : doc) (CC : list (name * name)) (es : list event) (k : nat) st cur,
  wf s -> Forall (upd_add_rem_or_calc_in s CC) es ->
  run_until_crash ord (init_state s []) es k = Crashed st cur [] ->
  reverted ord s es k st = Some s.
Proof. intros ord s CC es k st cur Hw. exact (pending_calcs_with_removes_rolled_back ord s Hw CC es k st cur). Qed.

Example C04_pending_calcs_with_removes_nonvacuous :
  let es := [EDoc (UpdateRecord T 2 [(A, 10)]); ECalc T B [(2, 20); (1, 3)]; EDoc (RemoveRecord T 2);
             EDoc (AddRecord T 3 [(A, 5)]); ECalc T B [(3, 10)]; EDoc (RemoveRecord T 3)] in
  Forall (upd_add_rem_or_calc_in w_doc [(T, B)]) es /\
  (* after the remove of the recomputed checkpoint row 2 (front insertion), and at the end *)
  forallb (fun k => match run_until_crash w_ord (init_state w_doc []) es k with
                    | Crashed st _ [] =>
                        bool_decide (reverted w_ord w_doc es k st = Some w_doc) &&
                        negb (bool_decide (rollback w_ord 0 st = Some w_doc)) &&
                        bool_decide (fst (flush_undo (sum_log (run_log w_ord (init_state w_doc []) es k))) ≠ [])
                    | _ => false end) [11; 15; 17; 23]%nat = true.
Proof.
  split.
  - assert (Hnew : forall r, r ∈ [3] -> ~ oldrow w_doc T r).
    { intros r Hr (rows0 & H0 & Hin). apply elem_of_list_singleton in Hr. subst r.
      assert (Hrows : drows w_doc T = Some {[1; 2]}) by (apply (bool_decide_unpack _); vm_compute; exact I).
      rewrite Hrows in H0. injection H0 as <-. set_solver. }
    repeat (apply Forall_cons; split); try apply Forall_nil; unfold upd_add_rem_or_calc_in; simpl; try set_solver.
  - vm_compute. reflexivity.
Qed.

(* Pending calc deltas combined with column / table renames and removals between the recalculation and the crash
   (front insertion under the ORIGINAL names, defunct columns and tables): no general proof; checked exhaustively by
   computation on the witness document for every bundle [UpdateRecord T 2 {A:10}; recalculation of B[2]] followed by
   up to two events out of 21 (rename / remove / re-create the recomputed column or its table, rename them back,
   recalculate under the new names, add / remove rows, other columns), and by three out of the 12 that touch the
   recomputed column or its table: every event boundary is reverted, except [.. RemoveRecord T 2; AddRecord T 2 ..]
   (C04_refuted_readded_row). *)
Theorem C04_schema_actions_after_calc_bounded :
  b_bad b_seqs1 = [] /\ b_bad b_seqs2 = [([6; 20], [14])]%nat /\ b_bad b_seqs3s = [].
Proof. exact (conj bounded_one_followup (conj bounded_two_followups bounded_three_followups)). Qed.

(* "The engine stays usable: a following Calculate emits no changes."  For any formula semantics `eval` that is a
   function of the document alone (no clock / randomness / evaluation-order or cache dependence), if before the
   bundle every formula cell held the value of its formula (`consistent`: what C05 establishes; in particular the
   document was clean), then after a rollback that restored the document -- i.e. at every crash point covered by the
   theorems above -- recomputing ANY list of dirty formula cells, one after the other, changes nothing and reports
   no change.  (The dirty set itself and the dependency graph are not modelled: the statement holds for every set.) *)
Theorem C04_usable_after : forall (eval : doc -> name -> name -> rowid -> val) ord (s : doc) (es : list event) k st s_r dirty,
  wf s -> consistent eval s ->
  reverted ord s es k st = Some s_r -> s_r = s ->
  Forall (formula_cell s_r) dirty ->
  recalc eval s_r dirty = s_r /\ calc_emits eval s_r dirty = [].
Proof. intros eval ord s es k st s_r dirty Hw Hc _ -> Hd. apply usable_after; assumption. Qed.

(* ... in particular at every crash point covered by C04_rollback_partial_snapshot *)
Theorem C04_usable_after_partial : forall eval ord (s : doc) (es : list event) (k : nat) st cur done,
  wf s -> consistent eval s -> Forall no_replace_ev es ->
  run_until_crash ord (init_state s []) es k = Crashed st cur done ->
  ms_pending st = [] -> covered_point cur done \/ snapshot_point cur done ->
  exists s_r, reverted ord s es k st = Some s_r /\
    forall dirty, Forall (formula_cell s_r) dirty -> recalc eval s_r dirty = s_r /\ calc_emits eval s_r dirty = [].
Proof.
  intros eval ord s es k st cur done Hw Hc Hnr Hrun Hp Hcov. exists s.
  split; [eapply rollback_flush_snapshot; eauto|]. intros d Hd. apply usable_after; assumption.
Qed.

Example C04_usable_nonvacuous :
  let eval := fun (d : doc) (t c : name) (r : rowid) =>
    from_option (fun tb => from_option (fun col => 2 * cget col r) 0 (t_cols tb !! A)) 0 (d_tables d !! t) in
  consistent eval w_doc /\ formula_cell w_doc (T, B, 1).
Proof.
  split.
  - intros [[t c] r] tb col Ht Hc Hf Hr. simpl in *. unfold w_doc in Ht. simpl in Ht.
    apply lookup_insert_Some in Ht as [[<- <-]|[_ Ht]]; [|rewrite lookup_empty in Ht; discriminate]. simpl in *.
    apply lookup_insert_Some in Hc as [[<- <-]|[_ Hc]]; [discriminate Hf|].
    apply lookup_insert_Some in Hc as [[<- <-]|[_ Hc]].
    + apply elem_of_union in Hr as [Hr|Hr]; apply elem_of_singleton in Hr; subst r; vm_compute; reflexivity.
    + apply lookup_insert_Some in Hc as [[<- <-]|[_ Hc]]; [discriminate Hf|rewrite lookup_empty in Hc; discriminate].
  - eexists _, _. split; [apply lookup_insert|]. split; [simpl; rewrite lookup_insert_ne by discriminate; apply lookup_insert|].
    split; [reflexivity|]. simpl. set_solver.
Qed.

(* validation failure = crash before the first micro-step: identity, for every document and bundle *)
Theorem C04_validation_failure : forall ord (s : doc) (u0 : list action) (es : list event) st cur done,
  run_until_crash ord (init_state s u0) es 0 = Crashed st cur done ->
  rollback ord (length u0) st = Some s.
Proof. exact rollback_validation_failure. Qed.

(* every completed doc action keeps the document well-formed and is reverted by the undo it appended *)
Theorem C04_action_undone : forall ord d a u p st',
  wf d -> no_replace a -> exec_all (MState d u p None) (doc_steps ord d a) = Some st' ->
  action_post ord d u p st'.
Proof. exact action_undo. Qed.

(* non-vacuity: a four-action bundle whose last action fails its assert *)
Example C04_partial_nonvacuous :
  let es := [EDoc (UpdateRecord T 1 [(A, 10)]); EDoc (RenameColumn T A N); EDoc (RemoveTable T); EDoc (RemoveTable T)] in
  wf w_doc /\ Forall no_replace_ev es /\
  match run_until_crash w_ord (init_state w_doc []) es 100 with
  | Crashed st (Some (EDoc (RemoveTable _))) [MSave] =>
      ms_pending st = [] /\ length (ms_undo st) = 4%nat /\ covered_point (Some (EDoc (RemoveTable T))) [MSave] /\
      bool_decide (reverted w_ord w_doc es 100 st = Some w_doc) = true
  | _ => False
  end.
Proof.
  split; [exact w_doc_wf|]. split; [repeat constructor|]. vm_compute.
  split; [reflexivity|]. split; [reflexivity|]. split; [left; repeat constructor|reflexivity].
Qed.

(* ... inside BulkAddRecord (two rows added, one cell written) and inside BulkUpdateRecord (three cells written) *)
Example C04_partial_inside_nonvacuous :
  match run_until_crash w_ord (init_state w_doc []) w_add 5, run_until_crash w_ord (init_state w_doc []) w_update 4 with
  | Crashed st (Some (EDoc a)) done, Crashed st2 (Some (EDoc a2)) done2 =>
      is_undo_first a /\ length done = 5%nat /\ ms_pending st = [] /\
      is_undo_first a2 /\ length done2 = 4%nat /\ ms_pending st2 = [] /\
      bool_decide (reverted w_ord w_doc w_update 4 st2 = Some w_doc) = true
  | _, _ => False
  end.
Proof. vm_compute. repeat split; auto. Qed.

(* ---------------------------------------------------------------------------------------------------------- *)
(* BRIDGING OBLIGATIONS: the deciding code of the rollback is regenerated from /repo on every run
   (harness/rb2v.py -> coq/gen/Rollback_gen.v; row filters: harness/sl2v.py -> coq/gen/StoredLogPy_gen.v) and proved
   equal, pointwise, to what Model/Rollback.v assumes.  A semantic edit of that code breaks one of these proofs. *)
Theorem C04_bridge_get_undo_checkpoint : forall (o : oacts action), gen_get_undo_checkpoint o = model_checkpoint o.
Proof. exact (@bridge_get_undo_checkpoint action). Qed.

Theorem C04_bridge_undo_to_checkpoint : forall (o0 : oacts action) ec es ed eu er,
  length (oa_direct o0) = length (oa_stored o0) -> (ec, es, eu, er) <> ([], [], [], []) ->
  gen_undo_to_checkpoint (gen_get_undo_checkpoint o0) (grown o0 ec es ed eu er) = (Some eu, o0).
Proof. exact (@bridge_undo_to_checkpoint action). Qed.

Theorem C04_bridge_undo_to_checkpoint_nothing : forall (o0 : oacts action) ed,
  gen_undo_to_checkpoint (gen_get_undo_checkpoint o0) (grown o0 [] [] ed [] []) = (None, grown o0 [] [] ed [] []).
Proof. exact (@bridge_undo_to_checkpoint_nothing action). Qed.

Theorem C04_bridge_doc_action_orders :
  order_of (steps_of w_ord w_doc (BulkAddRecord T [3; 4] [(A, [5; 6]); (C, [1; 2])])) = effects gen_order_BulkAddRecord /\
  order_of (steps_of w_ord w_doc (BulkUpdateRecord T [1; 2] [(A, [5; 6]); (C, [1; 2])])) = effects gen_order_BulkUpdateRecord /\
  order_of (steps_of w_ord w_doc (BulkRemoveRecord T [1; 2])) = effects gen_order_BulkRemoveRecord /\
  order_of (steps_of w_ord w_doc (ReplaceTableData T [1; 5] [(A, [5; 6])])) = effects gen_order_ReplaceTableData /\
  hd OMut gen_order_BulkAddRecord = OAssert /\ firstn 2 gen_order_BulkUpdateRecord = [OAssert; OResolve].
Proof.
  pose proof bridge_checks_first as (H1 & _ & H2 & _).
  exact (conj bridge_order_BulkAddRecord (conj bridge_order_BulkUpdateRecord (conj bridge_order_BulkRemoveRecord
        (conj bridge_order_ReplaceTableData (conj H1 H2))))).
Qed.

Theorem C04_bridge_except_branch : gen_except_branch = model_except_branch.
Proof. exact bridge_except_branch. Qed.

Theorem C04_bridge_flush_positions : gen_undo_half = model_undo_half /\ gen_flush_target = FlushIntoStoredAndUndo.
Proof. exact bridge_undo_half. Qed.

Theorem C04_bridge_row_filters : forall tables t td rows,
  StoredLog.aget StoredLog.str_eqb t tables = Some td ->
  StoredLogPy_gen.filter_out_new_rows_py tables t rows
    = filter (fun r => (list_to_map (StoredLog.td_pb td) : gmap Z bool) !! r <> Some false) rows /\
  StoredLogPy_gen.filter_out_gone_rows_py tables t rows
    = filter (fun r => (list_to_map (StoredLog.td_pa td) : gmap Z bool) !! r <> Some false) rows.
Proof. intros. split; [apply bridge_filter_out_new_rows|apply bridge_filter_out_gone_rows]; assumption. Qed.

(* The main theorems, about the GENERATED revert: what Engine._undo_to_checkpoint hands to ApplyUndoActions for the
   checkpoint Engine._get_undo_checkpoint took is what the model's rollback replays -- so C04_rollback_partial and
   the C04_pending_calcs_* theorems speak about the code's selection of undo actions. *)
Theorem C04_code_rollback : forall ord (st : mstate) (o0 : oacts action) u0 ua ec es ed er,
  oa_undo o0 = u0 -> ms_undo st = u0 ++ ua -> length (oa_direct o0) = length (oa_stored o0) ->
  (ec, es, ua, er) <> ([], [], [], []) ->
  rollback ord (length u0) st
  = replay ord (restore_schema st)
      (rev (default [] (fst (gen_undo_to_checkpoint (gen_get_undo_checkpoint o0) (grown o0 ec es ed ua er))))).
Proof. exact code_rollback. Qed.

Theorem C04_code_rollback_partial : forall ord (s : doc) (es : list event) (k : nat) st cur done (o0 : oacts action) ec es' ed er,
  wf s -> Forall no_replace_ev es ->
  run_until_crash ord (init_state s []) es k = Crashed st cur done ->
  ms_pending st = [] -> covered_point cur done ->
  oa_undo o0 = [] -> length (oa_direct o0) = length (oa_stored o0) -> (ec, es', ms_undo st, er) <> ([], [], [], []) ->
  replay ord (restore_schema st)
    (rev (default [] (fst (gen_undo_to_checkpoint (gen_get_undo_checkpoint o0) (grown o0 ec es' ed (ms_undo st) er))))) = Some s.
Proof.
  intros ord s es k st cur done o0 ec es' ed er Hw Hnr Hrun Hp Hcov Hu Hd Hne.
  rewrite <- (code_rollback ord st o0 [] (ms_undo st) ec es' ed er Hu eq_refl Hd Hne).
  exact (rollback_partial_covered ord s [] es k st cur done Hw Hnr Hrun Hp Hcov).
Qed.
