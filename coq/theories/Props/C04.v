(* C04 -- Failed bundles leave no trace.
   Model: Model/Rollback.v (micro-steps of the 14 doc actions in source order, apply_doc_action's saved_schema
   restore, ActionSummary + the flush of pending calc deltas that apply_user_actions performs before reverting
   (f80d48c), _undo_to_checkpoint).  Statements only; proofs are in Proofs/Rollback_*.v.
   Documents are canonical (a column stores its non-default cells only), so "every table, the metadata and the
   schema are exactly as before" is Leibniz equality of `doc` (tables, Column objects and engine.schema). *)
From stdpp Require Import gmap.
Require Import Grist.Model.Rollback Grist.Proofs.Rollback_proofs Grist.Proofs.Rollback_run Grist.Proofs.Rollback_inside
  Grist.Proofs.Rollback_flush Grist.Proofs.Rollback_calc Grist.Proofs.Rollback_witness.
Open Scope Z_scope.

(* what the except branch of apply_user_actions computes after a crash before micro-step k of the bundle es *)
Definition reverted (ord : name -> list name) (s : doc) (es : list event) (k : nat) (st : mstate) : option doc :=
  rollback_flush ord st (sum_log (run_log ord (init_state s []) es k)).

(* The property at full strength: for EVERY micro-step index k, crashing the bundle there, flushing and rolling back
   succeeds and gives the document (and engine schema) of before the call. *)
Definition C04_rollback_statement : Prop :=
  forall ord (s : doc) (es : list event) (k : nat) st cur done,
    wf s -> run_until_crash ord (init_state s []) es k = Crashed st cur done ->
    exists s_r, reverted ord s es k st = Some s_r /\ s_r = s /\ d_schema s_r = d_schema s.

(* It is still FALSE of the faithful model (and of the code: each witness is replayed on the engine). *)
Definition refuted (ord : name -> list name) (s : doc) (es : list event) (k : nat) : Prop :=
  wf s /\ exists st cur done,
    run_until_crash ord (init_state s []) es k = Crashed st cur done /\ reverted ord s es k st ≠ Some s.

(* (i) crash strictly inside BulkRemoveRecord: rows are unset before the undo is appended *)
Theorem C04_refuted_midaction : refuted w_ord w_doc w_remove 1.
Proof. split; [exact w_doc_wf|apply leaves_trace_flush_spec; exact w_remove_trace]. Qed.

(* (iii) crash inside a schema action after rebuild_usercode and before its undo: the saved_schema restore
   re-creates the destroyed Column object empty (RemoveColumn) or keeps the re-typed one (ModifyColumn) *)
Theorem C04_refuted_schema_restore : refuted w_ord w_doc w_remove_column 3 /\ refuted w_ord w_doc w_to_formula 7.
Proof.
  split; (split; [exact w_doc_wf|apply leaves_trace_flush_spec]); [exact w_remove_column_trace|exact w_to_formula_trace7].
Qed.

(* (iv) crash inside a schema action after its undo was appended: restore and undo both revert it, the replayed
   undo fails its assert, the rollback raises and earlier actions stay applied *)
Theorem C04_refuted_restore_conflict :
  wf w_doc /\ exists st cur done,
    run_until_crash w_ord (init_state w_doc []) w_add_column 6 = Crashed st cur done /\
    reverted w_ord w_doc w_add_column 6 st = None.
Proof.
  split; [exact w_doc_wf|]. pose proof w_add_column_flush_raises as H. unfold reverted.
  destruct (run_until_crash w_ord (init_state w_doc []) w_add_column 6) as [st cur done|]; [|contradiction]. eauto.
Qed.

(* (v) ReplaceTableData: its undo reloads data columns only *)
Theorem C04_refuted_replace_table_data : refuted w_ord w_doc w_replace 11.
Proof. split; [exact w_doc_wf|apply leaves_trace_flush_spec; exact w_replace_trace]. Qed.

(* (vi) crash between the cell write of a recalculation and its summary.add_changes: nothing recorded yet *)
Theorem C04_refuted_inside_calc : refuted w_ord w_doc w_calc 3.
Proof. split; [exact w_doc_wf|apply leaves_trace_flush_spec; exact w_calc_inside_trace]. Qed.

Theorem C04_rollback_statement_is_false : ~ C04_rollback_statement.
Proof.
  intros H. destruct C04_refuted_midaction as (Hw & st & cur & done & Hrun & Hne).
  destruct (H w_ord w_doc w_remove 1%nat st cur done Hw Hrun) as (s_r & Hr & -> & _). exact (Hne Hr).
Qed.

(* REGRESSION (were refutations before the repairs): no crash point of BulkUpdateRecord leaves a trace, also not
   the KeyError for an unknown second column (6f648c6); the pending calc delta of
   [UpdateRecord T 1 {A:10}, CopyFromColumn T B C, <raises>] is reverted at every event boundary (f80d48c). *)
Example C04_fixed_midaction_update :
  forallb (fun k => negb (leaves_trace_flush w_ord w_doc w_update k)) (seq 0 7) = true /\
  leaves_trace_flush w_ord w_doc w_update_keyerror 5 = false.
Proof. split; [exact w_update_no_trace|exact w_update_keyerror_no_trace]. Qed.

Example C04_fixed_pending_calc :
  forallb (fun k => negb (leaves_trace_flush w_ord w_doc w_calc k)) [0; 2; 4; 5; 6; 7]%nat = true /\
  leaves_trace w_ord w_doc w_calc 7 = true.          (* the bare _undo_to_checkpoint alone would not *)
Proof. split; [exact w_calc_flush_no_trace|exact w_calc_trace]. Qed.

(* What IS proved, for all documents, all event sequences and all crash points of the stated kind:
   crash between doc actions (at most the schema clone of the next schema action has run; this includes a later
   action failing its asserts) or ANYWHERE inside the undo-first actions [Bulk]AddRecord and [Bulk]UpdateRecord
   (covered_point); no calc delta pending in the summary; no ReplaceTableData in the bundle. *)
Theorem C04_rollback_partial : forall ord (s : doc) (es : list event) (k : nat) st cur done,
  wf s -> Forall no_replace_ev es ->
  run_until_crash ord (init_state s []) es k = Crashed st cur done ->
  ms_pending st = [] -> covered_point cur done ->
  exists s_r, reverted ord s es k st = Some s_r /\ s_r = s /\ d_schema s_r = d_schema s.
Proof. intros. exists s. split; [eapply rollback_flush_partial; eauto|split; reflexivity]. Qed.

(* the same for the bare _undo_to_checkpoint with any undo prefix u0 (nested checkpoints, get_formula_value) *)
Theorem C04_rollback_partial_bare : forall ord (s : doc) (u0 : list action) (es : list event) (k : nat) st cur done,
  wf s -> Forall no_replace_ev es ->
  run_until_crash ord (init_state s u0) es k = Crashed st cur done ->
  ms_pending st = [] -> covered_point cur done ->
  rollback ord (length u0) st = Some s.
Proof. exact rollback_partial_covered. Qed.

(* Pending calc deltas ARE rolled back by the flush.  Proved for bundles made of record updates and recalculation
   batches of ONE column (t, c), in any order and number (UpdateRecord, CopyFromColumn between data columns, the
   bundle of the old finding), at every event boundary (a later action failing), when no update of the bundle writes
   (t, c).  NOT proved (tied to the engine by the harness's rollback prediction and enumerated on the implementation
   only): several recomputed columns in one bundle; pending deltas together with record additions/removals or
   schema actions in the same bundle (the new-row / gone-row filters, the front insertion and the original-name
   logic of _changes_to_actions for renamed, removed or re-added columns and tables). *)
Theorem C04_pending_calc_rolled_back : forall ord (s : doc) (t c : name) (es : list event) (k : nat) st cur,
  wf s -> is_Some (d_tables s !! t ≫= fun tb => t_cols tb !! c) ->
  Forall (upd_or_calc t c) es ->
  run_until_crash ord (init_state s []) es k = Crashed st cur [] ->
  reverted ord s es k st = Some s.
Proof. exact pending_calc_rolled_back. Qed.

Example C04_pending_calc_nonvacuous :
  Forall (upd_or_calc T B) w_calc /\ is_Some (d_tables w_doc !! T ≫= fun tb => t_cols tb !! B) /\
  match run_until_crash w_ord (init_state w_doc []) w_calc 7 with
  | Crashed st None [] => ms_pending st <> [] | _ => False end.
Proof.
  split; [repeat constructor; simpl; intros [_ H]; repeat (apply elem_of_cons in H as [H|H]; [discriminate|]); inversion H|].
  split; [vm_compute; eexists; reflexivity|]. vm_compute. discriminate.
Qed.

(* validation failure = crash before the first micro-step: identity, for every document and bundle *)
Theorem C04_validation_failure : forall ord (s : doc) (u0 : list action) (es : list event) st cur done,
  run_until_crash ord (init_state s u0) es 0 = Crashed st cur done ->
  rollback ord (length u0) st = Some s.
Proof. exact rollback_validation_failure. Qed.

(* every completed doc action keeps the document well-formed and is reverted by the undo it appended *)
Theorem C04_action_undone : forall ord d a u p st',
  wf d -> no_replace a -> exec_all (MState d u p None) (doc_steps ord d a) = Some st' ->
  action_post ord d u p st'.
Proof. exact action_undo. Qed.

(* non-vacuity: a four-action bundle whose last action fails its assert *)
Example C04_partial_nonvacuous :
  let es := [EDoc (UpdateRecord T 1 [(A, 10)]); EDoc (RenameColumn T A N); EDoc (RemoveTable T); EDoc (RemoveTable T)] in
  wf w_doc /\ Forall no_replace_ev es /\
  match run_until_crash w_ord (init_state w_doc []) es 100 with
  | Crashed st (Some (EDoc (RemoveTable _))) [MSave] =>
      ms_pending st = [] /\ length (ms_undo st) = 4%nat /\ covered_point (Some (EDoc (RemoveTable T))) [MSave] /\
      bool_decide (reverted w_ord w_doc es 100 st = Some w_doc) = true
  | _ => False
  end.
Proof.
  split; [exact w_doc_wf|]. split; [repeat constructor|]. vm_compute.
  split; [reflexivity|]. split; [reflexivity|]. split; [left; repeat constructor|reflexivity].
Qed.

(* ... inside BulkAddRecord (two rows added, one cell written) and inside BulkUpdateRecord (three cells written) *)
Example C04_partial_inside_nonvacuous :
  match run_until_crash w_ord (init_state w_doc []) w_add 5, run_until_crash w_ord (init_state w_doc []) w_update 4 with
  | Crashed st (Some (EDoc a)) done, Crashed st2 (Some (EDoc a2)) done2 =>
      is_undo_first a /\ length done = 5%nat /\ ms_pending st = [] /\
      is_undo_first a2 /\ length done2 = 4%nat /\ ms_pending st2 = [] /\
      bool_decide (reverted w_ord w_doc w_update 4 st2 = Some w_doc) = true
  | _, _ => False
  end.
Proof. vm_compute. repeat split; auto. Qed.
