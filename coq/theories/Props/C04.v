(* C04 -- Failed bundles leave no trace.
   Model: Model/Rollback.v (micro-steps of the 14 doc actions in source order, apply_doc_action's saved_schema
   restore, _undo_to_checkpoint, calc deltas that live in the summary).  Statements only; proofs are in
   Proofs/Rollback_{proofs,actions,undo,run,witness}.v.
   Documents are canonical (a column stores its non-default cells only), so "every table, the metadata and the
   schema are exactly as before" is Leibniz equality of `doc` (tables, Column objects and engine.schema). *)
From stdpp Require Import gmap.
Require Import Grist.Model.Rollback Grist.Proofs.Rollback_proofs Grist.Proofs.Rollback_run Grist.Proofs.Rollback_inside
  Grist.Proofs.Rollback_witness.
Open Scope Z_scope.

(* The property at full strength: for EVERY micro-step index k, crashing the bundle there and rolling back to the
   checkpoint succeeds and gives the document (and engine schema) of before the call. *)
Definition C04_rollback_statement : Prop :=
  forall ord (s : doc) (u0 : list action) (es : list event) (k : nat) st cur done,
    wf s -> run_until_crash ord (init_state s u0) es k = Crashed st cur done ->
    exists s_r, rollback ord (length u0) st = Some s_r /\ s_r = s /\ d_schema s_r = d_schema s.

(* It is FALSE of the faithful model (and of the code: every witness below is replayed on the engine). *)
Definition refuted (ord : name -> list name) (s : doc) (es : list event) (k : nat) : Prop :=
  wf s /\ exists st cur done,
    run_until_crash ord (init_state s []) es k = Crashed st cur done /\ rollback ord 0 st ≠ Some s.

(* (i) crash strictly inside BulkUpdateRecord / BulkRemoveRecord: cells are written before the undo is appended *)
Theorem C04_refuted_midaction : refuted w_ord w_doc w_update 1 /\ refuted w_ord w_doc w_remove 1.
Proof. split; (split; [exact w_doc_wf|apply leaves_trace_spec]); [exact w_update_trace|exact w_remove_trace]. Qed.

(* ... reachable without fault injection: BulkUpdateRecord naming an unknown second column *)
Theorem C04_refuted_midaction_natural : refuted w_ord w_doc w_update_keyerror 5.
Proof. split; [exact w_doc_wf|apply leaves_trace_spec; exact w_update_keyerror_trace]. Qed.

(* (ii) a calc delta pending in the summary when a LATER action fails (crash between doc actions) *)
Theorem C04_refuted_pending_calc : refuted w_ord w_doc w_calc 7.
Proof. split; [exact w_doc_wf|apply leaves_trace_spec; exact w_calc_trace]. Qed.

(* (iii) crash inside a schema action after rebuild_usercode and before its undo: the saved_schema restore
   re-creates the destroyed Column object empty (RemoveColumn) or keeps the re-typed one (ModifyColumn) *)
Theorem C04_refuted_schema_restore : refuted w_ord w_doc w_remove_column 3 /\ refuted w_ord w_doc w_to_formula 7.
Proof.
  split; (split; [exact w_doc_wf|apply leaves_trace_spec]); [exact w_remove_column_trace|exact w_to_formula_trace7].
Qed.

(* (iv) crash inside a schema action after its undo was appended: restore and undo both revert it, the replayed
   undo fails its assert, the rollback raises and earlier actions stay applied *)
Theorem C04_refuted_restore_conflict :
  wf w_doc /\ exists st cur done,
    run_until_crash w_ord (init_state w_doc []) w_add_column 6 = Crashed st cur done /\ rollback w_ord 0 st = None.
Proof. split; [exact w_doc_wf|apply rollback_raises_spec; exact w_add_column_raises]. Qed.

(* (v) ReplaceTableData: its undo reloads data columns only *)
Theorem C04_refuted_replace_table_data : refuted w_ord w_doc w_replace 11.
Proof. split; [exact w_doc_wf|apply leaves_trace_spec; exact w_replace_trace]. Qed.

Theorem C04_rollback_statement_is_false : ~ C04_rollback_statement.
Proof.
  intros H. destruct C04_refuted_pending_calc as (Hw & st & cur & done & Hrun & Hne).
  destruct (H w_ord w_doc [] w_calc 7%nat st cur done Hw Hrun) as (s_r & Hr & -> & _). exact (Hne Hr).
Qed.

(* What IS proved, for all documents, all event sequences and all crash points of the stated kind:
   crash between doc actions (at most the schema clone of the next schema action has run; this includes a later
   action failing its asserts) or ANYWHERE inside the undo-first action [Bulk]AddRecord (covered_point);
   no calc delta pending in the summary; no ReplaceTableData in the bundle. *)
Theorem C04_rollback_partial : forall ord (s : doc) (u0 : list action) (es : list event) (k : nat) st cur done,
  wf s -> Forall no_replace_ev es ->
  run_until_crash ord (init_state s u0) es k = Crashed st cur done ->
  ms_pending st = [] -> covered_point cur done ->
  exists s_r, rollback ord (length u0) st = Some s_r /\ s_r = s /\ d_schema s_r = d_schema s.
Proof. intros. exists s. split; [eapply rollback_partial_covered; eauto|split; reflexivity]. Qed.

(* validation failure = crash before the first micro-step: identity, for every document and bundle *)
Theorem C04_validation_failure : forall ord (s : doc) (u0 : list action) (es : list event) st cur done,
  run_until_crash ord (init_state s u0) es 0 = Crashed st cur done ->
  rollback ord (length u0) st = Some s.
Proof. exact rollback_validation_failure. Qed.

(* REPAIRED variant of BulkUpdateRecord (notes/proposed_fixes/C04-BulkUpdateRecord-undo-first.diff: columns resolved and
   undo appended before the first cell is written): for every document, every action argument and EVERY crash
   point strictly inside it, replaying the already appended undo action gives the document back.  (Proved for this
   one repaired action; the other refuted crash points have no small repair: see the report.) *)
Theorem C04_repaired_update_rolled_back : forall ord d t rows vals u p l rest st',
  wf d -> update_repaired d t rows vals = l ++ rest -> l <> [] ->
  exec_all (MState d u p None) l = Some st' ->
  exists a, ms_undo st' = u ++ [a] /\ ms_pending st' = p /\ ms_saved st' = None /\
            apply_doc ord (ms_doc st') a = Some d.
Proof. exact update_repaired_rolled_back. Qed.

Example C04_repaired_nonvacuous :
  exists l rest, update_repaired w_doc T [1; 2] [(A, [10; 20]); (C, [5; 6])] = l ++ rest /\ length l = 3%nat /\
    is_Some (exec_all (MState w_doc [] [] None) l).
Proof.
  exists (take 3 (update_repaired w_doc T [1; 2] [(A, [10; 20]); (C, [5; 6])])),
         (drop 3 (update_repaired w_doc T [1; 2] [(A, [10; 20]); (C, [5; 6])])).
  split; [symmetry; apply take_drop|]. split; [vm_compute; reflexivity|]. vm_compute. eexists. reflexivity.
Qed.

(* every completed doc action keeps the document well-formed and is reverted by the undo it appended *)
Theorem C04_action_undone : forall ord d a u p st',
  wf d -> no_replace a -> exec_all (MState d u p None) (doc_steps ord d a) = Some st' ->
  action_post ord d u p st'.
Proof. exact action_undo. Qed.

(* non-vacuity: the hypotheses of C04_rollback_partial hold on a three-action bundle (update, rename column,
   remove table) whose last action fails its assert, and the conclusion is observed *)
Example C04_partial_nonvacuous :
  let es := [EDoc (UpdateRecord T 1 [(A, 10)]); EDoc (RenameColumn T A N); EDoc (RemoveTable T); EDoc (RemoveTable T)] in
  wf w_doc /\ Forall no_replace_ev es /\
  match run_until_crash w_ord (init_state w_doc []) es 100 with
  | Crashed st (Some (EDoc (RemoveTable _))) [MSave] =>
      ms_pending st = [] /\ length (ms_undo st) = 4%nat /\ covered_point (Some (EDoc (RemoveTable T))) [MSave] /\
      bool_decide (rollback w_ord 0 st = Some w_doc) = true
  | _ => False
  end.
Proof.
  split; [exact w_doc_wf|]. split; [repeat constructor|]. vm_compute.
  split; [reflexivity|]. split; [reflexivity|]. split; [left; repeat constructor|reflexivity].
Qed.

(* ... and inside BulkAddRecord: crash after its two rows were added and one cell was written *)
Example C04_partial_inside_add_nonvacuous :
  match run_until_crash w_ord (init_state w_doc []) w_add 5 with
  | Crashed st (Some (EDoc a)) done =>
      is_add_record a /\ length done = 5%nat /\ ms_pending st = [] /\ bool_decide (rollback w_ord 0 st = Some w_doc) = true
  | _ => False
  end.
Proof. vm_compute. repeat split. Qed.
