(* C06 -- Formula results do not depend on evaluation order.
   Model: Grist.Model.Sched (engine.py Engine._update_loop / _recompute_step / _recompute_one_cell /
   _locked_cells / OrderError), a nondeterministic transition system; the engine's own order and every
   permutation of its work items are particular resolutions ([engine_strategy]).  The model is tied to
   the engine by replaying the engine's recorded evaluation traces (harness/props/c06.py).
   Statements only; proofs in Proofs/Sched_proofs.v, Sched_conf_proofs.v, Sched_engine_proofs.v. *)
From Coq Require Import ZArith List Bool Permutation.
Import ListNotations.
Require Import Grist.Model.Sched Grist.Proofs.Sched_proofs Grist.Proofs.Sched_conf_proofs
  Grist.Proofs.Sched_engine_proofs Grist.Proofs.Sched_inval_proofs
  Grist.Model.SchedCode GristGen.Sched_gen Grist.Proofs.Sched_bridge.
Open Scope Z_scope.

(* Every run is finite: no infinite sequence of scheduler transitions exists, for any program (cyclic or
   not, with or without exception handlers) and from any state. *)
Theorem sched_terminates : forall P, well_founded (fun s' s => step P s s').
Proof. exact step_wf. Qed.

(* The scheduler never gets stuck before everything is clean ("not making progress" cannot be the
   reason a run ends): a state that is not final always has a transition ... *)
Theorem sched_never_stuck : forall P s, has_formulas P s -> ~ final s -> exists s', step P s s'.
Proof. exact progress. Qed.

(* ... so every state can be run to completion. *)
Theorem sched_complete_run_exists : forall P s, has_formulas P s -> exists s', complete_run P s s'.
Proof. exact complete_run_exists. Qed.

(* Clean cells are not re-evaluated and keep their value. *)
Theorem sched_clean_cells_stable : forall P s s' c,
  step P s s' -> mem c (dirty s) = false -> mem c (dirty s') = false /\ val s' c = val s c.
Proof. exact step_clean_stable. Qed.

(* Confluence, acyclic programs (a ranking of the cells respected by every Read of every formula; formulas
   may handle exceptions): all complete runs end in the same values, namely the from-scratch values. *)
Theorem sched_confluent_acyclic : forall P r s r1 r2,
  acyclic P r -> wf_init P s -> complete_run P s r1 -> complete_run P s r2 ->
  forall c, val r1 c = val r2 c.
Proof. exact sched_confluent_acyclic. Qed.

Theorem sched_every_schedule_yields_scratch : forall P r s fin c,
  acyclic P r -> wf_init P s -> complete_run P s fin ->
  scr P (val s) (S (r c)) c = Some (val fin c).
Proof. exact sched_scratch_acyclic. Qed.

(* Confluence, arbitrary dependency structure including cycles, for formulas that do not handle
   exceptions: all complete runs end in the same values. *)
Theorem sched_confluent : forall P s r1 r2,
  strict_prog P -> wf_init P s -> complete_run P s r1 -> complete_run P s r2 ->
  forall c, val r1 c = val r2 c.
Proof. exact sched_confluent_strict. Qed.

(* The same for formulas WITH exception handlers, under the narrowest condition on a handler: it does not turn a
   CircularRefError it reads into a result (it may catch every other error, and [strict_prog] is the special
   case without handlers) ... *)
Theorem sched_confluent_handlers : forall P s r1 r2,
  cre_strict_prog P -> wf_init P s -> complete_run P s r1 -> complete_run P s r2 ->
  forall c, val r1 c = val r2 c.
Proof. exact sched_confluent_cre. Qed.

(* ... and the condition is exact handler by handler: ANY continuation k that answers a CircularRefError with an
   ordinary result is order-dependent in the two-cell document  a = <read b, continue with k>,  b = $a. *)
Theorem handler_gap_exact : forall (k : value -> itree) (z : Z),
  k (VErr CircularRef) = Ret z ->
  exists r1 r2,
    wf_init (gap_prog k) gap_init /\ complete_run (gap_prog k) gap_init r1 /\ complete_run (gap_prog k) gap_init r2 /\
    val r1 ga = VErr CircularRef /\ val r2 ga = VInt z.
Proof. exact handler_gap. Qed.

(* C06 for the engine's strategy: for every permutation pi of the work-item order the run completes
   and yields the same values as the original order (fuel: any number of iterations above a bound). *)
Theorem C06 : forall P s order pi,
  strict_prog P -> wf_init P s -> (forall c, In c (dirty s) -> In c order) -> Permutation order pi ->
  exists n, forall m1 m2, (n <= m1)%nat -> (n <= m2)%nat ->
    final (run P (engine_strategy P order) m1 s) /\ final (run P (engine_strategy P pi) m2 s) /\
    forall c, val (run P (engine_strategy P pi) m2 s) c = val (run P (engine_strategy P order) m1 s) c.
Proof.
  intros P s order pi Hs Hw Ho Hp.
  destruct (engine_order_irrelevant_strict P s order pi Hw Ho
              (fun c H => Permutation_in c Hp (Ho c H)) Hs) as [n Hn].
  exists n. intros m1 m2 H1 H2. destruct (Hn m1 m2 H1 H2) as [F1 [F2 E]].
  split; [exact F1|]. split; [exact F2|]. intros c. symmetry. apply E.
Qed.

Theorem C06_acyclic : forall P r s order pi,
  acyclic P r -> wf_init P s -> (forall c, In c (dirty s) -> In c order) -> Permutation order pi ->
  exists n, forall m1 m2, (n <= m1)%nat -> (n <= m2)%nat ->
    final (run P (engine_strategy P order) m1 s) /\ final (run P (engine_strategy P pi) m2 s) /\
    forall c, val (run P (engine_strategy P pi) m2 s) c = val (run P (engine_strategy P order) m1 s) c.
Proof.
  intros P r s order pi Ha Hw Ho Hp.
  destruct (engine_order_irrelevant_acyclic P s order pi Hw Ho
              (fun c H => Permutation_in c Hp (Ho c H)) r Ha) as [n Hn].
  exists n. intros m1 m2 H1 H2. destruct (Hn m1 m2 H1 H2) as [F1 [F2 E]].
  split; [exact F1|]. split; [exact F2|]. intros c. symmetry. apply E.
Qed.

Theorem C06_handlers : forall P s order pi,
  cre_strict_prog P -> wf_init P s -> (forall c, In c (dirty s) -> In c order) -> Permutation order pi ->
  exists n, forall m1 m2, (n <= m1)%nat -> (n <= m2)%nat ->
    final (run P (engine_strategy P order) m1 s) /\ final (run P (engine_strategy P pi) m2 s) /\
    forall c, val (run P (engine_strategy P pi) m2 s) c = val (run P (engine_strategy P order) m1 s) c.
Proof.
  intros P s order pi Hs Hw Ho Hp.
  destruct (engine_order_irrelevant_cre P s order pi Hw Ho
              (fun c H => Permutation_in c Hp (Ho c H)) Hs) as [n Hn].
  exists n. intros m1 m2 H1 H2. destruct (Hn m1 m2 H1 H2) as [F1 [F2 E]].
  split; [exact F1|]. split; [exact F2|]. intros c. symmetry. apply E.
Qed.

(* The engine's row loop iterates a set that nested calls shrink and so sometimes skips a row that
   [engine_strategy] would evaluate: irrelevant for the result.  Every strategy whose run completes, and every
   label sequence the model accepts (a recorded trace that passes check_trace), ends in the values of the modelled
   engine strategy. *)
Theorem row_loop_detail_irrelevant : forall P s order strat n,
  cre_strict_prog P -> wf_init P s -> (forall c, In c (dirty s) -> In c order) ->
  final (run P strat n s) ->
  exists m, final (run P (engine_strategy P order) m s) /\
            forall c, val (run P strat n s) c = val (run P (engine_strategy P order) m s) c.
Proof. exact any_strategy_same_result. Qed.

Theorem accepted_trace_same_result : forall P s order ls r,
  cre_strict_prog P -> wf_init P s -> (forall c, In c (dirty s) -> In c order) ->
  replay P ls s = Some r -> final r ->
  exists m, final (run P (engine_strategy P order) m s) /\
            forall c, val r c = val (run P (engine_strategy P order) m s) c.
Proof. exact any_replay_same_result. Qed.

(* "The stored actions differ at most in order": a cell's value changes at most once in an update loop,
   namely when the cell is computed, so the changes a run records are, as a multiset, the difference between
   initial and final values ([calc_changes]) - and that difference is the same for all complete runs. *)
Theorem sched_value_changes_once : forall P s s' s'' c,
  steps P s s' -> steps P s' s'' -> val s' c <> val s c -> val s'' c = val s' c.
Proof. exact value_changes_once. Qed.

Theorem sched_changes_order_independent : forall P s r1 r2 cs,
  strict_prog P -> wf_init P s -> complete_run P s r1 -> complete_run P s r2 ->
  calc_changes s r1 cs = calc_changes s r2 cs.
Proof.
  intros P s r1 r2 cs Hs Hw H1 H2. unfold calc_changes.
  pose proof (sched_confluent_strict P s r1 r2 Hs Hw H1 H2) as E.
  rewrite (filter_ext _ (fun c => negb (value_eqb (val s c) (val r2 c)))) by (intros c; rewrite E; reflexivity).
  apply map_ext. intros c. rewrite E. reflexivity.
Qed.

(* The engine's two "not making progress" exceptions are unreachable (statements in Props/C18.v too). *)
Theorem sched_progress_checks : forall P v d s, steps P (init_state v d) s -> (nexp s <= ndone s)%nat.
Proof. exact progress_checks_hold. Qed.

(* ---- lookups: "subject only to its own rule that lookup indexes go first" ---------------------------------
   With lookups the loop also INVALIDATES cells while it runs ([xstep]: a lookup index cell that finds a changed key
   makes the cells that looked that key up dirty).  The engine remembers the cells it has computed in the loop and
   never recomputes them, so an invalidation that arrives after its target was computed is lost ([xlost]). *)

(* the loop still terminates: every cell is computed at most once, whatever is invalidated meanwhile *)
Theorem lookups_loop_terminates : forall P isidx iskey U,
  (forall c, P c <> None -> In c U) ->
  well_founded (fun x' x => xinv U x /\ xstep P isidx iskey x x' /\ x' <> x).
Proof. exact xstep_wf. Qed.

(* what "lookups first" buys: if cells other than index/key cells are computed only when no index cell is dirty
   any more, no invalidation is ever lost ... *)
Theorem lookups_first_no_lost_invalidation : forall P isidx iskey s x',
  lf_steps P isidx iskey (mkx s [] false) x' -> xlost x' = false.
Proof. exact lookups_first_no_lost_from_start. Qed.

(* ... the engine's strategy with the index cells first in its priority order is such a schedule (index and key
   formulas read only key and data cells: no key column is computed through a lookup), whatever invalidations
   are interleaved with it ... *)
Theorem engine_order_is_lookups_first : forall P isidx iskey order x x',
  (forall c t, P c = Some t -> special isidx iskey c = true -> reads_key P iskey t) ->
  (forall s c, first_dirty order s = Some c -> idx_dirty isidx s = true -> isidx (fst c) = true) ->
  eng_xsteps P isidx iskey order x x' ->
  has_formulas P (xst x) -> stack_special isidx iskey (xst x) -> no_loss_inv isidx iskey x ->
  xsteps P isidx iskey x x' /\ no_loss_inv isidx iskey x'.
Proof. intros P isidx iskey order x x' H1 H2. apply engine_lookups_first_no_lost; assumption. Qed.

(* ... and once no index cell is dirty the rest of the loop is a run of the plain scheduler: from a state that is
   consistent then (invalidation complete - the subject of C05), every continuation ends in the same values *)
Theorem after_lookups_confluent : forall P isidx iskey x r1 r2,
  cre_strict_prog P -> idx_dirty isidx (xst x) = false -> Inv P (val (xst x)) (xst x) ->
  xsteps P isidx iskey x r1 -> final (xst r1) -> xsteps P isidx iskey x r2 -> final (xst r2) ->
  forall c, val (xst r1) c = val (xst r2) c.
Proof.
  intros P isidx iskey x r1 r2 Hs Hi HI H1 F1 H2 F2 c.
  pose proof (cre_tame P (val (xst x)) Hs) as Ht.
  eapply consistent_unique; eapply result_after_lookups; eassumption.
Qed.

(* Without the rule the result is wrong, not merely different: Z = len(T.lookupRecords(D=$D)), B = $Z + $E after
   [UpdateRecord 2 {D: 1}, UpdateRecord 1 {E: 9}]; with lookups last B[1] is computed from the stale Z[1] and the later
   invalidation is lost (B[1] = 10), with lookups first B[1] = 11, the from-scratch value.  The check replays both
   orders on the real engine. *)
Theorem lookups_first_is_needed :
  exists x1 x2,
    xsteps lk_prog lk_isidx lk_iskey lk_start x1 /\ final (xst x1) /\ xlost x1 = true /\
    val (xst x1) (11,1) = VInt 10 /\
    xsteps lk_prog lk_isidx lk_iskey lk_start x2 /\ final (xst x2) /\ xlost x2 = false /\
    val (xst x2) (11,1) = VInt 11 /\
    scr lk_prog (val_of lk_vals) 5 (11,1) = Some (VInt 11).
Proof. exact lookups_last_loses_an_invalidation. Qed.

(* ---- the code of /repo, regenerated on every run (GristGen.Sched_gen, harness/sk2v.py), is the model's code ------ *)

(* Engine._make_sorted_work_items (sort key, reverse=True) and work_items.pop(): lookup index nodes are processed
   before all other nodes - the side condition of engine_order_is_lookups_first *)
Theorem C06_code_sort_key : forall lk, gen_key_first lk = model_key_first lk.
Proof. exact gen_key_first_is_model. Qed.

Theorem C06_code_lookups_processed_first :
  processed_before gen_key_first gen_sort_reverse gen_pop_last true false = true /\
  processed_before gen_key_first gen_sort_reverse gen_pop_last false true = false.
Proof. exact gen_order_lookups_first. Qed.

Theorem C06_code_order_gives_idx_first : forall isidx idxs rest s c,
  (forall x, In x idxs -> isidx (fst x) = true) -> (forall x, In x rest -> isidx (fst x) = false) ->
  (forall x, In x (dirty s) -> In x (idxs ++ rest)) ->
  first_dirty (idxs ++ rest) s = Some c -> idx_dirty isidx s = true -> isidx (fst c) = true.
Proof. exact idx_first_of_split. Qed.

(* the row loop of Engine._recompute_step and its OrderError handler *)
Theorem C06_code_row_loop : forall a b c d e f g, gen_row_action a b c d e f g = model_row_action a b c d e f g.
Proof. exact gen_row_action_is_model. Qed.

Theorem C06_code_opportunistic_abandoned : forall r, gen_on_order r = model_on_order r.
Proof. exact gen_on_order_is_model. Qed.

(* Engine._update_loop's OrderError handler is the model's [need] transition *)
Theorem C06_code_on_order_error : gen_on_order_error = model_on_order_error.
Proof. exact gen_on_order_error_is_model. Qed.

(* the changes of a node are accumulated over the whole loop (sched_changes_order_independent speaks about all of them) *)
Theorem C06_code_changes_accumulate : gen_changes_acquire = model_changes_acquire.
Proof. exact gen_changes_acquire_is_model. Qed.

(* an OrderError swallowed by the user's handler is re-raised for formula AND trigger-formula cells *)
Theorem C06_code_pending_order_error : gen_pending_reraise = model_pending_reraise.
Proof. exact gen_pending_reraise_is_model. Qed.

Theorem C06_code_need_transition : forall P s c d s',
  exec P (LNeed c d) s = Some s' ->
  locked s' = c :: locked s /\ stack s' = (d, Some c) :: stack s /\ dirty s' = dirty s.
Proof. exact model_need_matches_ops. Qed.

(* The statement at full strength (every program, also formulas with try/except on a cycle) ... *)
Definition C06_all_programs : Prop := forall P s r1 r2,
  wf_init P s -> complete_run P s r1 -> complete_run P s r2 -> forall c, val r1 c = val r2 c.

(* ... is false for the model, with a witness that is replayed on the real engine by the check (known
   finding C06-handler-on-cycle): A = try $B except 7, B = $A.  [sched_confluent] is the statement under
   the narrowest hypothesis that excludes it (no exception handling), [sched_confluent_acyclic] the one
   that keeps handlers but excludes cycles. *)
Theorem C06_refuted : ~ C06_all_programs.
Proof.
  intros H. destruct handler_order_dependent as [Hw [C1 [C2 [V1 V2]]]].
  pose proof (H _ _ _ _ Hw C1 C2 (10, 1)) as E. rewrite V1, V2 in E. discriminate.
Qed.

(* Non-vacuity: programs of the formula grammar without try/except are strict, a freshly loaded
   document is a consistent starting point, and levelled columns are acyclic. *)
Theorem grammar_programs_strict : forall cols rows,
  forallb (fun ce => no_try (snd ce)) cols = true -> strict_prog (prog_of cols rows).
Proof. exact prog_of_strict. Qed.

Theorem grammar_programs_cre_strict : forall cols rows,
  forallb (fun ce => no_cre_catch (snd ce)) cols = true -> cre_strict_prog (prog_of cols rows).
Proof. exact prog_of_cre_strict. Qed.

Theorem fresh_document_wf_init : forall cols rows vals,
  wf_init (prog_of cols rows) (init_state (val_of vals) (formula_cells cols rows)).
Proof. exact wf_init_doc. Qed.

Theorem levelled_programs_acyclic : forall lv cols rows,
  levelled lv cols = true -> acyclic (prog_of cols rows) (fun c => lv (fst c)).
Proof. exact levelled_acyclic. Qed.

(* A = $B + 1, B = $A (a cycle), C = $D * ... acyclic part F = $D + 5 : two rows; two different orders. *)
Definition ex_cols : list (Z * expr) :=
  [(10, EAdd (ECol 11) (EConst 1)); (11, ECol 10); (12, EAdd (ECol 1) (EConst 5)); (13, EAdd (ECol 12) (ECol 10))].
Definition ex_rows : list Z := [1; 2].
Definition ex_vals : list (cell * value) := [((1, 1), VInt 3); ((1, 2), VInt 4)].
Definition ex_init := init_state (val_of ex_vals) (formula_cells ex_cols ex_rows).

Example ex_hypotheses :
  strict_prog (prog_of ex_cols ex_rows) /\ wf_init (prog_of ex_cols ex_rows) ex_init /\
  Permutation (formula_cells ex_cols ex_rows) (rev (formula_cells ex_cols ex_rows)).
Proof.
  split; [apply prog_of_strict; reflexivity|]. split; [apply wf_init_doc | apply Permutation_rev].
Qed.

Example ex_two_orders :
  let P := prog_of ex_cols ex_rows in
  let cells := formula_cells ex_cols ex_rows in
  values_on cells (run P (engine_strategy P cells) 100 ex_init) =
    [VErr CircularRef; VErr CircularRef; VErr CircularRef; VErr CircularRef;
     VInt 8; VInt 9; VErr CircularRef; VErr CircularRef] /\
  values_on cells (run P (engine_strategy P (rev cells)) 100 ex_init) =
  values_on cells (run P (engine_strategy P cells) 100 ex_init) /\
  run_labels P (engine_strategy P (rev cells)) 100 ex_init <> run_labels P (engine_strategy P cells) 100 ex_init.
Proof. split; [vm_compute; reflexivity|]. split; [vm_compute; reflexivity | vm_compute; discriminate]. Qed.

Example ex_handler_hypothesis :
  cre_strict_prog (prog_of [(10, ETryOther (EAdd (ECol 11) EDiv0) 7); (11, ECol 10)] [1; 2]).
Proof. apply prog_of_cre_strict. reflexivity. Qed.

Example ex_levelled : levelled (fun n => Z.to_nat n) [(10, EAdd (ECol 1) (ERef 2 1)); (11, ETry (ECol 10) 0)] = true.
Proof. reflexivity. Qed.
