(* C10, code level.  The functions named gen_* are coq/gen/K4_gen.v: REGENERATED on every run by harness/k4tr.py from
   the text of relation.py (ReferenceRelation), column.py (BaseReferenceColumn, BaseColumn.unset, Reference(List)Column)
   and useractions.py (clean-up condition of doBulkRemoveRecord).  First the bridging obligations (generated = hand
   model, pointwise), then the property theorems restated about the generated functions.  Statements only. *)
From Coq Require Import ZArith List Bool Arith.
Import ListNotations.
Require Import Grist.Model.RefIndex Grist.Model.K4Support GristGen.K4_gen
               Grist.Proofs.RefIndex_proofs Grist.Proofs.RefIndex_removal Grist.Proofs.K4_bridge Grist.Proofs.K4_code.

(* ---- bridging obligations ------------------------------------------------------------------------------------ *)
Theorem code_get_affected_rows : forall m l, gen_get_affected_rows m (Rows l) = ARSet (Fresh (get_affected_rows l m)).
Proof. exact gen_get_affected_rows_rows. Qed.

Theorem code_get_affected_rows_all : forall m, gen_get_affected_rows m AllRows = ARAll.
Proof. exact gen_get_affected_rows_all. Qed.

Theorem code_add_reference : forall m r t, gen_add_reference m r t = add_reference r t m.
Proof. exact gen_add_reference_eq. Qed.

Theorem code_remove_reference : forall m r t, gen_remove_reference m r t = remove_reference r t m.
Proof. exact gen_remove_reference_eq. Qed.

Theorem code_relation_clear : forall m, gen_rel_clear m = [].
Proof. exact gen_rel_clear_eq. Qed.

Theorem code_update_references : forall c r o n,
  gen_update_references c r o n = bind (update_references (rc_kind c) r o n (rc_inv c)) (fun m => Ok (with_inv c m)).
Proof. exact gen_update_references_eq. Qed.

Theorem code_set : forall hack c r v, gen_set hack c r v = col_set hack c r v.
Proof. exact gen_set_eq. Qed.

Theorem code_unset : forall hack c r, gen_unset hack c r = col_unset hack c r.
Proof. exact gen_unset_eq. Qed.

Theorem code_clear : forall c, gen_clear c = col_clear_fixed c.
Proof. exact gen_clear_eq. Qed.

Theorem code_copy_from_column : forall c data, gen_copy_from c data = Ok (col_copy_from c data).
Proof. exact gen_copy_from_eq. Qed.

Theorem code_raw_get_without : forall c r ts, gen_raw_get_without c r ts = raw_get_without c r ts.
Proof. exact gen_raw_get_without_eq. Qed.

Theorem code_get_updates : forall c ts, gen_get_updates c ts = get_updates c ts.
Proof. exact gen_get_updates_eq. Qed.

Theorem code_cleanup_condition : forall is_formula has_formula is_reference is_ref is_reflist,
  gen_cleanup_skips is_formula has_formula is_reference is_ref is_reflist = is_formula || negb is_reference.
Proof. exact gen_cleanup_skips_eq. Qed.

Theorem code_run : forall hack k ops, gen_run hack k ops = run hack k ops.
Proof. exact gen_run_eq. Qed.

(* ---- the property, about the generated functions ------------------------------------------------------------ *)
(* the reverse index is exactly the reverse of the cells after ANY sequence of the generated set / unset /
   copy_from_column / clear (and growto) on a new column; nothing raises *)
Theorem C10_code_inverse_map_exact : forall hack k ops,
  exists c, gen_run hack k ops = Ok c /\
    forall t, inv_get t (rc_inv c) = filter (fun r => memZ t (refs c r)) (seq 0 (length (rc_data c))).
Proof. exact gen_run_exact. Qed.

(* with an exact index the generated get_updates_for_removed_target_rows never raises; it lists exactly the rows whose
   cell mentions a removed target, each with its cell minus ALL occurrences of the removed targets, in order
   ([] -> None, Ref -> 0) ... *)
Theorem C10_code_cleanup_values : forall c ts, inv_ok c ->
  let rows := get_affected_rows ts (rc_inv c) in
  gen_get_updates c ts = Ok (map (fun r => (r, cell_without (rc_kind c) (raw_get c r) ts)) rows) /\
  (forall r, In r rows <-> exists t, In t ts /\ In t (refs c r)).
Proof. exact gen_get_updates_spec. Qed.

(* ... and such a cell mentions no removed target any more *)
Theorem C10_code_cleanup_no_refs : forall k v ts t, In t ts -> ~ In t (value_iterable k (cell_without k v ts)).
Proof. exact cell_without_no_refs. Qed.

(* doBulkRemoveRecord applies this to a back-reference column exactly when it is a reference column and not a formula
   column; whether a DATA column also carries a (default / trigger) formula makes no difference *)
Theorem C10_code_cleanup_applies : forall is_formula has_formula is_ref is_reflist,
  gen_cleanup_skips is_formula has_formula true is_ref is_reflist = false <-> is_formula = false.
Proof. intros. rewrite gen_cleanup_skips_eq. destruct is_formula; cbn; split; congruence. Qed.

Example C10_code_nonvacuous :
  gen_get_updates {| rc_kind := KRefList; rc_data := [CNone; CList [2; 3; 2]%Z; CList [2; 2]%Z];
                     rc_inv := [(2%Z, [1; 2]); (3%Z, [1])] |} [2%Z]
  = Ok [(1, CList [3%Z]); (2, CNone)].
Proof. vm_compute. reflexivity. Qed.
