(* C21 -- Generated identifiers are valid and unique (identifiers.py).
   Statements only; proofs are in Proofs/Ident_proofs.v, the model in Model/Ident.v.

   Every theorem is for ALL requested names (any list of code points, or None), ALL avoid sets, and ALL
   instances of the library oracles (nfkd, combining, upper_char, cap_char, udigit) that satisfy the named
   ASCII hypotheses (upper_ok, cap_ok, nfkd_ok, combining_ok, upper_idem_ok: Model/Ident.v).  The keyword
   list is GristGen.Kwlist_gen.kwlist, regenerated from keyword.kwlist of the running Python on every run.
   `pick_* = Some r` means the function returns r; None would be "search fuel exhausted" and is excluded by
   the *_terminates theorems. *)
From Coq Require Import ZArith List Bool.
Import ListNotations.
Require Import Grist.Model.Ident GristGen.Kwlist_gen Grist.Proofs.Ident_proofs.
Open Scope Z_scope.

(* The two facts about the regenerated keyword list that the proofs use: no keyword ends in a digit, no
   keyword is made of capital letters only. *)
Theorem C21_kwlist_facts : kw_facts kwlist = true.
Proof. vm_compute. reflexivity. Qed.

Section C21.
  Variable nfkd : str -> str.
  Variable combining : Z -> bool.
  Variable upper_char cap_char : Z -> str.
  Variable udigit : Z -> bool.

  Local Notation pick_col := (pick_col_ident nfkd combining upper_char cap_char udigit kwlist).
  Local Notation pick_table := (pick_table_ident nfkd combining upper_char cap_char udigit kwlist).
  Local Notation pick_list := (pick_col_ident_list nfkd combining upper_char cap_char udigit kwlist).
  Local Notation up := (upper upper_char).

  (* ---- termination: the numeric-suffix search and the A..Z,AA.. search end within |avoid|+1 steps
     (pigeonhole: |avoid|+1 pairwise different candidates cannot all be avoided) ---- *)
  Theorem C21_suffix_search_terminates : upper_ok upper_char ->
    forall base avoid k, suffix_loop upper_char (S (length avoid)) base avoid k <> None.
  Proof. exact (suffix_loop_total upper_char). Qed.

  Theorem C21_letter_search_terminates : forall avoid, gen_loop (S (length avoid)) [65] avoid <> None.
  Proof. exact gen_loop_total. Qed.

  Theorem C21_pick_col_terminates : upper_ok upper_char -> cap_ok cap_char ->
    forall ident avoid, pick_col ident avoid <> None.
  Proof. intros U C. exact (pick_col_total nfkd combining upper_char cap_char udigit kwlist U C C21_kwlist_facts). Qed.

  Theorem C21_pick_table_terminates : upper_ok upper_char -> cap_ok cap_char ->
    forall ident avoid, pick_table ident avoid <> None.
  Proof. intros U C. exact (pick_table_total nfkd combining upper_char cap_char udigit kwlist U C C21_kwlist_facts). Qed.

  Theorem C21_pick_list_terminates : upper_ok upper_char -> cap_ok cap_char ->
    forall idents avoid, pick_list idents avoid <> None.
  Proof. intros U C. exact (pick_list_total nfkd combining upper_char cap_char udigit kwlist U C C21_kwlist_facts). Qed.

  (* ---- validity: [A-Za-z][A-Za-z0-9_]*, not a keyword; table ids start with a capital letter ---- *)
  Theorem C21_pick_col_valid : upper_ok upper_char -> cap_ok cap_char ->
    forall ident avoid r, pick_col ident avoid = Some r ->
    valid_identb r = true /\ iskeyword kwlist r = false.
  Proof. intros U C. exact (pick_col_valid nfkd combining upper_char cap_char udigit kwlist U C C21_kwlist_facts). Qed.

  Theorem C21_pick_table_valid : upper_ok upper_char -> cap_ok cap_char ->
    forall ident avoid r, pick_table ident avoid = Some r ->
    valid_table_identb r = true /\ valid_identb r = true /\ iskeyword kwlist r = false.
  Proof. intros U C. exact (pick_table_valid nfkd combining upper_char cap_char udigit kwlist U C C21_kwlist_facts). Qed.

  (* ---- freshness: differs from every existing name after upper-casing (the code's notion of
     case-insensitive equality) ... ---- *)
  Theorem C21_pick_col_fresh : upper_ok upper_char -> cap_ok cap_char ->
    forall ident avoid r, pick_col ident avoid = Some r ->
    forall a, In a avoid -> up r <> up a.
  Proof. intros U C. exact (pick_col_fresh nfkd combining upper_char cap_char udigit kwlist U C C21_kwlist_facts). Qed.

  Theorem C21_pick_table_fresh : upper_ok upper_char -> cap_ok cap_char ->
    forall ident avoid r, pick_table ident avoid = Some r ->
    forall a, In a avoid -> up r <> up a.
  Proof. intros U C. exact (pick_table_fresh nfkd combining upper_char cap_char udigit kwlist U C C21_kwlist_facts). Qed.

  (* ... which for ASCII existing names (every id the engine stores is one) is plain ASCII case folding,
     with no library function in the statement *)
  Theorem C21_pick_col_fresh_ascii : upper_ok upper_char -> cap_ok cap_char ->
    forall ident avoid r, pick_col ident avoid = Some r ->
    forall a, In a avoid -> forallb is_ascii a = true -> map ascii_upper r <> map ascii_upper a.
  Proof. intros U C. exact (pick_col_fresh_ascii nfkd combining upper_char cap_char udigit kwlist U C C21_kwlist_facts). Qed.

  Theorem C21_pick_table_fresh_ascii : upper_ok upper_char -> cap_ok cap_char ->
    forall ident avoid r, pick_table ident avoid = Some r ->
    forall a, In a avoid -> forallb is_ascii a = true -> map ascii_upper r <> map ascii_upper a.
  Proof. intros U C. exact (pick_table_fresh_ascii nfkd combining upper_char cap_char udigit kwlist U C C21_kwlist_facts). Qed.

  (* ---- batches: one id per request, each valid and fresh, pairwise different case-insensitively ---- *)
  Theorem C21_pick_list_pairwise_distinct : upper_ok upper_char -> cap_ok cap_char ->
    forall idents avoid rs, pick_list idents avoid = Some rs ->
    length rs = length idents /\
    Forall (fun r => valid_identb r = true /\ iskeyword kwlist r = false) rs /\
    (forall r, In r rs -> forall a, In a avoid -> up r <> up a) /\
    NoDup (map up rs) /\ NoDup (map (map ascii_upper) rs).
  Proof. intros U C. exact (pick_list_props nfkd combining upper_char cap_char udigit kwlist U C C21_kwlist_facts). Qed.

  (* ---- a requested name that is already valid and unused is kept as is ---- *)
  Theorem C21_valid_unused_kept_col : cap_ok cap_char -> nfkd_ok nfkd -> combining_ok combining ->
    forall s avoid, valid_identb s = true -> iskeyword kwlist s = false ->
    (forall a, In a avoid -> up s <> up a) -> pick_col (Some s) avoid = Some s.
  Proof. exact (pick_col_kept nfkd combining upper_char cap_char udigit kwlist). Qed.

  Theorem C21_valid_unused_kept_table : cap_ok cap_char -> nfkd_ok nfkd -> combining_ok combining ->
    forall s avoid, valid_table_identb s = true -> iskeyword kwlist s = false ->
    (forall a, In a avoid -> up s <> up a) -> pick_table (Some s) avoid = Some s.
  Proof. exact (pick_table_kept nfkd combining upper_char cap_char udigit kwlist). Qed.

  (* per element of a batch: valid, not a keyword, unused by the avoid set and by the ids chosen before it *)
  Theorem C21_valid_unused_kept_batch_element :
    cap_ok cap_char -> nfkd_ok nfkd -> combining_ok combining -> upper_idem_ok upper_char ->
    forall pre s post avoid rs, pick_list (pre ++ Some s :: post) avoid = Some rs ->
    valid_identb s = true -> iskeyword kwlist s = false ->
    (forall a, In a avoid -> up s <> up a) ->
    (forall r, In r (firstn (length pre) rs) -> up s <> up r) ->
    nth_error rs (length pre) = Some s.
  Proof. exact (pick_list_elem_kept nfkd combining upper_char cap_char udigit kwlist). Qed.

  (* a whole batch of valid, pairwise different, unused names is returned unchanged *)
  Theorem C21_valid_unused_kept_batch :
    cap_ok cap_char -> nfkd_ok nfkd -> combining_ok combining -> upper_idem_ok upper_char ->
    forall ss avoid, Forall (fun s => valid_identb s = true /\ iskeyword kwlist s = false) ss ->
    NoDup (map up ss) -> (forall s, In s ss -> forall a, In a avoid -> up s <> up a) ->
    pick_list (map Some ss) avoid = Some ss.
  Proof. exact (pick_col_ident_list_kept nfkd combining upper_char cap_char udigit kwlist). Qed.
End C21.

(* ---- non-vacuity: the hypotheses hold for the table-driven oracle instances the correspondence check
   runs (any tables; here: dotless i upper-cases to I, e-acute decomposes to e + combining acute), and the
   model computes what identifiers.py returns on these inputs ---- *)
Example C21_hypotheses_satisfiable :
  upper_ok (t_upper ex_tables) /\ cap_ok (t_cap ex_tables) /\ nfkd_ok (t_nfkd ex_tables) /\
  combining_ok (t_comb ex_tables).
Proof. exact (table_oracles_ok ex_tables). Qed.

Example C21_upper_idem_satisfiable : upper_idem_ok (t_upper ex_tables).
Proof. exact ex_tables_upper_idem. Qed.

Example C21_nonvacuous :
  (* "class" is a keyword -> "cclass"; "i", with dotless-i and "I2" taken -> "i3"; no name, A and b taken -> "C";
     e-acute + "t" + e-acute -> "ete"; table "none" -> "TNone"; no table name, "table1" taken -> "Table2" *)
  run_pick_col ex_tables kwlist (Some [99; 108; 97; 115; 115]) [] = Some [99; 99; 108; 97; 115; 115] /\
  run_pick_col ex_tables kwlist (Some [105]) [[305]; [73; 50]] = Some [105; 51] /\
  run_pick_col ex_tables kwlist None [[65]; [98]] = Some [67] /\
  run_pick_col ex_tables kwlist (Some [233; 116; 233]) [] = Some [101; 116; 101] /\
  run_pick_table ex_tables kwlist (Some [110; 111; 110; 101]) [] = Some [84; 78; 111; 110; 101] /\
  run_pick_table ex_tables kwlist None [[116; 97; 98; 108; 101; 49]] = Some [84; 97; 98; 108; 101; 50] /\
  run_pick_list ex_tables kwlist [Some [65]; Some [97]; Some [65; 50]; None] [] =
    Some [[65]; [97; 50]; [65; 50; 95; 50]; [66]].
Proof. vm_compute. repeat split. Qed.

(* ==== the code itself ==========================================================================================
   GristGen.Ident_gen is identifiers.py translated by harness/id2v.py from the CURRENT source on every run
   (src_sanitize_ident, src_add_suffix, src_maybe_add_suffix, src_uppercase, src_gen_ident, src_pick_table_ident,
   src_pick_col_ident, src_pick_col_ident_list).  The bridging theorems say that each translated function equals the
   model function pointwise (no hypothesis on the oracles); the C21_code_* theorems are the property about the
   translated functions. *)
Require Import Grist.Lib.IdPrelude GristGen.Ident_gen Grist.Proofs.Ident_bridge.

Section C21_code.
  Variable nfkd : str -> str.
  Variable combining : Z -> bool.
  Variable upper_char cap_char : Z -> str.
  Variable udigit : Z -> bool.

  Local Notation s_col := (src_pick_col_ident nfkd combining upper_char cap_char udigit kwlist).
  Local Notation s_table := (src_pick_table_ident nfkd combining upper_char cap_char udigit kwlist).
  Local Notation s_list := (src_pick_col_ident_list nfkd combining upper_char cap_char udigit kwlist).
  Local Notation up := (upper upper_char).

  Theorem C21_bridge_uppercase : forall avoid, src_uppercase upper_char avoid = uppercase upper_char avoid.
  Proof. exact (bridge_uppercase upper_char). Qed.
  Theorem C21_bridge_sanitize_ident : forall ident prefix capitalize,
    src_sanitize_ident nfkd combining cap_char kwlist ident prefix capitalize
    = sanitize_ident nfkd combining cap_char kwlist ident prefix capitalize.
  Proof. exact (bridge_sanitize_ident nfkd combining cap_char kwlist). Qed.
  Theorem C21_bridge_add_suffix : forall base avoid k,
    src_add_suffix upper_char udigit base avoid k = add_suffix upper_char udigit base avoid k.
  Proof. exact (bridge_add_suffix upper_char udigit). Qed.
  Theorem C21_bridge_maybe_add_suffix : forall ident avoid,
    src_maybe_add_suffix upper_char udigit ident avoid = maybe_add_suffix upper_char udigit ident avoid.
  Proof. exact (bridge_maybe_add_suffix upper_char udigit). Qed.
  Theorem C21_bridge_gen_ident : forall avoid, src_gen_ident upper_char avoid = gen_ident upper_char avoid.
  Proof. exact (bridge_gen_ident upper_char). Qed.
  Theorem C21_bridge_pick_table_ident : forall ident avoid,
    s_table ident avoid = pick_table_ident nfkd combining upper_char cap_char udigit kwlist ident avoid.
  Proof. exact (bridge_pick_table_ident nfkd combining upper_char cap_char udigit kwlist). Qed.
  Theorem C21_bridge_pick_col_ident : forall ident avoid,
    s_col ident avoid = pick_col_ident nfkd combining upper_char cap_char udigit kwlist ident avoid.
  Proof. exact (bridge_pick_col_ident nfkd combining upper_char cap_char udigit kwlist). Qed.
  Theorem C21_bridge_pick_col_ident_list : forall idents avoid,
    s_list idents avoid = pick_col_ident_list nfkd combining upper_char cap_char udigit kwlist idents avoid.
  Proof. exact (bridge_pick_col_ident_list nfkd combining upper_char cap_char udigit kwlist). Qed.

  Theorem C21_code_terminates : upper_ok upper_char -> cap_ok cap_char -> forall ident idents avoid,
    s_col ident avoid <> None /\ s_table ident avoid <> None /\ s_list idents avoid <> None.
  Proof. intros U C. exact (code_terminates nfkd combining upper_char cap_char udigit kwlist U C C21_kwlist_facts). Qed.

  Theorem C21_code_pick_col_ident : upper_ok upper_char -> cap_ok cap_char ->
    forall ident avoid r, s_col ident avoid = Some r ->
    valid_identb r = true /\ iskeyword kwlist r = false /\ (forall a, In a avoid -> up r <> up a).
  Proof. intros U C. exact (code_pick_col nfkd combining upper_char cap_char udigit kwlist U C C21_kwlist_facts). Qed.

  Theorem C21_code_pick_table_ident : upper_ok upper_char -> cap_ok cap_char ->
    forall ident avoid r, s_table ident avoid = Some r ->
    valid_table_identb r = true /\ valid_identb r = true /\ iskeyword kwlist r = false /\
    (forall a, In a avoid -> up r <> up a).
  Proof. intros U C. exact (code_pick_table nfkd combining upper_char cap_char udigit kwlist U C C21_kwlist_facts). Qed.

  Theorem C21_code_pick_col_ident_list : upper_ok upper_char -> cap_ok cap_char ->
    forall idents avoid rs, s_list idents avoid = Some rs ->
    length rs = length idents /\
    Forall (fun r => valid_identb r = true /\ iskeyword kwlist r = false) rs /\
    (forall r, In r rs -> forall a, In a avoid -> up r <> up a) /\
    NoDup (map up rs) /\ NoDup (map (map ascii_upper) rs).
  Proof. intros U C. exact (code_pick_list nfkd combining upper_char cap_char udigit kwlist U C C21_kwlist_facts). Qed.

  Theorem C21_code_valid_unused_kept : cap_ok cap_char -> nfkd_ok nfkd -> combining_ok combining ->
    forall s avoid, valid_identb s = true -> iskeyword kwlist s = false ->
    (forall a, In a avoid -> up s <> up a) ->
    s_col (Some s) avoid = Some s /\ (valid_table_identb s = true -> s_table (Some s) avoid = Some s).
  Proof. exact (code_kept nfkd combining upper_char cap_char udigit kwlist). Qed.

  Theorem C21_code_valid_unused_kept_batch_element :
    cap_ok cap_char -> nfkd_ok nfkd -> combining_ok combining -> upper_idem_ok upper_char ->
    forall pre s post avoid rs, s_list (pre ++ Some s :: post) avoid = Some rs ->
    valid_identb s = true -> iskeyword kwlist s = false ->
    (forall a, In a avoid -> up s <> up a) ->
    (forall r, In r (firstn (length pre) rs) -> up s <> up r) ->
    nth_error rs (length pre) = Some s.
  Proof. exact (code_kept_batch_element nfkd combining upper_char cap_char udigit kwlist). Qed.
End C21_code.
