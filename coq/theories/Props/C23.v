(* C23 -- Changing a column's type converts each stored value.
   Statements only; the model is Model/ModifyColumn.v (docactions.ModifyColumn + useractions.doModifyColumn data
   path), proofs are in Proofs/ModifyColumn_proofs.v.  All statements hold for every value type V, every
   column-level conversion col_convert, every storing normalisation col_set, every strict_equal, every document,
   every column content (any list of stored values, any set of row ids). *)
From Coq Require Import ZArith List Bool Lia.
Import ListNotations.
Require Import Grist.Model.ModifyColumn Grist.Proofs.ModifyColumn_proofs GristGen.ModifyColumn_gen
               Grist.Proofs.ModifyColumn_bridge.

Section C23.
  Variable V : Type.
  Variable col_convert : V -> V.
  Variable col_set : V -> V.
  Variable strict_equal : V -> V -> bool.
  Variable dflt : V.
  Variable rev_set : V -> V.

  Notation modify_column := (modify_column V col_convert col_set strict_equal dflt).
  Notation modify_with_reverse := (modify_with_reverse V col_convert col_set strict_equal dflt rev_set).

  (* The full statement of the property on the data path: after the type change every cell of the column is the
     column-level conversion of its previous stored value. *)
  Definition C23_statement : Prop :=
    forall size0 d t c d' tb old r,
      modify_column size0 d t c = Ok d' ->
      get_table V d t = Some tb -> get_col V (t_cols tb) c = Some old -> In r (t_rows tb) ->
      cell V d' t c r = Some (col_convert (raw_get V (c_default old) (c_data old) r)).

  (* What the code does, with no hypothesis: the stored value is the conversion passed through the new column's
     `set` (or the old value passed through `set` when the conversion is strict_equal to it). *)
  Theorem C23_modify_cell_exact : forall size0 d t c d' tb old r,
    modify_column size0 d t c = Ok d' ->
    get_table V d t = Some tb -> get_col V (t_cols tb) c = Some old -> In r (t_rows tb) ->
    let ov := raw_get V (c_default old) (c_data old) r in
    cell V d' t c r = Some (if strict_equal ov (col_convert ov) then col_set ov else col_set (col_convert ov)).
  Proof. exact (modify_cell_exact V col_convert col_set strict_equal dflt). Qed.

  (* The property, for every cell on whose old value `set` leaves the converted value alone (and agrees with the
     conversion when strict_equal says nothing changed).  These two facts are compared with the running code for
     every type pair and value by the check; the only values on which they fail are reported (C23_refuted). *)
  Theorem C23_modify_converts : forall size0 d t c d' tb old r,
    modify_column size0 d t c = Ok d' ->
    get_table V d t = Some tb -> get_col V (t_cols tb) c = Some old -> In r (t_rows tb) ->
    let ov := raw_get V (c_default old) (c_data old) r in
    col_set (col_convert ov) = col_convert ov ->
    (strict_equal ov (col_convert ov) = true -> col_set ov = col_convert ov) ->
    cell V d' t c r = Some (col_convert ov).
  Proof.
    intros size0 d t c d' tb old r Hm Ht Hc Hin ov H1 H2.
    rewrite (modify_cell_exact V col_convert col_set strict_equal dflt size0 d t c d' tb old r Hm Ht Hc Hin).
    fold ov. destruct (strict_equal ov (col_convert ov)); [rewrite H2; reflexivity | rewrite H1; reflexivity].
  Qed.

  (* ... also when the reverse column of a two-way reference is updated afterwards *)
  Theorem C23_modify_converts_with_reverse : forall size0 d t c rt rc upd d' tb old r,
    modify_with_reverse size0 d t c (Some (rt, rc, upd)) = Ok d' -> (t, c) <> (rt, rc) ->
    get_table V d t = Some tb -> get_col V (t_cols tb) c = Some old -> In r (t_rows tb) ->
    let ov := raw_get V (c_default old) (c_data old) r in
    col_set (col_convert ov) = col_convert ov ->
    (strict_equal ov (col_convert ov) = true -> col_set ov = col_convert ov) ->
    cell V d' t c r = Some (col_convert ov).
  Proof.
    intros size0 d t c rt rc upd d' tb old r Hm Hne Ht Hc Hin ov H1 H2.
    rewrite (modify_with_reverse_cell V col_convert col_set strict_equal dflt rev_set
               size0 d t c rt rc upd d' tb old r Hm Hne Ht Hc Hin).
    fold ov. destruct (strict_equal ov (col_convert ov)); [rewrite H2; reflexivity | rewrite H1; reflexivity].
  Qed.

  (* Frame: no cell of any other column of the table, or of any other table, changes; tables, row ids and column
     sets stay the same.  (Formula results are recomputed by the engine afterwards; the reverse column is the
     next theorem.) *)
  Theorem C23_modify_frame : forall size0 d t c d',
    modify_column size0 d t c = Ok d' ->
    (forall t' c' r, (t', c') <> (t, c) -> cell V d' t' c' r = cell V d t' c' r) /\
    map fst d' = map fst d /\
    (forall t', match get_table V d' t', get_table V d t' with
                | Some tb', Some tb => t_rows tb' = t_rows tb /\ map fst (t_cols tb') = map fst (t_cols tb)
                | None, None => True
                | _, _ => False
                end).
  Proof.
    intros size0 d t c d' Hm. split; [|exact (modify_frame_rows V col_convert col_set strict_equal dflt size0 d t c d' Hm)].
    exact (modify_frame_cell V col_convert col_set strict_equal dflt size0 d t c d' Hm).
  Qed.

  Theorem C23_modify_frame_with_reverse : forall size0 d t c rt rc upd d',
    modify_with_reverse size0 d t c (Some (rt, rc, upd)) = Ok d' ->
    forall t' c' r, (t', c') <> (t, c) -> (t', c') <> (rt, rc) -> cell V d' t' c' r = cell V d t' c' r.
  Proof. exact (modify_with_reverse_frame V col_convert col_set strict_equal dflt rev_set). Qed.

  (* Rows that are not rows of the table hold the new type's default in the new column object. *)
  Theorem C23_other_rows_default : forall size0 rows old r,
    ~ In r rows ->
    raw_get V dflt (c_data (new_column V col_convert col_set strict_equal dflt size0 rows old)) r = dflt.
  Proof. exact (new_column_other_rows V col_convert col_set strict_equal dflt). Qed.

  (* The emitted value changes (the stored BulkUpdateRecord) are exactly the rows whose value is not strict_equal
     to its conversion, each with the value that was stored. *)
  Theorem C23_changes_exact : forall rows old r ov nv,
    In (r, ov, nv) (ua_changes V col_convert col_set strict_equal rows old) <->
    In r rows /\ ov = raw_get V (c_default old) (c_data old) r /\ nv = col_set (col_convert ov) /\
    strict_equal ov (col_convert ov) = false.
  Proof. exact (changes_spec V col_convert col_set strict_equal). Qed.

  (* The full statement, for every conversion whose column stores converted values unchanged.  On the current source
     (after commit 31c0c3e) both facts hold on the implementation for every column type and every generated value:
     the check evaluates them on each cell and reports any exception as a violation. *)
  Theorem C23_modify_converts_all :
    (forall v, col_set (col_convert v) = col_convert v) ->
    (forall v, strict_equal v (col_convert v) = true -> col_set v = col_convert v) ->
    C23_statement.
  Proof.
    intros H1 H2 size0 d t c d' tb old r Hm Ht Hc Hin.
    apply (C23_modify_converts size0 d t c d' tb old r Hm Ht Hc Hin); [apply H1 | apply H2].
  Qed.
End C23.

(* ---- Why the hypothesis is there: with the `set` ReferenceListColumn had before commit 31c0c3e (it re-parsed the
   alt-text "[n]" that its own conversion produces for an int n >= 2^31) the full statement fails: the cell ends up as
   the list [n] and not as the alt-text.  The check keeps the engine witness of that defect in its corpus. *)
Definition c23_doc : doc tv :=
  [([84%Z], {| t_rows := [1%nat]; t_cols := [([65%Z], {| c_default := TNone; c_data := [TNone; TInt 2147483648] |})] |})].

Theorem C23_hypothesis_needed :
  ~ C23_statement tv mini_reflist_convert mini_reflist_set_old tv_eqb TNone.
Proof.
  intro H.
  specialize (H 2%nat c23_doc [84%Z] [65%Z]
                (match modify_column tv mini_reflist_convert mini_reflist_set_old tv_eqb TNone 2 c23_doc [84%Z] [65%Z] with
                 | Ok d' => d' | Err _ => [] end)
                {| t_rows := [1%nat]; t_cols := [([65%Z], {| c_default := TNone; c_data := [TNone; TInt 2147483648] |})] |}
                {| c_default := TNone; c_data := [TNone; TInt 2147483648] |} 1%nat
                eq_refl eq_refl eq_refl (or_introl eq_refl)).
  vm_compute in H. discriminate H.
Qed.

(* ... and with the repaired `set` (short ints only) the miniature satisfies both facts for EVERY value, hence the
   full statement for every document and column content. *)
Theorem C23_repaired_reflist : C23_statement tv mini_reflist_convert mini_reflist_set tv_eqb TNone.
Proof.
  apply C23_modify_converts_all.
  - intro v. destruct v as [|n|s|l]; try reflexivity.
    + cbn. destruct (n =? 0)%Z; [reflexivity|]. destruct (short n) eqn:E; [reflexivity|].
      cbn. rewrite E, andb_false_r. reflexivity.
    + cbn. destruct (is_bracketed s) as [n|] eqn:Eb; [|cbn; rewrite Eb; reflexivity].
      destruct ((0 <? n)%Z && short n)%bool eqn:E; [reflexivity|]. cbn. rewrite Eb, E. reflexivity.
  - intros v Hse. destruct v as [|n|s|l]; try reflexivity.
    exfalso. cbn in Hse. destruct (n =? 0)%Z; [discriminate|]. destruct (short n); discriminate.
Qed.

(* Non-vacuity of C23_modify_converts: a column [None, 5, 0, "x"] converted by the miniature conversion; the
   hypotheses hold for every row and the cells are the conversions. *)
Example C23_nonvacuous :
  let old := {| c_default := TNone; c_data := [TNone; TInt 5; TInt 0; TStr [120%Z]] |} in
  let d := [([84%Z], {| t_rows := [1; 2; 3]%nat; t_cols := [([65%Z], old); ([66%Z], old)] |})] in
  exists d', modify_column tv mini_reflist_convert mini_reflist_set tv_eqb TNone 1 d [84%Z] [65%Z] = Ok d' /\
    (forall r, In r [1; 2; 3]%nat ->
       let ov := raw_get tv TNone (c_data old) r in
       mini_reflist_set (mini_reflist_convert ov) = mini_reflist_convert ov /\
       (tv_eqb ov (mini_reflist_convert ov) = true -> mini_reflist_set ov = mini_reflist_convert ov)) /\
    cell tv d' [84%Z] [65%Z] 1 = Some (TList [5%Z]) /\
    cell tv d' [84%Z] [65%Z] 2 = Some TNone /\
    cell tv d' [84%Z] [65%Z] 3 = Some (TStr [120%Z]) /\
    cell tv d' [84%Z] [66%Z] 1 = Some (TInt 5).
Proof.
  cbv zeta. eexists. split; [vm_compute; reflexivity|].
  split.
  - intros r [<-|[<-|[<-|[]]]]; vm_compute; split; try reflexivity; intro; try reflexivity; discriminate.
  - vm_compute. repeat split; reflexivity.
Qed.

(* ---- the code itself: the two loops are REGENERATED from /repo on every run (GristGen.ModifyColumn_gen, translated by
   harness/sm2v.py from useractions.doModifyColumn and docactions.ModifyColumn) and bridged pointwise to the model ---- *)
Section C23_code.
  Variable V : Type.
  Variable col_convert : V -> V.
  Variable col_set : V -> V.
  Variable strict_equal : V -> V -> bool.
  Variable dflt : V.

  Theorem C23_bridge_fill_loop : forall rows old new,
    fill_loop_gen V col_set dflt rows old new = da_fill V col_set dflt rows old new.
  Proof. exact (fill_loop_bridge V col_set dflt). Qed.

  Theorem C23_bridge_conv_loop : forall rows old new,
    conv_loop_gen V col_convert col_set strict_equal dflt rows (old_values V old) new =
    (ua_convert V col_convert col_set strict_equal dflt rows old new, ua_changes V col_convert col_set strict_equal rows old).
  Proof. exact (conv_loop_bridge V col_convert col_set strict_equal dflt). Qed.

  (* the property about the regenerated code: the new column object built by the two translated loops *)
  Theorem C23_code_cell_exact : forall size0 rows old r, In r rows ->
    let ov := raw_get V (c_default old) (c_data old) r in
    raw_get V dflt (new_data_gen V col_convert col_set strict_equal dflt size0 rows old) r =
    if strict_equal ov (col_convert ov) then col_set ov else col_set (col_convert ov).
  Proof. exact (code_cell V col_convert col_set strict_equal dflt). Qed.

  Theorem C23_code_modify_converts : forall size0 rows old r, In r rows ->
    (forall v, col_set (col_convert v) = col_convert v) ->
    (forall v, strict_equal v (col_convert v) = true -> col_set v = col_convert v) ->
    raw_get V dflt (new_data_gen V col_convert col_set strict_equal dflt size0 rows old) r =
    col_convert (raw_get V (c_default old) (c_data old) r).
  Proof.
    intros size0 rows old r Hin H1 H2. rewrite (code_cell V col_convert col_set strict_equal dflt size0 rows old r Hin).
    cbv zeta. destruct (strict_equal _ _) eqn:E; [apply H2; exact E | apply H1].
  Qed.

  (* the regenerated loop emits exactly the changes of the model (C23_changes_exact speaks about them) *)
  Theorem C23_code_changes : forall rows old new,
    snd (conv_loop_gen V col_convert col_set strict_equal dflt rows (old_values V old) new) =
    ua_changes V col_convert col_set strict_equal rows old.
  Proof. intros. rewrite (conv_loop_bridge V col_convert col_set strict_equal dflt). reflexivity. Qed.
End C23_code.
