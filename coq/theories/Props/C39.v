(* C39 -- RenameChoices renames exactly the mapped choices.
   `rename_action` (Model/Choices.v) is the hand-written model of UserActions.RenameChoices with
   ChoiceColumn.rename_choices / ChoiceListColumn._rename_cell_choice as repaired by /repo commits 789e828 (only
   actual records are updated) and 9e0465d (only list-valued filter entries are renamed); it is compared with the
   real engine (apply_user_actions, fetch_table of the table and of _grist_Filters) by harness/props/c39.py on
   every run.  Statements only; proofs are in Proofs/Choices_proofs.v. *)
From Coq Require Import ZArith List Bool.
Import ListNotations.
Require Import Grist.Lib.PyVal Grist.Lib.PyImp Grist.Model.Choices Grist.Model.ChoicesPy Grist.Proofs.Choices_proofs.
Require Import GristGen.Choices_gen Grist.Proofs.Choices_bridge.
Open Scope Z_scope.

(* ------------------------------------------------------------------------------------------------
   The property at full strength: for every table state, column kind, set of saved filters and rename map the
   action succeeds; the cell of every record in the target column becomes the simultaneous substitution
   (spec_cols / spec_data / spec_cell); the by-value lists of the column's saved filters become the same
   substitution, range bounds are kept, a filter is rewritten only when that changes it (spec_filters);
   nothing else changes.
   The single hypothesis left: the saved filter texts of THIS column are empty or JSON objects (what the
   application stores).  It is genuinely needed: see C39_non_object_filter_raises. *)
Theorem C39_full_statement : forall st cid k is_formula colref ren,
  filters_are_objects colref (s_filters st) ->
  rename_action st cid k is_formula colref ren =
  Ok (spec_cols k ren (s_ids st) cid is_formula (s_cols st), spec_filters ren colref (s_filters st)).
Proof. exact rename_action_full. Qed.

(* the only failure: AttributeError, caused by a filter of this column that is JSON but not an object *)
Theorem C39_failure_cause : forall st cid k is_formula colref ren e,
  rename_action st cid k is_formula colref ren = Err e ->
  e = ErrAttributeError /\ In (colref, FNotObj) (s_filters st).
Proof. exact rename_action_err. Qed.

Example C39_non_object_filter_raises :
  rename_action (mkState [0; 1] [([67], [VStr []; VStr [120]])] [(2, FNotObj)]) [67] Choice false 2 [([120], [121])]
  = Err ErrAttributeError.
Proof. vm_compute. reflexivity. Qed.

(* rename_simultaneous, without any hypothesis: whenever the action succeeds the columns are the specification:
   the target column mapped record by record through spec_cell, i.e. ONE lookup of the ORIGINAL content of each
   Choice cell / each element of a ChoiceList cell (a map of the substitution, not a sequence of replacements),
   every other column as it was; a formula column is not rewritten. *)
Theorem C39_rename_simultaneous : forall st cid k is_formula colref ren cols' fl',
  rename_action st cid k is_formula colref ren = Ok (cols', fl') ->
  cols' = spec_cols k ren (s_ids st) cid is_formula (s_cols st).
Proof. exact rename_simultaneous. Qed.

Theorem C39_target_column : forall k ren ids cid cols i data,
  nth_error cols i = Some (cid, data) ->
  nth_error (spec_cols k ren ids cid false cols) i = Some (cid, spec_data k ren ids data).
Proof. exact spec_cols_target. Qed.

(* every record's cell is substituted; slot 0 and the slots of removed rows are left alone *)
Theorem C39_target_cells : forall k ren ids data j v,
  nth_error data j = Some v ->
  nth_error (spec_data k ren ids data) j = Some (if is_record ids j then spec_cell k ren v else v).
Proof. exact spec_data_nth. Qed.

(* the substitution looks each original value up once: a value that is a key goes to its target even when
   that target is itself a key; in particular swaps work *)
Theorem C39_single_lookup : forall ren s n,
  ren_get ren s = Some n ->
  spec_cell Choice ren (VStr s) = VStr n /\ rename_elem ren (VStr s) = VStr n.
Proof. intros ren s n H. simpl. rewrite (ren_apply_hit _ _ _ H). split; reflexivity. Qed.

Theorem C39_swap : forall a b, a <> b ->
  let ren := [(a, b); (b, a)] in
  spec_cell Choice ren (VStr a) = VStr b /\ spec_cell Choice ren (VStr b) = VStr a /\
  spec_cell ChoiceList ren (VTuple [VStr a; VStr b]) = VTuple [VStr b; VStr a] /\
  forall c, c <> a -> c <> b -> spec_cell Choice ren (VStr c) = VStr c.
Proof.
  intros a b Hne ren. destruct (swap_apply a b Hne) as [H1 [H2 H3]]. subst ren. simpl. fold (ren_apply [(a, b); (b, a)] a).
  repeat split.
  - rewrite H1. reflexivity.
  - fold (ren_apply [(a, b); (b, a)] b). rewrite H2. reflexivity.
  - fold (ren_apply [(a, b); (b, a)] b). rewrite H1, H2. reflexivity.
  - intros c Ha Hb. rewrite (H3 c Ha Hb). reflexivity.
Qed.

(* the saved filters of the column: same keys in the same order; a list entry is the element-wise substitution,
   any other entry (range bound) is kept; rewritten only when something changes *)
Theorem C39_filter_shape : forall ren es,
  map fst (spec_entries ren es) = map fst es /\
  (forall i k l, nth_error es i = Some (k, FList l) ->
                 nth_error (spec_entries ren es) i = Some (k, FList (map (rename_elem ren) l))) /\
  (forall i k t, nth_error es i = Some (k, FOther t) -> nth_error (spec_entries ren es) i = Some (k, FOther t)).
Proof. exact spec_entries_shape. Qed.

Theorem C39_filter_rewritten_iff_changed : forall ren f new,
  spec_filter ren f = Some new -> exists es, f = FObj es /\ new = spec_entries ren es /\ new <> es.
Proof. exact spec_filter_changed. Qed.

Theorem C39_range_filter_kept : forall ren es,
  (forall k e, In (k, e) es -> exists t, e = FOther t) -> spec_filter ren (FObj es) = None.
Proof. exact spec_filter_range_kept. Qed.

(* rename_frame.  Everything not in the mapping is unchanged: *)

(* (a) a cell none of whose choices is a key is the same cell afterwards (None, alt text, numbers, lists with
       non-string items have no choices at all) *)
Theorem C39_frame_cell : forall k ren v,
  (forall s, In s (cell_choices k v) -> ren_get ren s = None) -> spec_cell k ren v = v.
Proof. exact spec_cell_frame. Qed.

(* (b) within a choice list, length and positions are kept and an element that is not a key stays *)
Theorem C39_frame_elements : forall ren l,
  forallb is_str l = true ->
  exists l', spec_cell ChoiceList ren (VTuple l) = VTuple l' /\ length l' = length l /\
             (forall i s, nth_error l i = Some (VStr s) -> nth_error l' i = Some (VStr (ren_apply ren s))) /\
             (forall i s, nth_error l i = Some (VStr s) -> ren_get ren s = None -> nth_error l' i = Some (VStr s)).
Proof. exact spec_cell_elements. Qed.

(* (c) other columns of the table are untouched, no column or row slot is added or removed *)
Theorem C39_frame_columns : forall k ren ids cid is_formula cols,
  length (spec_cols k ren ids cid is_formula cols) = length cols /\
  forall i c data, nth_error cols i = Some (c, data) -> c <> cid ->
                   nth_error (spec_cols k ren ids cid is_formula cols) i = Some (c, data).
Proof. exact spec_cols_other. Qed.

Theorem C39_frame_length : forall k ren ids data, length (spec_data k ren ids data) = length data.
Proof. exact spec_data_length. Qed.

(* (d) filters of other columns are never touched, whatever they and the filters of this column contain *)
Theorem C39_frame_other_filters : forall st cid k is_formula colref ren cols' fl',
  rename_action st cid k is_formula colref ren = Ok (cols', fl') ->
  length fl' = length (s_filters st) /\
  forall i cr f, nth_error (s_filters st) i = Some (cr, f) -> cr <> colref -> nth_error fl' i = Some None.
Proof. exact rename_other_filters_untouched. Qed.

(* (e) filter values that are not keys of the mapping (other strings, numbers, null, nested lists) are kept,
       and a filter in which nothing is mapped is not rewritten at all *)
Theorem C39_frame_filter_values : forall ren v, in_renames ren v = false -> rename_elem ren v = v.
Proof. exact rename_elem_miss. Qed.

Theorem C39_frame_filter_untouched : forall ren es,
  (forall k l v, In (k, FList l) es -> In v l -> in_renames ren v = false) ->
  spec_filter ren (FObj es) = None.
Proof. exact spec_filter_untouched. Qed.

(* ------------------------------------------------------------------------------------------------
   The tie to the source.  GristGen.Choices_gen holds, translated from /repo on every run by harness/imp2v.py:
   ChoiceColumn._rename_cell_choice, ChoiceListColumn._rename_cell_choice, ChoiceColumn.rename_choices (column.py)
   and two fragments of UserActions.RenameChoices (useractions.py): the only-records filter of the data half and
   the loop over the saved filters of the column (with its nested `rename` helper). *)

(* the scan over the column's storage produces exactly the model's list of updates (row ids, new values) *)
Theorem C39_source_scan : forall k ren data,
  rename_choices k data ren = Val (zs (updates k ren data)).
Proof. exact rename_choices_bridge. Qed.

(* behind the guard of the scan, the two _rename_cell_choice methods compute the model's rename_cell *)
Theorem C39_source_cell : forall k ren v,
  (negb (val_is_none v) && py_is_right_type k v = false -> rename_cell k ren v = None) /\
  (negb (val_is_none v) && py_is_right_type k v = true ->
   rename_cell_choice k ren v = Val (as_val (rename_cell k ren v))).
Proof. exact cell_bridge. Qed.

(* the row ids and values RenameChoices hands to BulkUpdateRecord are the updates of actual records only: the list
   the model's rename_column trims and applies *)
Theorem C39_source_records : forall k ren ids data,
  rename_records k data ids ren = Val (zs (only_records ids (updates k ren data))).
Proof. exact rename_records_bridge. Qed.

(* the cell data is rewritten exactly when the column is not a formula column (isFormula), whatever has_formula()
   says: a DATA column that carries a default or trigger formula is renamed like any other data column; this is the
   `if is_formula then ... else rename_cols ...` of the model's rename_action *)
Theorem C39_source_guard : forall is_formula has_formula,
  rename_guard is_formula has_formula = Val (negb is_formula).
Proof. exact rename_guard_bridge. Qed.

(* the filter loop, run on the records of the column, rewrites exactly the records for which the model's
   rename_filter says Some, with that content, and raises AttributeError exactly when the model does *)
Theorem C39_source_filters : forall ren c recs,
  rename_filter_records ren recs =
  match rename_filters ren c (map (fun r => (c, snd r)) recs) with
  | Ok outs => Val (collect recs outs)
  | Err _ => Exn AttributeError
  end.
Proof. exact rename_filter_records_bridge. Qed.

(* ------------------------------------------------------------------------------------------------
   Regression examples: the three inputs on which the code failed before commits 789e828 / 9e0465d. *)

(* {'': 'z'} on a Choice column: the record's empty cell is renamed, slot 0 keeps its default '' *)
Example C39_empty_choice_ok :
  rename_action (mkState [0; 1] [([67], [VStr []; VStr []])] []) [67] Choice false 2 [([], [122])]
  = Ok ([([67], [VStr []; VStr [122]])], []).
Proof. vm_compute. reflexivity. Qed.

(* a range filter {"min": 5} (FOther 0) and a relative-date bound (FOther 1) on the column are not touched *)
Example C39_range_filter_kept_example :
  let st := mkState [0; 1] [([67], [VStr []; VStr [120]])]
                    [(2, FObj [([109; 105; 110], FOther 0)]); (2, FObj [([109; 105; 110], FOther 1); ([105], FList [VStr [120]])])] in
  rename_action st [67] Choice false 2 [([120], [121])] =
  Ok ([([67], [VStr []; VStr [121]])], [None; Some [([109; 105; 110], FOther 1); ([105], FList [VStr [121]])]]).
Proof. vm_compute. reflexivity. Qed.

(* Non-vacuity of C39_full_statement: rows 1,2 live (row 3 removed), Choice column C = [x, y], other column D,
   the swap {x:y, y:x}, one by-value filter on the column (rewritten), one on another column and an empty one
   (untouched).  A sequential replacement would have produced [x, x] or [y, y]. *)
Example C39_nonvacuous :
  let x := [120] in let y := [121] in
  let st := mkState [0; 1; 2; 0] [([67], [VStr []; VStr x; VStr y; VStr []]); ([68], [VStr []; VStr x; VStr x; VStr []])]
                    [(2, FObj [([105], FList [VStr x; VInt 1; VStr [113]])]); (3, FObj [([105], FList [VStr x])]); (2, FEmpty)] in
  let ren := [(x, y); (y, x)] in
  filters_are_objects 2 (s_filters st) /\
  rename_action st [67] Choice false 2 ren =
  Ok ([([67], [VStr []; VStr y; VStr x; VStr []]); ([68], [VStr []; VStr x; VStr x; VStr []])],
      [Some [([105], FList [VStr y; VInt 1; VStr [113]])]; None; None]).
Proof.
  cbv zeta. split.
  - intros cr f Hin _. destruct Hin as [H|[H|[H|[]]]]; injection H as <- <-; reflexivity.
  - vm_compute. reflexivity.
Qed.
