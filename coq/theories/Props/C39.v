(* C39 -- RenameChoices renames exactly the mapped choices.
   `rename_action` (Model/Choices.v) is the hand-written model of UserActions.RenameChoices with
   ChoiceColumn.rename_choices / ChoiceListColumn._rename_cell_choice; it is compared with the real engine
   (apply_user_actions, fetch_table of the table and of _grist_Filters) by harness/props/c39.py on every run.
   Statements only; proofs are in Proofs/Choices_proofs.v. *)
From Coq Require Import ZArith List Bool.
Import ListNotations.
Require Import Grist.Lib.PyVal Grist.Model.Choices Grist.Proofs.Choices_proofs.
Open Scope Z_scope.

(* ------------------------------------------------------------------------------------------------
   The property at full strength: for every table state, column kind, set of saved filters and rename map the
   action succeeds, the target column becomes the cell-wise simultaneous substitution, the by-value filters
   of the column become the same substitution, and nothing else changes (in particular a saved filter of
   another form, such as a range filter, stays as it is). *)

Definition spec_filters_full (ren : renames) (colref : Z) (fs : list (Z * filt)) :=
  map (fun cf => if Z.eqb (fst cf) colref
                 then (if well_formed_filter (snd cf) then spec_filter ren (snd cf) else None)
                 else None) fs.

Definition C39_full_statement : Prop :=
  forall st cid k is_formula colref ren,
    rename_action st cid k is_formula colref ren =
    Ok (spec_cols k ren cid is_formula (s_cols st), spec_filters_full ren colref (s_filters st)).

(* The unchanged code violates it in three ways (all three reproduced on the implementation by the check):

   1. rename_choices walks over every slot of the column's storage, also slot 0 (the empty record) and the
      slots of removed rows, which hold the default ''.  A mapping with the key '' therefore produces an
      update for a row id that is not a record and the whole action fails with AssertionError. *)
Theorem C39_refuted_empty_choice :
  let st := mkState [0; 1] [([67], [VStr []; VStr []])] [] in           (* column "C" = ['' (slot 0), ''] *)
  rename_action st [67] Choice false 2 [([], [122])] = Err ErrAssertion. (* {'': 'z'} *)
Proof. vm_compute. reflexivity. Qed.

(*  2. the filter loop assumes every entry of a saved filter is a list: a range filter {"min": 5} raises
       TypeError ... *)
Theorem C39_refuted_range_filter :
  let st := mkState [0; 1] [([67], [VStr []; VStr [120]])] [(2, FObj [([109; 105; 110], FAtom)])] in
  rename_action st [67] Choice false 2 [([120], [121])] = Err ErrTypeError.
Proof. vm_compute. reflexivity. Qed.

(*  3. ... and a relative-date bound {"min": {"quantity": .., "unit": ..}} is silently replaced by the list of
       its keys (here with a mapping that does not even mention them). *)
Theorem C39_refuted_relative_bound :
  let q := [113] in let u := [117] in
  let st := mkState [0; 1] [([67], [VStr []; VStr [120]])] [(2, FObj [([109; 105; 110], FDict [q; u])])] in
  rename_action st [67] Choice false 2 [([120], [121])] =
  Ok ([([67], [VStr []; VStr [121]])], [Some [([109; 105; 110], [VStr q; VStr u])]]).
Proof. vm_compute. reflexivity. Qed.

Theorem C39_refuted : ~ C39_full_statement.
Proof.
  intros H. specialize (H (mkState [0; 1] [([67], [VStr []; VStr []])] []) [67] Choice false 2 [([], [122])]).
  vm_compute in H. discriminate H.
Qed.

(* ------------------------------------------------------------------------------------------------
   What holds for ALL cell contents, filters and mappings. *)

(* The full statement under the narrowest hypotheses that exclude the three defects: no slot that is not a
   record holds a value the mapping changes (safe_state), and every saved filter of the column is empty or an
   object of lists (filters_well_formed). *)
Theorem C39_rename_partial : forall st cid k is_formula colref ren,
  safe_state st cid k is_formula ren -> filters_well_formed colref (s_filters st) ->
  rename_action st cid k is_formula colref ren =
  Ok (spec_cols k ren cid is_formula (s_cols st), spec_filters_full ren colref (s_filters st)).
Proof.
  intros st cid k f colref ren Hs Hw. rewrite (rename_succeeds st cid k f colref ren Hs Hw). do 2 f_equal.
  unfold spec_filters, spec_filters_full. apply map_ext_in. intros [cr fl] Hin. simpl.
  destruct (Z.eqb cr colref) eqn:E; [|reflexivity]. apply Z.eqb_eq in E. rewrite (Hw cr fl Hin E). reflexivity.
Qed.

(* rename_simultaneous.  Whenever the action succeeds - whatever the hypotheses - the columns afterwards are:
   the target column mapped cell by cell through spec_cell, i.e. ONE lookup of the ORIGINAL content of each
   Choice cell / each element of a ChoiceList cell (result = map of the substitution, not a sequence of
   replacements), every other column as it was; a formula column is not rewritten. *)
Theorem C39_rename_simultaneous : forall st cid k is_formula colref ren cols' fl',
  rename_action st cid k is_formula colref ren = Ok (cols', fl') ->
  cols' = spec_cols k ren cid is_formula (s_cols st).
Proof. exact rename_simultaneous. Qed.

Theorem C39_target_column : forall k ren cid cols i data,
  nth_error cols i = Some (cid, data) ->
  nth_error (spec_cols k ren cid false cols) i = Some (cid, map (spec_cell k ren) data).
Proof. exact spec_cols_target. Qed.

(* the substitution looks each original value up once: a value that is a key goes to its target even when
   that target is itself a key; in particular swaps work *)
Theorem C39_single_lookup : forall ren s n,
  ren_get ren s = Some n ->
  spec_cell Choice ren (VStr s) = VStr n /\ rename_elem ren (VStr s) = VStr n.
Proof. intros ren s n H. simpl. rewrite (ren_apply_hit _ _ _ H). split; reflexivity. Qed.

Theorem C39_swap : forall a b, a <> b ->
  let ren := [(a, b); (b, a)] in
  spec_cell Choice ren (VStr a) = VStr b /\ spec_cell Choice ren (VStr b) = VStr a /\
  spec_cell ChoiceList ren (VTuple [VStr a; VStr b]) = VTuple [VStr b; VStr a] /\
  forall c, c <> a -> c <> b -> spec_cell Choice ren (VStr c) = VStr c.
Proof.
  intros a b Hne ren. destruct (swap_apply a b Hne) as [H1 [H2 H3]]. subst ren. simpl. fold (ren_apply [(a, b); (b, a)] a).
  repeat split.
  - rewrite H1. reflexivity.
  - fold (ren_apply [(a, b); (b, a)] b). rewrite H2. reflexivity.
  - fold (ren_apply [(a, b); (b, a)] b). rewrite H1, H2. reflexivity.
  - intros c Ha Hb. rewrite (H3 c Ha Hb). reflexivity.
Qed.

(* the saved filters of the column (by-value form): the same substitution on their string elements;
   rewritten only when it changes something *)
Theorem C39_filters : forall st cid k is_formula colref ren cols' fl',
  rename_action st cid k is_formula colref ren = Ok (cols', fl') ->
  filters_well_formed colref (s_filters st) ->
  fl' = spec_filters ren colref (s_filters st).
Proof. exact rename_filters_spec. Qed.

Theorem C39_filter_shape : forall ren es,
  map fst (spec_entries ren es) = map fst es /\
  forall i k e, nth_error es i = Some (k, e) ->
                nth_error (spec_entries ren es) i = Some (k, map (rename_elem ren) (entry_list e)).
Proof. exact spec_entries_shape. Qed.

Theorem C39_filter_rewritten_iff_changed : forall ren f new,
  spec_filter ren f = Some new ->
  exists es, f = FObj es /\ new = spec_entries ren es /\ new <> filter_content es.
Proof. exact spec_filter_changed. Qed.

(* rename_frame.  Everything not in the mapping is unchanged: *)

(* (a) a cell none of whose choices is a key is the same cell afterwards (None, alt text, numbers, lists with
       non-string items have no choices at all) *)
Theorem C39_frame_cell : forall k ren v,
  (forall s, In s (cell_choices k v) -> ren_get ren s = None) -> spec_cell k ren v = v.
Proof. exact spec_cell_frame. Qed.

(* (b) within a choice list, length and positions are kept and an element that is not a key stays *)
Theorem C39_frame_elements : forall ren l,
  forallb is_str l = true ->
  exists l', spec_cell ChoiceList ren (VTuple l) = VTuple l' /\ length l' = length l /\
             (forall i s, nth_error l i = Some (VStr s) -> nth_error l' i = Some (VStr (ren_apply ren s))) /\
             (forall i s, nth_error l i = Some (VStr s) -> ren_get ren s = None -> nth_error l' i = Some (VStr s)).
Proof. exact spec_cell_elements. Qed.

(* (c) other columns of the table are untouched, no column is added or removed *)
Theorem C39_frame_columns : forall k ren cid is_formula cols,
  length (spec_cols k ren cid is_formula cols) = length cols /\
  forall i c data, nth_error cols i = Some (c, data) -> c <> cid ->
                   nth_error (spec_cols k ren cid is_formula cols) i = Some (c, data).
Proof. exact spec_cols_other. Qed.

(* (d) filters of other columns are never touched, whatever they and the filters of this column contain *)
Theorem C39_frame_other_filters : forall st cid k is_formula colref ren cols' fl',
  rename_action st cid k is_formula colref ren = Ok (cols', fl') ->
  length fl' = length (s_filters st) /\
  forall i cr f, nth_error (s_filters st) i = Some (cr, f) -> cr <> colref -> nth_error fl' i = Some None.
Proof. exact rename_other_filters_untouched. Qed.

(* (e) filter values that are not keys of the mapping (other strings, numbers, null, nested lists) are kept,
       and a filter in which nothing is mapped is not rewritten at all *)
Theorem C39_frame_filter_values : forall ren v, in_renames ren v = false -> rename_elem ren v = v.
Proof. exact rename_elem_miss. Qed.

Theorem C39_frame_filter_untouched : forall ren es,
  (forall k e v, In (k, e) es -> In v (entry_list e) -> in_renames ren v = false) ->
  spec_filter ren (FObj es) = None.
Proof. exact spec_filter_untouched. Qed.

(* The only way the data half fails: an effective rename of a slot that is not a record. *)
Theorem C39_failure_cause : forall k ren ids data e,
  rename_column k ren ids data = Err e ->
  e = ErrAssertion /\ exists i v n, nth_error data i = Some v /\ rename_cell k ren v = Some n /\ n <> v /\
                                    is_record ids i = false.
Proof. exact rename_column_err. Qed.

(* ------------------------------------------------------------------------------------------------
   Non-vacuity: a state satisfying both hypotheses of C39_rename_partial on which the action does something:
   rows 1,2 live (row 3 removed), Choice column C = [x, y], other column D, the swap {x:y, y:x}, one by-value
   filter on the column (rewritten), one on another column and an empty one (untouched).  A sequential
   replacement would have produced [x, x] or [y, y]. *)
Example C39_nonvacuous :
  let x := [120] in let y := [121] in
  let st := mkState [0; 1; 2; 0] [([67], [VStr []; VStr x; VStr y; VStr []]); ([68], [VStr []; VStr x; VStr x; VStr []])]
                    [(2, FObj [([105], FList [VStr x; VInt 1; VStr [113]])]); (3, FObj [([105], FList [VStr x])]); (2, FEmpty)] in
  let ren := [(x, y); (y, x)] in
  safe_state st [67] Choice false ren /\ filters_well_formed 2 (s_filters st) /\
  rename_action st [67] Choice false 2 ren =
  Ok ([([67], [VStr []; VStr y; VStr x; VStr []]); ([68], [VStr []; VStr x; VStr x; VStr []])],
      [Some [([105], [VStr y; VInt 1; VStr [113]])]; None; None]).
Proof.
  cbv zeta. split; [|split].
  - intros _ c data Hin Heq. destruct Hin as [H|[H|[]]]; injection H as <- <-.
    + eapply rename_column_ok_safe. vm_compute. reflexivity.
    + vm_compute in Heq. discriminate.
  - intros cr f Hin _. destruct Hin as [H|[H|[H|[]]]]; injection H as <- <-; reflexivity.
  - vm_compute. reflexivity.
Qed.
