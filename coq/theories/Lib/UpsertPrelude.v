(* Combinators that harness/up2v.py maps the Python statements and expressions of
   UserActions.BulkAddOrUpdateRecord / AddOrUpdateRecord to (C28).  Definitions only.
   Python dicts are association lists in insertion order (keys unique), sets of column ids are duplicate-free
   lists, exceptions are the `res` monad of Model/Upsert.v (KeyError and everything raised by the opaque record
   machinery = EEnv). *)
From Coq Require Import ZArith List Bool.
Import ListNotations.
Require Import Grist.Model.Upsert.
Open Scope Z_scope.

Definition rbind {A B} (m : res A) (k : A -> res B) : res B :=
  match m with Ok a => k a | Err x => Err x end.

(* for x in l: body  (body ends normally or by `continue`: both give the next state; `raise` gives Err) *)
Fixpoint for_m {X S} (l : list X) (s : S) (body : X -> S -> res S) : res S :=
  match l with
  | [] => Ok s
  | x :: t => match body x s with Ok s' => for_m t s' body | Err e => Err e end
  end.

(* {x for x in l if p x} / [f x for x in l] with a condition / element that may raise *)
Fixpoint filter_m {X} (p : X -> res bool) (l : list X) : res (list X) :=
  match l with
  | [] => Ok []
  | x :: t => match p x with
              | Err e => Err e
              | Ok b => match filter_m p t with
                        | Err e => Err e
                        | Ok r => Ok (if b then x :: r else r)
                        end
              end
  end.
Fixpoint map_m {X Y} (f : X -> res Y) (l : list X) : res (list Y) :=
  match l with
  | [] => Ok []
  | x :: t => match f x with
              | Err e => Err e
              | Ok y => match map_m f t with Err e => Err e | Ok r => Ok (y :: r) end
              end
  end.

(* sets of column ids *)
Definition py_set (l : list col) : list col := dedup Z.eqb l.
Definition set_union (a b : list col) : list col := a ++ filter (fun k => negb (memz k a)) b.
Definition set_diff (a b : list col) : list col := filter (fun k => negb (memz k b)) a.

(* d[k] of a dict of lists; KeyError when absent *)
Fixpoint kv_lookup (d : kv) (k : col) : res (list val) :=
  match d with [] => Err EEnv | (k', l) :: t => if k' =? k then Ok l else kv_lookup t k end.

(* {k: [] for k in keys}; m[k].append(v) *)
Definition cm_new (keys : list col) : kv := map (fun k => (k, [])) keys.
Fixpoint cm_append (m : kv) (k : col) (v : val) : res kv :=
  match m with
  | [] => Err EEnv
  | (k', l) :: t =>
      if k' =? k then Ok ((k', l ++ [v]) :: t)
      else match cm_append t k v with Ok t' => Ok ((k', l) :: t') | Err e => Err e end
  end.

(* d[k] = v ; d.update(d2) ; d.pop(k, None) on a dict of values *)
Fixpoint dict_set (d : cells) (k : col) (v : val) : cells :=
  match d with
  | [] => [(k, v)]
  | (k', v') :: t => if k' =? k then (k', v) :: t else (k', v') :: dict_set t k v
  end.
Definition dict_update (d d2 : cells) : cells := fold_left (fun acc p => dict_set acc (fst p) (snd p)) d2 d.
Definition dict_pop (d : cells) (k : col) : option val * cells :=
  (get k d, filter (fun p => negb (fst p =? k)) d).

Definition on_many_eqb (a b : on_many) : bool :=
  match a, b with
  | OnFirst, OnFirst | OnNone, OnNone | OnAll, OnAll | OnBad, OnBad => true
  | _, _ => false
  end.

(* result['recordIds'] = v etc. *)
Definition ret_set_record_ids (r : retval) (v : list (list Z)) : retval :=
  {| r_record_ids := v; r_add_ids := r_add_ids r; r_update_ids := r_update_ids r |}.
Definition ret_set_add_ids (r : retval) (v : list Z) : retval :=
  {| r_record_ids := r_record_ids r; r_add_ids := v; r_update_ids := r_update_ids r |}.
Definition ret_set_update_ids (r : retval) (v : list (list Z)) : retval :=
  {| r_record_ids := r_record_ids r; r_add_ids := r_add_ids r; r_update_ids := v |}.

Fixpoint enumerate_from {A} (i : nat) (l : list A) : list (nat * A) :=
  match l with [] => [] | x :: t => (i, x) :: enumerate_from (S i) t end.
Definition py_enumerate {A} (l : list A) : list (nat * A) := enumerate_from 0 l.

(* What the action calls on the table, the column objects, the metadata and the two record actions: opaque
   parameters of the translated code. *)
Record oenv := {
  oe_is_formula : col -> res bool;       (* table.get_column(key).is_formula()   (KeyError: no such column) *)
  oe_has_formula : col -> res bool;      (* table.get_column(key).has_formula() *)
  oe_rec_formula : col -> bool;          (* truth of docmodel.get_column_rec(table_id, key).formula *)
  oe_lookup : table -> cells -> list Z;  (* [r.id for r in table.lookup_records( **d )] *)
  oe_bulk_add : table -> list (option val) -> kv -> res (table * list Z);   (* self.BulkAddRecord *)
  oe_bulk_update : table -> list Z -> kv -> res table                        (* self.BulkUpdateRecord *)
}.
