(* Primitives the generated coq/gen/Deps_gen.v (harness/dep2v*.py) is written over: Python's set / dict operations on
   the graph state as modelled in Model/Deps.v and DepsExec.v. *)
From Coq Require Import ZArith List Bool.
Import ListNotations.
Require Import Grist.Model.Deps Grist.Model.DepsSpec Grist.Model.DepsExec.
Open Scope Z_scope.

(* x == depend.ALL_ROWS *)
Definition rowset_is_all (x : rowset) : bool := match x with AllRows => true | Rows _ => false end.
(* iterating a row batch that is not ALL_ROWS *)
Definition rowset_list (x : rowset) : list row := match x with AllRows => [] | Rows l => l end.

(* edge in <set of edges> *)
Definition edge_mem (e : edge) (s : list edge) : bool := existsb (edge_eqb e) s.
(* _all_edges.remove(edge) *)
Definition edges_remove (E : list edge) (e : edge) : list edge := filter (fun x => negb (edge_eqb e x)) E.
(* _out_node_map.get(n, ()) / _in_node_map.get(n, ()): views of the edge set *)
Definition out_edges (E : list edge) (n : node) : list edge := filter (fun e => Z.eqb (e_out e) n) E.
Definition in_edges (E : list edge) (n : node) : list edge := filter (fun e => Z.eqb (e_in e) n) E.

(* recompute_map[n] = x *)
Definition g_set_map (g : gst) (n : node) (x : rowset) : gst :=
  mkG (g_edges g) (g_rel g) (map_set (g_map g) n x) (n :: g_nodes g).
(* rows already in recompute_map[n] (none if absent) *)
Definition gen_old_rows (M : node -> option rowset) (n : node) : list row :=
  match M n with Some (Rows o) => o | _ => [] end.
(* recompute_map.setdefault(n, SortedSet()).update(rows) *)
Definition g_add_rows (g : gst) (n : node) (l : list row) : gst :=
  g_set_map g n (Rows (gen_old_rows (g_map g) n ++ l)).
