(* Helpers for the generated correspondence cases (DESIGN.md section 4.2). *)
From Coq Require Import List Bool Arith.
Import ListNotations.

Fixpoint failing_from {A} (f : A -> bool) (i : nat) (l : list A) : list nat :=
  match l with
  | [] => []
  | x :: t => if f x then failing_from f (S i) t else i :: failing_from f (S i) t
  end.

(* indexes of the cases on which the check is not true *)
Definition failing {A} (f : A -> bool) (l : list A) : list nat := failing_from f 0 l.
