(* A small exact model of Python floats (IEEE-754 binary64) over Z.

   A finite non-zero float is kept as an exact dyadic number m * 2^e.  The canonical form (what the harness
   writes and what every operation here returns) has m odd.  NaN is a single value (Python code cannot tell
   payloads apart), zeros keep their sign.  Only the operations that usertypes.py / objtypes.py / moment.py
   perform on floats at the Python level are defined: classification, exact comparison with integers,
   int(float), float(int) and the correctly rounded results of int/int true division, subtraction and
   multiplication (all through one rounding function, round-half-even to 53 bits with subnormals/overflow). *)
From Coq Require Import ZArith List Bool Lia.
Import ListNotations.
Open Scope Z_scope.

Inductive pyfloat :=
| FNan
| FInf (neg : bool)
| FZero (neg : bool)
| FNum (m e : Z).

Definition f_is_nan (f : pyfloat) : bool := match f with FNan => true | _ => false end.
Definition f_is_inf (f : pyfloat) : bool := match f with FInf _ => true | _ => false end.
Definition f_is_zero (f : pyfloat) : bool :=
  match f with FZero _ => true | FNum m _ => m =? 0 | _ => false end.

(* trailing zero bits / odd part of a positive number: structural on the binary representation *)
Fixpoint pos_ctz (p : positive) : Z := match p with xO q => 1 + pos_ctz q | _ => 0 end.
Fixpoint pos_odd_part (p : positive) : positive := match p with xO q => pos_odd_part q | _ => p end.

(* canonical form: odd mantissa *)
Definition f_canon (f : pyfloat) : pyfloat :=
  match f with
  | FNum 0 _ => FZero false
  | FNum (Zpos p) e => FNum (Zpos (pos_odd_part p)) (e + pos_ctz p)
  | FNum (Zneg p) e => FNum (Zneg (pos_odd_part p)) (e + pos_ctz p)
  | _ => f
  end.

Definition bitlen (a : Z) : Z := if a <=? 0 then 0 else Z.log2 a + 1.

(* sign, magnitude q > 0 at exponent e -> float, with overflow to infinity *)
Definition f_mk (neg : bool) (q e : Z) : pyfloat :=
  if q =? 0 then FZero neg
  else if bitlen q + e >? 1024 then FInf neg
  else f_canon (FNum (if neg then - q else q) e).

(* round m * 2^e to the nearest binary64 (ties to even) *)
Definition f_round (m e : Z) : pyfloat :=
  if m =? 0 then FZero false else
  let neg := m <? 0 in
  let a := Z.abs m in
  let e' := Z.max (bitlen a + e - 53) (-1074) in
  if e' <=? e then f_mk neg a e
  else
    let sh := e' - e in
    let q := Z.shiftr a sh in
    let r := a - Z.shiftl q sh in
    let half := Z.shiftl 1 (sh - 1) in
    let q' := if (r >? half) || ((r =? half) && Z.odd q) then q + 1 else q in
    f_mk neg q' e'.

(* float(n) for a Python int: None stands for OverflowError *)
Definition f_of_Z (n : Z) : option pyfloat :=
  match f_round n 0 with
  | FInf _ => None
  | f => Some f
  end.

(* correctly rounded p / q (q > 0), as int.__truediv__ and timedelta.total_seconds compute it *)
Definition f_div_Z (p q : Z) : pyfloat :=
  if p =? 0 then FZero false else
  let a := Z.abs p in
  let k := Z.max 0 (56 + bitlen q - bitlen a) in
  let n := Z.shiftl a k in
  let d := n / q in
  let sticky := if n mod q =? 0 then 0 else 1 in
  let m := 2 * d + sticky in
  f_round (if p <? 0 then - m else m) (- k - 1).

Inductive trunc_result := TrOk (z : Z) | TrOverflow | TrValueError.

(* int(f) *)
Definition f_trunc (f : pyfloat) : trunc_result :=
  match f with
  | FNan => TrValueError
  | FInf _ => TrOverflow
  | FZero _ => TrOk 0
  | FNum m e => if 0 <=? e then TrOk (m * 2 ^ e) else TrOk (Z.quot m (2 ^ (- e)))
  end.

(* f == n for a Python int n (exact) *)
Definition f_eq_Z (f : pyfloat) (n : Z) : bool :=
  match f with
  | FZero _ => n =? 0
  | FNum m e => if 0 <=? e then m * 2 ^ e =? n else (m =? n * 2 ^ (- e))
  | _ => false
  end.

(* abs(f) < 2**k for finite f *)
Definition f_abs_lt_pow2 (f : pyfloat) (k : Z) : bool :=
  match f with
  | FZero _ => true
  | FNum m e => if 0 <=? e then Z.abs m * 2 ^ e <? 2 ^ k else Z.abs m <? 2 ^ (k - e)
  | _ => false
  end.

(* Python float equality a == b *)
Definition f_eq (a b : pyfloat) : bool :=
  match a, b with
  | FNan, _ | _, FNan => false
  | FInf x, FInf y => Bool.eqb x y
  | FZero _, FZero _ => true
  | FNum m e, FNum m' e' =>
      if e <=? e' then m =? m' * 2 ^ (e' - e) else m * 2 ^ (e - e') =? m'
  | FZero _, FNum m _ | FNum m _, FZero _ => m =? 0
  | _, _ => false
  end.

(* structural equality (same bits, one NaN): what "same encoding" means for a float *)
Definition f_same (a b : pyfloat) : bool :=
  match f_canon a, f_canon b with
  | FNan, FNan => true
  | FInf x, FInf y => Bool.eqb x y
  | FZero x, FZero y => Bool.eqb x y
  | FNum m e, FNum m' e' => (m =? m') && (e =? e')
  | _, _ => false
  end.

Definition f_neg (f : pyfloat) : pyfloat :=
  match f with
  | FNan => FNan
  | FInf b => FInf (negb b)
  | FZero b => FZero (negb b)
  | FNum m e => FNum (- m) e
  end.

(* a - b, correctly rounded (finite operands; inf/nan by the IEEE rules) *)
Definition f_sub (a b : pyfloat) : pyfloat :=
  match a, b with
  | FNan, _ | _, FNan => FNan
  | FInf x, FInf y => if Bool.eqb x y then FNan else FInf x
  | FInf x, _ => FInf x
  | _, FInf y => FInf (negb y)
  | FZero x, FZero y => FZero (x && negb y)
  | FZero _, _ => f_neg (f_canon b)
  | _, FZero _ => f_canon a
  | FNum m e, FNum m' e' =>
      let e0 := Z.min e e' in
      f_round (m * 2 ^ (e - e0) - m' * 2 ^ (e' - e0)) e0
  end.

(* a * n for an integer constant n <> 0, correctly rounded (used for 1e6 * frac) *)
Definition f_mul_Z (a : pyfloat) (n : Z) : pyfloat :=
  match a with
  | FNum m e => f_round (m * n) e
  | FZero b => FZero (xorb b (n <? 0))
  | FInf b => FInf (xorb b (n <? 0))
  | FNan => FNan
  end.

(* timedelta.total_seconds(): microseconds / 10**6 *)
Definition ts_of_us (u : Z) : pyfloat := f_div_Z u 1000000.

(* timedelta(seconds=f) as CPython's _datetime computes it, in microseconds:
   whole seconds exactly; the fraction is multiplied by 1e6 in double arithmetic, its integer part is
   added, and the remaining fraction is rounded half-even with respect to the parity of the sum so far. *)
Inductive us_result := UsOk (u : Z) | UsOverflow | UsValueError.

Definition f_modf (f : pyfloat) : Z * pyfloat :=    (* integer part (toward zero), fractional part *)
  match f with
  | FNum m e =>
      if 0 <=? e then (m * 2 ^ e, FZero (m <? 0))
      else let ip := Z.quot m (2 ^ (- e)) in
           (ip, f_canon (FNum (m - ip * 2 ^ (- e)) e))
  | _ => (0, f)
  end.

Definition round_half_even_parity (fr : pyfloat) (x : Z) : Z :=
  (* round(fr) for |fr| < 1 ... ties resolved so that x + result is even *)
  match fr with
  | FNum m e =>
      (* fr = m * 2^e with e < 0 here *)
      if 0 <=? e then m * 2 ^ e else
      let d := 2 ^ (- e) in
      let fl := m / d in                 (* floor *)
      let r2 := 2 * (m - fl * d) in      (* 2 * remainder, compare with d *)
      if r2 <? d then fl
      else if d <? r2 then fl + 1
      else if Z.even (x + fl) then fl else fl + 1
  | _ => 0
  end.

Definition us_of_seconds (f : pyfloat) : us_result :=
  match f with
  | FNan => UsValueError
  | FInf _ => UsOverflow
  | FZero _ => UsOk 0
  | FNum _ _ =>
      let '(ip, fr) := f_modf f in
      let sofar := ip * 1000000 in
      let '(ip2, fr2) := f_modf (f_mul_Z fr 1000000) in
      let x := sofar + ip2 in
      UsOk (x + round_half_even_parity fr2 x)
  end.

(* ------------------------------------------------------------------------------------------- *)
(* The one arithmetic fact the conversion proofs need: small integers survive float(int) / int(float). *)

Lemma pos_ctz_nonneg : forall p, 0 <= pos_ctz p.
Proof. induction p; cbn [pos_ctz]; lia. Qed.

Lemma pos_odd_part_spec : forall p, Zpos p = Zpos (pos_odd_part p) * 2 ^ pos_ctz p.
Proof.
  induction p as [p IH|p IH|]; cbn [pos_odd_part pos_ctz]; try (rewrite Z.pow_0_r; lia).
  pose proof (pos_ctz_nonneg p) as Hn.
  rewrite Z.pow_add_r by lia. change (2 ^ 1) with 2.
  rewrite Pos2Z.inj_xO, IH at 1. ring.
Qed.

Lemma f_trunc_canon : forall m e, m <> 0 -> 0 <= e -> f_trunc (f_canon (FNum m e)) = TrOk (m * 2 ^ e).
Proof.
  intros m e Hm He. destruct m as [|p|p]; [contradiction| |]; cbn [f_canon f_trunc];
    pose proof (pos_ctz_nonneg p) as Hn;
    (destruct (Z.leb_spec 0 (e + pos_ctz p)) as [_|Hneg]; [|lia]);
    rewrite Z.pow_add_r by lia; f_equal.
  - rewrite (pos_odd_part_spec p) at 1. ring.
  - rewrite <- !Pos2Z.opp_pos. rewrite (pos_odd_part_spec p) at 1. ring.
Qed.

Lemma bitlen_le : forall a k, 0 < a -> 0 <= k -> a < 2 ^ k -> bitlen a <= k.
Proof.
  intros a k Ha Hk Hlt. unfold bitlen.
  destruct (Z.leb_spec a 0) as [H|H]; [lia|].
  assert (Z.log2 a < k) by (apply Z.log2_lt_pow2; lia). lia.
Qed.

(* float(n) is exact and int(float(n)) = n for |n| < 2^53 *)
Lemma f_of_Z_trunc : forall n, Z.abs n < 2 ^ 53 ->
  exists f, f_of_Z n = Some f /\ f_trunc f = TrOk n /\ f_is_nan f = false /\ f_is_inf f = false.
Proof.
  intros n Hn. unfold f_of_Z, f_round.
  destruct (Z.eqb_spec n 0) as [->|Hnz].
  { exists (FZero false). repeat split. }
  assert (Ha : 0 < Z.abs n) by lia.
  pose proof (bitlen_le (Z.abs n) 53 Ha ltac:(lia) Hn) as Hbl.
  assert (Hbl0 : 0 <= bitlen (Z.abs n)).
  { unfold bitlen. destruct (Z.leb_spec (Z.abs n) 0); [lia|]. pose proof (Z.log2_nonneg (Z.abs n)). lia. }
  destruct (Z.leb_spec (Z.max (bitlen (Z.abs n) + 0 - 53) (-1074)) 0) as [_|Hbad]; [|lia].
  unfold f_mk.
  destruct (Z.eqb_spec (Z.abs n) 0) as [H0|_]; [lia|].
  destruct (Z.gtb_spec (bitlen (Z.abs n) + 0) 1024) as [Hov|_]; [lia|].
  assert (Hsgn : (if n <? 0 then - Z.abs n else Z.abs n) = n).
  { destruct (Z.ltb_spec n 0); lia. }
  rewrite Hsgn.
  exists (f_canon (FNum n 0)).
  assert (Htr : f_trunc (f_canon (FNum n 0)) = TrOk n).
  { rewrite f_trunc_canon by lia. f_equal. rewrite Z.pow_0_r. ring. }
  destruct n as [|p|p]; [contradiction| |]; cbn [f_canon] in *; repeat split; exact Htr.
Qed.
