(* Primitives that id2v-translated code (GristGen.Ident_gen, from identifiers.py) refers to.  Hand-written; each
   is the meaning the translator (harness/id2v.py) gives to one Python construct. *)
From Coq Require Import ZArith List Bool.
Import ListNotations.
Require Import Grist.Model.Ident.
Open Scope Z_scope.

(* str(x) for x already a str *)
Definition py_str (s : str) : str := s.
(* `not s` for a str *)
Definition is_empty (s : str) : bool := match s with [] => true | _ :: _ => false end.
(* s[0] (the translator only accepts it where the code has already returned for the empty string; 0 otherwise) *)
Definition py_hd (s : str) : Z := hd 0 s.
(* sep.join(parts) *)
Fixpoint py_join (sep : str) (parts : list str) : str :=
  match parts with
  | [] => []
  | [p] => p
  | p :: t => p ++ sep ++ py_join sep t
  end.
(* s.lstrip(chars) *)
Fixpoint py_lstrip (chars s : str) : str :=
  match s with
  | [] => []
  | c :: t => if memZ c chars then py_lstrip chars t else s
  end.
(* re.compile(r'[^a-zA-Z0-9_]+').sub(repl, s) for a plain replacement text *)
Fixpoint re_sub_invalid_char_from (in_run : bool) (repl s : str) : str :=
  match s with
  | [] => []
  | c :: t =>
      if is_ident_char c then c :: re_sub_invalid_char_from false repl t
      else if in_run then re_sub_invalid_char_from true repl t
      else repl ++ re_sub_invalid_char_from true repl t
  end.
Definition re_sub_invalid_char (repl s : str) : str := re_sub_invalid_char_from false repl s.

(* `while cond: body` over the assigned variables; None = out of fuel *)
Fixpoint while_do {S} (fuel : nat) (cond : S -> bool) (body : S -> S) (s : S) : option S :=
  match fuel with
  | O => None
  | Datatypes.S f => if cond s then while_do f cond body (body s) else Some s
  end.
(* `while True:` / `for x in <endless generator>:` whose body returns: inl r = return r, inr s = next iteration *)
Fixpoint loop_ret {S R} (fuel : nat) (step : S -> R + S) (s : S) : option R :=
  match fuel with
  | O => None
  | Datatypes.S f => match step s with inl r => Some r | inr s' => loop_ret f step s' end
  end.
(* `for x in list:` whose body may fail to terminate (calls a function with a search loop) *)
Fixpoint fold_opt {S A} (body : S -> A -> option S) (l : list A) (s : S) : option S :=
  match l with
  | [] => Some s
  | x :: t => match body s x with None => None | Some s' => fold_opt body t s' end
  end.

(* the i-th string produced by identifiers._make_letters() (not translated: pinned by AST equality and compared
   with the running generator): A, B, .., Z, AA, AB, .. *)
Fixpoint letters_rev (i : nat) (r : str) : str :=
  match i with
  | O => r
  | Datatypes.S i' => letters_rev i' (next_letters_rev r)
  end.
Definition make_letters (i : nat) : str := rev (letters_rev i [65]).
