(* Library functions for py2v-translated code that indexes and bisects lists of ints (used by C34):
   l[i], bisect.bisect_right(l, x), `v == optional`.  Definitions first, then the facts about them. *)
From Coq Require Import ZArith List Bool Lia.
Import ListNotations.
Require Import Grist.Lib.PyPrelude.
Open Scope Z_scope.

Definition lenZ (l : list Z) : Z := Z.of_nat (length l).

(* plain 0-based access, meaningful for 0 <= k < lenZ l *)
Definition getZ (l : list Z) (k : Z) : Z := nth (Z.to_nat k) l 0.

(* Python's l[i]: in range -> the element; -len <= i < 0 -> counted from the end; otherwise Python raises
   IndexError.  The model is total: it yields [oob] there, and the theorems about translated code are stated for
   every value of [oob] (so no result can depend on an out-of-range access). *)
Definition py_getitem (oob : Z) (l : list Z) (i : Z) : Z :=
  let n := lenZ l in
  if andb (0 <=? i) (i <? n) then nth (Z.to_nat i) l oob
  else if andb (- n <=? i) (i <? 0) then nth (Z.to_nat (n + i)) l oob
  else oob.

(* bisect.bisect_right(a, x) with the default lo=0, hi=len(a): CPython's loop
     while lo < hi: mid = (lo + hi) // 2;  if x < a[mid]: hi = mid  else: lo = mid + 1
   run with enough fuel (hi - lo shrinks at every step). *)
Fixpoint bisect_right_loop (fuel : nat) (a : list Z) (x lo hi : Z) : Z :=
  match fuel with
  | O => lo
  | S f =>
    if lo <? hi then
      let mid := (lo + hi) / 2 in
      if x <? getZ a mid then bisect_right_loop f a x lo mid else bisect_right_loop f a x (mid + 1) hi
    else lo
  end.

Definition py_bisect_right (a : list Z) (x : Z) : Z :=
  bisect_right_loop (S (length a)) a x 0 (lenZ a).

(* `v == o` where o is Optional: None is never equal to a value *)
Definition py_opt_eqb {A} (eqb : A -> A -> bool) (x y : option A) : bool :=
  match x, y with
  | Some a, Some b => eqb a b
  | None, None => true
  | _, _ => false
  end.

(* 0, 1, ..., n-1 *)
Definition zrange (n : Z) : list Z := map Z.of_nat (seq 0 (Z.to_nat n)).

(* ------------------------------------------------------------------------------------------------ *)

Lemma lenZ_nonneg : forall l, 0 <= lenZ l.
Proof. intros; unfold lenZ; lia. Qed.

Lemma py_getitem_in_range : forall oob l i, 0 <= i < lenZ l -> py_getitem oob l i = getZ l i.
Proof.
  intros oob l i H. unfold py_getitem, getZ.
  replace (andb (0 <=? i) (i <? lenZ l)) with true by (symmetry; apply andb_true_iff; split; lia).
  apply nth_indep. unfold lenZ in H. lia.
Qed.

Lemma in_zrange : forall n k, In k (zrange n) <-> 0 <= k < n.
Proof.
  intros n k. unfold zrange. rewrite in_map_iff. split.
  - intros [m [<- Hm]]. apply in_seq in Hm. lia.
  - intros H. exists (Z.to_nat k). split; [lia|]. apply in_seq. lia.
Qed.

Lemma py_list_eqb_Z_eq : forall l m, py_list_eqb Z.eqb l m = true -> l = m.
Proof.
  induction l as [|x l IH]; destruct m as [|y m]; simpl; try discriminate; auto.
  intros H. apply andb_true_iff in H. destruct H as [H1 H2].
  apply Z.eqb_eq in H1. subst. f_equal. auto.
Qed.

(* monotone from adjacent steps *)
Lemma mono_from_adjacent : forall (F : Z -> Z) n,
  (forall k, 0 <= k -> k + 1 < n -> F k <= F (k + 1)) ->
  forall i j, 0 <= i -> i <= j -> j < n -> F i <= F j.
Proof.
  intros F n Hadj i j Hi Hij Hj.
  replace j with (i + Z.of_nat (Z.to_nat (j - i))) in * by lia.
  generalize dependent (Z.to_nat (j - i)). intros d. induction d as [|d IH]; intros.
  - replace (i + Z.of_nat 0) with i by lia. lia.
  - replace (i + Z.of_nat (S d)) with (i + Z.of_nat d + 1) in * by lia.
    specialize (Hadj (i + Z.of_nat d)). lia.
Qed.

Definition sortedZ (a : list Z) : Prop :=
  forall i j, 0 <= i -> i <= j -> j < lenZ a -> getZ a i <= getZ a j.

(* the loop keeps: everything left of lo is <= x, everything from hi on is > x *)
Lemma bisect_right_loop_spec : forall fuel a x lo hi,
  sortedZ a -> 0 <= lo -> lo <= hi -> hi <= lenZ a -> hi - lo < Z.of_nat fuel ->
  (forall k, 0 <= k < lo -> getZ a k <= x) ->
  (forall k, hi <= k < lenZ a -> x < getZ a k) ->
  let r := bisect_right_loop fuel a x lo hi in
  lo <= r <= hi /\ (forall k, 0 <= k < r -> getZ a k <= x) /\ (forall k, r <= k < lenZ a -> x < getZ a k).
Proof.
  induction fuel as [|f IH]; intros a x lo hi Hs Hlo Hlh Hhi Hfuel Hleft Hright; [lia|].
  cbn [bisect_right_loop]. destruct (lo <? hi) eqn:Elh.
  - apply Z.ltb_lt in Elh.
    assert (Hmid : lo <= (lo + hi) / 2 < hi) by (split; [apply Z.div_le_lower_bound | apply Z.div_lt_upper_bound]; lia).
    destruct (x <? getZ a ((lo + hi) / 2)) eqn:Ex.
    + apply Z.ltb_lt in Ex.
      specialize (IH a x lo ((lo + hi) / 2) Hs Hlo).
      cbv zeta in IH. destruct IH as [H1 [H2 H3]]; try lia; auto.
      * intros k Hk. destruct (Z_lt_le_dec k hi) as [Hkh|Hkh]; [|apply Hright; lia].
        specialize (Hs ((lo + hi) / 2) k). lia.
      * cbv zeta. repeat split; auto; lia.
    + apply Z.ltb_ge in Ex.
      specialize (IH a x ((lo + hi) / 2 + 1) hi Hs).
      cbv zeta in IH. destruct IH as [H1 [H2 H3]]; try lia; auto.
      * intros k Hk. destruct (Z_lt_le_dec k lo) as [Hkl|Hkl]; [apply Hleft; lia|].
        specialize (Hs k ((lo + hi) / 2)). lia.
      * cbv zeta. repeat split; auto; lia.
  - apply Z.ltb_ge in Elh. assert (lo = hi) by lia. subst hi. cbv zeta. repeat split; auto; lia.
Qed.

Lemma py_bisect_right_spec : forall a x, sortedZ a ->
  let r := py_bisect_right a x in
  0 <= r <= lenZ a /\ (forall k, 0 <= k < r -> getZ a k <= x) /\ (forall k, r <= k < lenZ a -> x < getZ a k).
Proof.
  intros a x Hs. unfold py_bisect_right.
  apply bisect_right_loop_spec; auto; try (unfold lenZ; lia).
Qed.

(* the result is the only index with that property *)
Lemma py_bisect_right_unique : forall a x j, sortedZ a ->
  0 <= j <= lenZ a -> (forall k, 0 <= k < j -> getZ a k <= x) -> (forall k, j <= k < lenZ a -> x < getZ a k) ->
  py_bisect_right a x = j.
Proof.
  intros a x j Hs Hj Hl Hr.
  destruct (py_bisect_right_spec a x Hs) as [H0 [H1 H2]].
  set (r := py_bisect_right a x) in *.
  destruct (Z_lt_le_dec r j) as [Hlt|Hge].
  - specialize (Hl r). specialize (H2 r). lia.
  - destruct (Z_lt_le_dec j r) as [Hlt|Hge2]; [|lia].
    specialize (Hr j). specialize (H1 j). lia.
Qed.
