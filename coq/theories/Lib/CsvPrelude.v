(* Library functions that csv2v-translated code (GristGen.Csv_gen, regenerated from imports/import_utils.py,
   imports/import_csv.py and parse_data.get_table_data on every run) refers to: Python builtins/itertools on
   lists and ints, loops with early exit, and the behaviour of parse_data's converter objects on str cells. *)
From Coq Require Import ZArith List Bool.
Import ListNotations.
Require Import Grist.Model.Csv.
Open Scope Z_scope.

(* ---- loops ----------------------------------------------------------------------------------------- *)

(* what one pass through a `for` body does: return from the function, break, or go on with a new state *)
Inductive ctl (R S : Type) : Type :=
| Ret (r : R)
| Brk (s : S)
| Nxt (s : S).
Arguments Ret {R S} r.
Arguments Brk {R S} s.
Arguments Nxt {R S} s.

(* `for x in l: body`: inl r = the function returned r inside the loop, inr s = the loop ended with state s *)
Fixpoint py_for {A R S : Type} (l : list A) (s : S) (body : S -> A -> ctl R S) : R + S :=
  match l with
  | [] => inr s
  | x :: t =>
      match body s x with
      | Ret r => inl r
      | Brk s' => inr s'
      | Nxt s' => py_for t s' body
      end
  end.

(* the same for a body without `return` (only break / continue) *)
Definition py_loop {A S : Type} (l : list A) (s : S) (body : S -> A -> ctl unit S) : S :=
  match py_for l s body with
  | inl _ => s
  | inr s' => s'
  end.

(* ---- builtins / itertools ---------------------------------------------------------------------------- *)

Fixpoint py_enumerate_from {A} (i : Z) (l : list A) : list (Z * A) :=
  match l with
  | [] => []
  | x :: t => (i, x) :: py_enumerate_from (i + 1) t
  end.
Definition py_enumerate {A} (l : list A) : list (Z * A) := py_enumerate_from 0 l.

Definition py_len {A} (l : list A) : Z := Z.of_nat (length l).

(* l[a:] and l[:b] with Python's treatment of negative indexes *)
Definition py_slice_from {A} (l : list A) (a : Z) : list A :=
  if 0 <=? a then skipn (Z.to_nat a) l else skipn (Z.to_nat (py_len l + a)) l.
Definition py_slice_to {A} (l : list A) (b : Z) : list A :=
  if 0 <=? b then firstn (Z.to_nat b) l else firstn (Z.to_nat (py_len l + b)) l.

(* itertools.islice(l, a, None); Python raises ValueError for a < 0: the bridging lemmas show that every
   start index the importer passes is Z.of_nat of something *)
Definition py_islice_from {A} (l : list A) (a : Z) : list A := skipn (Z.to_nat a) l.

(* [x] * n *)
Definition py_repeat {A} (x : A) (n : Z) : list A := repeat x (Z.to_nat n).

(* max(iterable) of ints (the importer only calls it on a non-empty chain) *)
Definition py_max (l : list Z) : Z :=
  match l with
  | [] => 0
  | x :: t => fold_left Z.max t x
  end.

(* l[i] = x *)
Fixpoint py_list_set_nat {A} (l : list A) (i : nat) (x : A) : list A :=
  match l, i with
  | [], _ => []
  | _ :: t, O => x :: t
  | y :: t, S i' => y :: py_list_set_nat t i' x
  end.
Definition py_list_set {A} (l : list A) (i : Z) (x : A) : list A := py_list_set_nat l (Z.to_nat i) x.

(* ---- defaultdict(int) keeping insertion order ---------------------------------------------------------- *)

Definition counts := list (Z * Z).

(* counts[k] += v *)
Fixpoint py_counts_add (k v : Z) (cs : counts) : counts :=
  match cs with
  | [] => [(k, v)]
  | (k', n) :: t => if k =? k' then (k', n + v) :: t else (k', n) :: py_counts_add k v t
  end.

(* max(list(counts.items()), key=lambda k_v: k_v[1]): the first item with the largest value *)
Fixpoint py_first_max_snd (best : Z * Z) (l : counts) : Z * Z :=
  match l with
  | [] => best
  | kv :: t => if snd best <? snd kv then py_first_max_snd kv t else py_first_max_snd best t
  end.
Definition py_max_by_snd (cs : counts) : Z * Z :=
  match cs with
  | [] => (0, 0)
  | kv :: t => py_first_max_snd kv t
  end.

(* ---- parse_data on str cells (trusted, monitored on every case: column type "Any", str cells unchanged) -- *)

(* _guess_basic_types(rows, n): one converter class per column; for str cells always AnyConverter *)
Definition guess_basic_types (rows : grid) (n : Z) : list unit := repeat tt (Z.to_nat n).
(* ColumnConverter(AnyConverter): collects the converted values; AnyConverter.convert is the identity on str *)
Definition ColumnConverter (c : unit) : list cell := [].
Definition convert_and_add (conv : list cell) (value : cell) : list cell := conv ++ [value].

(* the dict {"type": "Any", "data": [...]} (later also "id") that get_grist_column returns *)
Record coldict := { cd_id : cell; cd_data : list cell }.
Definition get_grist_column (conv : list cell) : coldict := {| cd_id := []; cd_data := conv |}.
Definition cd_set_id (d : coldict) (h : cell) : coldict := {| cd_id := h; cd_data := cd_data d |}.

(* for a, b in zip(l, objs): b.method(a)   -- the objects in objs beyond len(l) are left alone *)
Fixpoint py_zip_update {A B} (f : A -> B -> B) (l : list A) (objs : list B) : list B :=
  match l, objs with
  | a :: l', b :: objs' => f a b :: py_zip_update f l' objs'
  | _, _ => objs
  end.

(* parse_options.get('include_col_names_as_headers', default) *)
Definition opt_headers_get (o : options) (default : bool) : bool :=
  match o_headers o with Some b => b | None => default end.
