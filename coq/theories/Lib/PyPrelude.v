(* Library functions that py2v-translated code refers to. *)
From Coq Require Import ZArith List Bool.
Import ListNotations.

Fixpoint py_mem {A} (eqb : A -> A -> bool) (x : A) (l : list A) : bool :=
  match l with
  | [] => false
  | y :: t => if eqb x y then true else py_mem eqb x t
  end.

Definition py_pair_eqb {A B} (ea : A -> A -> bool) (eb : B -> B -> bool) (p q : A * B) : bool :=
  andb (ea (fst p) (fst q)) (eb (snd p) (snd q)).

Fixpoint py_list_eqb {A} (eqb : A -> A -> bool) (l m : list A) : bool :=
  match l, m with
  | [], [] => true
  | x :: l', y :: m' => andb (eqb x y) (py_list_eqb eqb l' m')
  | _, _ => false
  end.

Lemma py_mem_Z_In : forall x l, py_mem Z.eqb x l = true <-> In x l.
Proof.
  intros x l; induction l as [|y t IH]; simpl.
  - split; [discriminate | tauto].
  - destruct (Z.eqb_spec x y) as [->|Hne].
    + split; auto.
    + rewrite IH; split; [auto | intros [H|H]; [congruence | exact H]].
Qed.
