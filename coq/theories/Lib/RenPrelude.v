(* Runtime vocabulary of coq/gen/Renames_gen.v (the definitions harness/c16v.py translates from useractions.py,
   gencode.py): Python dict / truthiness idioms over the types of Model/Renames.v.  Definitions only. *)
From Coq Require Import ZArith List Bool.
Import ListNotations.
Require Import Grist.Model.Renames.
Open Scope Z_scope.

(* a column record is identified by (table id, column id): docmodel.get_column_rec(table, col) *)
Definition colkey := (name * name)%type.
Definition get_column_rec (t c : name) : colkey := (t, c).
Definition colkey_eqb (a b : colkey) : bool := name_eqb (fst a) (fst b) && name_eqb (snd a) (snd b).

(* one entry of gencode.grist_names(): (formula_info, pos, table_id, col_id) *)
Definition gname := (colkey * Z * name * option name)%type.

(* `if x:` for x an optional text (None and '' are falsy) *)
Definition py_truthy_opt (o : option text) : bool := match o with Some (_ :: _) => true | _ => false end.
Definition opt_text (o : option text) : text := match o with Some s => s | None => [] end.
(* `col_id or table_id` *)
Definition py_or_name (c : option name) (t : name) : name := match c with Some (x :: r) => x :: r | _ => t end.

(* insertion-ordered dict from column records to patch lists *)
Definition pdict := list (colkey * list patch).
(* d.setdefault(k, []).append(p) *)
Fixpoint dict_setdefault_append (d : pdict) (k : colkey) (p : patch) : pdict :=
  match d with
  | [] => [(k, [p])]
  | (k', ps) :: r => if colkey_eqb k' k then (k', ps ++ [p]) :: r else (k', ps) :: dict_setdefault_append r k p
  end.
(* textbuilder.Replacer(textbuilder.Text(formula), patches) and its get_text() *)
Definition mk_replacer (formula : text) (patches : list patch) : R text := replacer_text formula patches.
Definition replacer_get_text (r : R text) : R text := r.

(* col_updates: column record -> its pending update; only the 'formula' entry matters here (None: no formula yet) *)
Definition udict := list (colkey * option text).
(* d.setdefault(k, {}) (the entry itself is then updated in place) *)
Fixpoint upd_setdefault (d : udict) (k : colkey) : udict :=
  match d with
  | [] => [(k, None)]
  | (k', v) :: r => if colkey_eqb k' k then d else (k', v) :: upd_setdefault r k
  end.
(* d[k].setdefault('formula', f) *)
Fixpoint upd_setdefault_formula (d : udict) (k : colkey) (f : text) : udict :=
  match d with
  | [] => []
  | (k', v) :: r => if colkey_eqb k' k then (k', match v with Some g => Some g | None => Some f end) :: r
                    else (k', v) :: upd_setdefault_formula r k f
  end.
Fixpoint upd_get (d : udict) (k : colkey) : option (option text) :=
  match d with
  | [] => None
  | (k', v) :: r => if colkey_eqb k' k then Some v else upd_get r k
  end.

Fixpoint dict_get (d : pdict) (k : colkey) : option (list patch) :=
  match d with
  | [] => None
  | (k', ps) :: r => if colkey_eqb k' k then Some ps else dict_get r k
  end.
