(* State + exception monad in which the lookup code translated from Python (harness/lk2v.py) is expressed.
   S: the mutable objects the code works on; E: exception classes. An exception keeps the state reached. *)
From Coq Require Import List.
Import ListNotations.

Inductive res (E S A : Type) : Type :=
| Ok (a : A) (s : S)
| Exc (e : E) (s : S).
Arguments Ok {E S A}. Arguments Exc {E S A}.

Definition M (E S A : Type) : Type := S -> res E S A.

Definition ret {E S A} (a : A) : M E S A := fun s => Ok a s.
Definition bind {E S A B} (m : M E S A) (f : A -> M E S B) : M E S B :=
  fun s => match m s with Ok a s' => f a s' | Exc e s' => Exc e s' end.
Definition raise {E S A} (e : E) : M E S A := fun s => Exc e s.

(* try: m  (its result goes to [ok])  except: [h]   -- only exceptions of m are handled *)
Definition try_with {E S A B} (m : M E S A) (ok : A -> M E S B) (h : E -> M E S B) : M E S B :=
  fun s => match m s with Ok a s' => ok a s' | Exc e s' => h e s' end.

(* for x in l: body x     (the first exception ends the loop) *)
Fixpoint for_each {E S X} (l : list X) (body : X -> M E S unit) : M E S unit :=
  match l with
  | [] => ret tt
  | x :: t => bind (body x) (fun _ => for_each t body)
  end.

(* for x in l: body x   where the body may `return v` (Some v) or fall through (None) *)
Fixpoint for_first {E S X T} (l : list X) (body : X -> M E S (option T)) : M E S (option T) :=
  match l with
  | [] => ret None
  | x :: t => bind (body x) (fun r => match r with Some v => ret (Some v) | None => for_first t body end)
  end.

Fixpoint zip3 {A B C} (a : list A) (b : list B) (c : list C) : list (A * B * C) :=
  match a, b, c with
  | x :: a', y :: b', z :: c' => (x, y, z) :: zip3 a' b' c'
  | _, _, _ => []
  end.

Notation "x <- m ;; k" := (bind m (fun x => k)) (at level 61, m at next level, right associativity).
Notation "' p <- m ;; k" := (bind m (fun p => k)) (at level 61, p pattern, m at next level, right associativity).
