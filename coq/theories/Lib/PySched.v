(* Combinators that harness/sch2v.py maps the statements of functions/schedule.py to (C35):
   an exception monad, string-keyed dicts, truthiness of regex groups, for-loops with break/else, and
   generator loops (for / while True with yield, continue, return). *)
From Coq Require Import ZArith List Bool.
Import ListNotations.
Require Import Grist.Model.Schedule.

Definition str := list Z.

Fixpoint str_eqb (a b : str) : bool :=
  match a, b with
  | [], [] => true
  | x :: a', y :: b' => Z.eqb x y && str_eqb a' b'
  | _, _ => false
  end.

Fixpoint str_mem (k : str) (l : list str) : bool :=
  match l with [] => false | x :: t => if str_eqb k x then true else str_mem k t end.

Inductive pyexn := ValueError | TypeError | AttributeError | KeyError | OverflowError.

Inductive exc (A : Type) : Type := Val (a : A) | Exn (e : pyexn).
Arguments Val {A} a.
Arguments Exn {A} e.

Definition bind {A B} (m : exc A) (k : A -> exc B) : exc B :=
  match m with Val a => k a | Exn e => Exn e end.

(* dicts with str keys, as association lists *)
Fixpoint assoc_get {V} (d : list (str * V)) (k : str) : option V :=
  match d with
  | [] => None
  | (k', v) :: t => if str_eqb k k' then Some v else assoc_get t k
  end.
Definition assoc_mem {V} (d : list (str * V)) (k : str) : bool :=
  match assoc_get d k with Some _ => true | None => false end.
Definition assoc_find {V} (d : list (str * V)) (k : str) : exc V :=
  match assoc_get d k with Some v => Val v | None => Exn KeyError end.
Definition assoc_get_default {V} (d : list (str * V)) (k : str) (dflt : V) : V :=
  match assoc_get d k with Some v => v | None => dflt end.

Definition is_some {A} (o : option A) : bool := match o with Some _ => true | None => false end.
Definition nonempty {A} (l : list A) : bool := match l with [] => false | _ => true end.

(* m.group(name): None when the group did not take part in the match *)
Definition ostr := option str.
Definition ostr_truthy (o : ostr) : bool := match o with Some (_ :: _) => true | _ => false end.
Definition ostr_or (a b : ostr) : ostr := if ostr_truthy a then a else b.
Definition olist_or {A} (a : option (list A)) (b : list A) : list A :=
  match a with Some (x :: r) => x :: r | _ => b end.
(* int(g), int(g or d), g.lower() on a group *)
Definition py_int_o (py_int : str -> exc Z) (o : ostr) : exc Z :=
  match o with Some s => py_int s | None => Exn TypeError end.
Definition py_int_or (py_int : str -> exc Z) (o : ostr) (d : Z) : exc Z :=
  if ostr_truthy o then py_int_o py_int o else Val d.
Definition ostr_lower (lower : str -> str) (o : ostr) : exc str :=
  match o with Some s => Val (lower s) | None => Exn AttributeError end.
(* `_SHORT_UNITS[g]`, `g not in D` on a group: None is hashable, so a plain miss *)
Definition ostr_key (o : ostr) : option str := o.

Inductive ctrl := Next | Brk.

(* for x in l: body [else: ...] -- s is the tuple of loop-carried variables; the bool says whether the
   loop was left by break *)
Fixpoint py_for {X S} (l : list X) (s : S) (body : X -> S -> exc (ctrl * S)) : exc (bool * S) :=
  match l with
  | [] => Val (false, s)
  | x :: t =>
      match body x s with
      | Exn e => Exn e
      | Val (Brk, s') => Val (true, s')
      | Val (Next, s') => py_for t s' body
      end
  end.

Fixpoint py_mapM {A B} (f : A -> exc B) (l : list A) : exc (list B) :=
  match l with
  | [] => Val []
  | x :: t => bind (f x) (fun y => bind (py_mapM f t) (fun r => Val (y :: r)))
  end.

(* ---- generators ---- *)
(* one pass of a loop body: went on to the next iteration having yielded ys, with the loop-carried
   variables s; or the generator returned *)
Inductive gstep (T S : Type) : Type := GNext (ys : list T) (s : S) | GReturn (ys : list T).
Arguments GNext {T S} ys s.
Arguments GReturn {T S} ys.

Definition gyield {T S} (x : T) (r : gstep T S) : gstep T S :=
  match r with GNext ys s => GNext (x :: ys) s | GReturn ys => GReturn (x :: ys) end.

Definition gbind {T S S'} (r : gstep T S) (k : S -> gstep T S') : gstep T S' :=
  match r with
  | GReturn ys => GReturn ys
  | GNext ys s => match k s with GNext zs s' => GNext (ys ++ zs) s' | GReturn zs => GReturn (ys ++ zs) end
  end.

Fixpoint py_gfor {T X S} (l : list X) (s : S) (body : X -> S -> gstep T S) : gstep T S :=
  match l with
  | [] => GNext [] s
  | x :: t => gbind (body x s) (fun s' => py_gfor t s' body)
  end.

(* while True: body -- with fuel; the generator's result is what it yielded *)
Fixpoint py_gwhile {T S} (fuel : nat) (s : S) (body : S -> gstep T S) : result T :=
  match fuel with
  | O => OutOfFuel []
  | Datatypes.S f =>
      match body s with
      | GReturn ys => Done ys
      | GNext ys s' => emit T ys (py_gwhile f s' body)
      end
  end.
