(* Prelude of coq/gen/Trigger_gen.v (property C15): the vocabulary the translator harness/tg2v.py emits.
   Generated functions describe WHAT the trigger-formula code of the engine asks the dependency machinery to do,
   as a list of effects; what the effects mean for the trigger column is Model/Trigger.v (run in
   Proofs/Trigger_bridge.v). *)
From Coq Require Import ZArith List Bool.
Import ListNotations.
Open Scope Z_scope.

(* one column of the user table, as the code sees it: column object + its metadata record *)
Record colinfo := {
  ci_id : Z;                 (* col_id; also the node of the dependency graph *)
  ci_ref : Z;                (* row id of the column's record in _grist_Tables_column *)
  ci_is_formula : bool;      (* column.is_formula() *)
  ci_has_formula : bool;     (* column.has_formula() *)
  ci_recalcWhen : Z;         (* col_rec.recalcWhen *)
  ci_recalcDeps : list Z     (* col_rec.recalcDeps, as metadata row ids *)
}.
Definition no_col : colinfo :=
  {| ci_id := -1; ci_ref := -1; ci_is_formula := false; ci_has_formula := false; ci_recalcWhen := 0; ci_recalcDeps := [] |}.

Definition zmem (x : Z) (l : list Z) : bool := existsb (Z.eqb x) l.
Definition nonempty {A} (l : list A) : bool := match l with [] => false | _ => true end.

(* table.get_column(col_id) / docmodel.columns.lookupOne(tableId, colId) / a recalcDeps entry's column *)
Definition get_column (cols : list colinfo) (c : Z) : colinfo :=
  match find (fun ci => ci_id ci =? c) cols with Some ci => ci | None => no_col end.
Definition col_of_ref (cols : list colinfo) (r : Z) : colinfo :=
  match find (fun ci => ci_ref ci =? r) cols with Some ci => ci | None => no_col end.

(* depend.ALL_ROWS or an explicit collection of row ids *)
Inductive rowsel := AllRows | Rows (l : list Z).
Definition is_all_rows (s : rowsel) : bool := match s with AllRows => true | Rows _ => false end.

(* what the code asks for *)
Inductive eff :=
| EPrevent (node : Z) (rows : list Z) (should_prevent : bool)     (* Engine.prevent_recalc *)
| EInvalidate (node : Z) (rows : rowsel) (include_self : bool)    (* DepGraph.invalidate_deps *)
| EClearDeps (out_node : Z)                                       (* DepGraph.clear_dependencies *)
| EAddEdge (out_node in_node : Z).                                (* DepGraph.add_edge with a SingleRowsIdentityRelation *)

(* python sets of row ids, as duplicate-free-enough lists (only membership is observed) *)
Definition set_union (a b : list Z) : list Z := a ++ b.
Definition set_diff (a b : list Z) : list Z := filter (fun x => negb (zmem x b)) a.

(* a Bulk action on the table: row ids and {col_id: values} in dict order *)
Definition bulk_action := (list Z * list (Z * list Z))%type.
Definition act_rows (a : bulk_action) : list Z := fst a.
Definition act_cols (a : bulk_action) : list (Z * list Z) := snd a.
Definition keys (d : list (Z * list Z)) : list Z := map fst d.

(* enumerate(l) and l[i] *)
Definition enumerate {A} (l : list A) : list (nat * A) := combine (seq 0 (length l)) l.
Definition znth (l : list Z) (i : nat) : Z := nth i l 0.
