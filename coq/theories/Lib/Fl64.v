(* IEEE-754 binary64 arithmetic (round to nearest, ties to even) as exact integer arithmetic, used by the
   model of relabeling.py (C20).  No primitive floats and no real numbers: a finite double is kept as its
   magnitude [u], an integer number of units of 2^-1074 (every finite double is such a multiple), so the
   order of doubles is the order of Z and "exactly representable" is a divisibility statement.
   Definitions only; lemmas are in Proofs/Fl64_proofs.v.  The operations are compared bit for bit with
   CPython's float operations on every run (harness/props/c20.py, "ops" stream). *)
From Coq Require Import ZArith List Bool.
Import ListNotations.
Open Scope Z_scope.

Inductive fl : Type :=
| FNaN
| FInf (neg : bool)
| FFin (neg : bool) (u : Z).       (* (-1)^neg * u * 2^-1074, u >= 0 *)

Definition P52 : Z := Z.shiftl 1 52.
Definition P53 : Z := Z.shiftl 1 53.
Definition UOVER : Z := Z.shiftl 1 2098.       (* 2^1024 in units: the first magnitude that overflows *)
Definition UINF : Z := Z.shiftl 1 2100.        (* order key of +inf *)

Definition fzero : fl := FFin false 0.
Definition fneginf : fl := FInf true.

(* -- representable magnitudes: u < 2^53, or a multiple of 2^(log2 u - 52) *)
Definition ulp_exp (u : Z) : Z := Z.max 0 (Z.log2 u - 52).
Definition representable (u : Z) : Prop := 0 <= u < UOVER /\ u mod 2 ^ ulp_exp u = 0.

(* a value that really is a double: finite magnitudes are representable (everything [decode] produces) *)
Definition wf_fl (x : fl) : Prop := match x with FFin _ u => representable u | _ => True end.
Definition wf_flb (x : fl) : bool :=
  match x with
  | FFin _ u => (0 <=? u) && (u <? UOVER) && (Z.land u (Z.ones (ulp_exp u)) =? 0)
  | _ => true
  end.

(* -- order (Python's <, <=, == on floats; every comparison with NaN is false) *)
Definition ford (x : fl) : Z :=
  match x with
  | FNaN => 0
  | FInf false => UINF
  | FInf true => - UINF
  | FFin false u => u
  | FFin true u => - u
  end.
Definition is_nan (x : fl) : bool := match x with FNaN => true | _ => false end.
Definition is_inf (x : fl) : bool := match x with FInf _ => true | _ => false end.
Definition is_finite (x : fl) : bool := match x with FFin _ _ => true | _ => false end.
Definition flt (a b : fl) : bool := negb (is_nan a) && negb (is_nan b) && (ford a <? ford b).
Definition fle (a b : fl) : bool := negb (is_nan a) && negb (is_nan b) && (ford a <=? ford b).
Definition feq (a b : fl) : bool := negb (is_nan a) && negb (is_nan b) && (ford a =? ford b).
(* Python's min(a, b) / max(a, b): the first argument unless the second is strictly smaller / larger *)
Definition fmin (a b : fl) : fl := if flt b a then b else a.
Definition fmax (a b : fl) : fl := if flt a b then b else a.

(* -- rounding.  [rne a D]: the integer nearest to a/D, ties to the even one (a >= 0, D > 0). *)
Definition rne (a D : Z) : Z :=
  let q := a / D in
  let r := a mod D in
  match Z.compare (2 * r) D with
  | Lt => q
  | Gt => q + 1
  | Eq => if Z.even q then q else q + 1
  end.

(* [round_p2 neg n s]: the double nearest to (-1)^neg * n / 2^s units (n >= 0, s >= 0), i.e.
   rne n (2^(s+k)) * 2^k with k = ulp_exp (n / 2^s); overflow gives the infinity.  Written with shifts. *)
Definition rne_p2 (a sh : Z) : Z :=
  if sh <=? 0 then a else
  let q := Z.shiftr a sh in
  let r := Z.land a (Z.ones sh) in
  match Z.compare r (Z.shiftl 1 (sh - 1)) with
  | Lt => q
  | Gt => q + 1
  | Eq => if Z.even q then q else q + 1
  end.
Definition round_p2 (neg : bool) (n s : Z) : fl :=
  let k := ulp_exp (Z.shiftr n s) in
  let u := Z.shiftl (rne_p2 n (s + k)) k in
  if UOVER <=? u then FInf neg else FFin neg u.


(* -- arithmetic *)
Definition fin_or_inf (neg : bool) (u : Z) : fl := if UOVER <=? u then FInf neg else FFin neg u.
Definition sval (neg : bool) (u : Z) : Z := if neg then - u else u.
Definition fneg (x : fl) : fl :=
  match x with FNaN => FNaN | FInf s => FInf (negb s) | FFin s u => FFin (negb s) u end.
Definition fadd (a b : fl) : fl :=
  match a, b with
  | FNaN, _ | _, FNaN => FNaN
  | FInf s1, FInf s2 => if Bool.eqb s1 s2 then FInf s1 else FNaN
  | FInf s, _ | _, FInf s => FInf s
  | FFin s1 u1, FFin s2 u2 =>
      let z := sval s1 u1 + sval s2 u2 in
      if z =? 0 then FFin (s1 && s2) 0 else round_p2 (z <? 0) (Z.abs z) 0
  end.
Definition fsub (a b : fl) : fl := fadd a (fneg b).
Definition fmul (a b : fl) : fl :=
  match a, b with
  | FNaN, _ | _, FNaN => FNaN
  | FInf s1, FInf s2 => FInf (xorb s1 s2)
  | FInf s1, FFin s2 u | FFin s2 u, FInf s1 => if u =? 0 then FNaN else FInf (xorb s1 s2)
  | FFin s1 u1, FFin s2 u2 => round_p2 (xorb s1 s2) (u1 * u2) 1074
  end.
(* x / 0 raises ZeroDivisionError in Python; no caller divides by zero (count + 1 >= 1); NaN here *)
Definition fdiv (a b : fl) : fl :=
  match a, b with
  | FNaN, _ | _, FNaN => FNaN
  | FInf _, FInf _ => FNaN
  | FInf s1, FFin s2 _ => FInf (xorb s1 s2)
  | FFin s1 _, FInf s2 => FFin (xorb s1 s2) 0
  | FFin s1 u1, FFin s2 u2 =>
      if u2 =? 0 then FNaN else
      (* u1 = m1 * 2^e1, u2 = m2 * 2^e2 (exactly, for representable magnitudes); the quotient in units is
         (m1 * 2^(e1 + 1074)) / (m2 * 2^e2) *)
      let e1 := ulp_exp u1 in let m1 := Z.shiftr u1 e1 in
      let e2 := ulp_exp u2 in let m2 := Z.shiftr u2 e2 in
      let s := e1 + 1074 - e2 in
      if 0 <=? s then
        let k := ulp_exp (Z.shiftl m1 s / m2) in
        fin_or_inf (xorb s1 s2) (Z.shiftl (rne (Z.shiftl m1 (s - k)) m2) k)
      else FFin (xorb s1 s2) (rne m1 (Z.shiftl m2 (- s)))
  end.
(* float(z) for a Python int (also what float + int etc. do to the int operand) *)
Definition of_Z (z : Z) : fl :=
  if z =? 0 then fzero else round_p2 (z <? 0) (Z.shiftl (Z.abs z) 1074) 0.

(* -- neighbours.  relabeling.prevfloat/nextfloat work on the bit pattern of [x or 0.0]:
   n = int64 pattern; n -= (1 if n >= 0 else -1)  (prevfloat);  n += (1 if n >= 0 else -1)  (nextfloat). *)
Definition upred (u : Z) : Z :=           (* the largest representable magnitude below u (u > 0) *)
  if u <=? P53 then u - 1 else let k := Z.log2 (u - 1) - 52 in Z.shiftl (Z.shiftr (u - 1) k) k.
Definition usucc (u : Z) : Z :=           (* the smallest representable magnitude above u *)
  if u <? P53 then u + 1 else u + Z.shiftl 1 (Z.log2 u - 52).
Definition prevfloat (x : fl) : fl :=
  match x with
  | FNaN => FNaN                                  (* not used on NaN *)
  | FInf false => FFin false (upred UOVER)
  | FInf true => FNaN                             (* pattern 0xfff0...0 + 1 is a NaN *)
  | FFin s u =>
      if u =? 0 then FNaN                         (* (x or 0.0) = +0.0, pattern 0 - 1 = all ones: a NaN *)
      else if s then fin_or_inf true (usucc u) else FFin false (upred u)
  end.
Definition nextfloat (x : fl) : fl :=
  match x with
  | FNaN => FNaN
  | FInf false => FNaN
  | FInf true => FFin true (upred UOVER)
  | FFin s u =>
      if u =? 0 then FFin false 1
      else if s then FFin true (upred u) else fin_or_inf false (usucc u)
  end.

(* -- bit patterns (0 <= b < 2^64) *)
Definition decode (b : Z) : fl :=
  let s := Z.testbit b 63 in
  let E := Z.land (Z.shiftr b 52) 2047 in
  let f := Z.land b (Z.ones 52) in
  if E =? 2047 then (if f =? 0 then FInf s else FNaN)
  else if E =? 0 then FFin s f
  else FFin s (Z.shiftl (P52 + f) (E - 1)).
Definition encode (x : fl) : Z :=
  match x with
  | FNaN => Z.shiftl 4095 51                      (* 0x7ff8000000000000 *)
  | FInf s => (if s then Z.shiftl 1 63 else 0) + Z.shiftl 2047 52
  | FFin s u =>
      (if s then Z.shiftl 1 63 else 0) +
      (if u <? P52 then u
       else let L := Z.log2 u in Z.shiftl (L - 51) 52 + (Z.shiftr u (L - 52) - P52))
  end.
Definition fl_eqb (a b : fl) : bool := encode a =? encode b.   (* bitwise identity (all NaNs alike) *)

(* -- math.frexp / math.floor / math.ldexp as used by relabeling.range_around_float(x, i), for a
   finite x >= 0:  m, e = frexp(x); if e < -1021: m, e = ldexp(x, 1021), -1021;
   mf = floor(ldexp(m, 53 - i)); exp = e + i - 53;
   returns (ldexp(mf, exp), ldexp(mf + 1, exp)); None stands for ldexp's OverflowError. *)
Definition range_around (u i : Z) : option (fl * fl) :=
  if u =? 0 then Some (fzero, round_p2 false (Z.shiftl 1 (i + 1021)) 0)       (* frexp(0) = (0, 0) *)
  else
    (* subnormal x (frexp exponent < -1021, i.e. u < 2^52) is treated as having exponent -1021: exp = i - 1074 *)
    let t := if u <? P52 then i else Z.log2 u + i - 52 in              (* exp + 1074 *)
    if 0 <=? t then
      let mf := Z.shiftr u t in
      let hi := round_p2 false (Z.shiftl (mf + 1) t) 0 in
      match hi with
      | FInf _ => None
      | _ => Some (round_p2 false (Z.shiftl mf t) 0, hi)
      end
    else
      let mf := Z.shiftl u (- t) in
      Some (round_p2 false mf (- t), round_p2 false (mf + 1) (- t)).
