(* Library that the js2v-translated code of sandbox/gen_js_schema.py / usertypes.get_type_default and the
   ts2v-translated functions of app/common/gristTypes.ts refer to (C38).  Strings are lists of code
   points.  Definitions only. *)
From Coq Require Import String Ascii ZArith List Bool.
Import ListNotations.
Open Scope Z_scope.

(* an ASCII Coq string literal as code points *)
Definition str (s : string) : list Z :=
  map (fun a => Z.of_N (N_of_ascii a)) (list_ascii_of_string s).

Definition nl : list Z := [10].

Fixpoint zs_eqb (a b : list Z) : bool :=
  match a, b with
  | [], [] => true
  | x :: a', y :: b' => (x =? y) && zs_eqb a' b'
  | _, _ => false
  end.

(* a dict with string keys, as an association list (first match) *)
Fixpoint assoc {A} (k : list Z) (l : list (list Z * A)) : option A :=
  match l with
  | [] => None
  | (k', v) :: t => if zs_eqb k k' then Some v else assoc k t
  end.

(* d.get(k, default) *)
Definition py_dict_get {A} (d : list (list Z * A)) (k : list Z) (default : A) : A :=
  match assoc k d with Some v => v | None => default end.

(* s.split(c, 1)[0]  (the whole string when c does not occur) *)
Fixpoint take_until (c : Z) (s : list Z) : list Z :=
  match s with
  | [] => []
  | x :: t => if x =? c then [] else x :: take_until c t
  end.

(* str(z) / "%d" % z *)
Fixpoint uint_chars (u : Decimal.uint) : list Z :=
  match u with
  | Decimal.Nil => []
  | Decimal.D0 u => 48 :: uint_chars u
  | Decimal.D1 u => 49 :: uint_chars u
  | Decimal.D2 u => 50 :: uint_chars u
  | Decimal.D3 u => 51 :: uint_chars u
  | Decimal.D4 u => 52 :: uint_chars u
  | Decimal.D5 u => 53 :: uint_chars u
  | Decimal.D6 u => 54 :: uint_chars u
  | Decimal.D7 u => 55 :: uint_chars u
  | Decimal.D8 u => 56 :: uint_chars u
  | Decimal.D9 u => 57 :: uint_chars u
  end.

Definition dec (z : Z) : list Z :=
  match Z.to_int z with
  | Decimal.Pos u => uint_chars u
  | Decimal.Neg u => 45 :: uint_chars u
  end.

(* left-justified in a field of n code points (never truncated) *)
Definition pad_to (n : nat) (s : list Z) : list Z := s ++ repeat 32 (n - length s)%nat.
Definition pad_left (n : nat) (s : list Z) : list Z := repeat 32 (n - length s)%nat ++ s.

(* ---------- the % operator on a str:  fmt % (args...) ----------
   Conversion specifiers: "%" ["-"] [width digits] ("s" | "d"), and "%%" (only directly).  Everything
   else, a missing or surplus argument, or "%d" of a str gives None: a Python exception or a form outside
   the model. *)
Inductive fmt_arg := AStr (s : list Z) | AInt (z : Z).

Inductive fmt_state :=
| FLit                                        (* copying literal text *)
| FSpec (fresh : bool) (minus : bool) (digits : bool) (width : nat).
    (* after "%": fresh = nothing read yet; minus = "-" flag read; digits = a width digit read *)

Definition fmt_field (minus : bool) (width : nat) (s : list Z) : list Z :=
  if minus then pad_to width s else pad_left width s.

Fixpoint fmt_go (st : fmt_state) (fmt : list Z) (args : list fmt_arg) : option (list Z) :=
  match fmt with
  | [] =>
      match st, args with
      | FLit, [] => Some []
      | _, _ => None                          (* incomplete format / not all arguments converted *)
      end
  | c :: t =>
      match st with
      | FLit =>
          if c =? 37 then fmt_go (FSpec true false false 0) t args
          else option_map (cons c) (fmt_go FLit t args)
      | FSpec fresh minus digits width =>
          if c =? 37 then
            (if fresh then option_map (cons 37) (fmt_go FLit t args) else None)
          else if c =? 45 then
            (if fresh then fmt_go (FSpec false true false 0) t args else None)
          else if (48 <=? c) && (c <=? 57) then
            (if (c =? 48) && negb digits then None       (* "0" flag: not modelled *)
             else fmt_go (FSpec false minus true (width * 10 + Z.to_nat (c - 48))) t args)
          else if c =? 115 then               (* s *)
            match args with
            | AStr s :: rest => option_map (app (fmt_field minus width s)) (fmt_go FLit t rest)
            | AInt z :: rest => option_map (app (fmt_field minus width (dec z))) (fmt_go FLit t rest)
            | [] => None
            end
          else if c =? 100 then               (* d *)
            match args with
            | AInt z :: rest => option_map (app (fmt_field minus width (dec z))) (fmt_go FLit t rest)
            | _ => None
            end
          else None
      end
  end.

Definition py_percent (fmt : list Z) (args : list fmt_arg) : option (list Z) := fmt_go FLit fmt args.

(* ---------- statements that write to stdout: the value is the text written, None an exception ---------- *)

Definition bind {A B} (x : option A) (f : A -> option B) : option B :=
  match x with Some a => f a | None => None end.

Fixpoint out_seq (l : list (option (list Z))) : option (list Z) :=
  match l with
  | [] => Some []
  | x :: t => bind x (fun a => option_map (app a) (out_seq t))
  end.

(* print(e) with one str argument *)
Definition py_print (e : option (list Z)) : option (list Z) := option_map (fun s => s ++ nl) e.

(* for x in l: body *)
Definition py_for {A} (l : list A) (body : A -> option (list Z)) : option (list Z) := out_seq (map body l).

(* ---------- JavaScript string primitives (ts2v) ---------- *)

(* s.indexOf(c) for a one-character needle; -1 when absent *)
Fixpoint js_index_of (c : Z) (s : list Z) : Z :=
  match s with
  | [] => -1
  | x :: t => if x =? c then 0 else let r := js_index_of c t in if r <? 0 then -1 else r + 1
  end.

(* s.slice(0, n) for n >= 0 *)
Definition js_slice0 (n : Z) (s : list Z) : list Z := firstn (Z.to_nat n) s.

(* !s for a string: true exactly for the empty string *)
Definition js_not_str (s : list Z) : bool := match s with [] => true | _ => false end.

(* ---------- property lookup on a JavaScript object literal ---------- *)

(* own property names of Object.prototype (ECMAScript + Annex B): obj[k] finds these through the
   prototype chain when the literal has no own property k.  Compared with node's list on every run. *)
Definition js_object_prototype_names : list (list Z) :=
  map str ["constructor"; "__defineGetter__"; "__defineSetter__"; "hasOwnProperty"; "__lookupGetter__";
           "__lookupSetter__"; "isPrototypeOf"; "propertyIsEnumerable"; "toString"; "valueOf"; "__proto__";
           "toLocaleString"]%string.

Definition zs_mem (k : list Z) (l : list (list Z)) : bool := existsb (zs_eqb k) l.

Inductive js_prop (A : Type) :=
| JsOwn (v : A)        (* an own property of the literal *)
| JsInherited          (* a function / object inherited from Object.prototype: truthy, not an array *)
| JsUndefined.
Arguments JsOwn {A} v.
Arguments JsInherited {A}.
Arguments JsUndefined {A}.

(* obj[k] / obj.k *)
Definition js_obj_get {A} (obj : list (list Z * A)) (k : list Z) : js_prop A :=
  match assoc k obj with
  | Some v => JsOwn v
  | None => if zs_mem k js_object_prototype_names then JsInherited else JsUndefined
  end.

(* a || b  where an own value is an array (always truthy) *)
Definition js_prop_or {A} (a b : js_prop A) : js_prop A :=
  match a with JsUndefined => b | _ => a end.
