(* Semantics of the Python builtins and engine calls that harness/sm2v.py leaves in the code it translates from
   table.py (Table._add_update_summary_col._updateSummary, lookupOrAddDerived, getSummarySourceGroup) and
   column.py (_raw_get_without), over the value domain of Model/Summary.v. *)
From Coq Require Import ZArith List Bool.
Import ListNotations.
Require Import Grist.Model.Summary.
Open Scope Z_scope.

(* an element of a lookup value: a hashable value, or something that is not hashable *)
Inductive elem : Type := EAtom (a : atom) | EUnhash.

(* control flow of a translated block: fall through with the live variables, `return`, or an exception *)
Inductive flow (A : Type) : Type :=
| Go (a : A)
| Ret (r : list mrow * list Z)        (* the summary table and the returned row ids *)
| ExcType                             (* TypeError *)
| ExcOther.                           (* the error of a cell that was read *)
Arguments Go {A} a. Arguments Ret {A} r. Arguments ExcType {A}. Arguments ExcOther {A}.

Definition bind {A B} (m : flow A) (f : A -> flow B) : flow B :=
  match m with Go a => f a | Ret r => Ret r | ExcType => ExcType | ExcOther => ExcOther end.

(* try: m  except TypeError: h *)
Definition catch_type {A} (m : flow A) (h : flow A) : flow A :=
  match m with ExcType => h | other => other end.

Fixpoint fold_flow {S X} (f : S -> X -> flow S) (l : list X) (s : S) : flow S :=
  match l with [] => Go s | x :: t => bind (f s x) (fold_flow f t) end.

(* classes of column objects / Python types named in isinstance tests *)
Inductive pyclass : Type := ChoiceListColumn | ReferenceListColumn | Tbytes | Tstr.

Definition kind_is (kd : kind) (c : pyclass) : bool :=
  match kd, c with KChoiceList, ChoiceListColumn => true | KRefList, ReferenceListColumn => true | _, _ => false end.
Definition kind_isinstance (kd : kind) (cs : list pyclass) : bool := existsb (kind_is kd) cs.

Definition cell_is (c : cell) (t : pyclass) : bool :=
  match c, t with CAtom (AStr _), Tstr => true | CAtom (ABytes _), Tbytes => true | _, _ => false end.
Definition cell_isinstance (c : cell) (ts : list pyclass) : bool := existsb (cell_is c) ts.

(* getattr(rec, col) *)
Definition py_getattr (c : cell) : flow cell := match c with CError => ExcOther | _ => Go c end.

(* set(v): TypeError for a value that is not iterable or has an unhashable element *)
Definition py_set (c : cell) : flow (list elem) :=
  match c with CSeq l => Go (map EAtom (dedup l)) | _ => ExcType end.

(* [v] *)
Definition py_list1 (c : cell) : list elem := match c with CAtom a => [EAtom a] | _ => [EUnhash] end.

Definition py_empty {A} (l : list A) : bool := match l with [] => true | _ => false end.
Definition py_truthy_z (z : Z) : bool := negb (Z.eqb z 0).

Fixpoint to_key (t : list elem) : option key :=
  match t with
  | [] => Some []
  | EAtom a :: r => match to_key r with Some k => Some (a :: k) | None => None end
  | EUnhash :: _ => None
  end.

Fixpoint all_keys (vals : list (list elem)) : option (list (list atom)) :=
  match vals with
  | [] => Some []
  | v :: r => match to_key v, all_keys r with Some k, Some ks => Some (k :: ks) | _, _ => None end
  end.

Fixpoint eproduct (vals : list (list elem)) : list (list elem) :=
  match vals with [] => [[]] | v :: r => flat_map (fun a => map (cons a) (eproduct r)) v end.

(* sorted(itertools.product over lookup_values): an unhashable scalar is the same object in every tuple and is
   never compared; the lookup of the first tuple raises anyway *)
Definition py_sorted_product (vals : list (list elem)) : list (list elem) :=
  match all_keys vals with
  | Some avs => map (map EAtom) (sort_keys (product avs))
  | None => eproduct vals
  end.

(* summary_table.lookup_one_record( ** values)._row_id : 0 when nothing matches; TypeError for an unhashable key *)
Definition py_lookup_one (summ : list mrow) (t : list elem) : flow Z :=
  match to_key t with
  | None => ExcType
  | Some k => Go (match first_match summ k with Some i => i | None => 0 end)
  end.

Definition keys_of_tuples (ts : list (list elem)) : list key :=
  flat_map (fun t => match to_key t with Some k => [k] | None => [] end) ts.

(* user_actions.BulkAddRecord(summary table, [None, ...], values_to_add) *)
Definition py_bulk_add (summ : list mrow) (new_row_ids : list unit) (values_to_add : list (list elem))
  : list mrow * list Z :=
  let rows := number_from (next_id summ) (keys_of_tuples values_to_add) in (summ ++ rows, map fst rows).

(* user_actions.AddRecord(summary table, None, values) *)
Definition py_add_record (summ : list mrow) (values : list elem) : list mrow * Z :=
  match to_key values with
  | Some k => (summ ++ [(next_id summ, k)], next_id summ)
  | None => (summ, 0)
  end.

(* {c: getattr(rec, c) for c in groupby_cols} *)
Fixpoint py_getattr_all (cells : list cell) : flow (list elem) :=
  match cells with
  | [] => Go []
  | c :: t => bind (py_getattr c) (fun v => bind (py_getattr_all t) (fun r => Go (py_list1 v ++ r)))
  end.

(* lookup value of getSummarySourceGroup: the record itself, or CONTAINS(record) *)
Inductive lookup_val : Type := LRec (i : Z) | LContains (i : Z).

(* source_table.lookup_records( ** {helper column: value}): row ids in ascending order (order_by defaults to id) *)
Definition py_lookup_helper (hs : list (Z * list Z)) (v : lookup_val) : list Z :=
  match v with
  | LRec i => map fst (filter (fun rh => match snd rh with [j] => Z.eqb i j | _ => false end) hs)
  | LContains i => map fst (filter (fun rh => mem_z i (snd rh)) hs)
  end.
