(* Concrete instances of the opaque primitives of Model/ScheduleCode.v, used only by the differential
   validation of the translator harness/sch2v*.py (harness/c35diff.py): the functions of
   gen/Schedule_gen.v are evaluated with vm_compute under these instances and compared with what the
   running Python functions return on the same arguments. *)
From Coq Require Import ZArith List Bool.
Import ListNotations.
Require Import Grist.Model.Schedule Grist.Lib.PySched Grist.Model.ScheduleCode.
Open Scope Z_scope.

(* ---- 1. symbolic: calendar operations build a tree (Delta.__init__ / add_interval / add_to) ---- *)
Inductive sym :=
  | SV (n : Z) | SCombine (a b : sym) | SDateadd (a : sym) (m : Z) | STimetz (a : sym) | SPlus (a b : sym)
  | STd0 | STdAdd (a b : sym) | STdUnit (u : str) (n : Z).

Fixpoint sym_eqb (x y : sym) : bool :=
  match x, y with
  | SV a, SV b => a =? b
  | SCombine a b, SCombine c d => sym_eqb a c && sym_eqb b d
  | SDateadd a m, SDateadd c n => sym_eqb a c && (m =? n)
  | STimetz a, STimetz c => sym_eqb a c
  | SPlus a b, SPlus c d => sym_eqb a c && sym_eqb b d
  | STd0, STd0 => true
  | STdAdd a b, STdAdd c d => sym_eqb a c && sym_eqb b d
  | STdUnit u m, STdUnit v n => str_eqb u v && (m =? n)
  | _, _ => false
  end.

Definition sym_prims : prims sym sym sym sym unit :=
  mkPrims (fun _ _ => false) (fun x => x) (fun x _ => x) SCombine SDateadd STimetz SPlus STd0 STdAdd
          (fun u n => Val (STdUnit u n)) (fun s => s) (fun s => s) (fun _ => []) (fun _ _ => []) (fun _ _ => [])
          (fun _ => Exn ValueError) (fun _ => None) (fun _ => None) (fun _ _ => None).

Definition exn_code (e : pyexn) : Z :=
  match e with ValueError => 1 | TypeError => 2 | AttributeError => 3 | KeyError => 4 | OverflowError => 5 end.

(* ---- 2. tables: Delta.add_to looks the instant up in a table computed by the real code (series) ----
   a delta is (timedelta = tt, months = slot index, or -1 for the interval) *)
Definition tbl_prims (tb : table) (base : Z) : prims Z unit (Z * Z) unit unit :=
  mkPrims Z.ltb (fun x => x) (fun _ _ => base)
          (fun d _ => if snd d <? 0 then tbl_next tb (fst d) else tbl_slot tb (Z.to_nat (snd d)) (fst d))
          (fun t i => (t, i)) (fun _ => tt) (fun x _ => x) tt (fun _ _ => tt)
          (fun _ _ => Val tt) (fun s => s) (fun s => s) (fun _ => []) (fun _ _ => []) (fun _ _ => [])
          (fun _ => Exn ValueError) (fun _ => None) (fun _ => None) (fun _ _ => None).

Definition tbl_schedule (n : nat) : schedule unit :=
  mkSchedule [] (mkDelta tt (-1)) (map (fun i => mkDelta tt (Z.of_nat i)) (seq 0 n)).

(* ---- 3. parsers: ASCII lower, decimal int, timedelta in microseconds; regex results as tables ---- *)
Definition ascii_lower (s : str) : str := map (fun c => if (65 <=? c) && (c <=? 90) then c + 32 else c) s.

Fixpoint dec_digits (s : str) (acc : Z) : exc Z :=
  match s with
  | [] => Val acc
  | c :: r => if (48 <=? c) && (c <=? 57) then dec_digits r (acc * 10 + (c - 48)) else Exn ValueError
  end.
Definition dec_int (s : str) : exc Z := match s with [] => Exn ValueError | _ => dec_digits s 0 end.

Definition unit_us (u : str) : option Z :=
  if str_eqb u [119; 101; 101; 107; 115] then Some 604800000000
  else if str_eqb u S_days then Some 86400000000
  else if str_eqb u S_hours then Some 3600000000
  else if str_eqb u S_minutes then Some 60000000
  else if str_eqb u [115; 101; 99; 111; 110; 100; 115] then Some 1000000
  else None.

(* timedelta(unit=n): OverflowError beyond 999999999 days, TypeError for an unknown keyword *)
Definition td_unit_us (u : str) (n : Z) : exc Z :=
  match unit_us u with
  | None => Exn TypeError
  | Some k => let us := n * k in
              let days := us / 86400000000 in
              if (-999999999 <=? days) && (days <=? 999999999) then Val us else Exn OverflowError
  end.

Definition smatchT := list (str * ostr).

Definition table_get {V} (d : list (str * option V)) (k : str) : option V :=
  match assoc_get d k with Some o => o | None => None end.

Definition parse_prims (parts : list str) (imatches : list (str * option imatch))
    (smatches : list (str * option smatchT)) : prims Z Z Z Z smatchT :=
  mkPrims Z.ltb (fun x => x) (fun x _ => x) (fun d _ => d) (fun t _ => t) (fun t => t) Z.add 0 Z.add
          td_unit_us ascii_lower (fun s => s) (fun _ => parts) (fun _ _ => []) (fun _ _ => [])
          dec_int (table_get imatches) (table_get smatches) (fun m name => table_get m name).

(* result of a parser against (code, months/number, microseconds/unit): code 0 = returned *)
Definition delta_res_eqb (r : exc (delta Z)) (code months us : Z) : bool :=
  match r with
  | Val d => (code =? 0) && (d_months d =? months) && (d_timedelta d =? us)
  | Exn e => exn_code e =? code
  end.

Definition interval_res_eqb (r : exc (Z * str)) (code n : Z) (u : str) : bool :=
  match r with
  | Val (k, v) => (code =? 0) && (k =? n) && str_eqb v u
  | Exn e => exn_code e =? code
  end.
