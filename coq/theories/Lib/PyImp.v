(* Combinators that the translator harness/imp2v.py maps Python statements to (C41, C39):
   an exception monad, try/except on the first raising expression of a statement, and for-loops with
   break / continue / else over a tuple of loop-carried variables. *)
From Coq Require Import ZArith List Bool.
Import ListNotations.

Inductive pyexn := TypeError | KeyError (key : list Z) | AttributeError | AssertionError.
Inductive exn_class := CTypeError | CKeyError | CAttributeError | CAssertionError.

Definition exn_is (e : pyexn) (c : exn_class) : bool :=
  match e, c with
  | TypeError, CTypeError | KeyError _, CKeyError | AttributeError, CAttributeError
  | AssertionError, CAssertionError => true
  | _, _ => false
  end.

Inductive exc (A : Type) : Type := Val (a : A) | Exn (e : pyexn).
Arguments Val {A} a.
Arguments Exn {A} e.

Definition bind {A B} (m : exc A) (k : A -> exc B) : exc B :=
  match m with Val a => k a | Exn e => Exn e end.

(* try: <statement whose first evaluated expression is m> except cls: <handler>
   kv continues with the value (the rest of the statement and of the block: exceptions raised there are NOT
   caught), kh is the handler followed by the rest of the block *)
Definition py_try {A B} (m : exc A) (cls : exn_class) (kv : A -> exc B) (kh : exc B) : exc B :=
  match m with
  | Val a => kv a
  | Exn e => if exn_is e cls then kh else Exn e
  end.

Inductive ctrl := Next | Brk.

(* for x in l: body   -- s is the tuple of loop-carried variables; the result says whether the loop was left by
   break (then an else clause is skipped) *)
Fixpoint py_for {X S} (l : list X) (s : S) (body : X -> S -> exc (ctrl * S)) : exc (bool * S) :=
  match l with
  | [] => Val (false, s)
  | x :: t =>
      match body x s with
      | Exn e => Exn e
      | Val (Brk, s') => Val (true, s')
      | Val (Next, s') => py_for t s' body
      end
  end.

(* enumerate(l) *)
Fixpoint py_enumerate_from {A} (i : Z) (l : list A) : list (Z * A) :=
  match l with [] => [] | x :: t => (i, x) :: py_enumerate_from (i + 1)%Z t end.
Definition py_enumerate {A} (l : list A) : list (Z * A) := py_enumerate_from 0%Z l.

Definition py_zip {A B} (l : list A) (m : list B) : list (A * B) := combine l m.

(* truth value of a list *)
Definition py_nonempty {A} (l : list A) : bool := match l with [] => false | _ => true end.

(* d[k] = v on a dict kept as an association list in insertion order *)
Fixpoint py_dict_set {K V} (eqb : K -> K -> bool) (d : list (K * V)) (k : K) (v : V) : list (K * V) :=
  match d with
  | [] => [(k, v)]
  | (k', v') :: t => if eqb k' k then (k', v) :: t else (k', v') :: py_dict_set eqb t k v
  end.

(* ---------------------------------------------------------------- facts *)

Lemma py_for_pure : forall {X S} (f : X -> S -> S) (body : X -> S -> exc (ctrl * S)) l s,
  (forall x s, body x s = Val (Next, f x s)) ->
  py_for l s body = Val (false, fold_left (fun s x => f x s) l s).
Proof.
  intros X S f body l. induction l as [|x t IH]; intros s H; simpl; [reflexivity|].
  rewrite H. apply IH. exact H.
Qed.

Lemma py_for_ext : forall {X S} (b1 b2 : X -> S -> exc (ctrl * S)) l s,
  (forall x s, In x l -> b1 x s = b2 x s) -> py_for l s b1 = py_for l s b2.
Proof.
  intros X S b1 b2 l. induction l as [|x t IH]; intros s H; simpl; [reflexivity|].
  rewrite (H x s (or_introl eq_refl)). destruct (b2 x s) as [[[|] s']|e]; try reflexivity.
  apply IH. intros y s0 Hy. apply H. right. exact Hy.
Qed.

Lemma py_dict_set_new : forall {K V} (eqb : K -> K -> bool) (d : list (K * V)) k v,
  (forall k' v', In (k', v') d -> eqb k' k = false) -> py_dict_set eqb d k v = d ++ [(k, v)].
Proof.
  intros K V eqb d k v. induction d as [|[k' v'] t IH]; intros H; simpl; [reflexivity|].
  rewrite (H k' v' (or_introl eq_refl)). rewrite IH; [reflexivity|].
  intros k'' v'' Hin. apply (H k'' v''). right. exact Hin.
Qed.
