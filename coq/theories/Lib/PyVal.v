(* Python cell values as used by the models of C41 (fetch_table queries) and C39 (RenameChoices), with a
   decidable model of Python's `==` and of hashability on them.

     None, bool, int, float, str, list, tuple, and "opaque" objects (dicts, Records, non-half floats ...)
     which are only ever compared by a token.

   Floats: a float is represented by TWICE its value (VFloat 3 is 1.5), so every half-integer float is exact and
   the cross-type equalities 1 == 1.0 == True, 0 == 0.0 == False are modelled (py_eq).  NaN is not
   represented (the harness never generates it). *)
From Coq Require Import ZArith List Bool Lia.
Import ListNotations.
Open Scope Z_scope.

Inductive val : Type :=
| VNone
| VBool (b : bool)
| VInt (z : Z)
| VFloat (twice : Z)
| VStr (s : list Z)
| VList (l : list val)
| VTuple (l : list val)
| VOpaque (hashable : bool) (tok : Z).

(* ---------------------------------------------------------------- structural equality *)

Fixpoint str_eqb (a b : list Z) : bool :=
  match a, b with
  | [], [] => true
  | x :: a', y :: b' => Z.eqb x y && str_eqb a' b'
  | _, _ => false
  end.

Fixpoint val_eqb (a b : val) {struct a} : bool :=
  match a, b with
  | VNone, VNone => true
  | VBool x, VBool y => Bool.eqb x y
  | VInt x, VInt y => Z.eqb x y
  | VFloat x, VFloat y => Z.eqb x y
  | VStr x, VStr y => str_eqb x y
  | VList x, VList y =>
      (fix go (l m : list val) {struct l} : bool :=
         match l, m with
         | [], [] => true
         | p :: l', q :: m' => val_eqb p q && go l' m'
         | _, _ => false
         end) x y
  | VTuple x, VTuple y =>
      (fix go (l m : list val) {struct l} : bool :=
         match l, m with
         | [], [] => true
         | p :: l', q :: m' => val_eqb p q && go l' m'
         | _, _ => false
         end) x y
  | VOpaque h t, VOpaque h' t' => Bool.eqb h h' && Z.eqb t t'
  | _, _ => false
  end.

Fixpoint vals_eqb (l m : list val) : bool :=
  match l, m with
  | [], [] => true
  | p :: l', q :: m' => val_eqb p q && vals_eqb l' m'
  | _, _ => false
  end.

(* ---------------------------------------------------------------- Python == and hash *)

(* numeric tower collapsed: bools and ints become the float of the same value *)
Fixpoint norm (a : val) : val :=
  match a with
  | VBool b => VFloat (if b then 2 else 0)
  | VInt z => VFloat (2 * z)
  | VList l => VList (map norm l)
  | VTuple l => VTuple (map norm l)
  | x => x
  end.

(* Python's a == b on these values *)
Definition py_eq (a b : val) : bool := val_eqb (norm a) (norm b).

(* hash(a) does not raise TypeError *)
Fixpoint hashable (a : val) : bool :=
  match a with
  | VList _ => false
  | VTuple l => forallb hashable l
  | VOpaque h _ => h
  | _ => true
  end.

(* x in l  for a Python list/tuple l *)
Definition py_in (x : val) (l : list val) : bool := existsb (py_eq x) l.

(* the elements a Python set built from l holds (first of each ==-class, in insertion order) *)
Fixpoint py_set_add_all (acc l : list val) : list val :=
  match l with
  | [] => acc
  | x :: t => py_set_add_all (if py_in x acc then acc else acc ++ [x]) t
  end.
Definition py_set (l : list val) : list val := py_set_add_all [] l.

(* ---------------------------------------------------------------- induction principle *)

Section val_induction.
  Variable P : val -> Prop.
  Hypothesis HNone : P VNone.
  Hypothesis HBool : forall b, P (VBool b).
  Hypothesis HInt : forall z, P (VInt z).
  Hypothesis HFloat : forall z, P (VFloat z).
  Hypothesis HStr : forall s, P (VStr s).
  Hypothesis HList : forall l, Forall P l -> P (VList l).
  Hypothesis HTuple : forall l, Forall P l -> P (VTuple l).
  Hypothesis HOpaque : forall h t, P (VOpaque h t).

  Fixpoint val_ind2 (a : val) : P a :=
    match a with
    | VNone => HNone
    | VBool b => HBool b
    | VInt z => HInt z
    | VFloat z => HFloat z
    | VStr s => HStr s
    | VList l => HList l ((fix go (l : list val) : Forall P l :=
                             match l with [] => Forall_nil P | x :: t => Forall_cons x (val_ind2 x) (go t) end) l)
    | VTuple l => HTuple l ((fix go (l : list val) : Forall P l :=
                             match l with [] => Forall_nil P | x :: t => Forall_cons x (val_ind2 x) (go t) end) l)
    | VOpaque h t => HOpaque h t
    end.
End val_induction.

(* ---------------------------------------------------------------- facts *)

Lemma str_eqb_eq : forall a b, str_eqb a b = true <-> a = b.
Proof.
  induction a as [|x a IH]; destruct b as [|y b]; simpl.
  - split; reflexivity.
  - split; discriminate.
  - split; discriminate.
  - rewrite andb_true_iff, Z.eqb_eq, IH. split.
    + intros [-> ->]; reflexivity.
    + intros E; injection E; auto.
Qed.

Lemma str_eqb_refl : forall a, str_eqb a a = true.
Proof. intros; apply str_eqb_eq; reflexivity. Qed.

Lemma val_eqb_list_unfold : forall x y, val_eqb (VList x) (VList y) = vals_eqb x y.
Proof. intros x y; destruct x, y; reflexivity. Qed.

Lemma val_eqb_tuple_unfold : forall x y, val_eqb (VTuple x) (VTuple y) = vals_eqb x y.
Proof. intros x y; destruct x, y; reflexivity. Qed.

Lemma vals_eqb_eq_aux : forall l, Forall (fun a => forall b, val_eqb a b = true <-> a = b) l ->
  forall m, vals_eqb l m = true <-> l = m.
Proof.
  induction 1 as [|p l Hp Hl IH]; destruct m as [|q m]; simpl.
  - split; reflexivity.
  - split; discriminate.
  - split; discriminate.
  - rewrite andb_true_iff, Hp, IH. split.
    + intros [-> ->]; reflexivity.
    + intros E; injection E; auto.
Qed.

Lemma val_eqb_eq : forall a b, val_eqb a b = true <-> a = b.
Proof.
  induction a as [ |x|x|x|x|l IH|l IH|h t] using val_ind2; intros b.
  - destruct b; simpl; split; congruence.
  - destruct b; simpl; try (split; congruence). rewrite Bool.eqb_true_iff. split; congruence.
  - destruct b; simpl; try (split; congruence). rewrite Z.eqb_eq. split; congruence.
  - destruct b; simpl; try (split; congruence). rewrite Z.eqb_eq. split; congruence.
  - destruct b; simpl; try (split; congruence). rewrite str_eqb_eq. split; congruence.
  - destruct b as [ | | | | |m|m| ]; try (simpl; split; congruence).
    rewrite val_eqb_list_unfold, (vals_eqb_eq_aux l IH). split; congruence.
  - destruct b as [ | | | | |m|m| ]; try (simpl; split; congruence).
    rewrite val_eqb_tuple_unfold, (vals_eqb_eq_aux l IH). split; congruence.
  - destruct b; simpl; try (split; congruence).
    rewrite andb_true_iff, Bool.eqb_true_iff, Z.eqb_eq. split; [intros [-> ->]; reflexivity | intros E; injection E; auto].
Qed.

Lemma val_eqb_refl : forall a, val_eqb a a = true.
Proof. intros; apply val_eqb_eq; reflexivity. Qed.

Lemma vals_eqb_eq : forall l m, vals_eqb l m = true <-> l = m.
Proof.
  intros l. apply vals_eqb_eq_aux. apply Forall_forall. intros a _ b. apply val_eqb_eq.
Qed.

(* Python == is the equality of the normal forms: an equivalence relation *)
Lemma py_eq_iff : forall a b, py_eq a b = true <-> norm a = norm b.
Proof. intros; unfold py_eq; apply val_eqb_eq. Qed.

Lemma py_eq_refl : forall a, py_eq a a = true.
Proof. intros; apply py_eq_iff; reflexivity. Qed.

Lemma py_eq_sym : forall a b, py_eq a b = py_eq b a.
Proof.
  intros a b. destruct (py_eq a b) eqn:E1, (py_eq b a) eqn:E2; try reflexivity.
  - apply py_eq_iff in E1. symmetry in E1. apply py_eq_iff in E1. congruence.
  - apply py_eq_iff in E2. symmetry in E2. apply py_eq_iff in E2. congruence.
Qed.

Lemma py_eq_trans : forall a b c, py_eq a b = true -> py_eq b c = true -> py_eq a c = true.
Proof. intros a b c H1 H2. apply py_eq_iff in H1, H2. apply py_eq_iff. congruence. Qed.

(* structural equality implies == *)
Lemma val_eqb_py_eq : forall a b, val_eqb a b = true -> py_eq a b = true.
Proof. intros a b H. apply val_eqb_eq in H. subst. apply py_eq_refl. Qed.

(* equal objects are hashable together (the reason why "unhashable, so definitely not in the set" is sound) *)
Lemma hashable_norm : forall a, hashable (norm a) = hashable a.
Proof.
  induction a as [ |x|x|x|x|l IH|l IH|h t] using val_ind2; try reflexivity.
  simpl. induction IH as [|p l Hp Hl IHl]; simpl; [reflexivity|]. rewrite Hp, IHl. reflexivity.
Qed.

Lemma py_eq_hashable : forall a b, py_eq a b = true -> hashable a = hashable b.
Proof.
  intros a b H. apply py_eq_iff in H. rewrite <- (hashable_norm a), <- (hashable_norm b), H. reflexivity.
Qed.

Lemma py_in_iff : forall x l, py_in x l = true <-> exists v, In v l /\ py_eq x v = true.
Proof. intros; unfold py_in; apply existsb_exists. Qed.

Lemma py_in_app : forall x l m, py_in x (l ++ m) = py_in x l || py_in x m.
Proof. intros; unfold py_in; apply existsb_app. Qed.

Lemma py_in_eq_compat : forall x y l, py_eq x y = true -> py_in x l = py_in y l.
Proof.
  intros x y l H. induction l as [|v l IH]; simpl; [reflexivity|]. rewrite IH. f_equal.
  destruct (py_eq x v) eqn:E1, (py_eq y v) eqn:E2; try reflexivity.
  - rewrite py_eq_sym in H. rewrite (py_eq_trans _ _ _ H E1) in E2. discriminate.
  - rewrite (py_eq_trans _ _ _ H E2) in E1. discriminate.
Qed.

(* a set built from a list has the same members as the list *)
Lemma py_set_add_all_in : forall l acc x,
  py_in x (py_set_add_all acc l) = py_in x acc || py_in x l.
Proof.
  induction l as [|v l IH]; intros acc x; simpl.
  - rewrite orb_false_r. reflexivity.
  - rewrite IH. destruct (py_in v acc) eqn:Hv.
    + destruct (py_eq x v) eqn:Exv; simpl; [|reflexivity].
      rewrite (py_in_eq_compat x v acc Exv), Hv. reflexivity.
    + rewrite py_in_app. simpl. rewrite orb_false_r, orb_assoc. reflexivity.
Qed.

Lemma py_set_in : forall l x, py_in x (py_set l) = py_in x l.
Proof. intros; unfold py_set; rewrite py_set_add_all_in; reflexivity. Qed.

(* the cross-type equalities of Python's numeric tower, and the type distinctions it keeps *)
Example py_eq_numeric_tower :
  py_eq (VInt 1) (VFloat 2) = true /\ py_eq (VBool true) (VInt 1) = true /\ py_eq (VFloat 0) (VBool false) = true /\
  py_eq (VInt 1) (VFloat 3) = false /\ py_eq (VStr [49]) (VInt 1) = false /\ py_eq VNone (VBool false) = false /\
  py_eq (VList [VInt 1]) (VTuple [VInt 1]) = false /\ py_eq (VTuple [VInt 1; VStr []]) (VTuple [VBool true; VStr []]) = true.
Proof. vm_compute. repeat split. Qed.
