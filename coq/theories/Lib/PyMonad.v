(* Library used by the monadic py2v extension (harness/py2v_ext.py): Python code that may `raise`,
   loops over `enumerate(l)` that assign `l[i]`, values that may be None (option). *)
From Coq Require Import ZArith List Bool.
Import ListNotations.

(* exception classes the translated fragments raise; the message text is not modelled *)
Inductive py_exc : Type := PyValueError | PyAssertionError | PyKeyError | PyTypeError.

Definition py_exc_eqb (a b : py_exc) : bool :=
  match a, b with
  | PyValueError, PyValueError | PyAssertionError, PyAssertionError
  | PyKeyError, PyKeyError | PyTypeError, PyTypeError => true
  | _, _ => false
  end.

Inductive py_result (A : Type) : Type :=
  | PyOk (a : A)
  | PyErr (e : py_exc).
Arguments PyOk {A} a.
Arguments PyErr {A} e.

Definition py_bind {A B} (r : py_result A) (f : A -> py_result B) : py_result B :=
  match r with PyOk a => f a | PyErr e => PyErr e end.

(* a `for` loop whose body may raise: the first exception ends the loop *)
Fixpoint py_fold {S X} (body : S -> X -> py_result S) (l : list X) (s : S) : py_result S :=
  match l with
  | [] => PyOk s
  | x :: t => match body s x with PyOk s' => py_fold body t s' | PyErr e => PyErr e end
  end.

Fixpoint py_enumerate_from {X} (i : Z) (l : list X) : list (Z * X) :=
  match l with
  | [] => []
  | x :: t => (i, x) :: py_enumerate_from (i + 1)%Z t
  end.
Definition py_enumerate {X} (l : list X) : list (Z * X) := py_enumerate_from 0%Z l.

(* l[i] = v for an index produced by enumerate(l) (0 <= i < len l); other indexes leave l alone *)
Fixpoint py_set_nth {X} (i : Z) (v : X) (l : list X) : list X :=
  match l with
  | [] => []
  | x :: t => if Z.eqb i 0 then v :: t else x :: py_set_nth (i - 1)%Z v t
  end.

Definition py_result_eqb {A} (eqb : A -> A -> bool) (r s : py_result A) : bool :=
  match r, s with
  | PyOk a, PyOk b => eqb a b
  | PyErr e, PyErr f => py_exc_eqb e f
  | _, _ => false
  end.

Definition py_option_eqb {A} (eqb : A -> A -> bool) (r s : option A) : bool :=
  match r, s with
  | Some a, Some b => eqb a b
  | None, None => true
  | _, _ => false
  end.
