(* Library for the code translated by harness/tmp2v.py (C26): dicts keyed by ints, cell values that may be an
   int, a list of ints or something else, sets, sorted(), indexing. *)
From Coq Require Import ZArith List Bool.
Import ListNotations.
Require Import Grist.Lib.PyPrelude Grist.Lib.PyMonad.
Open Scope Z_scope.

(* ---- a dict {int: int} that is only ever read with .get(): newest binding first ---------------------- *)
Definition zdict := list (Z * Z).

Fixpoint zd_lookup (k : Z) (d : zdict) : option Z :=
  match d with
  | [] => None
  | (k', v) :: t => if k' =? k then Some v else zd_lookup k t
  end.

(* d.update(pairs): later pairs override earlier ones and the old contents *)
Definition py_dict_update (d : zdict) (pairs : list (Z * Z)) : zdict :=
  fold_left (fun m p => p :: m) pairs d.

(* d.get(k, dflt) *)
Definition py_dict_get (d : zdict) (k dflt : Z) : Z :=
  match zd_lookup k d with Some v => v | None => dflt end.

(* ---- a dict whose values() are read: insertion order, one entry per key ------------------------------ *)
Fixpoint od_set (d : list (Z * Z)) (k v : Z) : list (Z * Z) :=
  match d with
  | [] => [(k, v)]
  | (k', v') :: t => if k' =? k then (k', v) :: t else (k', v') :: od_set t k v
  end.
(* {k: v for ...}: pairs in generation order *)
Definition py_dict_of (pairs : list (Z * Z)) : list (Z * Z) :=
  fold_left (fun d p => od_set d (fst p) (snd p)) pairs [].
Definition py_dict_values (d : list (Z * Z)) : list Z := map snd d.

(* ---- sets of ints (membership and len only) --------------------------------------------------------- *)
Fixpoint py_set (l : list Z) : list Z :=
  match l with
  | [] => []
  | x :: t => if py_mem Z.eqb x t then py_set t else x :: py_set t
  end.

Definition py_len {A} (l : list A) : Z := Z.of_nat (length l).

(* ---- sorted() on ints -------------------------------------------------------------------------------- *)
Fixpoint py_insert (x : Z) (l : list Z) : list Z :=
  match l with
  | [] => [x]
  | y :: t => if x <=? y then x :: l else y :: py_insert x t
  end.
Definition py_sorted (l : list Z) : list Z := fold_right py_insert [] l.

(* l[i] inside a comprehension, for an index produced by enumerate(l): [l[i] for i in keep] is
   flat_map (py_index l) keep.  (An index out of range raises IndexError in Python: outside the domain.) *)
Definition py_index {A} (l : list A) (i : Z) : list A :=
  if i <? 0 then [] else match nth_error l (Z.to_nat i) with Some x => [x] | None => [] end.

(* ---- cell values as reference columns see them after convert() -------------------------------------- *)
Inductive pycell : Type :=
  | CInt (z : Z)             (* a row id *)
  | CList (l : list Z)       (* a list of row ids *)
  | CNone
  | COther (tag : Z).        (* alt text and anything else: never equal to an int key, not a list *)

(* d.get(r, r) for a cell value r: only an int can equal a key *)
Definition py_dict_get_cell (d : zdict) (r dflt : pycell) : pycell :=
  match r with
  | CInt z => match zd_lookup z d with Some v => CInt v | None => dflt end
  | _ => dflt
  end.

(* (value if isinstance(value, list) else (value,)) *)
Definition py_cell_items (v : pycell) : list pycell :=
  match v with CList l => map CInt l | _ => [v] end.

Definition py_is_nil {A} (l : list A) : bool := match l with [] => true | _ => false end.

Definition pycell_eqb (a b : pycell) : bool :=
  match a, b with
  | CInt x, CInt y => x =? y
  | CList x, CList y => py_list_eqb Z.eqb x y
  | CNone, CNone => true
  | COther x, COther y => x =? y
  | _, _ => false
  end.

(* the ActionSummary's per-table dicts: summ table_id is TableDelta.temp_row_ids of that table *)
Definition py_maps_set (m : Z -> zdict) (t : Z) (d : zdict) : Z -> zdict :=
  fun t' => if t' =? t then d else m t'.
