(* Helpers for the C05/C30 correspondence cases: the real dependency graph exported as data, the model's
   invalidate_deps run on it, and the comparison with the recompute map the real Graph produced. *)
From Coq Require Import ZArith List Bool.
Import ListNotations.
Require Import Grist.Model.Deps Grist.Model.DepsSpec Grist.Model.DepsExec.
Open Scope Z_scope.

Fixpoint zassoc {V} (d : V) (l : list (Z * V)) (k : Z) : V :=
  match l with [] => d | (k', v) :: t => if Z.eqb k' k then v else zassoc d t k end.

Definition mk_inv (l : list (node * list (row * list row))) : node -> row -> list row :=
  fun c t => zassoc [] (zassoc [] l c) t.
Definition mk_lkkeys (l : list (node * list (row * list Z))) : node -> row -> list Z :=
  fun m t => zassoc [] (zassoc [] l m) t.
Definition mk_lkrows (l : list (node * list (node * list (row * Z)))) : node -> node -> list (row * Z) :=
  fun m n => zassoc [] (zassoc [] l m) n.

(* recompute map literal: None = ALL_ROWS *)
Definition mk_map (l : list (node * option (list row))) : node -> option rowset :=
  fun n => zassoc None (map (fun p => (fst p, Some (match snd p with None => AllRows | Some r => Rows r end))) l) n.

Definition subset (a b : list Z) : bool := forallb (fun x => zmem x b) a.
Definition set_eq (a b : list Z) : bool := subset a b && subset b a.

Definition entry_matches (M : node -> option rowset) (e : node * option (list row)) : bool :=
  match snd e, M (fst e) with
  | None, Some AllRows => true
  | Some l, Some (Rows l') => set_eq l l'
  | Some [], None => true
  | _, _ => false
  end.

Record icase := mkCase {
  c_edges : list edge;
  c_inv : list (node * list (row * list row));
  c_lkrows : list (node * list (node * list (row * Z)));
  c_lkkeys : list (node * list (row * list Z));
  c_map : list (node * option (list row));
  c_node : node;
  c_rows : option (list row);          (* None = ALL_ROWS *)
  c_incl : bool;
  c_expected : list (node * option (list row))    (* every node of the document *)
}.

Definition run_icase (c : icase) : bool :=
  let g := mkG (c_edges c) (mkR (mk_inv (c_inv c)) (mk_lkrows (c_lkrows c)) (mk_lkkeys (c_lkkeys c)))
               (mk_map (c_map c)) [] in
  match invalidate_deps 5000 g (c_node c) (match c_rows c with None => AllRows | Some l => Rows l end) (c_incl c) with
  | Some g' => forallb (entry_matches (g_map g')) (c_expected c)
  | None => false
  end.
