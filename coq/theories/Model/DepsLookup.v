(* Executable model of the re-evaluation of one cell of a lookup map (lookup.py LookupMapColumn._recalc_rec_method
   for one row: SimpleLookupMapping.update_record, then _RelationTracker.invalidate_affected_keys ->
   _LookupRelation.invalidate_affected_keys -> Engine.invalidate_records(referring table, affected rows, (col,))).

   The cell (m, t) of lookup map m holds the key of target row t (its "value" is what the index stores for t);
   its formula reads the key columns of row t.  Re-evaluation
     - recomputes the key k', stores it in the index (lkkeys m t := [k']) and as the cell's value,
     - if the key changed from k to k': for every referring node n with a relation to m, the rows that looked up
       k or k' are invalidated (with include_self) and the invalidation is closed under the recorded edges. *)
From Coq Require Import ZArith List Bool Lia.
Import ListNotations.
Require Import Grist.Model.Deps Grist.Model.DepsSpec Grist.Model.DepsExec Grist.Model.DepsEval.
Open Scope Z_scope.

Definition set_lkkeys (R : relst) (m : node) (t : row) (ks : list Z) : relst :=
  mkR (inv R) (lkrows R)
      (fun m' t' => if Z.eqb m' m && Z.eqb t' t then ks else lkkeys R m' t').

(* Engine.invalidate_records for a list of (node, rows), one invalidate_deps each *)
Fixpoint invalidate_list (fuel : nat) (g : gst) (l : list (node * list row)) : option gst :=
  match l with
  | [] => Some g
  | (n, rows) :: rest =>
      match invalidate_deps fuel g n (Rows rows) true with
      | Some g1 => invalidate_list fuel g1 rest
      | None => None
      end
  end.

(* refs: the referring nodes that hold a _LookupRelation to this lookup map (_RelationTracker._lookup_relations) *)
Definition post_batches (R : relst) (m : node) (refs : list node) (k k' : Z) : list (node * list row) :=
  map (fun n => (n, rows_by_keys (lkrows R m n) [k; k'])) refs.

Definition eval_lookup_exec (fuel : nat) (v : cell -> Z) (g : gst) (c : cell) (t : itree) (refs : list node)
  : option ((cell -> Z) * gst) :=
  let k := v c in
  let k' := run v t in
  let R2 := set_lkkeys (g_rel g) (fst c) (snd c) [k'] in
  let g1 := mkG (record_reads (g_edges g) (fst c) (trace v t)) R2 (map_remove (g_map g) c) (g_nodes g) in
  if Z.eqb k k' then Some (upd v c k', g1)
  else match invalidate_list fuel g1 (post_batches R2 (fst c) refs k k') with
       | Some g2 => Some (upd v c k', g2)
       | None => None
       end.
