(* Model of the rename machinery for predicate formulas (C17): the three entity collectors
   (acl._ACLEntityCollector, dropdown_condition._DCEntityCollector, trigger_expression._TriggerEntityCollector),
   predicate_formula.process_renames, the renamers built by the perform_*_renames functions, and the ACL
   resource column list.  Definitions only; proofs are in Proofs/PredicateRename_proofs.v.

   Oracles (mapped by harness/props/c17.py): CPython's parser, asttokens (node.last_token.startpos of an
   Attribute node = [apos]), codebuilder.get_dollar_replacer (which `$` become `rec.`). *)
From Coq Require Import ZArith List Bool String.
Import ListNotations.
Require Import Grist.Model.Predicate.
Open Scope Z_scope.

(* NamedEntity(type, start_pos, name, extra) *)
Inductive ent_type := RecCol | UserAttr | UserAttrCol | ChoiceAttr.
Record entity := { e_type : ent_type; e_pos : Z; e_name : str; e_extra : option str }.

Inductive collector := ACL | DC | Trigger.

Definition is_name (t : tree) (n : string) : bool :=
  match t with TName id => str_eqb id (lit n) | _ => false end.

(* the body of visit_Attribute of each collector, given the converted parent *)
Definition classify (k : collector) (parent : tree) (attr : str) (apos : Z) : list entity :=
  match k with
  | ACL =>
      if is_name parent "rec" || is_name parent "newRec" then [Build_entity RecCol apos attr None]
      else if is_name parent "user" then [Build_entity UserAttr apos attr None]
      else match parent with
           | TAttr u a => if is_name u "user" then [Build_entity UserAttrCol apos attr (Some a)] else []
           | _ => []
           end
  | DC =>
      if is_name parent "choice" then [Build_entity ChoiceAttr apos attr None]
      else if is_name parent "rec" then [Build_entity RecCol apos attr None]
      else []
  | Trigger =>
      if is_name parent "rec" || is_name parent "oldRec" then [Build_entity RecCol apos attr None] else []
  end.

(* collector.visit(node): TreeConverter with visit_Attribute overridden; returns the tree and the entities
   appended while visiting, in order *)
Fixpoint visit (k : collector) (e : expr) : cres (tree * list entity) :=
  match e with
  | EBoolOp _ op vs =>
      bindc (mapMc (visit k) vs) (fun rs => Ok (TBoolOp op (map fst rs), List.concat (map snd rs)))
  | EBinOp p op l r =>
      match op with
      | BOther _ => Err (ErrUnsupported p)
      | BArith a =>
          bindc (visit k l) (fun rl => bindc (visit k r) (fun rr =>
            Ok (TBin a (fst rl) (fst rr), snd rl ++ snd rr)))
      end
  | EUnaryOp p op x =>
      match op with
      | UOther _ => Err (ErrUnsupported p)
      | UNot => bindc (visit k x) (fun r => Ok (TNot (fst r), snd r))
      end
  | ECompare _ l ops cs =>
      match ops, cs with
      | [op], [c] =>
          bindc (visit k l) (fun rl => bindc (visit k c) (fun rc =>
            Ok (TCmp op (fst rl) (fst rc), snd rl ++ snd rc)))
      | _, _ => Err ErrChained
      end
  | EName _ id =>
      match named_constant id with
      | Some c => Ok (TConst c, [])
      | None => Ok (TName id, [])
      end
  | EConstant p c => if negb (const_plain c) then Err (ErrUnsupported p) else Ok (TConst c, [])
  | EAttribute _ v a ap =>
      bindc (visit k v) (fun rv => Ok (TAttr (fst rv) a, snd rv ++ classify k (fst rv) a ap))
  | EList _ es | ETuple _ es =>
      bindc (mapMc (visit k) es) (fun rs => Ok (TListN (map fst rs), List.concat (map snd rs)))
  | ECall p f args kws =>
      if negb (forallb kw_named kws) then Err (ErrUnsupported p) else
      bindc (mapMc (visit k) args) (fun ras =>
      bindc (mapMc (fun kw => match kw with
                              | (n, v) => bindc (visit k v) (fun rv => Ok ((n, fst rv), snd rv))
                              end) kws) (fun rks =>
      bindc (visit k f) (fun rf =>
        Ok (TCall (fst rf) (map fst ras) (map fst rks),
            List.concat (map snd ras) ++ List.concat (map snd rks) ++ snd rf))))
  | EUnsupported p _ => Err (ErrUnsupported p)
  end.

(* ------------------------------------------------------------------------------------------- *)
(* Specification of the collectors directly on the AST. *)

Definition is_ename (e : expr) (n : string) : bool :=
  match e with EName _ id => str_eqb id (lit n) | _ => false end.

(* what an Attribute node `value.attr` is, by the shape of `value` *)
Definition classify_ast (k : collector) (value : expr) (attr : str) (apos : Z) : list entity :=
  match k with
  | ACL =>
      if is_ename value "rec" || is_ename value "newRec" then [Build_entity RecCol apos attr None]
      else if is_ename value "user" then [Build_entity UserAttr apos attr None]
      else match value with
           | EAttribute _ u a _ => if is_ename u "user" then [Build_entity UserAttrCol apos attr (Some a)] else []
           | _ => []
           end
  | DC =>
      if is_ename value "choice" then [Build_entity ChoiceAttr apos attr None]
      else if is_ename value "rec" then [Build_entity RecCol apos attr None]
      else []
  | Trigger =>
      if is_ename value "rec" || is_ename value "oldRec" then [Build_entity RecCol apos attr None] else []
  end.

(* all entities of an expression, in the order of the visits *)
Fixpoint collect (k : collector) (e : expr) : list entity :=
  match e with
  | EBoolOp _ _ vs => flat_map (collect k) vs
  | EBinOp _ _ l r => collect k l ++ collect k r
  | EUnaryOp _ _ x => collect k x
  | ECompare _ l _ cs => collect k l ++ flat_map (collect k) cs
  | EName _ _ | EConstant _ _ | EUnsupported _ _ => []
  | EAttribute _ v a ap => collect k v ++ classify_ast k v a ap
  | EList _ es | ETuple _ es => flat_map (collect k) es
  | ECall _ f args kws =>
      flat_map (collect k) args ++ flat_map (fun kw => collect k (snd kw)) kws ++ collect k f
  end.

(* an attribute chain  base.a1.a2...an  with the position of each name *)
Fixpoint chain (base : expr) (attrs : list (str * Z)) : expr :=
  match attrs with
  | [] => base
  | (a, ap) :: t => chain (EAttribute (1, 0) base a ap) t
  end.

(* ------------------------------------------------------------------------------------------- *)
(* Renaming.  A renamer looks at the type, name and extra of an entity (never at its position). *)
Definition renamer := ent_type -> str -> option str -> option str.

Definition new_attr (r : renamer) (ents : list entity) (attr : str) : str :=
  match ents with
  | ent :: _ => match r (e_type ent) (e_name ent) (e_extra ent) with Some n => n | None => attr end
  | [] => attr
  end.

(* the expression with every collected reference renamed (classification looks at the OLD value) *)
Fixpoint rename_ast (k : collector) (r : renamer) (e : expr) : expr :=
  match e with
  | EBoolOp p op vs => EBoolOp p op (map (rename_ast k r) vs)
  | EBinOp p op x y => EBinOp p op (rename_ast k r x) (rename_ast k r y)
  | EUnaryOp p op x => EUnaryOp p op (rename_ast k r x)
  | ECompare p l ops cs => ECompare p (rename_ast k r l) ops (map (rename_ast k r) cs)
  | EName _ _ | EConstant _ _ | EUnsupported _ _ => e
  | EAttribute p v a ap => EAttribute p (rename_ast k r v) (new_attr r (classify_ast k v a ap) a) ap
  | EList p es => EList p (map (rename_ast k r) es)
  | ETuple p es => ETuple p (map (rename_ast k r) es)
  | ECall p f args kws =>
      ECall p (rename_ast k r f) (map (rename_ast k r) args)
            (map (fun kw => match kw with (n, v) => (n, rename_ast k r v) end) kws)
  end.

(* the old tree with exactly those references renamed: the oracle's notion *)
Fixpoint rename_tree (k : collector) (r : renamer) (t : tree) : tree :=
  match t with
  | TBoolOp op vs => TBoolOp op (map (rename_tree k r) vs)
  | TBin op x y => TBin op (rename_tree k r x) (rename_tree k r y)
  | TNot x => TNot (rename_tree k r x)
  | TCmp op x y => TCmp op (rename_tree k r x) (rename_tree k r y)
  | TListN es => TListN (map (rename_tree k r) es)
  | TConst _ | TName _ => t
  | TAttr v a => TAttr (rename_tree k r v) (new_attr r (classify k v a 0) a)
  | TCall f args kws =>
      TCall (rename_tree k r f) (map (rename_tree k r) args)
            (map (fun kw => match kw with (n, v) => (n, rename_tree k r v) end) kws)
  | TComment x c => TComment (rename_tree k r x) c
  end.

Definition map_cres {A B} (f : A -> B) (x : cres A) : cres B :=
  match x with Ok a => Ok (f a) | Err e => Err e end.

(* ------------------------------------------------------------------------------------------- *)
(* Text patches (textbuilder.Patch / Replacer.get_text for disjoint patches). *)
Record patch := { p_start : Z; p_end : Z; p_new : str }.

Definition slice (s : str) (a b : Z) : str := firstn (Z.to_nat (b - a)) (skipn (Z.to_nat a) s).

Definition apply_patch (text : str) (p : patch) : str :=
  firstn (Z.to_nat (p_start p)) text ++ p_new p ++ skipn (Z.to_nat (p_end p)) text.

(* insertion sort by start, descending: applying from the right leaves earlier offsets valid *)
Fixpoint insert_desc (p : patch) (l : list patch) : list patch :=
  match l with
  | [] => [p]
  | q :: t => if p_start q <=? p_start p then p :: l else q :: insert_desc p t
  end.
Definition sort_desc (l : list patch) : list patch := fold_right insert_desc [] l.

Definition apply_patches (text : str) (ps : list patch) : str := fold_left apply_patch (sort_desc ps) text.

(* how textbuilder.Replacer builds its output: text before the patch, the new text, and so on *)
Fixpoint spec_apply (off : Z) (text : str) (ps : list patch) : str :=
  match ps with
  | [] => skipn (Z.to_nat off) text
  | p :: t => slice text off (p_start p) ++ p_new p ++ spec_apply (p_end p) text t
  end.

(* ascending, disjoint, inside the text *)
Fixpoint wf_patches (off : Z) (text : str) (ps : list patch) : Prop :=
  match ps with
  | [] => 0 <= off <= Z.of_nat (List.length text)
  | p :: t => 0 <= off <= p_start p /\ p_start p < p_end p /\ wf_patches (p_end p) text t
  end.

(* get_dollar_replacer: [dollars] are the offsets (ascending) in the formula of the `$` that become `rec.`.
   The i-th one (from 0) sits at d + 3*i in the $-free text and its replacement ends at d + 3*i + 4.
   Replacer.map_back_patch: an offset of the $-free text at or after that end lies 3 further right per
   preceding replacement (bisect_right over the recorded output offsets). *)
Fixpoint map_back_from (i : Z) (dollars : list Z) (pos : Z) : Z :=
  match dollars with
  | [] => pos - 3 * i
  | d :: t => if d + 3 * i + 4 <=? pos then map_back_from (i + 1) t pos else pos - 3 * i
  end.
Definition map_back (dollars : list Z) (pos : Z) : Z := map_back_from 0 dollars pos.

(* dollar_replacer.map_back_patch(textbuilder.make_patch(text, a, b, new)) *)
Definition map_back_patch (dollars : list Z) (a b : Z) (new : str) : patch :=
  Build_patch (map_back dollars a) (map_back dollars b) new.

Definition undollar_text (formula : str) (dollars : list Z) : str :=
  apply_patches formula (map (fun d => Build_patch d (d + 1) (lit "rec.")) dollars).

(* ------------------------------------------------------------------------------------------- *)
(* predicate_formula.process_renames *)
Inductive pr_result :=
| PRText (s : str)        (* the returned formula *)
| PRSyntaxError           (* a SyntaxError escapes to the caller *)
| PRInternal (what : string).   (* another exception escapes (never, by the bridging lemmas) *)

Definition rename_patches (r : renamer) (dollars : list Z) (ents : list entity) : list patch :=
  flat_map (fun ent =>
    match r (e_type ent) (e_name ent) (e_extra ent) with
    | Some n =>
        [Build_patch (map_back dollars (e_pos ent))
                     (map_back dollars (e_pos ent + Z.of_nat (List.length (e_name ent)))) n]
    | None => []
    end) ents.

(* [dollar_ok = false]: get_dollar_replacer(formula) raised SyntaxError (the text does not parse as a module);
   [ast = None]: ast.parse(formula_nodollar, mode='eval') raised SyntaxError.  Both calls are inside the try
   (fix commit 8212ac8): "Don't do anything to a syntactically wrong formula". *)
Definition process_renames (k : collector) (r : renamer)
           (formula : str) (dollar_ok : bool) (dollars : list Z) (ast : option expr) : pr_result :=
  if negb dollar_ok then PRText formula else
  match ast with
  | None => PRText formula
  | Some e =>
      match visit k e with
      | Err _ => PRText formula
      | Ok (_, ents) => PRText (apply_patches formula (rename_patches r dollars ents))
      end
  end.

(* ------------------------------------------------------------------------------------------- *)
(* The renamers of the three perform_*_renames functions.  [renames] is {(table_id, col_id): new_col_id}. *)
Definition renames := list (str * str * str).

Fixpoint renames_get (rs : renames) (t c : str) : option str :=
  match rs with
  | [] => None
  | (t', c', n) :: rest => if str_eqb t t' && str_eqb c c' then Some n else renames_get rest t c
  end.

Definition opt_get (rs : renames) (t : option str) (c : str) : option str :=
  match t with Some t' => renames_get rs t' c | None => None end.

(* acl.perform_acl_rule_renames: rec.X / newRec.X belong to the table of the rule's resource, user.A.X to the
   lookup table of the user attribute named A; nothing else is renamed *)
Definition acl_renamer (rs : renames) (rule_table : option str) (attr_table : str -> option str) : renamer :=
  fun ty name extra =>
    match ty with
    | RecCol => opt_get rs rule_table name
    | UserAttrCol => match extra with Some a => opt_get rs (attr_table a) name | None => None end
    | _ => None
    end.

(* dropdown_condition.perform_dropdown_condition_renames: choice.X belongs to the referenced table (None when
   the column is not a Ref/RefList), rec.X to the column's own table *)
Definition dc_renamer (rs : renames) (ref_table : option str) (self_table : str) : renamer :=
  fun ty name _ =>
    match ty with
    | ChoiceAttr => opt_get rs ref_table name
    | _ => renames_get rs self_table name
    end.

(* trigger_expression.perform_trigger_condition_renames *)
Definition trigger_renamer (rs : renames) (table : str) : renamer :=
  fun _ name _ => renames_get rs table name.

(* ------------------------------------------------------------------------------------------- *)
(* _grist_ACLResources.colIds: a comma-separated list *)
Fixpoint split_comma (s : str) : list str :=
  match s with
  | [] => [[]]
  | c :: t =>
      if c =? 44 then [] :: split_comma t
      else match split_comma t with
           | h :: r => (c :: h) :: r
           | [] => [[c]]
           end
  end.

Fixpoint join_comma (l : list str) : str :=
  match l with
  | [] => []
  | [x] => x
  | x :: t => x ++ 44 :: join_comma t
  end.

Definition is_empty (s : str) : bool := match s with [] => true | _ => false end.

(* (col_renames_dict.get((t, c)) or c) *)
Definition rename_col (rs : renames) (t c : str) : str :=
  match renames_get rs t c with
  | Some n => if is_empty n then c else n
  | None => c
  end.

(* Some new = an update of colIds is issued *)
Definition rename_colids (rs : renames) (t colids : str) : option str :=
  if is_empty colids || str_eqb colids (lit "*") then None else
  let new := join_comma (map (rename_col rs t) (split_comma colids)) in
  if str_eqb new colids then None else Some new.

(* userAttributes: lookupColId follows a rename of (tableId, lookupColId) *)
Definition rename_lookup (rs : renames) (table : option str) (lookup : option str) : option str :=
  match lookup with
  | Some c => match opt_get rs table c with
              | Some n => if is_empty n then None else Some n
              | None => None
              end
  | None => None
  end.

(* ------------------------------------------------------------------------------------------- *)
(* Correspondence cases. *)
Definition ent_type_eqb (a b : ent_type) : bool :=
  match a, b with
  | RecCol, RecCol | UserAttr, UserAttr | UserAttrCol, UserAttrCol | ChoiceAttr, ChoiceAttr => true
  | _, _ => false
  end.

Definition opt_str_eqb (a b : option str) : bool :=
  match a, b with Some x, Some y => str_eqb x y | None, None => true | _, _ => false end.

Definition entity_eqb (a b : entity) : bool :=
  ent_type_eqb (e_type a) (e_type b) && (e_pos a =? e_pos b) && str_eqb (e_name a) (e_name b)
  && opt_str_eqb (e_extra a) (e_extra b).

Definition table_renamer (tbl : list (ent_type * str * option str * str)) : renamer :=
  fun ty name extra =>
    match find (fun row => match row with (ty', n', x', _) =>
                  ent_type_eqb ty ty' && str_eqb name n' && opt_str_eqb extra x' end) tbl with
    | Some (_, _, _, new) => Some new
    | None => None
    end.

Definition pr_result_eqb (a b : pr_result) : bool :=
  match a, b with
  | PRText x, PRText y => str_eqb x y
  | PRSyntaxError, PRSyntaxError => true
  | _, _ => false
  end.

(* how the renamer of a case was built: an explicit table (process_renames called directly), or by one of the
   perform_*_renames functions (driven with a stub document model) *)
Inductive renamer_spec :=
| RTable (tbl : list (ent_type * str * option str * str))
| RAcl (rs : renames) (rule_table : option str) (attr_tables : list (str * str))
| RDc (rs : renames) (ref_table : option str) (self_table : str)
| RTrigger (rs : renames) (table : str).

Definition renamer_of (s : renamer_spec) : renamer :=
  match s with
  | RTable tbl => table_renamer tbl
  | RAcl rs t a => acl_renamer rs t (fun n => assoc_str n a)
  | RDc rs rt st => dc_renamer rs rt st
  | RTrigger rs t => trigger_renamer rs t
  end.

Record c17_case := {
  rc_collector : collector;
  rc_renamer : renamer_spec;
  rc_formula : str;
  rc_dollar_ok : bool; rc_dollars : list Z; rc_nodollar : str;
  rc_ast : option expr;
  rc_entities : option (list entity);     (* collector.entities when the visit succeeded *)
  rc_result : pr_result                   (* what process_renames returned / raised *)
}.

Definition c17_case_ok (c : c17_case) : bool :=
  pr_result_eqb (process_renames (rc_collector c) (renamer_of (rc_renamer c)) (rc_formula c)
                                 (rc_dollar_ok c) (rc_dollars c) (rc_ast c)) (rc_result c)
  && (if rc_dollar_ok c then str_eqb (undollar_text (rc_formula c) (rc_dollars c)) (rc_nodollar c) else true)
  && match rc_ast c, rc_entities c with
     | Some e, Some ents =>
         match visit (rc_collector c) e with
         | Ok (_, got) => list_eqb_with entity_eqb got ents
         | Err _ => false
         end
     | Some e, None => negb (is_ok (visit (rc_collector c) e))
     | None, _ => true
     end.

(* cases for the colIds list and the lookup column *)
Definition c17_colids_ok (c : renames * str * str * option str) : bool :=
  match c with (rs, t, colids, impl) => opt_str_eqb (rename_colids rs t colids) impl end.

Definition c17_lookup_ok (c : renames * option str * option str * option str) : bool :=
  match c with (rs, t, lookup, impl) => opt_str_eqb (rename_lookup rs t lookup) impl end.

(* ------------------------------------------------------------------------------------------- *)
(* acl.perform_acl_rule_renames as a function of the rows of _grist_ACLResources / _grist_ACLRules.
   Opaque (parameters): JSON access to userAttributes, the table of a resource row, process_renames with the ACL
   collector, parse_predicate_formula_json.  harness/pr2v.py generates the same function from the source
   (GristGen.PerformAcl_gen.gen_perform_acl); Proofs/PerformAcl_bridge.v proves them equal. *)
Record resource := { res_tableId : str; res_colIds : str }.
Record rule := { rule_resource : Z; rule_aclFormula : str; rule_userAttributes : str }.
Definition upd := list (string * str).                    (* {column: new value} *)
Definition gsubject := (str * str * option str)%type.      (* NamedEntity: type, name, extra *)
Definition s_type (s : gsubject) : str := fst (fst s).
Definition s_name (s : gsubject) : str := snd (fst s).
Definition s_extra (s : gsubject) : option str := snd s.

Record acl_prims := {
  info : Type;                                              (* json.loads(...) of a JSON object *)
  json_loads : str -> option info;                          (* None: not JSON / not an object (an exception) *)
  info_get : info -> string -> option str;                  (* rule_info.get(key) *)
  info_set : info -> string -> str -> info;                 (* rule_info[key] = value *)
  json_dumps : info -> str;
  resource_tableId : Z -> str;                              (* aclResources.table.get_record(int(ref)).tableId *)
  process_renames_acl : str -> (gsubject -> option str) -> str;
  parse_json : str -> str                                   (* parse_predicate_formula_json *)
}.

Definition str_truthy (s : str) : bool := negb (is_empty s).
Definition ostr_truthy (o : option str) : bool := match o with Some s => str_truthy s | None => false end.
Definition ostr_or (o : option str) (c : str) : str :=      (* o or c *)
  match o with Some n => if is_empty n then c else n | None => c end.
Definition renames_get_oo (rs : renames) (t c : option str) : option str :=
  match t, c with Some t', Some c' => renames_get rs t' c' | _, _ => None end.

(* a dict whose keys and values may be None; the newest binding of a key is found first *)
Definition odict := list (option str * option str).
Definition odict_set (d : odict) (k v : option str) : odict := (k, v) :: d.
Fixpoint odict_get (d : odict) (k : option str) : option str :=
  match d with
  | [] => None
  | (k', v) :: t => if opt_str_eqb k k' then v else odict_get t k
  end.

(* pass 1: user attribute name -> lookup table, from EVERY rule with userAttributes *)
Definition acl_attr_tables (P : acl_prims) (rules : list rule) : odict :=
  fold_left (fun d r =>
    if str_truthy (rule_userAttributes r) then
      match json_loads P (rule_userAttributes r) with
      | Some i => odict_set d (info_get P i "name") (info_get P i "tableId")
      | None => d
      end
    else d) rules [].

(* the renamer handed to process_renames for one rule *)
Definition acl_subject_renamer (rs : renames) (rule_table : str) (d : odict) : gsubject -> option str :=
  fun subject =>
    if str_eqb (s_type subject) (lit "recCol") then renames_get rs rule_table (s_name subject)
    else if str_eqb (s_type subject) (lit "userAttrCol")
         then renames_get_oo rs (odict_get d (s_extra subject)) (Some (s_name subject))
         else None.

Definition acl_lookup_update (P : acl_prims) (rs : renames) (r : rule) : list (rule * upd) :=
  if str_truthy (rule_userAttributes r) then
    match json_loads P (rule_userAttributes r) with
    | Some i =>
        match rename_lookup rs (info_get P i "tableId") (info_get P i "lookupColId") with
        | Some n => [(r, [("userAttributes"%string, json_dumps P (info_set P i "lookupColId" n))])]
        | None => []
        end
    | None => []
    end
  else [].

Definition acl_formula_update (P : acl_prims) (rs : renames) (d : odict) (r : rule) : list (rule * upd) :=
  if str_truthy (rule_aclFormula r) then
    let new := process_renames_acl P (rule_aclFormula r)
                 (acl_subject_renamer rs (resource_tableId P (rule_resource r)) d) in
    if str_eqb new (rule_aclFormula r) then []
    else [(r, [("aclFormula"%string, new); ("aclFormulaParsed"%string, parse_json P new)])]
  else [].

Definition acl_resource_update (rs : renames) (r : resource) : list (resource * upd) :=
  match rename_colids rs (res_tableId r) (res_colIds r) with
  | Some new => [(r, [("colIds"%string, new)])]
  | None => []
  end.

Definition perform_acl_model (P : acl_prims) (rs : renames) (resources : list resource) (rules : list rule)
  : list (resource * upd) * list (rule * upd) :=
  (flat_map (acl_resource_update rs) resources,
   flat_map (acl_lookup_update P rs) rules ++
   flat_map (acl_formula_update P rs (acl_attr_tables P rules)) rules).
