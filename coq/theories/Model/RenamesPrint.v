(* C16: the concrete syntax of the formula trees of Model/Renames.v, as segments (literal text / name tokens).
   Mirrors harness/c16gen.py `pr`; the check compares the two on every generated tree.  Executable model only. *)
From Coq Require Import ZArith List Bool.
Import ListNotations.
Require Import Grist.Model.Renames.
Open Scope Z_scope.

Definition S_NONE : text := [78; 111; 110; 101].  (* None *)
Definition S_REC : text := [114; 101; 99].  (* rec *)
Definition S_DOLLAR : text := [36].  (* $ *)
Definition S_DOT : text := [46].  (* . *)
Definition S_DOTID : text := [46; 105; 100].  (* .id *)
Definition S_LOOKUPONE : text := [46; 108; 111; 111; 107; 117; 112; 79; 110; 101; 40].  (* .lookupOne( *)
Definition S_LOOKUPRECORDS : text := [46; 108; 111; 111; 107; 117; 112; 82; 101; 99; 111; 114; 100; 115; 40].  (* .lookupRecords( *)
Definition S_COMMA : text := [44; 32].  (* ,  *)
Definition S_ORDERBY : text := [111; 114; 100; 101; 114; 95; 98; 121; 61].  (* order_by= *)
Definition S_GROUPBY : text := [103; 114; 111; 117; 112; 95; 98; 121; 61].  (* group_by= *)
Definition S_RPAR : text := [41].  (* ) *)
Definition S_LPAR : text := [40].  (* ( *)
Definition S_ALL : text := [46; 97; 108; 108].  (* .all *)
Definition S_LBR : text := [91].  (* [ *)
Definition S_RBR : text := [93].  (* ] *)
Definition S_FOR : text := [32; 102; 111; 114; 32].  (*  for  *)
Definition S_IN : text := [32; 105; 110; 32].  (*  in  *)
Definition S_IF : text := [32; 105; 102; 32].  (*  if  *)
Definition S_ELSE : text := [32; 101; 108; 115; 101; 32].  (*  else  *)
Definition S_EQ : text := [61].  (* = *)
Definition S_QUOTE : text := [34].  (* double quote *)
Definition S_QUOTEMINUS : text := [34; 45].  (* double quote, minus *)
Definition S_GROUPF : text := [116; 97; 98; 108; 101; 46; 103; 101; 116; 83; 117; 109; 109; 97; 114; 121; 83; 111; 117; 114; 99; 101; 71; 114; 111; 117; 112; 40; 114; 101; 99; 41].  (* table.getSummarySourceGroup(rec) *)
Definition S_SPACE : text := [32].  (*   *)
Definition S_MINUS : text := [45].  (* - *)
Definition S_PREVIOUS : text := [80; 82; 69; 86; 73; 79; 85; 83].  (* PREVIOUS *)
Definition S_NEXT : text := [78; 69; 88; 84].  (* NEXT *)
Definition S_RANK : text := [82; 65; 78; 75].  (* RANK *)
Definition S_LEN : text := [108; 101; 110].  (* len *)
Definition S_SUM : text := [83; 85; 77].  (* SUM *)
Definition S_LIST : text := [108; 105; 115; 116].  (* list *)
Definition S_STR : text := [115; 116; 114].  (* str *)
Definition S_BOOL : text := [98; 111; 111; 108].  (* bool *)
Definition S_PLUS : text := [43].  (* + *)
Definition S_EQEQ : text := [61; 61].  (* == *)
Definition S_LT : text := [60].  (* < *)
Definition S_OR : text := [111; 114].  (* or *)
Definition S_QQ : text := [63].  (* ? *)

(* decimal digits of n >= 0 *)
Fixpoint digits_go (fuel : nat) (n : Z) (acc : text) : text :=
  match fuel with
  | O => acc
  | S k => let acc' := (48 + n mod 10) :: acc in if n / 10 =? 0 then acc' else digits_go k (n / 10) acc'
  end.
Definition pr_nat (n : Z) : text := digits_go 40 n [].
Definition pr_int (n : Z) : text := if n <? 0 then S_LPAR ++ S_MINUS ++ pr_nat (- n) ++ S_RPAR else pr_nat n.

Definition p1_name (f : Z) : text :=
  if f =? 0 then S_LEN else if f =? 1 then S_SUM else if f =? 2 then S_LIST else if f =? 3 then S_STR
  else if f =? 4 then S_BOOL else S_QQ.
Definition p2_name (f : Z) : text :=
  if f =? 0 then S_PLUS else if f =? 1 then S_EQEQ else if f =? 2 then S_LT else if f =? 3 then S_OR else S_QQ.
Definition pn_name (w : Z) : text := if w =? 0 then S_PREVIOUS else if w =? 1 then S_NEXT else S_RANK.

(* a column name whose table is (not) statically known *)
Definition nm_col (ot : option name) (c : name) : seg := match ot with Some t => Nm t (Some c) | None => Lit c end.

(* order_by / group_by values: "c" or "-c", one string or a tuple of them *)
Definition pr_ob_item (ot : option name) (p : bool * name) : list seg :=
  [Lit (if fst p then S_QUOTEMINUS else S_QUOTE); nm_col ot (snd p); Lit S_QUOTE].

Fixpoint pr_ob_items (ot : option name) (ob : list (bool * name)) : list seg :=
  match ob with
  | [] => []
  | [p] => pr_ob_item ot p
  | p :: t => pr_ob_item ot p ++ [Lit S_COMMA] ++ pr_ob_items ot t
  end.

Definition pr_ob (ot : option name) (ob : list (bool * name)) : list seg :=
  match ob with
  | [p] => pr_ob_item ot p
  | _ => [Lit S_LPAR] ++ pr_ob_items ot ob ++ [Lit S_RPAR]
  end.

Definition pr_kw (first : bool) (kw : text) (ot : option name) (ob : list (bool * name)) : list seg :=
  match ob with
  | [] => []
  | _ => [Lit ((if first then [] else S_COMMA) ++ kw)] ++ pr_ob ot ob
  end.

Fixpoint pr (d : doc) (self : name) (G : tenv) (e : expr) : list seg :=
  match e with
  | EInt n => [Lit (pr_int n)]
  | EStr s => [Lit (S_QUOTE ++ s ++ S_QUOTE)]
  | ENone => [Lit S_NONE]
  | ERec => [Lit S_REC]
  | EVar x => [Lit x]
  | EDollar c => [Lit S_DOLLAR; Nm self (Some c)]
  | ECol e1 c => pr d self G e1 ++ [Lit S_DOT; nm_col (infer d self G e1) c]
  | EId e1 => pr d self G e1 ++ [Lit S_DOTID]
  | ELookup one t ks ob =>
      [Nm t None; Lit (if one then S_LOOKUPONE else S_LOOKUPRECORDS)] ++ pr_keys d self G t true ks
      ++ pr_kw (match ks with KNil => true | _ => false end) S_ORDERBY (Some t) ob ++ [Lit S_RPAR]
  | EAll t => [Nm t None; Lit S_ALL]
  | EComp body x src =>
      [Lit S_LBR] ++ pr d self ((x, comp_type src) :: G) body ++ [Lit S_FOR; Lit x; Lit S_IN] ++ pr d self G src
      ++ [Lit S_RBR]
  | ECompIf body x src cond =>
      [Lit S_LBR] ++ pr d self ((x, comp_type src) :: G) body ++ [Lit S_FOR; Lit x; Lit S_IN] ++ pr d self G src
      ++ [Lit S_IF] ++ pr d self ((x, comp_type src) :: G) cond ++ [Lit S_RBR]
  | EPrevNext w e1 gb ob =>
      [Lit (pn_name w ++ S_LPAR)] ++ pr d self G e1
      ++ pr_kw false S_GROUPBY (infer d self G e1) (map (fun c => (false, c)) gb)
      ++ pr_kw false S_ORDERBY (infer d self G e1) ob ++ [Lit S_RPAR]
  | EPrim1 f e1 => [Lit (p1_name f ++ S_LPAR)] ++ pr d self G e1 ++ [Lit S_RPAR]
  | EPrim2 f a b => [Lit S_LPAR] ++ pr d self G a ++ [Lit (S_SPACE ++ p2_name f ++ S_SPACE)] ++ pr d self G b ++ [Lit S_RPAR]
  | EIf c a b =>
      [Lit S_LPAR] ++ pr d self G a ++ [Lit S_IF] ++ pr d self G c ++ [Lit S_ELSE] ++ pr d self G b ++ [Lit S_RPAR]
  | EGroup => [Lit S_GROUPF]
  end
with pr_keys (d : doc) (self : name) (G : tenv) (t : name) (first : bool) (ks : keys) : list seg :=
  match ks with
  | KNil => []
  | KCons k e ks' =>
      [Lit (if first then [] else S_COMMA); Nm t (Some k); Lit S_EQ] ++ pr d self G e ++ pr_keys d self G t false ks'
  end.

Definition pr_text (e : expr) : text := flatten (pr [] [] [] e).

(* finite renamings, as the harness hands them over *)
Definition rt_of (l : list (name * name)) (t : name) : name :=
  match lookup_env t l with Some n => n | None => t end.
Fixpoint rc_of (l : list (name * name * name)) (t c : name) : name :=
  match l with
  | [] => c
  | (t', c', n) :: r => if name_eqb t' t && name_eqb c' c then n else rc_of r t c
  end.

(* ---- boolean versions of the theorems' side conditions (to show that concrete documents satisfy them) -------- *)
Definition all_formulas (d : doc) (p : table -> column -> expr -> bool) : bool :=
  forallb (fun tb => forallb (fun co => match cformula co with Some f => p tb co f | None => true end) (tcols tb)) d.

Definition doc_wfb (d : doc) : bool := all_formulas d (fun tb _ f => wf_static d (tname tb) [] f).

Definition pair_eqb (p q : name * name) : bool := name_eqb (fst p) (fst q) && name_eqb (snd p) (snd q).
Definition mem_pair (p : name * name) (l : list (name * name)) : bool := existsb (pair_eqb p) l.
Definition mem_name (x : name) (l : list name) : bool := existsb (name_eqb x) l.

Definition fresh_colb (d : doc) (T b : name) : bool :=
  forallb (fun tb => forallb (fun co => negb (pair_eqb (tname tb, cname co) (T, b))) (tcols tb)) d
  && all_formulas d (fun tb _ f => negb (mem_pair (T, b) (col_uses d (tname tb) [] f))).

Definition group_okb (d : doc) (T a b : name) : bool :=
  (negb (name_eqb a GROUP) && negb (name_eqb b GROUP)) ||
  forallb (fun tb => forallb (fun co => negb (is_grp co && name_eqb (tname tb) T
                                              && (name_eqb (cname co) a || name_eqb (cname co) b))) (tcols tb)) d.

(* what the engine protects since the fix: manualSort, and group in a summary table *)
Definition MANUALSORT : name := [109; 97; 110; 117; 97; 108; 83; 111; 114; 116].
Definition protected_col (d : doc) (T a : name) : bool :=
  name_eqb a MANUALSORT || (name_eqb a GROUP && match summary_source d T with Some _ => true | None => false end).

(* no alternative text in the reference columns that point to table a *)
Definition no_alt_textb (d : doc) (a : name) : bool :=
  forallb (fun tb => forallb (fun co => negb (targets (ctype co) a)
                                        || forallb (fun p => match snd p with VStr _ => false | _ => true end) (cdata co))
                             (tcols tb)) d.

Fixpoint val_plainb (v : val) : bool :=
  match v with
  | VRec _ _ => false
  | VRecs _ _ => false
  | VList vs => forallb val_plainb vs
  | _ => true
  end.

Definition ctyp_mentions (ty : ctyp) (b : name) : bool :=
  match ty with CPlain => false | CRef t => name_eqb t b | CRefList t => name_eqb t b end.

Definition fresh_tabb (d : doc) (b : name) : bool :=
  forallb (fun tb => negb (name_eqb (tname tb) b) &&
    forallb (fun co => negb (ctyp_mentions (ctype co) b)
                       && match cformula co with Some f => negb (mem_name b (tab_uses f)) | None => true end
                       && forallb (fun p => val_plainb (snd p)) (cdata co)) (tcols tb)) d.
