(* K1: the vocabulary of the effect programs that harness/da2v.py extracts from docactions.py (one per doc action): the undo
   actions appended, the calls on out_actions.summary, the calls that change the document, early returns and guards, in
   source order; and the set of (undo constructors, summary methods) a run can produce. *)
From Coq Require Import String List Bool.
Import ListNotations.
Open Scope string_scope.

Inductive eff :=
| EUndo (k : string) (args : list string)      (* out_actions.undo.append(actions.k(args)[.simplify()]) *)
| ESum (m : string) (args : list string)       (* out_actions.summary.m(args) *)
| EMut (f : string)                            (* a call that changes the document or the schema *)
| ECall (m : string)                           (* the method delegates to another doc action *)
| ERet                                         (* return *)
| EIf (test : string) (th el : list eff)
| EFor (it : string) (body : list eff).

Definition pstate := (list string * list string * bool)%type.     (* undo constructors, summary methods, returned *)

Fixpoint run1 (e : eff) (st : list pstate) : list pstate :=
  match e with
  | EUndo k _ => map (fun p : pstate => let '(u, m, f) := p in if f then p else ((u ++ [k])%list, m, f)) st
  | ESum k _ => map (fun p : pstate => let '(u, m, f) := p in if f then p else (u, (m ++ [k])%list, f)) st
  | ERet => map (fun p : pstate => let '(u, m, f) := p in (u, m, true)) st
  | EIf _ th el =>
      ((fix runs (l : list eff) (st : list pstate) : list pstate :=
         match l with [] => st | x :: r => runs r (run1 x st) end) th st ++
      (fix runs (l : list eff) (st : list pstate) : list pstate :=
         match l with [] => st | x :: r => runs r (run1 x st) end) el st)%list
  | _ => st
  end.

Fixpoint runs (l : list eff) (st : list pstate) : list pstate :=
  match l with [] => st | x :: r => runs r (run1 x st) end.

Definition paths (l : list eff) : list (list string * list string) :=
  map (fun p : pstate => (fst (fst p), snd (fst p))) (runs l [([], [], false)]).

Fixpoint lookup_eff (k : string) (tab : list (string * list eff)) : list eff :=
  match tab with
  | [] => []
  | (k', e) :: rest => if String.eqb k k' then e else lookup_eff k rest
  end.

(* glue functions translated statement by statement: the control structure, simple statements as normalised source text *)
Inductive sk :=
| SStmt (s : string)
| SIf (test : string) (th el : list sk)
| SDef (sig : string) (body : list sk)
| SFor (it : string) (body : list sk)
| STry (body fin : list sk)
| SRet (value : string).
