(* Executable model of /repo/sandbox/grist/identifiers.py (C21).  Definitions only; proofs are in
   Proofs/Ident_proofs.v.

   Strings are lists of code points (list Z); a Python set of names is a list of strings (membership is all
   the code uses).  Library behaviour on non-ASCII text enters as Section variables:
     nfkd        unicodedata.normalize('NFKD', s)                 (whole-string function)
     combining   unicodedata.combining(c) != 0
     upper_char  str.upper of a one-character string (str.upper is character-wise: s.upper() is the
                 concatenation of the per-character results; monitored by the harness)
     cap_char    str.capitalize of a one-character string
     udigit      the class \d of `re` on str patterns (Unicode decimal digits)
     kwlist      keyword.kwlist of the running Python (regenerated into GristGen.Kwlist_gen)
   The three regular expressions of the module are re-implemented by hand:
     [^a-zA-Z0-9_]+  -> sub_invalid,   ^(?=[0-9_]) -> fix_start,   \d$ -> ends_in_digit.
   The two unbounded searches (`while True` in _add_suffix, the generator loop in _gen_ident) and the
   `while iskeyword` loop take fuel; None means out of fuel.  Proofs/Ident_proofs.v shows that the fuel
   given here (|avoid|+1, resp. longest keyword + 2) is always enough, so None never appears. *)
From Coq Require Import ZArith List Bool.
Import ListNotations.
Open Scope Z_scope.

Definition str := list Z.

Fixpoint str_eqb (a b : str) : bool :=
  match a, b with
  | [], [] => true
  | x :: a', y :: b' => Z.eqb x y && str_eqb a' b'
  | _, _ => false
  end.

(* `s in avoid` *)
Definition mem (s : str) (l : list str) : bool := existsb (str_eqb s) l.

(* ---- ASCII character classes (the explicit ranges written in the regexes) ------------------------- *)
Definition is_lower (c : Z) : bool := (97 <=? c) && (c <=? 122).
Definition is_upper (c : Z) : bool := (65 <=? c) && (c <=? 90).
Definition is_digit (c : Z) : bool := (48 <=? c) && (c <=? 57).
Definition is_letter (c : Z) : bool := is_lower c || is_upper c.
Definition is_ident_char (c : Z) : bool := is_letter c || is_digit c || (c =? 95).
Definition is_ascii (c : Z) : bool := (0 <=? c) && (c <? 128).
Definition ascii_upper (c : Z) : Z := if is_lower c then c - 32 else c.

(* ---- specification vocabulary ------------------------------------------------------------------- *)
(* [A-Za-z][A-Za-z0-9_]*  (full match) *)
Definition valid_identb (s : str) : bool :=
  match s with
  | [] => false
  | c :: t => is_letter c && forallb is_ident_char t
  end.
(* [A-Z][A-Za-z0-9_]* *)
Definition valid_table_identb (s : str) : bool :=
  match s with
  | [] => false
  | c :: t => is_upper c && forallb is_ident_char t
  end.

(* "%d" % n *)
Fixpoint uint_codes (u : Decimal.uint) : str :=
  match u with
  | Decimal.Nil => []
  | Decimal.D0 u => 48 :: uint_codes u
  | Decimal.D1 u => 49 :: uint_codes u
  | Decimal.D2 u => 50 :: uint_codes u
  | Decimal.D3 u => 51 :: uint_codes u
  | Decimal.D4 u => 52 :: uint_codes u
  | Decimal.D5 u => 53 :: uint_codes u
  | Decimal.D6 u => 54 :: uint_codes u
  | Decimal.D7 u => 55 :: uint_codes u
  | Decimal.D8 u => 56 :: uint_codes u
  | Decimal.D9 u => 57 :: uint_codes u
  end.
Definition dec (n : Z) : str :=
  match Z.to_int n with
  | Decimal.Pos u => uint_codes u
  | Decimal.Neg u => 45 :: uint_codes u
  end.

(* _invalid_ident_char_re.sub('_', s): every maximal run of characters outside [a-zA-Z0-9_] becomes one '_' *)
Fixpoint sub_invalid (in_run : bool) (s : str) : str :=
  match s with
  | [] => []
  | c :: t =>
      if is_ident_char c then c :: sub_invalid false t
      else if in_run then sub_invalid true t
      else 95 :: sub_invalid true t
  end.

(* .lstrip('_') *)
Fixpoint lstrip_us (s : str) : str :=
  match s with
  | [] => []
  | c :: t => if c =? 95 then lstrip_us t else s
  end.

(* _invalid_ident_start_re.sub(prefix, s): insert prefix at position 0 when the first character is in [0-9_] *)
Definition fix_start (prefix s : str) : str :=
  match s with
  | [] => []
  | c :: _ => if is_digit c || (c =? 95) then prefix ++ s else s
  end.

(* ['A'], ['B'], ..., ['Z'], ['A';'A'], ...: the successor in _make_letters' order, on the REVERSED string *)
Fixpoint next_letters_rev (r : str) : str :=
  match r with
  | [] => [65]
  | c :: t => if c <? 90 then (c + 1) :: t else 65 :: next_letters_rev t
  end.

Section Ident.
  Variable nfkd : str -> str.
  Variable combining : Z -> bool.
  Variable upper_char : Z -> str.
  Variable cap_char : Z -> str.
  Variable udigit : Z -> bool.
  Variable kwlist : list str.

  (* s.upper() *)
  Definition upper (s : str) : str := flat_map upper_char s.
  (* keyword.iskeyword *)
  Definition iskeyword (s : str) : bool := mem s kwlist.
  Definition max_kw_len : nat := fold_right (fun k m => Nat.max (length k) m) 0%nat kwlist.

  (* ident[0].capitalize() + ident[1:] *)
  Definition capitalize_first (s : str) : str :=
    match s with
    | [] => []
    | c :: t => cap_char c ++ t
    end.

  (* while iskeyword(ident): ident = prefix + ident *)
  Fixpoint kw_loop (fuel : nat) (prefix ident : str) : option str :=
    match fuel with
    | O => None
    | S f => if iskeyword ident then kw_loop f prefix (prefix ++ ident) else Some ident
    end.

  (* _sanitize_ident(ident, prefix, capitalize); ident = None is Python's None *)
  Definition sanitize_ident (ident : option str) (prefix : str) (capitalize : bool) : option str :=
    let s := match ident with None => [] | Some s => s end in
    let s := nfkd s in
    let s := filter (fun c => negb (combining c)) s in
    let s := lstrip_us (sub_invalid false s) in
    let s := fix_start prefix s in
    match s with
    | [] => Some []
    | _ :: _ =>
        let s := if capitalize then capitalize_first s else s in
        kw_loop (S (S max_kw_len)) prefix s
    end.

  (* _ends_in_digit_re.search(s): \d$ ; `$` also matches just before a final newline *)
  Definition ends_in_digit (s : str) : bool :=
    match rev s with
    | [] => false
    | c :: r => udigit c || ((c =? 10) && match r with [] => false | d :: _ => udigit d end)
    end.

  (* the `while True` loop of _add_suffix *)
  Fixpoint suffix_loop (fuel : nat) (base : str) (avoid : list str) (k : Z) : option str :=
    match fuel with
    | O => None
    | S f =>
        let ident := base ++ dec k in
        if mem (upper ident) avoid then suffix_loop f base avoid (k + 1) else Some ident
    end.

  Definition add_suffix (base : str) (avoid : list str) (next_suffix : Z) : option str :=
    let base := if ends_in_digit base then base ++ [95] else base in
    suffix_loop (S (length avoid)) base avoid next_suffix.

  Definition maybe_add_suffix (ident : str) (avoid : list str) : option str :=
    if mem (upper ident) avoid then add_suffix ident avoid 2 else Some ident.

  (* _uppercase *)
  Definition uppercase (avoid : list str) : list str := map upper avoid.

  (* for letter in _make_letters(): if letter not in avoid: return letter *)
  Fixpoint gen_loop (fuel : nat) (cur_rev : str) (avoid : list str) : option str :=
    match fuel with
    | O => None
    | S f =>
        let letter := rev cur_rev in
        if mem letter avoid then gen_loop f (next_letters_rev cur_rev) avoid else Some letter
    end.

  Definition gen_ident (avoid : list str) : option str :=
    let avoid := uppercase avoid in
    gen_loop (S (length avoid)) [65] avoid.

  Definition s_Table : str := [84; 97; 98; 108; 101].

  Definition pick_table_ident (ident : option str) (avoid : list str) : option str :=
    let avoid := uppercase avoid in
    match sanitize_ident ident [84] true with
    | None => None
    | Some [] => add_suffix s_Table avoid 1
    | Some s => maybe_add_suffix s avoid
    end.

  Definition pick_col_ident (ident : option str) (avoid : list str) : option str :=
    let avoid := uppercase avoid in
    match sanitize_ident ident [99] false with
    | None => None
    | Some [] => gen_ident avoid
    | Some s => maybe_add_suffix s avoid
    end.

  (* the loop of pick_col_ident_list; `avoid` is the (already upper-cased) running set *)
  Fixpoint pick_list_loop (idents : list (option str)) (avoid : list str) : option (list str) :=
    match idents with
    | [] => Some []
    | i :: t =>
        match pick_col_ident i avoid with
        | None => None
        | Some r =>
            match pick_list_loop t (upper r :: avoid) with
            | None => None
            | Some rs => Some (r :: rs)
            end
        end
    end.

  Definition pick_col_ident_list (idents : list (option str)) (avoid : list str) : option (list str) :=
    pick_list_loop idents (uppercase avoid).
End Ident.

(* ---- table-driven oracles: how the correspondence check instantiates the Section variables -------
   ASCII behaviour is fixed (so every instance satisfies the hypotheses of the theorems, see
   Ident_proofs.table_oracles_ok); the non-ASCII part is looked up in tables filled from the running
   Python for exactly the characters/strings of the case. *)
Fixpoint assoc_str {B} (k : str) (tab : list (str * B)) (d : B) : B :=
  match tab with
  | [] => d
  | (k', v) :: t => if str_eqb k k' then v else assoc_str k t d
  end.
Fixpoint assoc_Z {B} (k : Z) (tab : list (Z * B)) (d : B) : B :=
  match tab with
  | [] => d
  | (k', v) :: t => if Z.eqb k k' then v else assoc_Z k t d
  end.
Definition memZ (c : Z) (l : list Z) : bool := existsb (Z.eqb c) l.

Definition nfkd_of (tab : list (str * str)) (s : str) : str :=
  if forallb is_ascii s then s else assoc_str s tab s.
Definition combining_of (l : list Z) (c : Z) : bool := if is_ascii c then false else memZ c l.
Definition upper_char_of (tab : list (Z * str)) (c : Z) : str :=
  if is_ascii c then [ascii_upper c] else assoc_Z c tab [c].
Definition udigit_of (l : list Z) (c : Z) : bool := if is_ascii c then is_digit c else memZ c l.

(* one bundle of tables: (nfkd, combining, upper, capitalize, \d) *)
Definition tables := (list (str * str) * list Z * list (Z * str) * list (Z * str) * list Z)%type.
Definition t_nfkd (t : tables) := nfkd_of (fst (fst (fst (fst t)))).
Definition t_comb (t : tables) := combining_of (snd (fst (fst (fst t)))).
Definition t_upper (t : tables) := upper_char_of (snd (fst (fst t))).
Definition t_cap (t : tables) := upper_char_of (snd (fst t)).
Definition t_udigit (t : tables) := udigit_of (snd t).

Definition opt_str_eqb (a : option str) (b : str) : bool :=
  match a with Some x => str_eqb x b | None => false end.
Fixpoint strs_eqb (a b : list str) : bool :=
  match a, b with
  | [], [] => true
  | x :: a', y :: b' => str_eqb x y && strs_eqb a' b'
  | _, _ => false
  end.
Definition opt_strs_eqb (a : option (list str)) (b : list str) : bool :=
  match a with Some x => strs_eqb x b | None => false end.

(* the calls compared with the implementation *)
Definition run_sanitize (t : tables) (kw : list str) ident prefix cap :=
  sanitize_ident (t_nfkd t) (t_comb t) (t_cap t) kw ident prefix cap.
Definition run_add_suffix (t : tables) base avoid k :=
  add_suffix (t_upper t) (t_udigit t) base avoid k.
Definition run_gen_ident (t : tables) avoid := gen_ident (t_upper t) avoid.
Definition run_pick_table (t : tables) (kw : list str) ident avoid :=
  pick_table_ident (t_nfkd t) (t_comb t) (t_upper t) (t_cap t) (t_udigit t) kw ident avoid.
Definition run_pick_col (t : tables) (kw : list str) ident avoid :=
  pick_col_ident (t_nfkd t) (t_comb t) (t_upper t) (t_cap t) (t_udigit t) kw ident avoid.
Definition run_pick_list (t : tables) (kw : list str) idents avoid :=
  pick_col_ident_list (t_nfkd t) (t_comb t) (t_upper t) (t_cap t) (t_udigit t) kw idents avoid.

(* ---- facts about keyword.kwlist that the theorems need; evaluated on the regenerated list in Props/C21.v:
   no keyword ends in a digit (so a numeric suffix never produces one) and no keyword consists of capital
   letters only (so A, B, ..., AA, ... are never keywords). *)
Definition last_is_digit (s : str) : bool :=
  match rev s with
  | [] => false
  | d :: _ => is_digit d
  end.
Definition kw_facts (kw : list str) : bool :=
  forallb (fun k => negb (last_is_digit k) && negb (forallb is_upper k)) kw.

(* ---- what the theorems assume about the library (all on ASCII only, except idempotence of upper);
   each is monitored on the running Python by harness/props/c21.py ------------------------------------ *)
(* c.upper() for an ASCII character c is its ASCII upper-case form *)
Definition upper_ok (upper_char : Z -> str) : Prop :=
  forall c, is_ascii c = true -> upper_char c = [ascii_upper c].
(* c.capitalize() likewise *)
Definition cap_ok (cap_char : Z -> str) : Prop :=
  forall c, is_ascii c = true -> cap_char c = [ascii_upper c].
(* NFKD leaves ASCII text unchanged *)
Definition nfkd_ok (nfkd : str -> str) : Prop :=
  forall s, forallb is_ascii s = true -> nfkd s = s.
(* no ASCII character is a combining mark *)
Definition combining_ok (combining : Z -> bool) : Prop :=
  forall c, is_ascii c = true -> combining c = false.
(* c.upper().upper() == c.upper() for every character *)
Definition upper_idem_ok (upper_char : Z -> str) : Prop :=
  forall c, upper upper_char (upper_char c) = upper_char c.

(* ---- typed constructors and checks for the generated correspondence cases ------------------------- *)
Definition mk_tables (a : list (str * str)) (b : list Z) (c d : list (Z * str)) (e : list Z) : tables :=
  (a, b, c, d, e).
Inductive ccase : Type :=
| case_sanitize (t : tables) (i : option str) (prefix : str) (cap : bool) (out : str)
| case_suffix (t : tables) (base : str) (avoid : list str) (k : Z) (out : str)
| case_gen (t : tables) (avoid : list str) (out : str)
| case_table (t : tables) (i : option str) (avoid : list str) (out : str)
| case_col (t : tables) (i : option str) (avoid : list str) (out : str)
| case_list (t : tables) (i : list (option str)) (avoid : list str) (out : list str).

(* does the model return what the implementation returned? *)
Definition check_case (kw : list str) (c : ccase) : bool :=
  match c with
  | case_sanitize t i prefix cap out => opt_str_eqb (run_sanitize t kw i prefix cap) out
  | case_suffix t base avoid k out => opt_str_eqb (run_add_suffix t base avoid k) out
  | case_gen t avoid out => opt_str_eqb (run_gen_ident t avoid) out
  | case_table t i avoid out => opt_str_eqb (run_pick_table t kw i avoid) out
  | case_col t i avoid out => opt_str_eqb (run_pick_col t kw i avoid) out
  | case_list t i avoid out => opt_strs_eqb (run_pick_list t kw i avoid) out
  end.
