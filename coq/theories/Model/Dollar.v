(* C19 -- the `$name` -> `rec.name` translation and the insertion of `return`
   (codebuilder._do_make_formula_body together with textbuilder.Replacer / make_regexp_patches).

   CPython's tokenizer and parser are oracles (TRUSTED): they say which occurrences of `$name` are name
   tokens of the code (and not text inside a string or comment), and where the last statement starts when it
   is an expression statement.  What is modelled is everything the code does around those answers: the
   regular expression DOLLAR_REGEX, the temporary `DOLLARname` text, the Replacer's offset tables and
   `map_back_offset`, the patches, `sorted(patches)` and their application.
   Not modelled: the `lambda:` wrapping of the arguments of IF/ISERR/ISERROR/IFERROR/PEEK, the '\npass' added
   to a body without statements.  Definitions only; proofs are in Proofs/Dollar_proofs.v. *)
From Coq Require Import ZArith List Bool.
Import ListNotations.
Require Import Grist.Model.Codegen.
Open Scope Z_scope.

Definition DOLLAR_CH : Z := 36.
Definition s_DOLLAR : text := [68; 79; 76; 76; 65; 82].               (* "DOLLAR" *)
Definition s_rec : text := [114; 101; 99; 46].                         (* "rec." *)
Definition s_return : text := [114; 101; 116; 117; 114; 110; 32].      (* "return " *)

Definition is_ident_start (c : Z) : bool :=
  ((97 <=? c) && (c <=? 122)) || ((65 <=? c) && (c <=? 90)) || (c =? 95).

Definition len (t : text) : Z := Z.of_nat (length t).

(* DOLLAR_REGEX = a dollar sign with a lookahead for [a-zA-Z_]; .finditer gives the offsets of the matches *)
Fixpoint dollar_positions_from (pos : Z) (t : text) : list Z :=
  match t with
  | [] => []
  | c :: r =>
      let rest := dollar_positions_from (pos + 1) r in
      match r with
      | d :: _ => if (c =? DOLLAR_CH) && is_ident_start d then pos :: rest else rest
      | [] => rest
      end
  end.

Definition dollar_positions (t : text) : list Z := dollar_positions_from 0 t.

(* DOLLAR_REGEX.match(formula, pos) is not None *)
Definition dollar_match_at (t : text) (pos : Z) : bool :=
  if pos <? 0 then false else
  match skipn (Z.to_nat pos) t with
  | c :: d :: _ => (c =? DOLLAR_CH) && is_ident_start d
  | _ => false
  end.

(* textbuilder.Patch(start, end, old_text, new_text); old_text is text[start:end] *)
Record patch := mkpatch { p_start : Z; p_end : Z; p_new : text }.

(* sorted(patches): tuples compare by start, then end (the patches built here never agree on both) *)
Definition patch_leb (a b : patch) : bool :=
  (p_start a <? p_start b) || ((p_start a =? p_start b) && (p_end a <=? p_end b)).

Fixpoint insert_patch (a : patch) (l : list patch) : list patch :=
  match l with
  | [] => [a]
  | b :: r => if patch_leb a b then a :: l else b :: insert_patch a r
  end.

Fixpoint sort_patches (l : list patch) : list patch :=
  match l with
  | [] => []
  | a :: r => insert_patch a (sort_patches r)
  end.

(* Replacer.__init__: the output text.  `rest` is text[in_pos:] *)
Fixpoint apply_loop (rest : text) (in_pos : Z) (ps : list patch) : text :=
  match ps with
  | [] => rest
  | p :: ps' =>
      let n := Z.to_nat (p_start p - in_pos) in
      firstn n rest ++ p_new p
      ++ apply_loop (skipn (Z.to_nat (p_end p - p_start p)) (skipn n rest)) (p_end p) ps'
  end.

Definition apply_patches (t : text) (ps : list patch) : text := apply_loop t 0 (sort_patches ps).

(* Replacer.__init__: the parallel lists _input_offsets/_output_offsets, as a list of pairs *)
Fixpoint offsets_loop (in_pos out_pos : Z) (ps : list patch) : list (Z * Z) :=
  match ps with
  | [] => []
  | p :: ps' =>
      let out_pos' := out_pos + (p_start p - in_pos) + len (p_new p) in
      let in_pos' := p_end p in
      if len (p_new p) =? p_end p - p_start p then offsets_loop in_pos' out_pos' ps'
      else (in_pos', out_pos') :: offsets_loop in_pos' out_pos' ps'
  end.

Definition replacer_offsets (ps : list patch) : list (Z * Z) := (0, 0) :: offsets_loop 0 0 (sort_patches ps).

(* Replacer.get_input_pos: index = bisect_right(output_offsets, out_pos) - 1, i.e. the last pair whose output
   offset is <= out_pos (the list is ascending) *)
Definition get_input_pos (offs : list (Z * Z)) (out_pos : Z) : Z :=
  let io := fold_left (fun acc io => if snd io <=? out_pos then io else acc) offs (0, 0) in
  fst io + (out_pos - snd io).

(* _do_make_formula_body, given the oracle's answers about the temporary text:
   name_pos  = start offsets (in the temporary text) of the ast.Name nodes whose id starts with DOLLAR,
               in the order ast.walk yields them;
   last_expr = start offset of the last statement when it is an ast.Expr. *)
Definition tmp_patches (formula : text) : list patch :=
  map (fun d => mkpatch d (d + 1) s_DOLLAR) (dollar_positions formula).

Definition tmp_text (formula : text) : text := apply_patches formula (tmp_patches formula).

Definition final_patches (formula : text) (name_pos : list Z) (last_expr : option Z) : list patch :=
  let offs := replacer_offsets (tmp_patches formula) in
  flat_map (fun p => let ip := get_input_pos offs p in
                     if dollar_match_at formula ip then [mkpatch ip (ip + 1) s_rec] else []) name_pos
  ++ match last_expr with
     | Some p => let ip := get_input_pos offs p in [mkpatch ip ip s_return]
     | None => []
     end.

Definition translate (formula : text) (name_pos : list Z) (last_expr : option Z) : text :=
  apply_patches formula (final_patches formula name_pos last_expr).

(* ---------------------------------------------------------------------------------------------
   The specification, on a token stream.
     TCode s    code outside names written with `$`: holds no `$`
     TDollar n  a name token written `$n` in the code
     TOpaque s  a string or comment token (whatever it holds, `$x` included, stays as it is)
     TMark      zero-width: the start of the last statement when that is an expression statement *)
Inductive tok := TCode (s : text) | TDollar (n : text) | TOpaque (s : text) | TMark.

Definition tok_src (k : tok) : text :=
  match k with TCode s => s | TDollar n => DOLLAR_CH :: n | TOpaque s => s | TMark => [] end.

(* the meaning: `$name` is read as `rec.name` outside strings and comments; the last expression is returned *)
Definition tok_out (k : tok) : text :=
  match k with TCode s => s | TDollar n => s_rec ++ n | TOpaque s => s | TMark => s_return end.

Definition src_of (ks : list tok) : text := flat_map tok_src ks.
Definition spec_of (ks : list tok) : text := flat_map tok_out ks.

(* length of a token in the temporary text: every DOLLAR_REGEX match grows by 5 *)
Definition tok_tmp_len (k : tok) : Z := len (tok_src k) + 5 * len (dollar_positions (tok_src k)).

(* what the oracle answers for a token stream: offsets in the temporary text *)
Fixpoint name_offsets (off : Z) (ks : list tok) : list Z :=
  match ks with
  | [] => []
  | k :: r => match k with TDollar _ => [off] | _ => [] end ++ name_offsets (off + tok_tmp_len k) r
  end.

Fixpoint mark_offsets (off : Z) (ks : list tok) : list Z :=
  match ks with
  | [] => []
  | k :: r => match k with TMark => [off] | _ => [] end ++ mark_offsets (off + tok_tmp_len k) r
  end.

Definition last_is_dollar (t : text) : bool :=
  match rev t with c :: _ => c =? DOLLAR_CH | [] => false end.

(* a faithful token stream: no `$` in plain code; a `$name` starts with an ASCII identifier character and
   holds no further `$`; a string/comment token does not end with `$` *)
Definition tok_wf (k : tok) : bool :=
  match k with
  | TCode s => negb (mem DOLLAR_CH s)
  | TDollar n => match n with c :: _ => is_ident_start c && negb (mem DOLLAR_CH n) | [] => false end
  | TOpaque s => negb (last_is_dollar s)
  | TMark => true
  end.
