(* Declarative kernel for C05: what an edit (with its invalidation) and one cell evaluation must
   guarantee, the invariant [consistent], and recalculation from scratch.  The executable
   functions of Deps.v/DepsExec.v are shown to satisfy these guarantees in Proofs/Deps_*.v.

   Two mechanisms keep a clean formula cell c up to date with a cell d it read:
     eager   a recorded edge whose relation maps row d back to row c ([links]): invalidating d
             reaches c in Graph.invalidate_deps, BEFORE d changes;
     lazy    ([guarded], lookups) c only observes [p (value of d)]; whoever changes d so that the
             observation changes invalidates c at that moment (LookupMapColumn._recalc_rec_method
             -> _RelationTracker.invalidate_affected_keys; LookupMapColumn.unset). *)
From Coq Require Import ZArith List Bool Lia.
Import ListNotations.
Require Import Grist.Model.Deps.
Open Scope Z_scope.

Definition edge := (node * node * rel)%type.   (* out_node, in_node, relation *)

Record state := mkS {
  val : cell -> Z;                 (* column data *)
  fml : cell -> option itree;      (* Some: live formula cell; None: data cell / absent row *)
  dirty : cell -> bool;            (* recompute_map *)
  edges : list edge;               (* dep_graph *)
  rst : relst                      (* state of the relation objects *)
}.

Definition links (s : state) (d c : cell) : Prop :=
  exists via, In (fst c, fst d, via) (edges s) /\ covers (rst s) via (snd d) (snd c) = true.

Definition acell (a : access) : cell := fst (fst a).

Section Kernel.
Variable guarded : state -> cell -> cell -> (Z -> Z) -> Prop.

Definition read_ok (s : state) (c : cell) (a : access) : Prop :=
  (links s (acell a) c /\ (fml s (acell a) <> None -> dirty s (acell a) = false))
  \/ guarded s c (acell a) (snd a).

(* every clean formula cell equals its formula on the current values, and every cell it read is
   covered *)
Definition consistent (s : state) : Prop :=
  forall c t, fml s c = Some t -> dirty s c = false ->
    val s c = run (val s) t /\ Forall (read_ok s c) (trace (val s) t).

(* an edit touching the cells T (values and/or formulas: data edit, added/removed rows, schema
   edit = all rows of a node), followed by its invalidation *)
Record edit_ok (s : state) (T : cell -> bool) (s' : state) : Prop := {
  e_val : forall c, T c = false -> val s' c = val s c;
  e_fml : forall c, T c = false -> fml s' c = fml s c;
  e_old : forall c, dirty s c = true -> fml s' c <> None -> dirty s' c = true;
  e_T : forall c, T c = true -> fml s' c <> None -> dirty s' c = true;
  e_closed : forall d c, (T d = true /\ (fml s d <> None -> dirty s d = false)) \/
                         (dirty s' d = true /\ dirty s d = false) ->
             links s d c -> fml s' c <> None -> dirty s' c = true;
  e_links : forall d c, fml s' c <> None -> dirty s' c = false -> links s d c -> links s' d c;
  e_guard : forall c d p, fml s' c <> None -> dirty s' c = false -> guarded s c d p ->
            guarded s' c d p /\ p (val s' d) = p (val s d)
}.

(* evaluation of the dirty cell c (Engine._recompute_step for one row: all cells read are clean,
   otherwise the evaluation is abandoned with OrderError and nothing changes) *)
Record eval_ok (s : state) (c : cell) (t : itree) (s' : state) : Prop := {
  v_fml : fml s c = Some t;
  v_dirty : dirty s c = true;
  v_clean : Forall (fun a => fml s (acell a) <> None -> dirty s (acell a) = false) (trace (val s) t);
  v_val : forall x, val s' x = upd (val s) c (run (val s) t) x;
  v_fmls : forall x, fml s' x = fml s x;
  v_old : forall x, x <> c -> dirty s x = true -> dirty s' x = true;
  v_rec : dirty s' c = false -> Forall (read_ok s' c) (trace (val s) t);
  v_closed : forall d x, dirty s' d = true -> dirty s d = false -> links s d x ->
             fml s x <> None -> dirty s' x = true;
  v_links : forall d x, x <> c -> fml s x <> None -> dirty s' x = false -> links s d x -> links s' d x;
  v_guard : forall x d p, x <> c -> fml s x <> None -> dirty s' x = false -> guarded s x d p ->
            guarded s' x d p /\ p (val s' d) = p (val s d)
}.

Inductive step : state -> state -> Prop :=
| st_edit s T s' : edit_ok s T s' -> step s s'
| st_eval s c t s' : eval_ok s c t s' -> step s s'.

Inductive steps : state -> state -> Prop :=
| steps_refl s : steps s s
| steps_cons s s1 s2 : step s s1 -> steps s1 s2 -> steps s s2.

End Kernel.

Definition quiescent (s : state) : Prop := forall c, fml s c <> None -> dirty s c = false.

(* a fresh engine: data cells as stored, every formula cell computed from its formula *)
Fixpoint scratch (fuel : nat) (f : cell -> option itree) (data : cell -> Z) (c : cell) : Z :=
  match f c with
  | None => data c
  | Some t => match fuel with O => 0 | S n => run (scratch n f data) t end
  end.

(* acyclic program: a rank that every read decreases, whatever the values *)
Definition acyclic (f : cell -> option itree) (rank : cell -> nat) : Prop :=
  forall c t, f c = Some t -> forall v, Forall (fun a => (rank (acell a) < rank c)%nat) (trace v t).
