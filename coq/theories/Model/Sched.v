(* K2 -- the recalculation scheduler of the data engine (engine.py: Engine._update_loop,
   _recompute_step, _recompute_one_cell, _use_node/_recompute, _locked_cells, OrderError,
   depend.CircularRefError; column.py BaseColumn.get_cell_value).  Executable model only.

   Cells are (node, row).  A formula is an interaction tree: it returns a value, raises, or reads a
   cell and continues with the value read (dynamic dependencies).  The state of one update loop:
   cell values, the dirty set (recompute_map), the lock set (_locked_cells), the work stack
   (work_items, one frame per REQUIRED cell with the cell to unlock when the frame completes), and
   the two progress counters of _update_loop.

   What the engine does, transition by transition (the model is NONDETERMINISTIC: every choice the
   engine makes by sorting names/rows is left open):

     pick     work_items exhausted / next top-level item (node, None, []): any dirty cell becomes
              required (frame (c, None)); counters restart.
     done     the required cell on top of the stack is dirty and not locked; its formula runs to
              completion reading only clean cells: value stored, cell clean, lock discarded.
     need     ... its formula reads a DIRTY cell d: evaluation is abandoned (OrderError), c is locked,
              frame (d, Some c) is pushed.
     cycle    the required cell on top is dirty and LOCKED: it receives CircularRefError, becomes
              clean, lock discarded.
     opp      _recompute_step also evaluates other dirty rows of the node it was called for, not
              required: any dirty cell whose formula completes may be evaluated at any time (value
              stored, clean, lock discarded); an opportunistic evaluation that reads a dirty cell is
              abandoned without any effect (no transition).
     pop      the required cell of the top frame is clean: the frame is removed and its lock released
              (if still held: _expected_done_counter += 1).

   Reading a cell that holds an error value: get_cell_value raises; the continuation of [Read]
   receives the error value, so a formula may handle it.  A formula WITHOUT exception handling passes
   every error on unchanged ([strict]). *)
From Coq Require Import ZArith List Bool Lia.
Import ListNotations.
Open Scope Z_scope.

Definition cell := (Z * Z)%type.
Definition cell_eqb (a b : cell) : bool := Z.eqb (fst a) (fst b) && Z.eqb (snd a) (snd b).

Inductive err := CircularRef | Other (e : Z).
Inductive value := VInt (z : Z) | VErr (e : err).

Definition err_eqb (a b : err) : bool :=
  match a, b with
  | CircularRef, CircularRef => true
  | Other x, Other y => Z.eqb x y
  | _, _ => false
  end.
Definition value_eqb (a b : value) : bool :=
  match a, b with
  | VInt x, VInt y => Z.eqb x y
  | VErr x, VErr y => err_eqb x y
  | _, _ => false
  end.

Inductive itree :=
| Ret (z : Z)
| Raise (e : err)
| Read (c : cell) (k : value -> itree).

(* None: a data cell (no formula; never dirty) *)
Definition prog := cell -> option itree.

Inductive outcome := ODone (v : value) | ONeed (c : cell).

(* _recompute_one_cell: run the formula; a read of a dirty cell is an OrderError for that cell *)
Fixpoint eval (val : cell -> value) (isdirty : cell -> bool) (t : itree) : outcome :=
  match t with
  | Ret z => ODone (VInt z)
  | Raise e => ODone (VErr e)
  | Read c k => if isdirty c then ONeed c else eval val isdirty (k (val c))
  end.

(* a formula without exception handling: an error read is re-raised unchanged *)
Inductive strict : itree -> Prop :=
| strict_ret z : strict (Ret z)
| strict_raise e : strict (Raise e)
| strict_read c k : (forall e, k (VErr e) = Raise e) -> (forall z, strict (k (VInt z))) -> strict (Read c k).

(* a formula whose handlers never catch CircularRefError (they may catch every other error) *)
Inductive cre_strict : itree -> Prop :=
| cs_ret z : cre_strict (Ret z)
| cs_raise e : cre_strict (Raise e)
| cs_read c k : k (VErr CircularRef) = Raise CircularRef -> (forall v, cre_strict (k v)) -> cre_strict (Read c k).

Definition mem (c : cell) (l : list cell) : bool := existsb (cell_eqb c) l.
Definition remove (c : cell) (l : list cell) : list cell := filter (fun x => negb (cell_eqb c x)) l.
Definition upd (val : cell -> value) (c : cell) (v : value) : cell -> value :=
  fun x => if cell_eqb x c then v else val x.

Definition frame := (cell * option cell)%type.

Record state := mk {
  val : cell -> value;
  dirty : list cell;
  locked : list cell;
  stack : list frame;
  ndone : nat;      (* _recompute_done_counter *)
  nexp : nat        (* _expected_done_counter *)
}.

Definition unlock (l : option cell) (ls : list cell) : list cell :=
  match l with Some c => remove c ls | None => ls end.
Definition lock_held (l : option cell) (ls : list cell) : bool :=
  match l with Some c => mem c ls | None => false end.

(* store a computed value: col.set, exclude.add / dirty_rows -= cleaned, _locked_cells.discard *)
Definition finish (s : state) (c : cell) (v : value) : state :=
  mk (upd (val s) c v) (remove c (dirty s)) (remove c (locked s)) (stack s) (S (ndone s)) (nexp s).

Definition run_formula (P : prog) (s : state) (c : cell) : option outcome :=
  match P c with
  | Some t => Some (eval (val s) (fun x => mem x (dirty s)) t)
  | None => None
  end.

Inductive step (P : prog) : state -> state -> Prop :=
| step_pick s c :
    stack s = [] -> mem c (dirty s) = true ->
    step P s (mk (val s) (dirty s) (locked s) [(c, None)] 0 0)
| step_done s c l rest v :
    stack s = (c, l) :: rest -> mem c (dirty s) = true -> mem c (locked s) = false ->
    run_formula P s c = Some (ODone v) ->
    step P s (finish s c v)
| step_need s c l rest d :
    stack s = (c, l) :: rest -> mem c (dirty s) = true -> mem c (locked s) = false ->
    run_formula P s c = Some (ONeed d) ->
    step P s (mk (val s) (dirty s) (c :: locked s) ((d, Some c) :: stack s) (ndone s) (nexp s))
| step_cycle s c l rest :
    stack s = (c, l) :: rest -> mem c (dirty s) = true -> mem c (locked s) = true ->
    step P s (finish s c (VErr CircularRef))
| step_opp s c v :
    mem c (dirty s) = true -> run_formula P s c = Some (ODone v) ->
    step P s (finish s c v)
| step_pop s c l rest :
    stack s = (c, l) :: rest -> mem c (dirty s) = false ->
    step P s (mk (val s) (dirty s) (unlock l (locked s)) rest (ndone s)
                 (if lock_held l (locked s) then S (nexp s) else nexp s)).

Inductive steps (P : prog) : state -> state -> Prop :=
| steps_refl s : steps P s s
| steps_cons s1 s2 s3 : step P s1 s2 -> steps P s2 s3 -> steps P s1 s3.

(* a complete run ends where nothing is left to do *)
Definition final (s : state) : Prop := dirty s = [] /\ stack s = [].
Definition complete_run (P : prog) (s s' : state) : Prop := steps P s s' /\ final s'.

(* the two sanity checks of _update_loop ("data engine not making progress ...") *)
Definition progress_ok (s : state) : Prop := (nexp s <= ndone s)%nat.

(* ------------------------------------------------------------------------------------------
   Executable form: one label per transition. *)
Inductive label :=
| LPick (c : cell) | LDone (c : cell) | LNeed (c d : cell) | LCycle (c : cell) | LOpp (c : cell) | LPop.

Definition outcome_eqb (a b : outcome) : bool :=
  match a, b with
  | ODone x, ODone y => value_eqb x y
  | ONeed x, ONeed y => cell_eqb x y
  | _, _ => false
  end.

Definition exec (P : prog) (l : label) (s : state) : option state :=
  match l with
  | LPick c =>
      match stack s with
      | [] => if mem c (dirty s) then Some (mk (val s) (dirty s) (locked s) [(c, None)] 0 0) else None
      | _ => None
      end
  | LDone c =>
      match stack s with
      | (c', _) :: _ =>
          if cell_eqb c c' && mem c (dirty s) && negb (mem c (locked s)) then
            match run_formula P s c with
            | Some (ODone v) => Some (finish s c v)
            | _ => None
            end
          else None
      | [] => None
      end
  | LNeed c d =>
      match stack s with
      | (c', _) :: _ =>
          if cell_eqb c c' && mem c (dirty s) && negb (mem c (locked s)) then
            match run_formula P s c with
            | Some (ONeed d') =>
                if cell_eqb d d' then
                  Some (mk (val s) (dirty s) (c :: locked s) ((d, Some c) :: stack s) (ndone s) (nexp s))
                else None
            | _ => None
            end
          else None
      | [] => None
      end
  | LCycle c =>
      match stack s with
      | (c', _) :: _ =>
          if cell_eqb c c' && mem c (dirty s) && mem c (locked s)
          then Some (finish s c (VErr CircularRef)) else None
      | [] => None
      end
  | LOpp c =>
      if mem c (dirty s) then
        match run_formula P s c with
        | Some (ODone v) => Some (finish s c v)
        | _ => None
        end
      else None
  | LPop =>
      match stack s with
      | (c, l) :: rest =>
          if mem c (dirty s) then None
          else Some (mk (val s) (dirty s) (unlock l (locked s)) rest (ndone s)
                        (if lock_held l (locked s) then S (nexp s) else nexp s))
      | [] => None
      end
  end.

(* replay of a label sequence: every label must be an enabled transition *)
Fixpoint replay (P : prog) (ls : list label) (s : state) : option state :=
  match ls with
  | [] => Some s
  | l :: t => match exec P l s with Some s' => replay P t s' | None => None end
  end.

(* a run driven by a strategy (scheduling oracle): the strategy proposes a label; the run stops when the
   strategy proposes nothing, proposes a transition that is not enabled, or the fuel runs out *)
Fixpoint run (P : prog) (strat : state -> option label) (fuel : nat) (s : state) : state :=
  match fuel with
  | O => s
  | S n => match strat s with
           | Some l => match exec P l s with Some s' => run P strat n s' | None => s end
           | None => s
           end
  end.

(* The engine's own resolution of the choices, for a given priority order of the cells (the order of
   _make_sorted_work_items, rows ascending inside a node):
     - stack empty: the first dirty cell of the order is picked;
     - top frame's cell clean: for a nested frame, first the dirty cells of the same node are tried
       opportunistically in the given order, up to the first one that cannot complete; then the frame is
       popped;
     - top frame's cell dirty: cycle if locked, otherwise evaluate (done / need).
   (The real loop iterates `dirty_rows` while nested _recompute_step calls remove cleaned rows from the same
   set, so it occasionally skips a row that this strategy would try; such runs are still runs of [step].
   The theorems are about [step]; this strategy is one resolution, used for the statement about
   permutations and compared with the recorded traces for information.) *)
Definition first_dirty (order : list cell) (s : state) : option cell :=
  find (fun c => mem c (dirty s)) order.

Definition engine_strategy (P : prog) (order : list cell) (s : state) : option label :=
  match stack s with
  | [] => match first_dirty order s with Some c => Some (LPick c) | None => None end
  | (c, l) :: _ =>
      if mem c (dirty s) then
        if mem c (locked s) then Some (LCycle c)
        else match run_formula P s c with
             | Some (ODone _) => Some (LDone c)
             | Some (ONeed d) => Some (LNeed c d)
             | None => None
             end
      else
        match l with
        | None => Some LPop      (* a top-level item: its other rows are required too, picked next *)
        | Some _ =>
            match find (fun x => Z.eqb (fst x) (fst c) && mem x (dirty s)) order with
            | Some x => match run_formula P s x with
                        | Some (ODone _) => Some (LOpp x)
                        | _ => Some LPop
                        end
            | None => Some LPop
            end
        end
  end.

Definition init_state (v : cell -> value) (d : list cell) : state := mk v d [] [] 0 0.

(* the result of a run, observed on a list of cells *)
Definition values_on (cs : list cell) (s : state) : list value := map (val s) cs.

(* ------------------------------------------------------------------------------------------
   The small formula grammar used to tie the model to the engine (harness/schedtrace.py writes the
   same formula as Python text for the engine and as an [expr] for the model):
     n | $C | $R.C (R a reference column: row = value of $R) | a + b | (a if c > 0 else b) | 1/0
     | try: return a / except Exception: return n
   Python evaluates operands left to right and the condition of a conditional first. *)
Inductive expr :=
| EConst (z : Z)
| ECol (col : Z)
| ERef (refcol col : Z)
| EAdd (a b : expr)
| EIf (c a b : expr)
| EDiv0
| ETry (a : expr) (z : Z)
| ETryOther (a : expr) (z : Z)    (* try: return a / except Exception as e: re-raise CircularRefError, else return z *)
(* lookups through an index node [idx] (a '#lookup#K' helper column: its cell of row r holds the key of row r,
   its formula is [ECol K]); the call first needs EVERY cell of the index node (Engine._use_node without
   row ids: OrderError for the first dirty row), then looks at the matching rows in row order *)
| ECount (idx : Z) (key : expr)             (* len(T.lookupRecords(K=key)) *)
| EOne (idx : Z) (key : expr)               (* T.lookupOne(K=key).id *)
| ESum (idx : Z) (key : expr) (col : Z)     (* sum(r.col for r in T.lookupRecords(K=key)) *)
| EIfId (ks : list Z) (a b : expr)          (* a if $id in ks else b: row-dependent formulas *)
(* ONE access that requires SEVERAL rows of a column (Table._get_col_obj_subset -> _use_node(node, rel, rows) ->
   _recompute_step(require_rows = rows)): first every required row must be clean - OrderError for the first dirty
   one in ASCENDING row order -, only then the values are read, in list order *)
| ESumRows (sets : list (Z * list Z)) (col : Z)   (* sum($L.col), L a RefList data column, inlined per row *)
| ESumMatched (idx : Z) (key : expr) (col : Z).   (* sum(T.lookupRecords(K=key).col) *)

Definition zero_division : Z := 1.

(* read all cells of an index node in row order; [acc] collects (reversed) the rows whose key matches *)
Fixpoint read_index (idx : Z) (rows : list Z) (key : Z) (acc : list Z)
                    (k : list Z -> itree) (h : err -> itree) : itree :=
  match rows with
  | [] => k (rev acc)
  | r :: t => Read (idx, r) (fun v => match v with
                                     | VInt z => read_index idx t key (if z =? key then r :: acc else acc) k h
                                     | VErr x => h x
                                     end)
  end.

Fixpoint read_sum (col : Z) (rs : list Z) (acc : Z) (k : Z -> itree) (h : err -> itree) : itree :=
  match rs with
  | [] => k acc
  | r :: t => Read (col, r) (fun v => match v with VInt z => read_sum col t (acc + z) k h | VErr x => h x end)
  end.

(* phase one of a multi-row access: the rows are required (read, value ignored) in ascending order *)
Fixpoint require_rows (col : Z) (rs : list Z) (k : itree) : itree :=
  match rs with
  | [] => k
  | r :: t => Read (col, r) (fun _ => require_rows col t k)
  end.

Fixpoint insert_z (x : Z) (l : list Z) : list Z :=
  match l with
  | [] => [x]
  | y :: t => if x <=? y then x :: l else y :: insert_z x t
  end.
Definition sort_z (l : list Z) : list Z := fold_right insert_z [] l.

Fixpoint assoc_rows (sets : list (Z * list Z)) (row : Z) : list Z :=
  match sets with
  | [] => []
  | (r, l) :: t => if r =? row then l else assoc_rows t row
  end.

(* Engine._use_node(node, relation, row_ids) with an EMPTY list of rows (the attribute of an empty record set) means
   "no particular rows", which _recompute_step treats as ALL rows of the column being required (known finding
   C18-empty-recordset-requires-whole-column: a spurious dependency, hence spurious circular references) *)
Definition required_of (rows ms : list Z) : list Z := match ms with [] => rows | _ => ms end.

(* continuation-passing compilation; [h] is the innermost exception handler; [rows] are the table's rows *)
Fixpoint compile (rows : list Z) (e : expr) (row : Z) (k : Z -> itree) (h : err -> itree) : itree :=
  match e with
  | EConst z => k z
  | ECol col => Read (col, row) (fun v => match v with VInt z => k z | VErr x => h x end)
  | ERef rc col =>
      Read (rc, row) (fun v => match v with
                               | VInt r => Read (col, r) (fun w => match w with VInt z => k z | VErr x => h x end)
                               | VErr x => h x
                               end)
  | EAdd a b => compile rows a row (fun x => compile rows b row (fun y => k (x + y)) h) h
  | EIf c a b => compile rows c row (fun x => if x >? 0 then compile rows a row k h else compile rows b row k h) h
  | EDiv0 => h (Other zero_division)
  | ETry a z => compile rows a row k (fun _ => k z)
  | ETryOther a z => compile rows a row k (fun x => match x with CircularRef => h CircularRef | Other _ => k z end)
  | ECount idx key =>
      compile rows key row (fun kv => read_index idx rows kv [] (fun ms => k (Z.of_nat (length ms))) h) h
  | EOne idx key =>
      compile rows key row (fun kv => read_index idx rows kv [] (fun ms => k (hd 0 ms)) h) h
  | ESum idx key col =>
      compile rows key row (fun kv => read_index idx rows kv [] (fun ms => read_sum col ms 0 k h) h) h
  | EIfId ks a b => if existsb (Z.eqb row) ks then compile rows a row k h else compile rows b row k h
  | ESumRows sets col =>
      let rs := assoc_rows sets row in require_rows col (required_of rows (sort_z rs)) (read_sum col rs 0 k h)
  | ESumMatched idx key col =>
      compile rows key row
        (fun kv => read_index idx rows kv []
                     (fun ms => require_rows col (required_of rows ms) (read_sum col ms 0 k h)) h) h
  end.

Definition formula_tree (rows : list Z) (e : expr) (row : Z) : itree := compile rows e row Ret Raise.

(* a document: formula columns with their expressions; every row of [rows] has these formulas *)
Fixpoint lookup_col (cols : list (Z * expr)) (n : Z) : option expr :=
  match cols with
  | [] => None
  | (m, e) :: t => if Z.eqb n m then Some e else lookup_col t n
  end.

Definition prog_of (cols : list (Z * expr)) (rows : list Z) : prog :=
  fun c => if existsb (Z.eqb (snd c)) rows then
             match lookup_col cols (fst c) with
             | Some e => Some (formula_tree rows e (snd c))
             | None => None
             end
           else None.

(* all formula cells of a document *)
Definition formula_cells (cols : list (Z * expr)) (rows : list Z) : list cell :=
  flat_map (fun ce => map (fun r => (fst ce, r)) rows) cols.

(* cell values given as an association list (cells not listed hold 0) *)
Fixpoint val_of (l : list (cell * value)) (c : cell) : value :=
  match l with
  | [] => VInt 0
  | (d, v) :: t => if cell_eqb c d then v else val_of t c
  end.

Fixpoint no_try (e : expr) : bool :=
  match e with
  | EConst _ | ECol _ | ERef _ _ | EDiv0 => true
  | EAdd a b => no_try a && no_try b
  | EIf c a b => no_try c && no_try a && no_try b
  | ETry _ _ | ETryOther _ _ => false
  | ECount _ key | EOne _ key | ESum _ key _ => no_try key
  | EIfId _ a b => no_try a && no_try b
  | ESumRows _ _ | ESumMatched _ _ _ => false   (* two-phase reads are outside the syntactic class [strict] *)
  end.

(* no handler that catches CircularRefError *)
Fixpoint no_cre_catch (e : expr) : bool :=
  match e with
  | EConst _ | ECol _ | ERef _ _ | EDiv0 => true
  | EAdd a b => no_cre_catch a && no_cre_catch b
  | EIf c a b => no_cre_catch c && no_cre_catch a && no_cre_catch b
  | ETry _ _ => false
  | ETryOther a _ => no_cre_catch a
  | ECount _ key | EOne _ key | ESum _ key _ => no_cre_catch key
  | EIfId _ a b => no_cre_catch a && no_cre_catch b
  | ESumRows _ _ | ESumMatched _ _ _ => false
  end.

(* what the harness checks for one recorded update loop: the recorded events are a run of the model from
   the recorded initial state (every label an enabled transition with the recorded outcome), the engine's
   dirty cells (recompute_map) and _locked_cells observed at every _recompute_step entry are the model's,
   the progress checks hold at every state, the run is complete and the final values are the recorded ones *)
Inductive titem :=
| TL (l : label)                               (* a transition *)
| TS (dirty_cells locked_cells : list cell)    (* engine state observed at a step boundary *)
| TI (cells : list cell).                      (* cells invalidated while the loop runs (a lookup index cell
                                                  found a changed key: _LookupRelation.invalidate_affected_keys) *)

(* mid-loop invalidation: clean cells that have not been computed in this loop become dirty *)
Definition add_dirty (s : state) (cs : list cell) : state :=
  mk (val s) (cs ++ dirty s) (locked s) (stack s) (ndone s) (nexp s).
Definition finished_by (l : label) : list cell :=
  match l with LDone c | LOpp c | LCycle c => [c] | _ => [] end.
Definition inval_ok (P : prog) (s : state) (done cs : list cell) : bool :=
  forallb (fun c => negb (mem c (dirty s)) && negb (mem c done) &&
                    match P c with Some _ => true | None => false end) cs.

Definition same_set (a b : list cell) : bool :=
  forallb (fun x => mem x b) a && forallb (fun x => mem x a) b.

(* [done]: the cells computed so far in this loop (_recompute_done_map); an invalidation of such a cell would be
   LOST by the engine (the row is "declared clean" without being recomputed), so the replay rejects it *)
Fixpoint replay_ok (P : prog) (ls : list titem) (s : state) (done : list cell) : option state :=
  match ls with
  | [] => Some s
  | TL l :: t => match exec P l s with
                 | Some s' => if (nexp s' <=? ndone s')%nat then replay_ok P t s' (finished_by l ++ done) else None
                 | None => None
                 end
  | TS d k :: t => if same_set d (dirty s) && same_set k (locked s) then replay_ok P t s done else None
  | TI cs :: t => if inval_ok P s done cs then replay_ok P t (add_dirty s cs) done else None
  end.

Fixpoint labels_of (ls : list titem) : list label :=
  match ls with
  | [] => []
  | TL l :: t => l :: labels_of t
  | _ :: t => labels_of t
  end.

Fixpoint has_inval (ls : list titem) : bool :=
  match ls with
  | [] => false
  | TI _ :: _ => true
  | _ :: t => has_inval t
  end.

Definition is_final (s : state) : bool :=
  match dirty s, stack s with [], [] => true | _, _ => false end.

Definition list_eqb {A} (eqb : A -> A -> bool) :=
  fix go (a b : list A) : bool :=
    match a, b with
    | [], [] => true
    | x :: a', y :: b' => eqb x y && go a' b'
    | _, _ => false
    end.

Definition trace_case :=
  (list (Z * expr) * list Z * list (cell * value) * list cell * list titem * list (cell * value) * list cell)%type.

Definition check_trace (c : trace_case) : bool :=
  match c with
  | (cols, rows, vals, dirty0, items, finals, _) =>
      match replay_ok (prog_of cols rows) items (init_state (val_of vals) dirty0) [] with
      | Some s => is_final s && forallb (fun cv => value_eqb (val s (fst cv)) (snd cv)) finals
      | None => false
      end
  end.

(* the deterministic engine strategy must reproduce the recorded label sequence *)
Fixpoint run_labels (P : prog) (strat : state -> option label) (fuel : nat) (s : state) : list label :=
  match fuel with
  | O => []
  | S n => match strat s with
           | Some l => match exec P l s with Some s' => l :: run_labels P strat n s' | None => [] end
           | None => []
           end
  end.

Definition label_eqb (a b : label) : bool :=
  match a, b with
  | LPick x, LPick y | LDone x, LDone y | LCycle x, LCycle y | LOpp x, LOpp y => cell_eqb x y
  | LNeed x d, LNeed y e => cell_eqb x y && cell_eqb d e
  | LPop, LPop => true
  | _, _ => false
  end.

(* ------------------------------------------------------------------------------------------
   Recalculation from scratch: the recursive evaluator (a formula cell's value is its formula run on
   the recursively computed values of the cells it reads; [v0] gives the data cells).  The depth bound
   makes it a total function: [scr P v0 n c = Some v] says the recursive evaluation of c needs at
   most n nested levels and yields v; it is [None] for every n exactly when the (dynamic) dependencies
   of c contain a cycle. *)
Fixpoint evalrec (f : cell -> option value) (t : itree) : option value :=
  match t with
  | Ret z => Some (VInt z)
  | Raise e => Some (VErr e)
  | Read c k => match f c with Some v => evalrec f (k v) | None => None end
  end.

Fixpoint scr (P : prog) (v0 : cell -> value) (n : nat) (c : cell) : option value :=
  match n with
  | O => None
  | S m => match P c with
           | None => Some (v0 c)
           | Some t => evalrec (scr P v0 m) t
           end
  end.

(* c neither lies on a cycle nor depends on one: its recursive evaluation is finite *)
Definition evaluable (P : prog) (v0 : cell -> value) (c : cell) : Prop := exists n v, scr P v0 n c = Some v.
(* c lies on a cycle or depends on one *)
Definition reaches_cycle (P : prog) (v0 : cell -> value) (c : cell) : Prop := forall n, scr P v0 n c = None.

(* d is a (dynamic) dependency of c: c cannot be evaluated from scratch unless d can, one level lower *)
Definition dep (P : prog) (v0 : cell -> value) (c d : cell) : Prop :=
  forall n, scr P v0 (S n) c <> None -> scr P v0 n d <> None.
Inductive dep_plus (P : prog) (v0 : cell -> value) : cell -> cell -> Prop :=
| dep_one c d : dep P v0 c d -> dep_plus P v0 c d
| dep_more c d e : dep P v0 c d -> dep_plus P v0 d e -> dep_plus P v0 c e.
Definition on_cycle (P : prog) (v0 : cell -> value) (c : cell) : Prop := dep_plus P v0 c c.

(* static acyclicity: a ranking of the cells that every Read of every formula respects *)
Inductive reads_below (r : cell -> nat) (bound : nat) : itree -> Prop :=
| rb_ret z : reads_below r bound (Ret z)
| rb_raise e : reads_below r bound (Raise e)
| rb_read c k : (r c < bound)%nat -> (forall v, reads_below r bound (k v)) -> reads_below r bound (Read c k).
Definition acyclic (P : prog) (r : cell -> nat) : Prop :=
  forall c t, P c = Some t -> reads_below r (r c) t.

(* a consistent starting point of an update loop: nothing on the stack, nothing locked, only formula
   cells are dirty, and every clean cell already holds its from-scratch value or, if it reaches a cycle,
   the circular-reference error *)
Definition consistent (P : prog) (v0 : cell -> value) (c : cell) (v : value) : Prop :=
  (exists n, scr P v0 n c = Some v) \/ (v = VErr CircularRef /\ reaches_cycle P v0 c).
Definition strict_prog (P : prog) : Prop := forall c t, P c = Some t -> strict t.
Definition cre_strict_prog (P : prog) : Prop := forall c t, P c = Some t -> cre_strict t.
Definition wf_init (P : prog) (s : state) : Prop :=
  stack s = [] /\ locked s = [] /\
  (forall c, In c (dirty s) -> P c <> None) /\
  (forall c, mem c (dirty s) = false -> consistent P (val s) c (val s c)).

(* the engine's own strategy for the recorded priority order reproduces the recorded transitions exactly *)
Definition check_strategy (c : trace_case) : bool :=
  match c with
  | (cols, rows, vals, dirty0, items, _, order) =>
      let P := prog_of cols rows in
      let ls := labels_of items in
      has_inval items ||
      list_eqb label_eqb (run_labels P (engine_strategy P order) (S (length ls)) (init_state (val_of vals) dirty0)) ls
  end.

(* a decidable sufficient condition for [acyclic] on grammar programs: column levels (as the shared
   history generator keeps them): every column mentioned by the formula of column n has a lower level *)
Fixpoint below_level (lv : Z -> nat) (bound : nat) (e : expr) : bool :=
  match e with
  | EConst _ | EDiv0 => true
  | ECol col => (lv col <? bound)%nat
  | ERef rc col => (lv rc <? bound)%nat && (lv col <? bound)%nat
  | EAdd a b => below_level lv bound a && below_level lv bound b
  | EIf c a b => below_level lv bound c && below_level lv bound a && below_level lv bound b
  | ETry a _ | ETryOther a _ => below_level lv bound a
  | ECount idx key | EOne idx key => (lv idx <? bound)%nat && below_level lv bound key
  | ESum idx key col | ESumMatched idx key col =>
      (lv idx <? bound)%nat && (lv col <? bound)%nat && below_level lv bound key
  | EIfId _ a b => below_level lv bound a && below_level lv bound b
  | ESumRows _ col => (lv col <? bound)%nat
  end.
Definition levelled (lv : Z -> nat) (cols : list (Z * expr)) : bool :=
  forallb (fun ce => below_level lv (lv (fst ce)) (snd ce)) cols.

(* the recorded final values are the from-scratch values (CircularRefError where the recursive
   evaluation is not finite); used for programs without try/except only *)
Definition check_scratch (c : trace_case) : bool :=
  match c with
  | (cols, rows, vals, _, _, finals, _) =>
      let P := prog_of cols rows in
      let n := S (length (formula_cells cols rows)) in
      forallb (fun cv => match scr P (val_of vals) n (fst cv) with
                         | Some v => value_eqb v (snd cv)
                         | None => value_eqb (VErr CircularRef) (snd cv)
                         end) finals
  end.

(* the calc changes of an update loop on the cells [cs]: (cell, previous value, new value) for every cell
   whose value differs between the start and the end (what _changes_map holds at _post_update, up to order) *)
Definition calc_changes (s fin : state) (cs : list cell) : list (cell * value * value) :=
  map (fun c => (c, val s c, val fin c)) (filter (fun c => negb (value_eqb (val s c) (val fin c))) cs).

(* ------------------------------------------------------------------------------------------
   Dependency edges: _use_node records the edge (node being computed -> node read) BEFORE it brings the
   read node up to date, so also a read that is abandoned with an OrderError leaves its edge.  [reads] lists
   the cells one evaluation touches (up to and including the first dirty one); [replay_edges] collects the
   node-level edges of all evaluations of a recorded loop.  The harness checks that the engine's dependency
   graph contains them after the loop (invalidation after a later edit relies on exactly these edges). *)
Fixpoint reads (val : cell -> value) (isdirty : cell -> bool) (t : itree) : list cell :=
  match t with
  | Read c k => c :: (if isdirty c then [] else reads val isdirty (k (val c)))
  | _ => []
  end.

Definition eval_edges (P : prog) (s : state) (c : cell) : list (Z * Z) :=
  match P c with
  | Some t => map (fun d => (fst c, fst d)) (reads (val s) (fun x => mem x (dirty s)) t)
  | None => []
  end.

Fixpoint replay_edges (P : prog) (ls : list titem) (s : state) : list (Z * Z) :=
  match ls with
  | [] => []
  | TS _ _ :: t => replay_edges P t s
  | TI cs :: t => replay_edges P t (add_dirty s cs)
  | TL l :: t =>
      let here := match l with
                  | LDone c | LOpp c | LNeed c _ => eval_edges P s c
                  | _ => []
                  end in
      match exec P l s with
      | Some s' => here ++ replay_edges P t s'
      | None => here
      end
  end.

Definition check_edges (c : trace_case) (engine_edges : list (Z * Z)) : bool :=
  match c with
  | (cols, rows, vals, dirty0, items, _, _) =>
      forallb (fun e => existsb (fun g => Z.eqb (fst e) (fst g) && Z.eqb (snd e) (snd g)) engine_edges)
              (replay_edges (prog_of cols rows) items (init_state (val_of vals) dirty0))
  end.

(* ------------------------------------------------------------------------------------------
   The update loop WITH lookups: while the loop runs, a lookup index cell that finds a changed key
   invalidates the cells whose lookups used that key (_LookupRelation.invalidate_affected_keys ->
   Engine.invalidate_records): clean cells become dirty.  The engine keeps, per loop, the set of cells it
   has already computed (_recompute_done_map); a row that is invalidated again after it was computed is
   "declared clean" without being recomputed - the invalidation is LOST and the cell keeps a stale value.

   [xstep] = [step] + invalidation.  Nodes are classified by [isidx] (lookup index nodes) and [iskey] (the
   columns index nodes read, i.e. key columns and what they depend on).  An invalidation can only happen
   while an index cell is still dirty (it is caused by recomputing one) and only hits cells that are neither
   index nor key cells (lookup depth 1: no key column is itself computed through a lookup).  [xlost] records
   whether an invalidation ever hit a cell that was already computed. *)
Record xstate := mkx { xst : state; xdone : list cell; xlost : bool }.

Definition newly_clean (s s' : state) : list cell :=
  filter (fun c => negb (mem c (dirty s'))) (dirty s).

Section XStep.
  Variable P : prog.
  Variables isidx iskey : Z -> bool.

  Definition idx_dirty (s : state) : bool := existsb (fun c => isidx (fst c)) (dirty s).
  Definition special (c : cell) : bool := isidx (fst c) || iskey (fst c).

  Inductive xstep : xstate -> xstate -> Prop :=
  | xs_step s s' d l :
      step P s s' -> xstep (mkx s d l) (mkx s' (newly_clean s s' ++ d) l)
  | xs_inval s d l cs :
      cs <> [] -> idx_dirty s = true ->
      (forall c, In c cs -> mem c (dirty s) = false /\ special c = false /\ P c <> None) ->
      xstep (mkx s d l)
            (mkx (add_dirty s (filter (fun c => negb (mem c d)) cs)) d
                 (l || existsb (fun c => mem c d) cs)).

  Inductive xsteps : xstate -> xstate -> Prop :=
  | xsteps_refl x : xsteps x x
  | xsteps_cons x1 x2 x3 : xstep x1 x2 -> xsteps x2 x3 -> xsteps x1 x3.

  (* "lookups first", as a property of one transition: a cell that is neither an index nor a key cell is
     computed only when no index cell is dirty any more *)
  Definition lookups_first_step (x x' : xstate) : Prop :=
    forall c, In c (newly_clean (xst x) (xst x')) -> special c = false -> idx_dirty (xst x) = false.

  Inductive lf_steps : xstate -> xstate -> Prop :=
  | lf_refl x : lf_steps x x
  | lf_cons x1 x2 x3 : xstep x1 x2 -> lookups_first_step x1 x2 -> lf_steps x2 x3 -> lf_steps x1 x3.
End XStep.

(* executable form of [xstep] *)
Inductive xlabel := XL (l : label) | XI (cs : list cell).

Definition xexec (P : prog) (isidx iskey : Z -> bool) (xl : xlabel) (x : xstate) : option xstate :=
  match xl with
  | XL l => match exec P l (xst x) with
            | Some s' => Some (mkx s' (newly_clean (xst x) s' ++ xdone x) (xlost x))
            | None => None
            end
  | XI cs =>
      let s := xst x in
      match cs with
      | [] => None
      | _ =>
        if idx_dirty isidx s &&
           forallb (fun c => negb (mem c (dirty s)) && negb (special isidx iskey c) &&
                             match P c with Some _ => true | None => false end) cs
        then Some (mkx (add_dirty s (filter (fun c => negb (mem c (xdone x))) cs)) (xdone x)
                       (xlost x || existsb (fun c => mem c (xdone x)) cs))
        else None
      end
  end.

Fixpoint xreplay (P : prog) (isidx iskey : Z -> bool) (ls : list xlabel) (x : xstate) : option xstate :=
  match ls with
  | [] => Some x
  | l :: t => match xexec P isidx iskey l x with Some x' => xreplay P isidx iskey t x' | None => None end
  end.
