(* Hand-written model of the code around Schedule.series in functions/schedule.py (C35): the records
   Delta / Schedule, Delta.add_interval / add_to, the series generator as an instance of Model/Schedule.v,
   and the regex-free logic of _parse_interval / _parse_slot and the six slot parsers.
   gen/Schedule_gen.v is translated from the source on every run; Proofs/Schedule_bridge.v proves that each
   generated function equals the model here.

   Opaque: calendar arithmetic, string primitives, int(), the two regular expressions -- fields of [prims]. *)
From Coq Require Import ZArith List Bool.
Import ListNotations.
Require Import Grist.Model.Schedule Grist.Lib.PySched.
Open Scope Z_scope.

Record delta (TD : Type) := mkDelta { d_timedelta : TD; d_months : Z }.
Arguments mkDelta {TD}. Arguments d_timedelta {TD}. Arguments d_months {TD}.
Definition set_d_timedelta {TD} (d : delta TD) (x : TD) : delta TD := mkDelta x (d_months d).
Definition set_d_months {TD} (d : delta TD) (x : Z) : delta TD := mkDelta (d_timedelta d) x.

Record schedule (TD : Type) := mkSchedule { s_interval_unit : str; s_interval : delta TD; s_slots : list (delta TD) }.
Arguments mkSchedule {TD}. Arguments s_interval_unit {TD}. Arguments s_interval {TD}. Arguments s_slots {TD}.

(* _INTERVAL_RE has two mandatory groups (its pattern is pinned): a match is (num, unit) *)
Definition imatch := (str * str)%type.

Record prims (T TD date tz smatch : Type) := mkPrims {
  p_ltb : T -> T -> bool;                    (* datetime < datetime *)
  p_DTIME : T -> T;                          (* functions.date.DTIME *)
  p_round_down : T -> str -> T;              (* _round_down_to_unit *)
  p_combine : date -> tz -> T;               (* datetime.combine *)
  p_dateadd_months : T -> Z -> date;         (* DATEADD(dtime, months=n) *)
  p_timetz : T -> tz;                        (* dtime.timetz() *)
  p_plus : T -> TD -> T;                     (* datetime + timedelta *)
  p_td_zero : TD;                            (* timedelta(0) *)
  p_td_add : TD -> TD -> TD;
  p_td_unit : str -> Z -> exc TD;            (* timedelta with the keyword `unit` = n *)
  p_lower : str -> str;
  p_strip : str -> str;
  p_split : str -> list str;                 (* s.split() *)
  p_split_on : str -> str -> list str;       (* s.split(sep) *)
  p_split_once : str -> str -> list str;     (* s.split(sep, 1) *)
  p_int : str -> exc Z;
  p_interval_match : str -> option imatch;   (* _INTERVAL_RE.match *)
  p_slot_match : str -> option smatch;       (* _SLOT_RE.match *)
  p_group : smatch -> str -> ostr            (* m.group(name) *)
}.

Arguments p_ltb {T TD date tz smatch} p.
Arguments p_DTIME {T TD date tz smatch} p.
Arguments p_round_down {T TD date tz smatch} p.
Arguments p_combine {T TD date tz smatch} p.
Arguments p_dateadd_months {T TD date tz smatch} p.
Arguments p_timetz {T TD date tz smatch} p.
Arguments p_plus {T TD date tz smatch} p.
Arguments p_td_zero {T TD date tz smatch} p.
Arguments p_td_add {T TD date tz smatch} p.
Arguments p_td_unit {T TD date tz smatch} p.
Arguments p_lower {T TD date tz smatch} p.
Arguments p_strip {T TD date tz smatch} p.
Arguments p_split {T TD date tz smatch} p.
Arguments p_split_on {T TD date tz smatch} p.
Arguments p_split_once {T TD date tz smatch} p.
Arguments p_int {T TD date tz smatch} p.
Arguments p_interval_match {T TD date tz smatch} p.
Arguments p_slot_match {T TD date tz smatch} p.
Arguments p_group {T TD date tz smatch} p.
Arguments mkPrims {T TD date tz smatch}.

Definition ostr_mem_dict {V} (d : list (str * V)) (o : ostr) : bool :=
  match o with Some k => assoc_mem d k | None => false end.
Definition assoc_find_o {V} (d : list (str * V)) (o : ostr) : exc V :=
  match o with Some k => assoc_find d k | None => Exn KeyError end.

Definition S_months : str := [109; 111; 110; 116; 104; 115].
Definition S_years : str := [121; 101; 97; 114; 115].
Definition S_days : str := [100; 97; 121; 115].
Definition S_hours : str := [104; 111; 117; 114; 115].
Definition S_minutes : str := [109; 105; 110; 117; 116; 101; 115].
Definition S_pm : str := [112; 109].
Definition S_delta : str := [100; 101; 108; 116; 97].

Section Code.
  Context {T TD date tz smatch : Type} (P : prims T TD date tz smatch).
  Let G (m : smatch) (name : list Z) : ostr := p_group P m name.
  Let pint := p_int P.

  Definition m_delta_init : delta TD := mkDelta (p_td_zero P) 0.

  Definition m_add_interval (d : delta TD) (n : Z) (u : str) : exc (delta TD) :=
    if str_eqb u S_months then Val (set_d_months d (d_months d + n))
    else if str_eqb u S_years then Val (set_d_months d (d_months d + n * 12))
    else bind (p_td_unit P u n) (fun x => Val (set_d_timedelta d (p_td_add P (d_timedelta d) x))).

  (* months first (on the date), then the timedelta *)
  Definition m_add_to (d : delta TD) (t : T) : T :=
    p_plus P
      (p_combine P (p_dateadd_months P t (d_months d)) (p_timetz P t))
      (d_timedelta d).

  (* Schedule.series = the generator of Model/Schedule.v over these calendar functions *)
  Definition m_series (self : schedule TD) (fuel : nat) (start : T) (end_ : option T) (count : Z) : result T :=
    series T (p_ltb P) (m_add_to (s_interval self)) (map m_add_to (s_slots self))
      (fun s => p_round_down P s (s_interval_unit self))
      fuel (p_DTIME P start) (option_map (p_DTIME P) end_) count.

  (* ---- _parse_interval ---- *)
  Definition m_parse_interval (aliases : list (str * (Z * str))) (singular : list (str * str)) (valid : list str)
      (s : str) : exc (Z * str) :=
    let s := p_lower P s in
    match assoc_get aliases s with
    | Some r => Val r
    | None =>
        match p_interval_match P s with
        | None => Exn ValueError
        | Some (num, unit) =>
            bind (pint num) (fun n =>
              if n <=? 0 then Exn ValueError
              else let u := assoc_get_default singular unit unit in
                   if str_mem u valid then Val (n, u) else Exn ValueError)
        end
    end.

  (* ---- the slot parsers: (count, unit) pairs from the groups of a match ---- *)
  Definition m_slot_date (month_offsets : list (str * Z)) (m : smatch) : exc (list (Z * str)) :=
    bind (py_int_o pint (G m [109; 111; 110; 116; 104; 95; 100; 97; 121])) (fun mday =>
      let name_g := G m [109; 111; 110; 116; 104; 95; 110; 97; 109; 101] in
      let num_g := G m [109; 111; 110; 116; 104; 95; 110; 117; 109] in
      let k := fun mnum => Val [(mnum, S_months); (mday - 1, S_days)] in
      if ostr_truthy name_g then
        bind (ostr_lower (p_lower P) name_g) (fun name =>
          if assoc_mem month_offsets name then bind (assoc_find month_offsets name) k else Exn ValueError)
      else bind (py_int_o pint num_g) (fun n => k (n - 1))).

  Definition m_slot_mday (m : smatch) : exc (list (Z * str)) :=
    bind (py_int_o pint (G m [109; 111; 110; 116; 104; 95; 100; 97; 121; 50])) (fun mday => Val [(mday - 1, S_days)]).

  Definition m_slot_wday (weekday_offsets : list (str * Z)) (m : smatch) : exc (list (Z * str)) :=
    bind (ostr_lower (p_lower P) (G m [119; 101; 101; 107; 100; 97; 121])) (fun wday =>
      if assoc_mem weekday_offsets wday then bind (assoc_find weekday_offsets wday) (fun n => Val [(n, S_days)])
      else Exn ValueError).

  Definition m_slot_time (m : smatch) : exc (list (Z * str)) :=
    bind (py_int_o pint (G m [104; 111; 117; 114; 115])) (fun hours =>
    bind (py_int_or pint (G m [109; 105; 110; 117; 116; 101; 115]) 0) (fun minutes =>
      let ampm := ostr_or (G m [97; 109; 112; 109; 49]) (G m [97; 109; 112; 109; 50]) in
      if ostr_truthy ampm then
        bind (ostr_lower (p_lower P) ampm) (fun a =>
          Val [(hours mod 12 + (if str_eqb a S_pm then 12 else 0), S_hours); (minutes, S_minutes)])
      else Val [(hours, S_hours); (minutes, S_minutes)])).

  Definition m_slot_mins (m : smatch) : exc (list (Z * str)) :=
    bind (py_int_o pint (G m [109; 105; 110; 117; 116; 101; 115; 50])) (fun minutes => Val [(minutes, S_minutes)]).

  Definition m_slot_delta (short_units : list (str * str)) (m : smatch) : exc (list (Z * str)) :=
    bind (py_int_o pint (G m [99; 111; 117; 110; 116])) (fun count =>
      let unit := G m [117; 110; 105; 116] in
      if ostr_mem_dict short_units unit then bind (assoc_find_o short_units unit) (fun u => Val [(count, u)])
      else Exn ValueError).

  (* ---- _parse_slot ---- *)
  (* every (count, unit) is added to the delta first, then its unit must be new *)
  Fixpoint m_add_units (l : list (Z * str)) (d : delta TD) (seen : list str) : exc (delta TD * list str) :=
    match l with
    | [] => Val (d, seen)
    | (c, u) :: r =>
        bind (m_add_interval d c u) (fun d' =>
          if str_mem u seen then Exn ValueError else m_add_units r d' (u :: seen))
    end.

  (* the first allowed slot type whose group took part in the match *)
  Fixpoint m_first_type (types : list str) (m : smatch) : option str :=
    match types with
    | [] => None
    | t :: r => if ostr_truthy (G m t) then Some t else m_first_type r m
    end.

  Definition m_parse_part (parsers : str -> smatch -> exc (list (Z * str))) (allowed : list str)
      (part : str) (d : delta TD) (seen : list str) : exc (delta TD * list str) :=
    match p_slot_match P part with
    | None => Exn ValueError
    | Some m =>
        match m_first_type allowed m with
        | None => Exn ValueError
        | Some t => bind (parsers t m) (fun l => m_add_units l d seen)
        end
    end.

  Fixpoint m_parse_parts parsers allowed (parts : list str) (d : delta TD) (seen : list str) : exc (delta TD) :=
    match parts with
    | [] => Val d
    | p :: r => bind (m_parse_part parsers allowed p d seen) (fun ds => m_parse_parts parsers allowed r (fst ds) (snd ds))
    end.

  Definition m_parse_slot (allowed_by_unit : list (str * list str)) parsers (slot_str parent_unit : str) : exc (delta TD) :=
    match p_split P slot_str with
    | [] => Exn ValueError
    | parts => m_parse_parts parsers (olist_or (assoc_get allowed_by_unit parent_unit) [S_delta]) parts m_delta_init []
    end.
End Code.

(* _SLOT_PARSERS: slot type -> parser *)
Definition m_slot_parsers {T TD date tz smatch : Type} (P : prims T TD date tz smatch)
    (month_offsets weekday_offsets : list (str * Z)) (short_units : list (str * str))
    (k : str) (m : smatch) : exc (list (Z * str)) :=
  if str_eqb k [100; 97; 116; 101] then m_slot_date P month_offsets m
  else if str_eqb k [109; 100; 97; 121] then m_slot_mday P m
  else if str_eqb k [119; 100; 97; 121] then m_slot_wday P weekday_offsets m
  else if str_eqb k [116; 105; 109; 101] then m_slot_time P m
  else if str_eqb k [109; 105; 110; 115] then m_slot_mins P m
  else if str_eqb k S_delta then m_slot_delta P short_units m
  else Exn KeyError.

(* The tables of functions/schedule.py as this model was written against them; Proofs/Schedule_bridge.v
   proves that the tables regenerated from the running module are these. *)
Definition m_INTERVAL_ALIASES : list (str * (Z * str)) :=
  [([97; 110; 110; 117; 97; 108], ((1), [121; 101; 97; 114; 115]));
   ([109; 111; 110; 116; 104; 108; 121], ((1), [109; 111; 110; 116; 104; 115]));
   ([119; 101; 101; 107; 108; 121], ((1), [119; 101; 101; 107; 115]));
   ([100; 97; 105; 108; 121], ((1), [100; 97; 121; 115]));
   ([104; 111; 117; 114; 108; 121], ((1), [104; 111; 117; 114; 115]))].

Definition m_SINGULAR_UNITS : list (str * str) :=
  [([121; 101; 97; 114], [121; 101; 97; 114; 115]);
   ([109; 111; 110; 116; 104], [109; 111; 110; 116; 104; 115]);
   ([119; 101; 101; 107], [119; 101; 101; 107; 115]);
   ([100; 97; 121], [100; 97; 121; 115]);
   ([104; 111; 117; 114], [104; 111; 117; 114; 115]);
   ([109; 105; 110; 117; 116; 101], [109; 105; 110; 117; 116; 101; 115]);
   ([115; 101; 99; 111; 110; 100], [115; 101; 99; 111; 110; 100; 115])].

Definition m_VALID_UNITS : list str :=
  [[100; 97; 121; 115];
   [104; 111; 117; 114; 115];
   [109; 105; 110; 117; 116; 101; 115];
   [109; 111; 110; 116; 104; 115];
   [115; 101; 99; 111; 110; 100; 115];
   [119; 101; 101; 107; 115];
   [121; 101; 97; 114; 115]].

Definition m_SHORT_UNITS : list (str * str) :=
  [([121], [121; 101; 97; 114; 115]);
   ([109], [109; 111; 110; 116; 104; 115]);
   ([119], [119; 101; 101; 107; 115]);
   ([100], [100; 97; 121; 115]);
   ([72], [104; 111; 117; 114; 115]);
   ([77], [109; 105; 110; 117; 116; 101; 115]);
   ([83], [115; 101; 99; 111; 110; 100; 115])].

Definition m_WEEKDAY_OFFSETS : list (str * Z) :=
  [([115; 117; 110; 100; 97; 121], (0));
   ([115; 117; 110], (0));
   ([115; 117], (0));
   ([109; 111; 110; 100; 97; 121], (1));
   ([109; 111; 110], (1));
   ([109; 111], (1));
   ([116; 117; 101; 115; 100; 97; 121], (2));
   ([116; 117; 101], (2));
   ([116; 117], (2));
   ([119; 101; 100; 110; 101; 115; 100; 97; 121], (3));
   ([119; 101; 100], (3));
   ([119; 101], (3));
   ([116; 104; 117; 114; 115; 100; 97; 121], (4));
   ([116; 104; 117], (4));
   ([116; 104], (4));
   ([102; 114; 105; 100; 97; 121], (5));
   ([102; 114; 105], (5));
   ([102; 114], (5));
   ([115; 97; 116; 117; 114; 100; 97; 121], (6));
   ([115; 97; 116], (6));
   ([115; 97], (6))].

Definition m_MONTH_OFFSETS : list (str * Z) :=
  [([106; 97; 110; 117; 97; 114; 121], (0));
   ([106; 97; 110], (0));
   ([102; 101; 98; 114; 117; 97; 114; 121], (1));
   ([102; 101; 98], (1));
   ([109; 97; 114; 99; 104], (2));
   ([109; 97; 114], (2));
   ([97; 112; 114; 105; 108], (3));
   ([97; 112; 114], (3));
   ([109; 97; 121], (4));
   ([106; 117; 110; 101], (5));
   ([106; 117; 110], (5));
   ([106; 117; 108; 121], (6));
   ([106; 117; 108], (6));
   ([97; 117; 103; 117; 115; 116], (7));
   ([97; 117; 103], (7));
   ([115; 101; 112; 116; 101; 109; 98; 101; 114], (8));
   ([115; 101; 112], (8));
   ([111; 99; 116; 111; 98; 101; 114], (9));
   ([111; 99; 116], (9));
   ([110; 111; 118; 101; 109; 98; 101; 114], (10));
   ([110; 111; 118], (10));
   ([100; 101; 99; 101; 109; 98; 101; 114], (11));
   ([100; 101; 99], (11))].

Definition m_ALLOWED_SLOTS_BY_UNIT : list (str * list str) :=
  [([121; 101; 97; 114; 115], [[100; 97; 116; 101]; [116; 105; 109; 101]; [100; 101; 108; 116; 97]]);
   ([109; 111; 110; 116; 104; 115], [[109; 100; 97; 121]; [116; 105; 109; 101]; [100; 101; 108; 116; 97]]);
   ([119; 101; 101; 107; 115], [[119; 100; 97; 121]; [116; 105; 109; 101]; [100; 101; 108; 116; 97]]);
   ([100; 97; 121; 115], [[116; 105; 109; 101]; [100; 101; 108; 116; 97]]);
   ([104; 111; 117; 114; 115], [[109; 105; 110; 115]; [100; 101; 108; 116; 97]])].
