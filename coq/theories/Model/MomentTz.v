(* The datetime-level part of moment.py on top of the translated integer core (GristGen.Moment_gen):
   TzInfo.fromutc / utcoffset, ts_to_dt, dt_to_ts, date_to_ts, ts_to_date.  Hand-written; tied to the code by
   the correspondence check of harness/props/c34.py (real datetime objects, every run).  Units: ticks, see
   Model/Moment.v.  [oob] is the value an out-of-range subscript would yield (see Lib/PyList.py_getitem);
   every theorem is stated for all [oob]. *)
From Coq Require Import ZArith List Bool.
Import ListNotations.
Require Import Grist.Lib.PyPrelude Grist.Lib.PyList Grist.Model.Moment GristGen.Moment_gen.
Open Scope Z_scope.

(* Zone.__init__: untils and offsets come from the data, offset_untils is computed (translated expression) *)
Definition mk_zone (untils offsets : list Z) : zone :=
  let z0 := mk_zone_rec untils offsets [] in
  mk_zone_rec untils offsets (zone_init_offset_untils z0).

(* the generated data gives both lists in ms; untils become ticks, offsets stay (minutes scaled by 60000 = ms) *)
Definition tz_of_ms (untils_ms offsets_ms : list Z) : zone :=
  mk_zone (map (fun u => u * TICKS_PER_MS) untils_ms) offsets_ms.

(* An aware datetime whose tzinfo is zone.get_tzinfo(favor): the naive local value (ticks from EPOCH, as
   dt.replace(tzinfo=None) - EPOCH) and the favor_offset of its TzInfo. *)
Record adt := mk_adt { dt_local : Z; dt_favor : option Z }.

(* TzInfo.fromutc(dt):  offset = self.zone.offset(utc_to_ts_ms(dt))
                        return (dt + offset).replace(tzinfo=self.zone.get_tzinfo(offset)) *)
Definition tz_fromutc (oob : Z) (z : zone) (utc : Z) : adt :=
  let offset := zone_offset oob z (py_utc_to_ts_ms utc) in
  mk_adt (utc + offset) (Some offset).

(* ts_to_dt(timestamp, zone) = (EPOCH_UTC + timedelta(seconds=timestamp)).astimezone(zone.get_tzinfo(None)):
   datetime.astimezone subtracts the utcoffset of TZ_UTC (0) and calls tz.fromutc.  [ts] is the value of
   timedelta(seconds=timestamp) in ticks.  (When zone is UTC itself astimezone returns the datetime unchanged:
   local = ts as well.) *)
Definition ts_to_dt (oob : Z) (ts : Z) (z : zone) : adt := tz_fromutc oob z ts.

(* TzInfo.utcoffset(dt) = self.zone.dt_offset(dt, self._favor_offset) *)
Definition tz_utcoffset (oob : Z) (z : zone) (d : adt) : Z :=
  zone_dt_offset oob z (dt_local d) (dt_favor d).

(* dt_to_ts(dt) for an aware dt: (dt.replace(tzinfo=None) - dt.utcoffset() - EPOCH).total_seconds() *)
Definition dt_to_ts (oob : Z) (z : zone) (d : adt) : Z := dt_local d - tz_utcoffset oob z d.

(* dt_to_ts(naive, timezone=zone): offset = zone.dt_offset(dt) (favor None); also what
   naive.replace(tzinfo=tzinfo(zone, favor)) gives for an explicit favor *)
Definition local_to_ts (oob : Z) (z : zone) (local : Z) (favor : option Z) : Z :=
  local - zone_dt_offset oob z local favor.

(* dates are day numbers from DATE_EPOCH.
   date_to_ts(date) = (date - DATE_EPOCH).total_seconds();
   date_to_ts(date, zone) (after fix 8feac94):
       offset = zone.dt_offset(EPOCH + timedelta(seconds=ts))          # by LOCAL time, favor None
       actual = zone.offset((ts - offset.total_seconds()) * 1000)
       if actual != offset: offset = actual                            # skipped local midnight
       return ts - offset.total_seconds()                              # = ts - actual in both cases
   ts_to_date(ts) = DATE_EPOCH + timedelta(seconds=ts): date + timedelta uses timedelta.days (floor) *)
Definition date_to_ts (d : Z) : Z := d * TICKS_PER_DAY.
Definition date_to_ts_zone (oob : Z) (d : Z) (z : zone) : Z :=
  let ts := d * TICKS_PER_DAY in
  let offset := zone_dt_offset oob z ts None in
  let actual := zone_offset oob z (ts - offset) in
  let offset := if Z.eqb actual offset then offset else actual in
  ts - offset.
Definition ts_to_date (ts : Z) : Z := ts / TICKS_PER_DAY.
(* dt.date() of an aware datetime *)
Definition adt_date (d : adt) : Z := dt_local d / TICKS_PER_DAY.

(* ------------------------------------------------------------------------------------------------ *)
(* Specification vocabulary (Z-indexed): n = len(untils); U k = untils[k]; W k = offsets[k] in ticks (west);
   OU k = local end of interval k (= offset_untils[k]); TH k = local start of interval k+1. *)
Definition nZ (z : zone) : Z := lenZ (z_untils z).
Definition U (z : zone) (k : Z) : Z := getZ (z_untils z) k.
Definition W (z : zone) (k : Z) : Z := getZ (z_offsets z) k * 60000.
Definition OU (z : zone) (k : Z) : Z := U z k - W z k.
Definition TH (z : zone) (k : Z) : Z := U z k - W z (k + 1).
(* utc offset (east positive) of interval k, as Zone.offset returns it: timedelta(minutes=-offsets[k]) *)
Definition E (z : zone) (k : Z) : Z := py_timedelta_minutes (- getZ (z_offsets z) k).

(* interval k (0 <= k <= n) contains the instant ts: untils[k-1] <= ts < untils[k] *)
Definition in_interval (z : zone) (k ts : Z) : Prop :=
  0 <= k <= nZ z /\ (k = 0 \/ U z (k - 1) <= ts) /\ (k = nZ z \/ ts < U z k).

(* The per-zone check.  It demands that there is one more offset than untils, that offset_untils is what
   __init__ computes, for every adjacent pair, that untils, OU and TH are ascending, that the local end of interval k
   is not after the local start of interval k+2, and that the local start of interval k+2 taken with the
   offset of k+2 at transition k is not after the local end of k+1: no interval is shorter than the offset
   jumps next to it.  Under these, the offset recovered from a local time equals the one that produced it
   (Proofs/Moment_proofs.v). *)
Definition zone_ok (z : zone) : bool :=
  andb (lenZ (z_offsets z) =? nZ z + 1)
  (andb (py_list_eqb Z.eqb (z_offset_untils z) (zone_init_offset_untils z))
   (forallb (fun k =>
      andb (U z k <=? U z (k + 1))
      (andb (OU z k <=? OU z (k + 1))
      (andb (TH z k <=? TH z (k + 1))
      (andb (OU z k <=? TH z (k + 1))
            (U z k - W z (k + 2) <=? OU z (k + 1))))))
      (zrange (nZ z - 1)))).

(* The date d exists in the zone: the local range of some interval k, [TH (k-1), OU k) (unbounded at both
   ends of the zone), meets the day [d * DAY, (d+1) * DAY).  (False only where a zone skipped a whole day.) *)
Definition date_exists (z : zone) (d : Z) : bool :=
  let lo := d * TICKS_PER_DAY in
  let hi := lo + TICKS_PER_DAY in
  existsb (fun k => andb (orb (k =? 0) (TH z (k - 1) <? hi)) (orb (k =? nZ z) (lo <? OU z k)))
          (zrange (nZ z + 1)).

(* The per-zone check for dates.  For every transition k, with gap = W k - W (k+1) (how far local time jumps
   forward there): the next interval is at least as long as the gap, and the gap is shorter than a day, or it is
   exactly one day and starts at a local midnight (a whole calendar day is skipped). *)
Definition zone_date_ok (z : zone) : bool :=
  forallb (fun k =>
    let gap := W z k - W z (k + 1) in
    andb (orb (nZ z <=? k + 1) (U z k + gap <=? U z (k + 1)))
         (orb (gap <? TICKS_PER_DAY)
              (andb (gap =? TICKS_PER_DAY) (OU z k mod TICKS_PER_DAY =? 0))))
    (zrange (nZ z)).
