(* V -- the shared value model (DESIGN.md section 5).

   Python values reachable from cells and formulas, objtypes.encode_object / decode_object, the column type
   objects of usertypes.py (convert / do_convert / is_right_type / default), and the reply shapes of
   actions.get_action_repr / ActionBundle.to_json_obj.  Executable definitions only; lemmas are in
   Proofs/Values_proofs.v.

   Encoded values are values too (None/bool/int/float/str/list/tuple/dict): `marshalable` in the proofs is
   a real predicate, and fields that the code passes through unencoded stay visible.

   Library behaviour that is C code or third party enters through the record `oracles`, a Section
   variable: float(str), repr/str of floats, "%.15g", str()/repr() of containers, bytes, dates, records and
   opaque objects, json.loads, iso8601, int(str), str.lower, utf-8 decoding, the tz database, and
   timedelta<->float seconds.  The harness instantiates it per case with what the implementation returned. *)
From Coq Require Import ZArith List Bool String Ascii.
Import ListNotations.
Require Import Grist.Lib.PyFloat.
Open Scope Z_scope.

(* ---------------------------------------------------------------------------------------------- *)
(* strings: lists of code points *)

Definition str := list Z.

Definition Str (s : string) : str := map (fun a => Z.of_N (N_of_ascii a)) (list_ascii_of_string s).

Fixpoint str_eqb (a b : str) : bool :=
  match a, b with
  | [], [] => true
  | x :: a', y :: b' => (x =? y) && str_eqb a' b'
  | _, _ => false
  end.

Fixpoint starts_with (p s : str) : bool :=
  match p, s with
  | [], _ => true
  | x :: p', y :: s' => (x =? y) && starts_with p' s'
  | _ :: _, [] => false
  end.

Fixpoint str_mem (s : str) (l : list str) : bool :=
  match l with [] => false | x :: t => str_eqb s x || str_mem s t end.

(* s.split(c): pieces between occurrences of the character c *)
Fixpoint split_chr (c : Z) (s : str) : list str :=
  match s with
  | [] => [[]]
  | x :: t => if x =? c then [] :: split_chr c t
              else match split_chr c t with
                   | [] => [[x]]
                   | p :: ps => (x :: p) :: ps
                   end
  end.

(* decimal text of an integer; Python refuses more than 4300 digits (sys.int_max_str_digits) *)
Fixpoint digits_pos (fuel : nat) (n : Z) (acc : str) : str :=
  match fuel with
  | O => acc
  | S k => if n <? 10 then (48 + n) :: acc else digits_pos k (n / 10) ((48 + n mod 10) :: acc)
  end.

(* 10^4300 <= a, decided by the bit length first (10^4300 has 14285 bits) so that the power is rarely computed *)
Definition too_many_digits (a : Z) : bool :=
  let b := Z.log2 a in
  if b <? 14284 then false else if 14284 <? b then true else 10 ^ 4300 <=? a.

Definition str_of_Z (n : Z) : option str :=
  if too_many_digits (Z.abs n) then None
  else let a := Z.abs n in
       let d := digits_pos (Z.to_nat (Z.log2 a + 2)) a [] in
       Some (if n <? 0 then 45 :: d else d).

(* ---------------------------------------------------------------------------------------------- *)
(* values *)

(* list / objtypes.RecordList (a list subclass remembering group_by/sort_by/sort_key, abstracted to an id) *)
Inductive lkind := LPlain | LRecordList (info : Z).
(* the type of RecordSet._row_ids *)
Inductive rowkind := RList | RTuple | RRecordList (info : Z).
(* tzinfo of a datetime: none, moment.TzInfo(zone, favor_offset in microseconds), any other tzinfo with a
   fixed offset (datetime.timezone, iso8601.FixedOffset; tag distinguishes objects with different repr) *)
Inductive tzk := TzNaive | TzMoment (zone : str) (favor : option Z) | TzFixed (off : Z) (tag : Z).

Inductive value :=
| PNone
| PBool (b : bool)
| PInt (sub : bool) (z : Z)            (* sub: instance of a (method-less) subclass of int *)
| PFloat (sub : bool) (f : pyfloat)
| PStr (sub : bool) (s : str)
| PBytes (sub : bool) (b : list Z)
| PList (k : lkind) (l : list value)
| PTuple (l : list value)
| PDict (l : list (value * value))
| PSet (l : list value)
| PDate (days : Z)                     (* days since 1970-01-01 *)
| PDateTime (wall : Z) (tz : tzk)      (* wall clock in microseconds since 1970-01-01T00:00 *)
| PRecord (t : str) (r : Z)
| PRecordSet (t : str) (k : rowkind) (rows : list Z) (info : Z)
| PRecordStub (t r : value)
| PRecordSetStub (t rows : value)
| PRefLookup (v opts : value)
| PAltText (s : str)
| PErr (name msg details : value) (uinput : option value)   (* objtypes.RaisedException *)
| PPending
| PCensored
| PUnmarsh (r : value)                 (* objtypes.UnmarshallableValue(value_repr) *)
| POpaque (id : Z).                    (* any other object: behaviour through the oracles *)

Definition tzk_eqb (a b : tzk) : bool :=
  match a, b with
  | TzNaive, TzNaive => true
  | TzMoment z f, TzMoment z' f' =>
      str_eqb z z' && match f, f' with Some x, Some y => x =? y | None, None => true | _, _ => false end
  | TzFixed o t, TzFixed o' t' => (o =? o') && (t =? t')
  | _, _ => false
  end.

Definition lkind_eqb (a b : lkind) : bool :=
  match a, b with
  | LPlain, LPlain => true
  | LRecordList i, LRecordList j => i =? j
  | _, _ => false
  end.

Definition rowkind_eqb (a b : rowkind) : bool :=
  match a, b with
  | RList, RList | RTuple, RTuple => true
  | RRecordList i, RRecordList j => i =? j
  | _, _ => false
  end.

Fixpoint zlist_eqb (a b : list Z) : bool :=
  match a, b with
  | [], [] => true
  | x :: a', y :: b' => (x =? y) && zlist_eqb a' b'
  | _, _ => false
  end.

(* structural equality (floats: same bits, one NaN) *)
Fixpoint value_eqb (a b : value) {struct a} : bool :=
  let fix list_eqb (l m : list value) {struct l} : bool :=
    match l, m with
    | [], [] => true
    | x :: l', y :: m' => value_eqb x y && list_eqb l' m'
    | _, _ => false
    end in
  let fix pairs_eqb (l m : list (value * value)) {struct l} : bool :=
    match l, m with
    | [], [] => true
    | (k, x) :: l', (k', y) :: m' => value_eqb k k' && value_eqb x y && pairs_eqb l' m'
    | _, _ => false
    end in
  match a, b with
  | PNone, PNone => true
  | PBool x, PBool y => Bool.eqb x y
  | PInt s x, PInt s' y => Bool.eqb s s' && (x =? y)
  | PFloat s x, PFloat s' y => Bool.eqb s s' && f_same x y
  | PStr s x, PStr s' y => Bool.eqb s s' && str_eqb x y
  | PBytes s x, PBytes s' y => Bool.eqb s s' && zlist_eqb x y
  | PList k l, PList k' m => lkind_eqb k k' && list_eqb l m
  | PTuple l, PTuple m => list_eqb l m
  | PDict l, PDict m => pairs_eqb l m
  | PSet l, PSet m => list_eqb l m
  | PDate x, PDate y => x =? y
  | PDateTime w z, PDateTime w' z' => (w =? w') && tzk_eqb z z'
  | PRecord t r, PRecord t' r' => str_eqb t t' && (r =? r')
  | PRecordSet t k rows i, PRecordSet t' k' rows' i' =>
      str_eqb t t' && rowkind_eqb k k' && zlist_eqb rows rows' && (i =? i')
  | PRecordStub t r, PRecordStub t' r' => value_eqb t t' && value_eqb r r'
  | PRecordSetStub t r, PRecordSetStub t' r' => value_eqb t t' && value_eqb r r'
  | PRefLookup v o, PRefLookup v' o' => value_eqb v v' && value_eqb o o'
  | PAltText s, PAltText s' => str_eqb s s'
  | PErr n m d u, PErr n' m' d' u' =>
      value_eqb n n' && value_eqb m m' && value_eqb d d' &&
      match u, u' with Some x, Some y => value_eqb x y | None, None => true | _, _ => false end
  | PPending, PPending | PCensored, PCensored => true
  | PUnmarsh r, PUnmarsh r' => value_eqb r r'
  | POpaque i, POpaque j => i =? j
  | _, _ => false
  end.

(* What the sandbox's marshal transport (and JSON after it) accepts: exact None/bool/int/float/str, lists, tuples,
   dicts with exact-str keys.  Instances of subclasses (sub = true, RecordList) are refused by marshal.dumps. *)
Fixpoint marshalableb (v : value) : bool :=
  match v with
  | PNone | PBool _ | PInt false _ | PFloat false _ | PStr false _ => true
  | PList LPlain l | PTuple l => forallb marshalableb l
  | PDict l => forallb (fun kv => match kv with
                                  | (PStr false _, x) => marshalableb x
                                  | _ => false
                                  end) l
  | _ => false
  end.

(* P holds at v and at every value encode_object recurses into (items, dict keys and values, user input) *)
Fixpoint vforall (P : value -> bool) (v : value) : bool :=
  P v &&
  match v with
  | PList _ l | PTuple l => forallb (vforall P) l
  | PDict l => forallb (fun kv => match kv with (k, x) => vforall P k && vforall P x end) l
  | PErr _ _ _ (Some u) => vforall P u
  | _ => true
  end.

Inductive result (A : Type) := Ok (a : A) | Raise (e : str).
Arguments Ok {A} a.
Arguments Raise {A} e.

Definition bind {A B} (r : result A) (f : A -> result B) : result B :=
  match r with Ok a => f a | Raise e => Raise e end.

Fixpoint map_result {A B} (f : A -> result B) (l : list A) : result (list B) :=
  match l with
  | [] => Ok []
  | x :: t => bind (f x) (fun y => bind (map_result f t) (fun ys => Ok (y :: ys)))
  end.

(* exception class names *)
Definition E_Value := Str "ValueError".
Definition E_Type := Str "TypeError".
Definition E_Overflow := Str "OverflowError".
Definition E_Conversion := Str "ConversionError".
Definition E_Assertion := Str "AssertionError".
Definition E_Key := Str "KeyError".
Definition E_Index := Str "IndexError".
Definition E_Attribute := Str "AttributeError".
Definition E_Unicode := Str "UnicodeDecodeError".
Definition E_Recursion := Str "RecursionError".
Definition E_Unmarshallable := Str "UnmarshallableError".

(* ---------------------------------------------------------------------------------------------- *)
(* calendar constants (datetime.MINYEAR..MAXYEAR) *)

Definition US_PER_DAY := 86400000000.
Definition MIN_US := -62135596800000000.          (* 0001-01-01T00:00:00 *)
Definition MAX_US := 253402300799999999.          (* 9999-12-31T23:59:59.999999 *)
Definition MIN_DAY := -719162.
Definition MAX_DAY := 2932896.
Definition MAX_TD_DAYS := 999999999.

Definition is_int_short (z : Z) : bool := (- 2 ^ 31 <=? z) && (z <? 2 ^ 31).

(* ---------------------------------------------------------------------------------------------- *)
(* oracles *)

Record oracles := {
  o_float_of_str : str -> option pyfloat;          (* float(s); None = ValueError *)
  o_float_of_bytes : list Z -> option pyfloat;     (* float(b) *)
  o_float_repr : pyfloat -> str;                   (* repr(f) = str(f) *)
  o_fmt15g : pyfloat -> str;                       (* "%.15g" % f *)
  o_str : value -> option str;                     (* str(v) where it is not modelled below; None = raises *)
  o_repr : value -> option str;                    (* repr(v), same *)
  o_type_name : value -> str;                      (* type(v).__name__ for non-builtin classes *)
  o_json_loads : str -> option value;              (* json.loads(s); None = raises *)
  o_iso_parse : str -> option (Z * option Z);      (* iso8601.parse_date(s, default_timezone=None):
                                                      wall microseconds, utcoffset microseconds *)
  o_int_of_str : str -> option Z;                  (* int(s) *)
  o_lower : str -> str;                            (* s.lower() *)
  o_utf8_decode : list Z -> option str;            (* b.decode('utf8') *)
  o_zone_known : value -> result bool;             (* zonelabel in tzdata; Raise for unhashable labels *)
  o_dt_offset : str -> option Z -> Z -> Z;         (* Zone(z).dt_offset(dt, favor) in microseconds, by wall time *)
  o_ts_offset : str -> Z -> Z;                     (* Zone(z).offset(ms) in microseconds, by UTC microseconds *)
  o_total_seconds : Z -> pyfloat;                  (* timedelta(microseconds=u).total_seconds() *)
  o_td_seconds : pyfloat -> us_result;             (* timedelta(seconds=f), in microseconds *)
  o_truthy : Z -> option bool;                     (* bool(opaque); None = raises *)
  o_float_of_opaque : Z -> option pyfloat;         (* float(opaque) *)
  o_iter : Z -> option (list value)                (* list(opaque); None = not iterable *)
}.

(* The executable instance of the two timedelta conversions (Lib/PyFloat.v), used by the harness. *)
Definition model_total_seconds := ts_of_us.
Definition model_td_seconds := us_of_seconds.

Section WithOracles.
Variable orc : oracles.

(* ---------------------------------------------------------------------------------------------- *)
(* Python builtins on values *)

Definition py_str (v : value) : option str :=
  match v with
  | PNone => Some (Str "None")
  | PBool b => Some (if b then Str "True" else Str "False")
  | PInt _ z => str_of_Z z
  | PFloat _ f => Some (o_float_repr orc f)
  | PStr _ s => Some s
  | PAltText s => Some s
  | _ => o_str orc v
  end.

Definition py_repr (v : value) : option str :=
  match v with
  | PNone | PBool _ | PInt false _ | PFloat false _ => py_str v
  | _ => o_repr orc v          (* also instances of int/float subclasses: enum.IntEnum has a repr of its own *)
  end.

Definition type_name (v : value) : str :=
  match v with
  | PNone => Str "NoneType"
  | PBool _ => Str "bool"
  | PInt false _ => Str "int"
  | PFloat false _ => Str "float"
  | PStr false _ => Str "str"
  | PBytes false _ => Str "bytes"
  | PList LPlain _ => Str "list"
  | PList (LRecordList _) _ => Str "RecordList"
  | PTuple _ => Str "tuple"
  | PDict _ => Str "dict"
  | PDate _ => Str "date"
  | PDateTime _ _ => Str "datetime"
  | PAltText _ => Str "AltText"
  | PErr _ _ _ _ => Str "RaisedException"
  | PPending => Str "object"
  | PCensored => Str "CensoredValue"
  | PUnmarsh _ => Str "UnmarshallableValue"
  | PRecordStub _ _ => Str "RecordStub"
  | PRecordSetStub _ _ => Str "RecordSetStub"
  | PRefLookup _ _ => Str "ReferenceLookup"
  | _ => o_type_name orc v
  end.

(* sorted(list of str): insertion sort by code points *)
Fixpoint str_ltb (a b : str) : bool :=
  match a, b with
  | _, [] => false
  | [], _ :: _ => true
  | x :: a', y :: b' => (x <? y) || ((x =? y) && str_ltb a' b')
  end.

Fixpoint str_insert (s : str) (l : list str) : list str :=
  match l with
  | [] => [s]
  | x :: t => if str_ltb x s || str_eqb x s then x :: str_insert s t else s :: l
  end.

Definition sort_strs (l : list str) : list str := fold_right str_insert [] l.

Fixpoint join_strs (sep : str) (l : list str) : str :=
  match l with
  | [] => []
  | [x] => x
  | x :: t => x ++ sep ++ join_strs sep t
  end.

(* objtypes.safe_repr: repr(), "<type>" when that raises; a set lists the safe_repr of its elements in sorted order *)
Fixpoint safe_repr (v : value) : str :=
  match v with
  | PSet [] => Str "set()"
  | PSet l => Str "{" ++ join_strs (Str ", ") (sort_strs (map safe_repr l)) ++ Str "}"
  | _ => match py_repr v with
         | Some s => s
         | None => Str "<" ++ type_name v ++ Str ">"
         end
  end.

(* the alt text BaseColumnType.convert falls back to *)
Definition alt_text (v : value) : str :=
  match v with
  | PSet _ => safe_repr v
  | _ => match py_str v with Some s => s | None => safe_repr v end
  end.

(* bool(v); None = raises *)
Definition py_truthy (v : value) : option bool :=
  match v with
  | PNone => Some false
  | PBool b => Some b
  | PInt _ z => Some (negb (z =? 0))
  | PFloat _ f => Some (negb (f_is_zero f))
  | PStr _ s => Some (match s with [] => false | _ => true end)
  | PBytes _ s => Some (match s with [] => false | _ => true end)
  | PList _ l | PTuple l | PSet l => Some (match l with [] => false | _ => true end)
  | PDict l => Some (match l with [] => false | _ => true end)
  | PRecord _ r => Some (negb (r =? 0))
  | PRecordSet _ _ rows _ => Some (match rows with [] => false | _ => true end)
  | POpaque i => o_truthy orc i
  | _ => Some true
  end.

(* value in ("", None) *)
Definition is_empty_or_none (v : value) : bool :=
  match v with
  | PNone => true
  | PStr _ [] => true
  | _ => false
  end.

(* float(v) *)
Definition py_float (v : value) : result pyfloat :=
  match v with
  | PFloat _ f => Ok f
  | PInt _ z => match f_of_Z z with Some f => Ok f | None => Raise E_Overflow end
  | PBool b => Ok (if b then FNum 1 0 else FZero false)
  | PStr _ s | PAltText s => match o_float_of_str orc s with Some f => Ok f | None => Raise E_Value end
  | PBytes _ b => match o_float_of_bytes orc b with Some f => Ok f | None => Raise E_Value end
  | POpaque i => match o_float_of_opaque orc i with Some f => Ok f | None => Raise E_Type end
  | _ => Raise E_Type
  end.

(* int(f) for a float *)
Definition py_int_of_float (f : pyfloat) : result Z :=
  match f_trunc f with
  | TrOk z => Ok z
  | TrOverflow => Raise E_Overflow
  | TrValueError => Raise E_Value
  end.

(* iteration: list(v) *)
Definition py_iter (v : value) : result (list value) :=
  match v with
  | PList _ l | PTuple l | PSet l => Ok l
  | PDict l => Ok (map fst l)
  | PStr _ s => Ok (map (fun c => PStr false [c]) s)
  | PBytes _ b => Ok (map (fun c => PInt false c) b)
  | PRecordSet t _ rows _ => Ok (map (fun r => PRecord t r) rows)
  | POpaque i => match o_iter orc i with Some l => Ok l | None => Raise E_Type end
  | _ => Raise E_Type
  end.

Definition is_numeric (v : value) : bool :=      (* isinstance(v, (float, int)) *)
  match v with PInt _ _ | PFloat _ _ | PBool _ => true | _ => false end.

Definition str_raise (v : value) : result str :=
  match py_str v with Some s => Ok s | None => Raise E_Value end.

(* ---------------------------------------------------------------------------------------------- *)
(* moment.py *)

Definition in_dt_range (u : Z) : bool := (MIN_US <=? u) && (u <=? MAX_US).

(* dt.utcoffset() for an aware datetime; None for a naive one *)
Definition utcoffset (wall : Z) (tz : tzk) : option Z :=
  match tz with
  | TzNaive => None
  | TzMoment z favor => Some (o_dt_offset orc z favor wall)
  | TzFixed off _ => Some off
  end.

(* moment.dt_to_ts(dt, timezone) *)
Definition dt_to_ts (wall : Z) (tz : tzk) (zone : option str) : result pyfloat :=
  let off := match utcoffset wall tz with
             | Some o => o
             | None => match zone with Some z => o_dt_offset orc z None wall | None => 0 end
             end in
  let u := wall - off in
  if in_dt_range u then Ok (o_total_seconds orc u) else Raise E_Overflow.

(* moment.date_to_ts(date, timezone) *)
Definition date_to_ts (days : Z) (zone : option str) : pyfloat :=
  let ts := o_total_seconds orc (days * US_PER_DAY) in
  match zone with
  | None => ts
  | Some z => f_sub ts (o_total_seconds orc (o_ts_offset orc z (days * US_PER_DAY)))
  end.

Definition date_of_wall (wall : Z) : Z := wall / US_PER_DAY.      (* dt.date(), floor *)

Definition parse_iso_date (s : str) : result pyfloat :=
  match o_iso_parse orc s with
  | Some (wall, _) => Ok (date_to_ts (date_of_wall wall) None)
  | None => Raise E_Value
  end.

Definition parse_iso (s : str) (zone : str) : result pyfloat :=
  match o_iso_parse orc s with
  | Some (wall, off) =>
      dt_to_ts wall (match off with Some o => TzFixed o 0 | None => TzNaive end) (Some zone)
  | None => Raise E_Value
  end.

(* timedelta(seconds=ts) for an arbitrary argument, in microseconds *)
Definition td_of_seconds (ts : value) : result Z :=
  let check u := if (- MAX_TD_DAYS * US_PER_DAY <=? u) && (u <? (MAX_TD_DAYS + 1) * US_PER_DAY)
                 then Ok u else Raise E_Overflow in
  match ts with
  | PFloat _ f => match o_td_seconds orc f with
                  | UsOk u => check u
                  | UsOverflow => Raise E_Overflow
                  | UsValueError => Raise E_Value
                  end
  | PInt _ z => check (z * 1000000)
  | PBool b => Ok (if b then 1000000 else 0)
  | _ => Raise E_Type
  end.

(* moment.ts_to_dt(ts, Zone(z)) *)
Definition ts_to_dt (ts : value) (z : str) : result value :=
  bind (td_of_seconds ts) (fun u =>
  if negb (in_dt_range u) then Raise E_Overflow else
  let off := o_ts_offset orc z u in
  if negb (in_dt_range (u + off)) then Raise E_Overflow else
  Ok (PDateTime (u + off) (TzMoment z (Some off)))).

(* moment.ts_to_date(ts) *)
Definition ts_to_date (ts : value) : result value :=
  bind (td_of_seconds ts) (fun u =>
  let d := u / US_PER_DAY in
  if (MIN_DAY <=? d) && (d <=? MAX_DAY) then Ok (PDate d) else Raise E_Overflow).

(* ---------------------------------------------------------------------------------------------- *)
(* usertypes.py *)

Inductive ctype :=
| TText | TBlob | TAny | TBool | TInt | TNumeric | TDate | TDateTime (zone : str) | TChoice | TChoiceList
| TPositionNumber | TManualSortPos | TId | TRef (t : str) | TRefList (t : str) | TAttachments.

Definition falsy_values := [Str "0"; Str "false"; Str "no"].
Definition truthy_values := [Str "1"; Str "true"; Str "yes"].

(* DateTime.__init__: unknown zone -> UTC *)
Definition effective_zone (z : str) : str :=
  match o_zone_known orc (PStr false z) with Ok true => z | _ => Str "UTC" end.

Definition default_value (T : ctype) : value :=
  match T with
  | TBool => PBool false
  | TChoice | TText => PStr false []
  | TId | TInt | TRef _ => PInt false 0
  | TManualSortPos | TPositionNumber => PFloat false (FInf false)
  | TNumeric => PFloat false (FZero false)
  | _ => PNone
  end.

Definition text_do_convert (v : value) : result value :=
  match v with
  | PBytes _ b => match o_utf8_decode orc b with Some s => Ok (PStr false s) | None => Raise E_Unicode end
  | PNone => Ok PNone
  | PSet _ => Ok (PStr false (safe_repr v))       (* fixed element order *)
  | _ =>
    let via_str := bind (str_raise v) (fun s => Ok (PStr false s)) in
    match v with
    | PFloat _ f =>
        if f_is_inf f || f_is_nan f then via_str
        else
          let fmt := Ok (PStr false (o_fmt15g orc f)) in
          if f_abs_lt_pow2 f 53 then
            match f_trunc f with
            | TrOk n => if f_eq_Z f n then bind (str_raise (PInt false n)) (fun s => Ok (PStr false s)) else fmt
            | _ => fmt
            end
          else fmt
    | _ => via_str
    end
  end.

Definition bool_do_convert (v : value) : result value :=
  match py_truthy v with
  | None => Raise E_Type
  | Some false => Ok (PBool false)
  | Some true =>
      if is_numeric v then Ok (PBool true)
      else
        let s := match v with PAltText s => Some s | PStr _ s => Some s | _ => None end in
        match s with
        | Some s => if str_mem (o_lower orc s) falsy_values then Ok (PBool false)
                    else if str_mem (o_lower orc s) truthy_values then Ok (PBool true)
                    else Raise E_Conversion
        | None => Raise E_Conversion
        end
  end.

Definition int_do_convert (v : value) : result value :=
  if is_empty_or_none v then Ok PNone
  else bind (py_float v) (fun f => bind (py_int_of_float f) (fun n =>
       if is_int_short n then Ok (PInt false n) else Raise E_Overflow)).

Definition numeric_do_convert (dflt : value) (v : value) : result value :=
  if is_empty_or_none v then Ok dflt
  else bind (py_float v) (fun f => Ok (PFloat false f)).

Definition date_do_convert (v : value) : result value :=
  if is_empty_or_none v then Ok PNone else
  match v with
  | PDateTime wall _ => Ok (PFloat false (date_to_ts (date_of_wall wall) None))
  | PDate d => Ok (PFloat false (date_to_ts d None))
  | PStr _ s => bind (parse_iso_date s) (fun f => Ok (PFloat false f))
  | _ => if is_numeric v then bind (py_float v) (fun f => Ok (PFloat false f)) else Raise E_Conversion
  end.

Definition datetime_do_convert (zone : str) (v : value) : result value :=
  let z := effective_zone zone in
  if is_empty_or_none v then Ok PNone else
  match v with
  | PDateTime wall tz => bind (dt_to_ts wall tz (Some z)) (fun f => Ok (PFloat false f))
  | PDate d => Ok (PFloat false (date_to_ts d (Some z)))
  | PStr _ s => bind (parse_iso s z) (fun f => Ok (PFloat false f))
  | _ => if is_numeric v then bind (py_float v) (fun f => Ok (PFloat false f)) else Raise E_Conversion
  end.

(* tuple(str(item) for item in it) *)
Definition strs_of (items : list value) : result value :=
  bind (map_result (fun x => bind (str_raise x) (fun s => Ok (PStr false s))) items) (fun l => Ok (PTuple l)).

(* tuple(sorted(str(item) for item in a_set)) *)
Definition strs_of_sorted (items : list value) : result value :=
  bind (map_result str_raise items) (fun l => Ok (PTuple (map (PStr false) (sort_strs l)))).

Definition choicelist_do_convert (v : value) : result value :=
  match py_truthy v with
  | None => Raise E_Type
  | Some false => Ok PNone
  | Some true =>
      match v with
      | PStr _ s =>
          if starts_with (Str "[") s then
            match o_json_loads orc s with
            | Some j => match bind (py_iter j) strs_of with Ok t => Ok t | Raise _ => Ok v end
            | None => Ok v
            end
          else Ok v
      | PSet l => strs_of_sorted l
      | _ => bind (py_iter v) strs_of
      end
  end.

Definition id_do_convert (v : value) : result value :=
  match py_truthy v with
  | None => Raise E_Type
  | Some false => Ok (PInt false 0)
  | Some true =>
      let n := match v with
               | PInt _ z => Some z
               | PBool b => Some (if b then 1 else 0)
               | PRecord _ r => Some r
               | _ => None
               end in
      match n with
      | Some z => if is_int_short z then Ok (PInt false z) else Raise E_Overflow
      | None => Raise E_Type
      end
  end.

(* objtypes.RecordList.from_repr *)
Definition reclist_from_repr (s : str) : result value :=
  if negb (starts_with (Str "RecordList([") s) then Raise E_Value else
  match split_chr 91 s with
  | _ :: after :: _ =>
      match split_chr 93 after with
      | inside :: _ =>
          bind (map_result (fun t => match o_int_of_str orc t with Some z => Ok (PInt false z) | None => Raise E_Value end)
                           (split_chr 44 inside))
               (fun l => Ok (PList (LRecordList 0) l))
      | [] => Raise E_Index
      end
  | _ => Raise E_Index
  end.

Definition is_pos_int (v : value) : bool :=      (* isinstance(v, int) and v > 0 *)
  match v with PInt _ z => 0 <? z | PBool b => b | _ => false end.

Definition is_recordset_of (t : str) (v : value) : bool :=
  match v with PRecordSet t' _ _ _ => str_eqb t' t | _ => false end.

Fixpoint dedup_Z (seen : list Z) (l : list Z) : list Z :=
  match l with
  | [] => []
  | x :: r => if existsb (Z.eqb x) seen then dedup_Z seen r else x :: dedup_Z (x :: seen) r
  end.

(* the str pre-processing of ReferenceList.do_convert; every exception is swallowed *)
Definition reflist_pre (v0 : value) : value :=
  match v0 with
  | PStr _ s =>
      if starts_with (Str "[") s then
        match o_json_loads orc s with
        | Some (PList k l) => if forallb is_pos_int l then PList k l else v0
        | _ => v0
        end
      else match reclist_from_repr s with Ok rl => rl | Raise _ => v0 end
  | _ => v0
  end.

Definition reflist_do_convert (t : str) (v0 : value) : result value :=
  let v := reflist_pre v0 in
  match v with
  | PRecordSet t' _ rows info =>
      if str_eqb t' t then Ok (PList (LRecordList info) (map (PInt false) rows)) else Raise E_Assertion
  | _ =>
    match py_truthy v with
    | None => Raise E_Type
    | Some false => Ok PNone
    | Some true =>
        let generic := bind (py_iter v) (fun items => bind (map_result id_do_convert items)
                            (fun l => Ok (PList LPlain l))) in
        match v with
        | PList _ l =>
            if forallb (is_recordset_of t) l then
              Ok (PList LPlain (map (PInt false)
                    (dedup_Z [] (flat_map (fun x => match x with PRecordSet _ _ rows _ => rows | _ => [] end) l))))
            else generic
        | _ => generic
        end
    end
  end.

Definition do_convert (T : ctype) (v : value) : result value :=
  match T with
  | TText | TChoice => text_do_convert v
  | TBlob => match v with PBytes _ _ | PNone => Ok v | _ => Raise E_Conversion end
  | TAny => match v with PAltText s => Ok (PStr false s) | _ => Ok v end
  | TBool => bool_do_convert v
  | TInt => int_do_convert v
  | TNumeric => numeric_do_convert PNone v
  | TPositionNumber | TManualSortPos => numeric_do_convert (PFloat false (FInf false)) v
  | TDate => date_do_convert v
  | TDateTime z => datetime_do_convert z v
  | TChoiceList => choicelist_do_convert v
  | TId | TRef _ => id_do_convert v
  | TRefList t => reflist_do_convert t v
  | TAttachments => reflist_do_convert (Str "_grist_Attachments") v
  end.

Definition is_error (v : value) : bool := match v with PErr _ _ _ _ => true | _ => false end.

(* BaseColumnType.convert *)
Definition convert (T : ctype) (v : value) : value :=
  if is_error v then v else
  match do_convert T v with
  | Ok w => w
  | Raise _ => PStr false (alt_text v)
  end.

Definition is_short_exact_int (v : value) : bool :=
  match v with PInt false z => is_int_short z | _ => false end.

Definition is_right_type (T : ctype) (v : value) : bool :=
  match T with
  | TText | TChoice => match v with PStr _ _ | PNone => true | _ => false end
  | TBlob => match v with PBytes _ _ | PNone => true | _ => false end
  | TAny => true
  | TBool => match v with PBool _ | PNone => true | _ => false end
  | TInt => match v with PNone => true | _ => is_short_exact_int v end
  | TNumeric => match v with PNone | PInt false _ | PFloat false _ => true | _ => false end
  | TDate | TDateTime _ => match v with PNone => true | _ => is_numeric v end
  | TChoiceList => match v with
                   | PNone => true
                   | PTuple l | PList _ l => forallb (fun x => match x with PStr _ _ => true | _ => false end) l
                   | _ => false
                   end
  | TPositionNumber | TManualSortPos => match v with PInt false _ | PFloat false _ => true | _ => false end
  | TId | TRef _ => is_short_exact_int v
  | TRefList _ | TAttachments => match v with
                                 | PNone => true
                                 | PList (LRecordList _) _ => true
                                 | PList LPlain l => forallb is_short_exact_int l
                                 | _ => false
                                 end
  end.

(* ---------------------------------------------------------------------------------------------- *)
(* objtypes.encode_object / decode_object *)

Definition tag (c : string) (args : list value) : value := PList LPlain (PStr false (Str c) :: args).

Definition is_str (v : value) : bool := match v with PStr _ _ => true | _ => false end.

(* str(key) for a key that passed isinstance(key, str): the exact str with the same text *)
Definition str_key (k : value) : value := match k with PStr _ s => PStr false s | _ => k end.

(* RaisedException.encode_args: drop trailing Nones, keep at least one element *)
Fixpoint trim_nones (l : list value) : list value :=
  match l with
  | [] => []
  | x :: t => match trim_nones t with
              | [] => match x with PNone => [] | _ => [x] end
              | t' => x :: t'
              end
  end.

Definition trim_args (l : list value) : list value :=
  match l with
  | [] => []
  | x :: t => x :: trim_nones t
  end.

(* fuel = how many nested encode_object calls the interpreter stack still allows; a call that cannot be
   made raises RecursionError inside the caller, whose `except Exception` turns its own value into ['U', ...] *)
Fixpoint encode_f (fuel : nat) (v : value) : value :=
  let U := tag "U" [PStr false (safe_repr v)] in
  let children (l : list value) (k : list value -> value) : value :=
    match l with
    | [] => k []
    | _ => match fuel with O => U | S n => k (map (encode_f n) l) end
    end in
  match v with
  | PNone | PBool _ => v
  | PStr _ s => PStr false s
  | PFloat _ f => PFloat false f
  | PBytes _ b => match o_utf8_decode orc b with Some s => PStr false s | None => U end
  | PInt _ z => if is_int_short z then PInt false z
                else match str_of_Z z with Some s => tag "U" [PStr false s] | None => U end
  | PAltText s => PStr false s
  | PRecord t r => tag "R" [PStr false t; PInt false r]
  | PRecordStub t r => tag "R" [t; r]
  | PDateTime wall tz =>
      match dt_to_ts wall tz None with
      | Ok ts => match tz with
                 | TzNaive => tag "D" [PFloat false ts; PStr false (Str "UTC")]
                 | TzMoment z _ => tag "D" [PFloat false ts; PStr false z]
                 | TzFixed _ _ => U
                 end
      | Raise _ => U
      end
  | PDate d => tag "d" [PFloat false (date_to_ts d None)]
  | PErr name msg details ui =>
      match ui with
      | None => tag "E" (trim_args [name; msg; details; PNone])
      | Some u => match fuel with
                  | O => U
                  | S n => tag "E" (trim_args [name; msg; details; PDict [(PStr false (Str "u"), encode_f n u)]])
                  end
      end
  | PList _ l | PTuple l => children l (fun l' => tag "L" l')
  | PRecordSet t k rows _ =>
      tag "r" [PStr false t;
               match k with RTuple => PTuple (map (PInt false) rows) | _ => PList LPlain (map (PInt false) rows) end]
  | PRecordSetStub t rows => tag "r" [t; rows]
  | PDict l =>
      if forallb (fun kv => is_str (fst kv)) l then
        match l with
        | [] => tag "O" [PDict []]
        | _ => match fuel with
               | O => U
               | S n => tag "O" [PDict (map (fun kv => (str_key (fst kv), encode_f n (snd kv))) l)]
               end
        end
      else U
  | PPending => tag "P" []
  | PCensored => tag "C" []
  | PUnmarsh r => tag "U" [r]
  | PSet _ | PRefLookup _ _ | POpaque _ => U
  end.

Definition raised (e : str) : value := PErr (PStr false e) PNone PNone None.

Definition code_is (c : string) (v : value) : bool :=
  match v with PStr _ s => str_eqb s (Str c) | _ => false end.

Definition nth_arg (n : nat) (args : list value) : result value :=
  match nth_error args n with Some x => Ok x | None => Raise E_Index end.

(* safe_shift: next argument, with a default when absent or None *)
Definition shift_or (dflt : value) (args : list value) : value * list value :=
  match args with
  | [] => (dflt, [])
  | PNone :: t => (dflt, t)
  | x :: t => (x, t)
  end.

Fixpoint dict_get (key : str) (l : list (value * value)) : option value :=
  match l with
  | [] => None
  | (PStr _ k, x) :: t => if str_eqb k key then Some x else dict_get key t
  | _ :: t => dict_get key t
  end.

(* last binding wins in a dict comprehension; the model keeps dicts as association lists *)
Fixpoint decode_f (fuel : nat) (v : value) : value :=
  let child (k : (value -> value) -> result value) : result value :=
    match fuel with O => Raise E_Recursion | S n => k (decode_f n) end in
  let body (items : list value) : result value :=
    match items with
    | [] => Raise E_Index
    | code :: args =>
        if code_is "R" code then
          bind (nth_arg 0 args) (fun a => bind (nth_arg 1 args) (fun b => Ok (PRecordStub a b)))
        else if code_is "r" code then
          bind (nth_arg 0 args) (fun a => bind (nth_arg 1 args) (fun b => Ok (PRecordSetStub a b)))
        else if code_is "D" code then
          bind (nth_arg 0 args) (fun ts => bind (nth_arg 1 args) (fun z =>
          bind (o_zone_known orc z) (fun known =>
          if negb known then Raise E_Key else
          match z with
          | PStr _ zs => match ts with
                         | PList _ _ | PDict _ | PSet _ => Raise E_Type     (* unhashable lru_cache key *)
                         | _ => ts_to_dt ts zs
                         end
          | _ => Raise E_Key
          end)))
        else if code_is "d" code then
          bind (nth_arg 0 args) (fun ts =>
          match ts with
          | PList _ _ | PDict _ | PSet _ => Raise E_Type
          | _ => ts_to_date ts
          end)
        else if code_is "E" code then
          match args with
          | [] => Raise E_Assertion
          | _ =>
            let '(name, a1) := shift_or PNone args in
            let '(msg, a2) := shift_or PNone a1 in
            let '(details, a3) := shift_or PNone a2 in
            let '(ui, _) := shift_or (PDict []) a3 in
            match ui with
            | PDict l =>
                match dict_get (Str "u") l with
                | None => Ok (PErr name msg details None)
                | Some u => child (fun dec => Ok (PErr name msg details (Some (dec u))))
                end
            | _ => Raise E_Attribute
            end
          end
        else if code_is "L" code then
          match args with
          | [] => Ok (PList LPlain [])
          | _ => child (fun dec => Ok (PList LPlain (map dec args)))
          end
        else if code_is "l" code then
          match args with
          | [a] => Ok (PRefLookup a (PDict []))
          | [a; o] => Ok (PRefLookup a (match py_truthy o with Some false => PDict [] | _ => o end))
          | _ => Raise E_Type
          end
        else if code_is "O" code then
          bind (nth_arg 0 args) (fun d =>
          match d with
          | PDict [] => Ok (PDict [])
          | PDict l => child (fun dec => Ok (PDict (map (fun kv => (dec (fst kv), dec (snd kv))) l)))
          | _ => Raise E_Attribute
          end)
        else if code_is "P" code then Ok PPending
        else if code_is "C" code then Ok PCensored
        else if code_is "U" code then bind (nth_arg 0 args) (fun r => Ok (PUnmarsh r))
        else Raise E_Key
    end in
  match v with
  | PList _ items | PTuple items =>
      match body items with Ok w => w | Raise e => raised e end
  | _ => v
  end.

(* ---------------------------------------------------------------------------------------------- *)
(* actions.get_action_repr and ActionBundle.to_json_obj *)

Inductive action :=
| ARecord (name : str) (t : value) (row : value) (cols : list (value * value))          (* Add/UpdateRecord *)
| ABulk (name : str) (t : value) (rows : value) (cols : list (value * list value))      (* Bulk*/ReplaceTableData/TableData *)
| AOther (name : str) (fields : list value).                                             (* passed through unencoded *)

(* actions.convert_action_values: which action classes carry cell values (one per column / a list per column).
   gen/Actions_gen.v reads the same two lists off actions.py on every run; Props/C24.v proves them equal. *)
Definition single_kinds : list str := [Str "AddRecord"; Str "UpdateRecord"].
Definition bulk_kinds : list str := [Str "BulkAddRecord"; Str "BulkUpdateRecord"; Str "ReplaceTableData"; Str "TableData"].

(* the constructor an action of class `name` with the given fields is modelled by *)
Definition action_of (name : str) (fields : list value) (cols1 : list (value * value)) (colsn : list (value * list value)) : action :=
  match fields with
  | t :: r :: _ =>
      if str_mem name single_kinds then ARecord name t r cols1
      else if str_mem name bulk_kinds then ABulk name t r colsn
      else AOther name fields
  | _ => AOther name fields
  end.

Definition action_repr (fuel : nat) (a : action) : value :=
  match a with
  | ARecord name t row cols =>
      PList LPlain [PStr false name; t; row; PDict (map (fun kv => (fst kv, encode_f fuel (snd kv))) cols)]
  | ABulk name t rows cols =>
      PList LPlain [PStr false name; t; rows;
                    PDict (map (fun kv => (fst kv, PList LPlain (map (encode_f fuel) (snd kv)))) cols)]
  | AOther name fields => PList LPlain (PStr false name :: fields)
  end.

Record bundle := {
  b_envelopes : list (list str);        (* sorted recipients of each envelope *)
  b_stored : list (Z * action);
  b_direct : list (Z * bool);
  b_calc : list (Z * action);
  b_undo : list (Z * action);
  b_retvalues : list value;
  b_rules : list Z
}.

Definition key (s : string) : value := PStr false (Str s).

Definition to_json_obj (fuel : nat) (b : bundle) : value :=
  let acts l := PList LPlain (map (fun ea => PTuple [PInt false (fst ea); action_repr fuel (snd ea)]) l) in
  PDict [
    (key "envelopes", PList LPlain (map (fun r => PDict [(key "recipients", PList LPlain (map (PStr false) r))])
                                        (b_envelopes b)));
    (key "stored", acts (b_stored b));
    (key "direct", PList LPlain (map (fun eb => PTuple [PInt false (fst eb); PBool (snd eb)]) (b_direct b)));
    (key "calc", acts (b_calc b));
    (key "undo", acts (b_undo b));
    (key "retValues", PList LPlain (b_retvalues b));
    (key "rules", PList LPlain (map (PInt false) (b_rules b)))
  ].

End WithOracles.

(* ---------------------------------------------------------------------------------------------- *)
(* Oracle tables: how the harness hands the implementation's library results to the model. *)

Definition POISON : str := Str "<<oracle-miss>>".
Definition POISON_F : pyfloat := FNum 7 (-999).

Fixpoint lookup_str {A} (k : str) (l : list (str * A)) : option A :=
  match l with [] => None | (k', a) :: t => if str_eqb k k' then Some a else lookup_str k t end.
Fixpoint lookup_val {A} (k : value) (l : list (value * A)) : option A :=
  match l with [] => None | (k', a) :: t => if value_eqb k k' then Some a else lookup_val k t end.
Fixpoint lookup_f {A} (k : pyfloat) (l : list (pyfloat * A)) : option A :=
  match l with [] => None | (k', a) :: t => if f_same k k' then Some a else lookup_f k t end.
Fixpoint lookup_Z {A} (k : Z) (l : list (Z * A)) : option A :=
  match l with [] => None | (k', a) :: t => if k =? k' then Some a else lookup_Z k t end.
Fixpoint lookup_zl {A} (k : list Z) (l : list (list Z * A)) : option A :=
  match l with [] => None | (k', a) :: t => if zlist_eqb k k' then Some a else lookup_zl k t end.

Definition or_default {A} (d : A) (o : option A) : A := match o with Some a => a | None => d end.

Record tables := {
  t_float_of_str : list (str * option pyfloat);
  t_float_of_bytes : list (list Z * option pyfloat);
  t_float_repr : list (pyfloat * str);
  t_fmt15g : list (pyfloat * str);
  t_str : list (value * option str);
  t_repr : list (value * option str);
  t_type_name : list (value * str);
  t_json : list (str * option value);
  t_iso : list (str * option (Z * option Z));
  t_int_of_str : list (str * option Z);
  t_lower : list (str * str);
  t_utf8 : list (list Z * option str);
  t_zone_known : list (value * result bool);
  t_dt_offset : list ((str * option Z * Z) * Z);
  t_ts_offset : list ((str * Z) * Z);
  t_truthy : list (Z * option bool);
  t_float_of_opaque : list (Z * option pyfloat);
  t_iter : list (Z * option (list value))
}.

Definition opt_Z_eqb (a b : option Z) : bool :=
  match a, b with Some x, Some y => x =? y | None, None => true | _, _ => false end.

Fixpoint lookup_dto (z : str) (f : option Z) (w : Z) (l : list ((str * option Z * Z) * Z)) : option Z :=
  match l with
  | [] => None
  | ((z', f', w'), a) :: t => if str_eqb z z' && opt_Z_eqb f f' && (w =? w') then Some a else lookup_dto z f w t
  end.
Fixpoint lookup_tso (z : str) (u : Z) (l : list ((str * Z) * Z)) : option Z :=
  match l with
  | [] => None
  | ((z', u'), a) :: t => if str_eqb z z' && (u =? u') then Some a else lookup_tso z u t
  end.

(* A miss yields a poison result (a text no implementation output contains, a huge offset), so that a
   question the harness did not anticipate shows up as a disagreement instead of passing silently. *)
Definition oracles_of (T : tables) : oracles := {|
  o_float_of_str := fun s => or_default (Some POISON_F) (lookup_str s (t_float_of_str T));
  o_float_of_bytes := fun b => or_default (Some POISON_F) (lookup_zl b (t_float_of_bytes T));
  o_float_repr := fun f => or_default POISON (lookup_f f (t_float_repr T));
  o_fmt15g := fun f => or_default POISON (lookup_f f (t_fmt15g T));
  o_str := fun v => or_default (Some POISON) (lookup_val v (t_str T));
  o_repr := fun v => or_default (Some POISON) (lookup_val v (t_repr T));
  o_type_name := fun v => or_default POISON (lookup_val v (t_type_name T));
  o_json_loads := fun s => or_default (Some (PStr false POISON)) (lookup_str s (t_json T));
  o_iso_parse := fun s => or_default (Some (10 ^ 30, None)) (lookup_str s (t_iso T));
  o_int_of_str := fun s => or_default (Some (10 ^ 30)) (lookup_str s (t_int_of_str T));
  o_lower := fun s => or_default POISON (lookup_str s (t_lower T));
  o_utf8_decode := fun b => or_default (Some POISON) (lookup_zl b (t_utf8 T));
  o_zone_known := fun v => or_default (Raise POISON) (lookup_val v (t_zone_known T));
  o_dt_offset := fun z f w => or_default (10 ^ 30) (lookup_dto z f w (t_dt_offset T));
  o_ts_offset := fun z u => or_default (10 ^ 30) (lookup_tso z u (t_ts_offset T));
  o_total_seconds := model_total_seconds;
  o_td_seconds := model_td_seconds;
  o_truthy := fun i => or_default None (lookup_Z i (t_truthy T));
  o_float_of_opaque := fun i => or_default None (lookup_Z i (t_float_of_opaque T));
  o_iter := fun i => or_default None (lookup_Z i (t_iter T))
|}.
