(* C07 -- reloading a saved cell (model of the load path; executable definitions only).

   A stored cell is the raw Python object kept in column._data.  The value universe, encode_object /
   decode_object and the column types are Model/Values.v.  This file adds

     col_set        column.py: what <ColumnClass>.set stores for a value (per-type normalisation on set/load)
     to_db/from_db  how an encoded cell travels through the database: encoded lists are marshalled into a blob,
                    main._decode_db_value unmarshals blobs and applies decode_object
     reload         col_set T (from_db (unmarshal (marshal (to_db (encode v)))))
     strict_equal / equal_encoding / recompute_cell / flush_cell
                    objtypes.py, Engine._recompute_step and ActionSummary._changes_to_actions: when a
                    recomputed cell is recorded and when a recorded change becomes a stored action
     observe        what column.get_cell_value lets a dependent formula see of a raw cell

   A RaisedException carries, besides the fields it encodes (Values.PErr), the attribute .error: the exception
   object (since commit 2fb0387 decode_args puts a stand-in exception of a class with the saved name there; it
   leaves None only when the saved name is not a str).  A cell is therefore a pair (raw value, description of
   .error); the description is the class name and str() of the innermost exception (CellError wrappers removed),
   which is all a reader of the cell gets to see; str() is None where the model does not know it (an exception
   raised inside decode_object).  The second component is None when .error is None and for non-errors.

   marshal.dumps / marshal.loads are C code: they are Section variables here; the only fact used about them
   (loads (dumps x) = x on marshalable data) is a hypothesis of the theorems and is monitored by the harness. *)
From Coq Require Import ZArith List Bool String.
Import ListNotations.
Require Import Grist.Lib.PyFloat Grist.Model.Values.
Open Scope Z_scope.

Definition errdesc := (str * option str)%type.
Definition cell := (value * option errdesc)%type.

Section Reload.
Variable orc : oracles.
Variable marshal : value -> list Z.
Variable unmarshal : list Z -> value.

(* ---------------------------------------------------------------------------------------------- *)
(* column.py: set *)

(* value == k for k in (0, 1), for the values a column can be handed (no user-defined __eq__) *)
Definition py_eq_small (v : value) (k : Z) : bool :=
  match v with
  | PBool b => (if b then 1 else 0) =? k
  | PInt _ z => z =? k
  | PFloat _ f => f_eq_Z f k
  | _ => false
  end.

(* BoolColumn.set *)
Definition bool_set (v : value) : value :=
  if py_eq_small v 1 then PBool true else if py_eq_small v 0 then PBool false else v.

(* NumericColumn.set (also Date, DateTime, PositionNumber, ManualSortPos): float(value) if type(value) == int *)
Definition numeric_set (v : value) : result value :=
  match v with
  | PInt false z => match f_of_Z z with Some f => Ok (PFloat false f) | None => Raise E_Overflow end
  | _ => Ok v
  end.

(* ChoiceListColumn.set *)
Definition choicelist_set (v : value) : value :=
  match v with
  | PStr _ s =>
      if starts_with (Str "[") s then
        match o_json_loads orc s with
        | Some j => match py_iter orc j with Ok l => PTuple l | Raise _ => v end
        | None => v
        end
      else v
  | PList _ l => PTuple l
  | _ => v
  end.

(* ReferenceColumn._clean_up_value *)
Definition ref_cleanup (v : value) : value :=
  match v with
  | PFloat false f =>
      match f_trunc f with
      | TrOk n => if f_eq_Z f n && (0 <? n) && is_int_short n then PInt false n else v
      | _ => v
      end
  | _ => v
  end.

(* ReferenceListColumn._clean_up_value: like the str pre-processing of ReferenceList.do_convert, but a JSON list is
   taken only when all its items can be row ids (positive short ints) *)
Definition is_pos_short_int (v : value) : bool :=
  match v with PInt _ z => (0 <? z) && is_int_short z | PBool b => b | _ => false end.

Definition reflist_cleanup (v0 : value) : value :=
  match v0 with
  | PStr _ s =>
      if starts_with (Str "[") s then
        match o_json_loads orc s with
        | Some (PList k l) => if forallb is_pos_short_int l then PList k l else v0
        | _ => v0
        end
      else match reclist_from_repr orc s with Ok rl => rl | Raise _ => v0 end
  | _ => v0
  end.

Definition col_set (T : ctype) (v : value) : result value :=
  match T with
  | TBool => Ok (bool_set v)
  | TNumeric | TDate | TDateTime _ | TPositionNumber | TManualSortPos => numeric_set v
  | TChoiceList => Ok (choicelist_set v)
  | TRef _ => Ok (ref_cleanup v)
  | TRefList _ | TAttachments => Ok (reflist_cleanup v)
  | TText | TBlob | TAny | TInt | TId | TChoice => Ok v
  end.

(* ---------------------------------------------------------------------------------------------- *)
(* the database leg *)

(* DocStorage stores an encoded list as a marshalled blob, other encoded values as they are *)
Definition to_db (enc : value) : value :=
  match enc with
  | PList _ _ => PBytes false (marshal enc)
  | _ => enc
  end.

(* RaisedException.decode_args succeeds on these arguments (fuel: the nested decode_object call for the
   user input can still be made) *)
Definition e_args_ok (fuel : nat) (args : list value) : bool :=
  match args with
  | [] => false
  | _ =>
    let '(_, a1) := shift_or PNone args in
    let '(_, a2) := shift_or PNone a1 in
    let '(_, a3) := shift_or PNone a2 in
    let '(ui, _) := shift_or (PDict []) a3 in
    match ui with
    | PDict l => match dict_get (Str "u") l with
                 | None => true
                 | Some _ => match fuel with O => false | S _ => true end
                 end
    | _ => false
    end
  end.

(* decode_object(enc) went through RaisedException.decode_args and came back without an exception *)
Definition e_form_ok (fuel : nat) (enc : value) : bool :=
  match enc with
  | PList _ (code :: args) | PTuple (code :: args) => code_is "E" code && e_args_ok fuel args
  | _ => false
  end.

(* str(E(m)) for the stand-in E(m) built by decode_args from the saved message m (E() when m is None) *)
Definition exc_text (m : value) : str :=
  match m with
  | PNone => []
  | _ => or_default [] (py_str orc m)
  end.

(* .error of decode_object(enc) when that is a RaisedException: after decode_args a stand-in exception of a class
   named like the saved name, carrying the saved message (None if the saved name is not a str); otherwise the
   exception caught by decode_object (its class name is the _name of the result, its text is the library's). *)
Definition decoded_err (fuel : nat) (enc : value) : option errdesc :=
  match decode_f orc fuel enc with
  | PErr (PStr _ n) m _ _ => Some (n, if e_form_ok fuel enc then Some (exc_text m) else None)
  | _ => None
  end.

(* main._decode_db_value *)
Definition from_db (fuel : nat) (x : value) : cell :=
  match x with
  | PBytes false b => let enc := unmarshal b in (decode_f orc fuel enc, decoded_err fuel enc)
  | _ => (x, None)
  end.

Definition reload (T : ctype) (fuel : nat) (c : cell) : result cell :=
  let x := unmarshal (marshal (to_db (encode_f orc fuel (fst c)))) in
  let '(d, err) := from_db fuel x in
  bind (col_set T d) (fun w => Ok (w, err)).

(* ---------------------------------------------------------------------------------------------- *)
(* objtypes.strict_equal / equal_encoding, Engine._recompute_step, ActionSummary._changes_to_actions *)

Definition num_eq (a b : value) : option bool :=
  let as_int v := match v with PBool b => Some (if b then 1 else 0) | PInt _ z => Some z | _ => None end in
  match a, b with
  | PFloat _ x, PFloat _ y => Some (f_eq x y)
  | PFloat _ x, _ => match as_int b with Some z => Some (f_eq_Z x z) | None => None end
  | _, PFloat _ y => match as_int a with Some z => Some (f_eq_Z y z) | None => None end
  | _, _ => match as_int a, as_int b with Some x, Some y => Some (x =? y) | _, _ => None end
  end.

(* a == b on data made of None/bool/int/float/str/bytes/list/tuple/str-keyed dict (what encode_object produces)
   dates and datetimes; objects without __eq__ compare by identity, and a stored object is never the one just computed:
   false.  (CPython's identity shortcut inside containers, visible only for NaN items, is not modelled.) *)
Fixpoint py_eq (a b : value) {struct a} : bool :=
  let fix list_eq (l m : list value) {struct l} : bool :=
    match l, m with
    | [], [] => true
    | x :: l', y :: m' => py_eq x y && list_eq l' m'
    | _, _ => false
    end in
  let fix dict_sub (l : list (value * value)) (m : list (value * value)) {struct l} : bool :=
    match l with
    | [] => true
    | (PStr _ k, x) :: l' => match dict_get k m with Some y => py_eq x y && dict_sub l' m | None => false end
    | _ :: _ => false
    end in
  match num_eq a b with
  | Some r => r
  | None =>
    match a, b with
    | PNone, PNone => true
    | PStr _ s, PStr _ t => str_eqb s t
    | PBytes _ s, PBytes _ t => zlist_eqb s t
    | PList _ l, PList _ m => list_eq l m
    | PTuple l, PTuple m => list_eq l m
    | PDict l, PDict m => (Nat.eqb (List.length l) (List.length m)) && dict_sub l m
    | PDate x, PDate y => x =? y
    | PDateTime w tz, PDateTime w' tz' =>
        match utcoffset orc w tz, utcoffset orc w' tz' with
        | Some o, Some o' => (w - o) =? (w' - o')
        | None, None => w =? w'
        | _, _ => false
        end
    | _, _ => false
    end
  end.

(* type(a) == type(b); instances of subclasses are taken to be of one subclass per base type *)
Definition same_type (a b : value) : bool :=
  match a, b with
  | PNone, PNone | PBool _, PBool _ | PTuple _, PTuple _ | PDict _, PDict _ | PSet _, PSet _ | PDate _, PDate _
  | PDateTime _ _, PDateTime _ _ | PRecordStub _ _, PRecordStub _ _ | PRecordSetStub _ _, PRecordSetStub _ _
  | PRefLookup _ _, PRefLookup _ _ | PAltText _, PAltText _ | PErr _ _ _ _, PErr _ _ _ _ | PPending, PPending
  | PCensored, PCensored | PUnmarsh _, PUnmarsh _ => true
  | PInt s _, PInt s' _ | PFloat s _, PFloat s' _ | PStr s _, PStr s' _ | PBytes s _, PBytes s' _ => Bool.eqb s s'
  | PList k _, PList k' _ => match k, k' with LPlain, LPlain => true | LRecordList _, LRecordList _ => true | _, _ => false end
  | PRecord t _, PRecord t' _ => str_eqb t t'
  | PRecordSet t _ _ _, PRecordSet t' _ _ _ => str_eqb t t'
  | _, _ => false
  end.

Definition strict_equal (a b : value) : bool := same_type a b && py_eq a b.

Definition is_boolv (v : value) : bool := match v with PBool _ => true | _ => false end.

Definition equal_encoding (fuel : nat) (a b : value) : bool :=
  match a, b with
  | PFloat _ x, PFloat _ y => f_eq x y || (f_is_nan x && f_is_nan y)
  | _, _ =>
      if is_boolv a || is_boolv b then
        match a, b with PBool x, PBool y => Bool.eqb x y | _, _ => false end
      else py_eq (encode_f orc fuel a) (encode_f orc fuel b)
  end.

(* _recompute_step: the converted result `new` against the stored `previous`; a change is recorded (and the new
   object stored) unless they are strictly equal *)
Definition recompute_cell (previous new : value) : option (value * value) :=
  if strict_equal new previous then None else Some (previous, new).

(* _changes_to_actions: a recorded change (before, after) goes into a stored action unless the encodings agree *)
Definition flush_cell (fuel : nat) (chg : option (value * value)) : option value :=
  match chg with
  | Some (before, after) => if equal_encoding fuel before after then None else Some after
  | None => None
  end.

(* ---------------------------------------------------------------------------------------------- *)
(* column.get_cell_value: reading an error cell raises CellError around raw.error (the reader's own error then
   carries type(raw.error).__name__); otherwise the result (the value, the rich value made from it, or its
   AltText) is a function of the column and the raw object, so the raw object itself, with its exact type,
   bounds everything a formula can find out: truthiness, comparisons, attributes. *)
Inductive obs := ORaise (cls : str) (text : option str) | OSee (raw : value).

Definition observe (c : cell) : obs :=
  match fst c with
  | PErr _ _ _ _ => match snd c with
                    | Some (n, t) => ORaise n t
                    | None => ORaise (Str "NoneType") (Some (Str "None"))
                    end
  | v => OSee v
  end.

End Reload.

(* ---------------------------------------------------------------------------------------------- *)
(* Harness support: marshal.dumps / loads as finite tables filled from the running interpreter (a miss yields
   a value no implementation output contains), and equality of results. *)

Definition marshal_of (tbl : list (value * list Z)) (v : value) : list Z :=
  or_default [255; 255] (lookup_val v tbl).

Definition unmarshal_of (tbl : list (value * list Z)) (b : list Z) : value :=
  match find (fun p => zlist_eqb b (snd p)) tbl with
  | Some p => fst p
  | None => PStr false POISON
  end.

Definition opt_str_eqb (a b : option str) : bool :=
  match a, b with Some x, Some y => str_eqb x y | None, None => true | _, _ => false end.

(* an unknown text (None) matches any text *)
Definition errdesc_eqb (a b : option errdesc) : bool :=
  match a, b with
  | Some (n, t), Some (n', t') => str_eqb n n' && match t, t' with Some x, Some y => str_eqb x y | _, _ => true end
  | None, None => true
  | _, _ => false
  end.

Definition cell_eqb (a b : cell) : bool := value_eqb (fst a) (fst b) && errdesc_eqb (snd a) (snd b).

Definition res_eqb {A} (eq : A -> A -> bool) (a b : result A) : bool :=
  match a, b with
  | Ok x, Ok y => eq x y
  | Raise e, Raise f => str_eqb e f
  | _, _ => false
  end.

Definition obs_eqb (a b : obs) : bool :=
  match a, b with
  | ORaise x t, ORaise y t' => errdesc_eqb (Some (x, t)) (Some (y, t'))
  | OSee x, OSee y => value_eqb x y
  | _, _ => false
  end.
