(* Primitives the REGENERATED code of the K4 functions (coq/gen/K4_gen.v, written by harness/k4tr.py from column.py,
   relation.py and useractions.py on every run) is expressed in: Python list / set / dict operations on the value types
   of Model/RefIndex.v.  Hand-written, no proofs; Proofs/K4_bridge.v proves the generated functions equal to the hand
   models of Model/RefIndex.v and Model/TwoWay.v. *)
From Coq Require Import ZArith List Bool Arith.
Import ListNotations.
Require Import Grist.Model.RefIndex.

(* the argument of ReferenceRelation.get_affected_rows: depend.ALL_ROWS or a collection of target row ids *)
Inductive rows_arg := AllRows | Rows (l : list Z).

(* a Python set value together with where it lives: a new object, or the very object stored in inverse_map (which a
   caller could then mutate in place: get_reverse_adjustments does) *)
Inductive aset := Fresh (s : list nat) | Alias (s : list nat).

Inductive ar_result := ARAll | ARSet (s : aset).

Definition aset_rows (a : aset) : list nat := match a with Fresh s => s | Alias s => s end.
Definition ar_rows (r : ar_result) : list nat := match r with ARAll => [] | ARSet a => aset_rows a end.

(* inverse_map.get(k) without a default: None or the stored set itself *)
Definition inv_get_opt (t : Z) (m : invmap) : option (list nat) := inv_find t m.

(* `x or set()` for x = inverse_map.get(k): the stored set if it is non-empty, else a new empty set *)
Definition opt_set_or_fresh (o : option (list nat)) : aset :=
  match o with
  | Some (x :: s) => Alias (x :: s)
  | _ => Fresh []
  end.

Definition inv_keys (m : invmap) : list Z := map fst m.

(* inverse_map[k]: KeyError when the key is missing *)
Definition inv_getitem (t : Z) (m : invmap) : res (list nat) :=
  match inv_find t m with Some s => Ok s | None => Err EKeyError end.

(* ---- cells as Python values ---------------------------------------------------------------------------- *)
(* iterating a cell: a list gives its items; None (and an int) raises TypeError; a str would give characters, which
   never happens for a value of the right type *)
Definition cell_iter (c : cell) : res (list Z) :=
  match c with
  | CList l => Ok l
  | CNone => Err ETypeError
  | CInt _ => Err ETypeError
  | CStr s => Ok s
  end.

(* `lst or None` for a list of ints *)
Definition zlist_or_none (l : list Z) : cell := match l with [] => CNone | _ => CList l end.

(* list.remove(x): the FIRST occurrence only (the caller checks `x in lst` first) *)
Fixpoint zlist_remove_first (x : Z) (l : list Z) : list Z :=
  match l with
  | [] => []
  | y :: t => if Z.eqb x y then t else y :: zlist_remove_first x t
  end.

(* row id lists (sorted(set) of rows) as cell values *)
Definition nlist_or_none (l : list nat) : cell := match l with [] => CNone | _ => CList (map Z.of_nat l) end.
Definition nat_cell (n : nat) : cell := CInt (Z.of_nat n).

(* ---- BaseColumn (pinned by AST, not translated): the data list of a column ---------------------------- *)
Definition with_inv (c : refcol) (m : invmap) : refcol :=
  {| rc_kind := rc_kind c; rc_data := rc_data c; rc_inv := m |}.

(* BaseColumn.set: grow to the row, store *)
Definition base_set (c : refcol) (r : nat) (v : cell) : refcol :=
  {| rc_kind := rc_kind c; rc_data := list_set r v (growto (S r) (default (rc_kind c)) (rc_data c)); rc_inv := rc_inv c |}.

(* BaseColumn.clear: _data = [] ; growto(1) *)
Definition base_clear (c : refcol) : refcol :=
  {| rc_kind := rc_kind c; rc_data := [default (rc_kind c)]; rc_inv := rc_inv c |}.

(* BaseColumn.copy_from_column: _data[:] = other._data *)
Definition base_copy (c : refcol) (data : list cell) : refcol :=
  {| rc_kind := rc_kind c; rc_data := data; rc_inv := rc_inv c |}.

Definition enumerate {A} (l : list A) : list (nat * A) := combine (seq 0 (length l)) l.

(* ---- the de-duplication block of doBulkUpdateRecord ------------------------------------------------------------ *)
(* a dict with int keys, in insertion order: d[k] = v *)
Fixpoint nm_put (k v : nat) (m : list (nat * nat)) : list (nat * nat) :=
  match m with
  | [] => [(k, v)]
  | (k0, v0) :: m' => if Nat.eqb k k0 then (k0, v) :: m' else (k0, v0) :: nm_put k v m'
  end.

(* sorted() of a list of ints (keeps duplicates) *)
Fixpoint ins_nat (x : nat) (l : list nat) : list nat :=
  match l with
  | [] => [x]
  | y :: t => if Nat.leb x y then x :: l else y :: ins_nat x t
  end.
Definition sort_nat (l : list nat) : list nat := fold_right ins_nat [] l.

(* len(set(l)) *)
Definition distinct_count (l : list nat) : nat := length (nodup Nat.eq_dec l).
