(* C19 -- line-level model of how a formula text becomes part of the shared generated module
   (codebuilder.py: _indent, _dedent, _create_syntax_error_code; gencode.py: _make_formula_field).

   Texts are lists of code points.  Two notions of "line" matter:
     - what the regular expressions of the code see: `^` under re.M and `.` know only "\n" (lines_nl);
     - what CPython's tokenizer sees: a physical line ends at "\n", "\r\n" or a bare "\r" (phys_lines).
   The functions below are the code's line-level behaviour exactly as coded (validated against the
   running functions on generated texts by harness/props/c19.py on every run), and how
   _do_make_formula_body/make_formula_body chain them (line ends normalised first, then _dedent; the
   un-indent of multi-line strings).
   Definitions only; proofs are in Proofs/Codegen_proofs.v. *)
From Coq Require Import ZArith List Bool.
Import ListNotations.
Open Scope Z_scope.

Definition text := list Z.

Definition NL : Z := 10.
Definition CR : Z := 13.
Definition FF : Z := 12.
Definition SP : Z := 32.
Definition TAB : Z := 9.
Definition HASH : Z := 35.

(* ---------------------------------------------------------------------------------------------
   Lines as the regular expressions see them: split at "\n" only.  split_nl returns the first line and
   the remaining ones, so a text with n "\n" has n+1 lines (the last one possibly empty). *)
Fixpoint split_nl (t : text) : text * list text :=
  match t with
  | [] => ([], [])
  | c :: r => let (l, ls) := split_nl r in
              if c =? NL then ([], l :: ls) else (c :: l, ls)
  end.

Definition lines_nl (t : text) : list text := let (l, ls) := split_nl t in l :: ls.

Fixpoint join_tail (ls : list text) : text :=
  match ls with
  | [] => []
  | l :: r => NL :: l ++ join_tail r
  end.

(* "\n".join(ls) *)
Definition join_nl (ls : list text) : text :=
  match ls with
  | [] => []
  | l :: r => l ++ join_tail r
  end.

(* ---------------------------------------------------------------------------------------------
   Physical lines of CPython's tokenizer (Language Reference 2.1.2: a physical line ends at "\n",
   "\r\n" or a lone "\r"). *)
Fixpoint split_phys (t : text) : text * list text :=
  match t with
  | [] => ([], [])
  | c :: r =>
      let (l, ls) := split_phys r in
      if c =? NL then ([], l :: ls)
      else if c =? CR then
        match r with
        | d :: _ => if d =? NL then (l, ls) else ([], l :: ls)
        | [] => ([], l :: ls)
        end
      else (c :: l, ls)
  end.

Definition phys_lines (t : text) : list text := let (l, ls) := split_phys t in l :: ls.

(* every "\r" is immediately followed by "\n" *)
Fixpoint no_bare_cr (t : text) : bool :=
  match t with
  | [] => true
  | c :: r => (if c =? CR then match r with d :: _ => d =? NL | [] => false end else true) && no_bare_cr r
  end.

(* the tokenizer's own normalisation ("universal newlines"): "\r\n" and "\r" become "\n" *)
Fixpoint universal_newlines (t : text) : text :=
  match t with
  | [] => []
  | c :: r =>
      if c =? CR then
        match r with
        | d :: _ => if d =? NL then universal_newlines r else NL :: universal_newlines r
        | [] => [NL]
        end
      else c :: universal_newlines r
  end.

(* ---------------------------------------------------------------------------------------------
   Character classes.  is_space is Python's str.isspace()/regex \s on str patterns (checked against the
   running interpreter for every code point by the harness). *)
Definition is_space (c : Z) : bool :=
  ((9 <=? c) && (c <=? 13)) || ((28 <=? c) && (c <=? 32)) || (c =? 133) || (c =? 160) || (c =? 5760)
  || ((8192 <=? c) && (c <=? 8202)) || (c =? 8232) || (c =? 8233) || (c =? 8239) || (c =? 8287)
  || (c =? 12288).

Definition is_sp_tab (c : Z) : bool := (c =? SP) || (c =? TAB).

(* the lookahead of indent_line_re at a line start: the line (up to "\n") holds a character that is not whitespace *)
Definition has_nonspace (l : text) : bool := existsb (fun c => negb (is_space c)) l.

Fixpoint drop_while (p : Z -> bool) (t : text) : text :=
  match t with
  | [] => []
  | c :: r => if p c then drop_while p r else t
  end.

Fixpoint take_while (p : Z -> bool) (t : text) : text :=
  match t with
  | [] => []
  | c :: r => if p c then c :: take_while p r else []
  end.

(* str.rstrip() *)
Definition rstrip (t : text) : text := rev (drop_while is_space (rev t)).

(* ---------------------------------------------------------------------------------------------
   codebuilder._indent: indent_line_re = '^' followed by a lookahead for any characters and a non-space, re.M; the indent is inserted at every
   match, i.e. at the start of every "\n"-line that holds a non-whitespace character. *)
Definition indent_line (ind l : text) : text := if has_nonspace l then ind ++ l else l.

Definition indent_re (ind t : text) : text := join_nl (map (indent_line ind) (lines_nl t)).

(* The comment part of _create_syntax_error_code:
   textbuilder.line_start_re.sub('# ', input_text.rstrip()) with line_start_re = re.compile(r'^', re.M) *)
Definition comment_re (t : text) : text :=
  join_nl (map (fun l => HASH :: SP :: l) (lines_nl (rstrip t))).

(* ---------------------------------------------------------------------------------------------
   codebuilder._dedent *)

(* _whitespace_only_re = '^[ \t]+$' (re.M), replaced by '': a line of blanks and tabs becomes empty *)
Definition strip_ws_only (l : text) : text := if forallb is_sp_tab l then [] else l.

(* _leading_whitespace_re (re.M; a group of leading blanks/tabs at a line start followed by a character that is
   none of blank, tab, "\n") .findall: the leading run of blanks and tabs of every line that has another
   character after it *)
Definition leading_ws (l : text) : list text :=
  match drop_while is_sp_tab l with
  | [] => []
  | _ :: _ => [take_while is_sp_tab l]
  end.

Fixpoint common_prefix2 (a b : text) : text :=
  match a, b with
  | x :: a', y :: b' => if x =? y then x :: common_prefix2 a' b' else []
  | _, _ => []
  end.

(* os.path.commonprefix of a list of strings *)
Definition common_prefix (ls : list text) : text :=
  match ls with
  | [] => []
  | l :: r => fold_left common_prefix2 r l
  end.

Fixpoint strip_prefix_opt (p l : text) : option text :=
  match p, l with
  | [], _ => Some l
  | x :: p', y :: l' => if x =? y then strip_prefix_opt p' l' else None
  | _ :: _, [] => None
  end.

Definition shared_indent (t : text) : text :=
  common_prefix (flat_map leading_ws (map strip_ws_only (lines_nl t))).

(* re.compile('^' + shared_indent, re.M) replaced by '' *)
Definition dedent_re (t : text) : text :=
  match shared_indent t with
  | [] => t
  | sh => join_nl (map (fun l => match strip_prefix_opt sh l with Some r => r | None => l end) (lines_nl t))
  end.

(* ---------------------------------------------------------------------------------------------
   repr() of str and int, as used by "raise %s(%r, ('usercode', %r, %r, %r))".
   `printable` is str.isprintable for code points >= 128 (Unicode data of the running interpreter; the
   harness instantiates it with the table of the interpreter; no theorem depends on what it answers). *)
Definition hex_digit (n : Z) : Z := if n <? 10 then 48 + n else 87 + n.

Fixpoint hex_fixed (width : nat) (n : Z) : text :=
  match width with
  | O => []
  | S w => hex_fixed w (n / 16) ++ [hex_digit (n mod 16)]
  end.

Definition BSL : Z := 92.
Definition SQ : Z := 39.
Definition DQ : Z := 34.

Definition repr_char (printable : Z -> bool) (q c : Z) : text :=
  if (c =? q) || (c =? BSL) then [BSL; c]
  else if c =? 9 then [BSL; 116]
  else if c =? 10 then [BSL; 110]
  else if c =? 13 then [BSL; 114]
  else if (c <? 32) || (c =? 127) then BSL :: 120 :: hex_fixed 2 c
  else if c <? 127 then [c]
  else if printable c then [c]
  else if c <=? 255 then BSL :: 120 :: hex_fixed 2 c
  else if c <=? 65535 then BSL :: 117 :: hex_fixed 4 c
  else BSL :: 85 :: hex_fixed 8 c.

Definition mem (c : Z) (t : text) : bool := existsb (Z.eqb c) t.

Definition repr_quote (s : text) : Z := if mem SQ s && negb (mem DQ s) then DQ else SQ.

Definition py_repr (printable : Z -> bool) (s : text) : text :=
  let q := repr_quote s in
  q :: flat_map (repr_char printable q) s ++ [q].

Fixpoint digits_fuel (fuel : nat) (n : Z) (acc : text) : text :=
  match fuel with
  | O => acc
  | S f => let acc' := (48 + n mod 10) :: acc in
           if n <? 10 then acc' else digits_fuel f (n / 10) acc'
  end.

(* repr of an int *)
Definition dec (n : Z) : text :=
  if n <? 0 then 45 :: digits_fuel (S (Z.to_nat (Z.log2 (- n)))) (- n) []
  else digits_fuel (S (Z.to_nat (Z.log2 n))) n [].

(* The tokenizer's rule for a short string literal: from the opening quote, a backslash takes the next
   character with it, the literal ends at the first unescaped occurrence of the opening quote, and a line
   end inside is an error.  Returns what follows the literal. *)
Fixpoint scan_body (q : Z) (t : text) : option text :=
  match t with
  | [] => None
  | c :: r =>
      if c =? q then Some r
      else if (c =? NL) || (c =? CR) then None
      else if c =? BSL then
        match r with
        | [] => None
        | d :: r' => if (d =? NL) || (d =? CR) then None else scan_body q r'
        end
      else scan_body q r
  end.

Definition scan_string (t : text) : option text :=
  match t with
  | q :: r => if (q =? SQ) || (q =? DQ) then scan_body q r else None
  | [] => None
  end.

(* ---------------------------------------------------------------------------------------------
   _create_syntax_error_code:
     "%s\nraise %s(%r, ('usercode', %r, %r, %r))" % (comment part, err_type.__name__, message, line, col + 1,
                                                     input_text_line)
   err_name, msg, line, col1 (= col + 1) and line_text come from CPython's parser, asttokens and
   friendly-traceback; the model takes them as they are. *)
Definition s_raise : text := [114; 97; 105; 115; 101; 32].                                  (* "raise " *)
Definition s_usercode : text := [44; 32; 40; 39; 117; 115; 101; 114; 99; 111; 100; 101; 39; 44; 32].
                                                                                   (* ", ('usercode', " *)
Definition s_comma : text := [44; 32].
Definition s_close : text := [41; 41].

Definition raise_stmt (printable : Z -> bool) (err_name msg : text) (line col1 : Z) (line_text : text) : text :=
  s_raise ++ err_name ++ [40] ++ py_repr printable msg ++ s_usercode ++ dec line ++ s_comma ++ dec col1
  ++ s_comma ++ py_repr printable line_text ++ s_close.

Definition stub_with (comment : text -> text) (printable : Z -> bool) (err_name msg : text) (line col1 : Z)
    (line_text input_text : text) : text :=
  comment input_text ++ [NL] ++ raise_stmt printable err_name msg line col1 line_text.

Definition stub_code := stub_with comment_re.

(* ---------------------------------------------------------------------------------------------
   Indentation as the tokenizer computes it (tokenizer.c: ' ' adds one column, a tab goes to the next
   multiple of 8, a form feed resets the column to 0). *)
Fixpoint indent_col_from (col : Z) (l : text) : Z :=
  match l with
  | [] => col
  | c :: r => if c =? SP then indent_col_from (col + 1) r
              else if c =? TAB then indent_col_from ((col / 8 + 1) * 8) r
              else if c =? FF then indent_col_from 0 r
              else col
  end.

Definition indent_col (l : text) : Z := indent_col_from 0 l.

(* ---------------------------------------------------------------------------------------------
   gencode.GenCode._make_formula_field without the decorator:
     '\n' + indent + "def %s(%s):\n" % (name, params) + body + '\n' *)
Definition s_def : text := [100; 101; 102; 32].
Definition formula_field (indent name params body : text) : text :=
  [NL] ++ indent ++ s_def ++ name ++ [40] ++ params ++ [41; 58; NL] ++ body ++ [NL].

(* ---------------------------------------------------------------------------------------------
   codebuilder._do_make_formula_body since /repo commit 2055653: before anything looks at lines, the line
   ends are normalised the way the tokenizer does (a Replacer with the patches of the regexp for "\r\n" or
   "\r", replaced by "\n"), then _dedent.  formula_text f is the variable `formula` from there on: the text
   that is parsed, patched, and handed to _create_syntax_error_code as input_text. *)
Definition formula_text (f : text) : text := dedent_re (universal_newlines f).

Definition stub_of_formula (printable : Z -> bool) (err_name msg : text) (line col1 : Z) (line_text f : text) : text :=
  stub_code printable err_name msg line col1 line_text (formula_text f).

(* make_formula_body since /repo commit 66ce871: a multi-line string node of the indented body is un-indented
   with re.sub('(?<=\n)' + indent + '(?=.*\S)', '', node_text): the indent is removed after every "\n" of the
   node text where the rest of the line holds a non-space character, i.e. exactly where _indent put it. *)
Definition unindent_line (ind l : text) : text :=
  match strip_prefix_opt ind l with
  | Some r => if has_nonspace r then r else l
  | None => l
  end.

Definition unindent_re (ind t : text) : text :=
  match lines_nl t with
  | [] => []
  | l :: ls => join_nl (l :: map (unindent_line ind) ls)
  end.

(* the code before 66ce871, kept for the regression example: node_text.replace("\n" + indent, "\n") *)
Definition unindent_old_line (ind l : text) : text :=
  match strip_prefix_opt ind l with Some r => r | None => l end.
Definition unindent_old (ind t : text) : text :=
  match lines_nl t with
  | [] => []
  | l :: ls => join_nl (l :: map (unindent_old_line ind) ls)
  end.

(* ---------------------------------------------------------------------------------------------
   The statements of C19 at line level (theorems in Props/C19.v). *)
Fixpoint starts_with (p l : text) : bool :=
  match p, l with
  | [], _ => true
  | x :: p', y :: l' => (x =? y) && starts_with p' l'
  | _ :: _, [] => false
  end.

(* every physical line of the commented-out part starts with '#' *)
Definition all_commented (c : text) : Prop :=
  Forall (fun l => starts_with [HASH] l = true) (phys_lines c).

(* every physical line with a non-whitespace character carries the indent *)
Definition all_indented (ind body : text) : Prop :=
  Forall (fun l => has_nonspace l = true -> starts_with ind l = true) (phys_lines body).

(* ... and, with the tokenizer's column rule, sits at least as deep as the indent is long *)
Definition all_indented_cols (ind body : text) : Prop :=
  Forall (fun l => has_nonspace l = true -> Z.of_nat (length ind) <= indent_col l) (phys_lines body).

(* dedent removes one and the same run of blanks/tabs from every physical line, except that lines made of
   blanks and tabs only may be left as they are: relative indentation is untouched *)
Definition dedent_line_rel (sh l l' : text) : Prop :=
  l = sh ++ l' \/ (forallb is_sp_tab l = true /\ l' = l).

Definition dedent_ok (t d : text) : Prop :=
  exists sh, forallb is_sp_tab sh = true /\ Forall2 (dedent_line_rel sh) (phys_lines t) (phys_lines d).

(* the stub, as placed (indented) into a function body of the shared module: comment lines carrying the
   indent, then exactly one line: indent + raise statement; that line has no line end inside and its two
   string literals are complete literals by the tokenizer's rule *)
Definition no_line_end (l : text) : Prop := ~ In NL l /\ ~ In CR l.

Definition stub_wellformed (ind stub : text) (printable : Z -> bool) (err_name msg : text) (line col1 : Z)
    (line_text : text) : Prop :=
  exists comments,
    phys_lines stub = comments ++ [ind ++ raise_stmt printable err_name msg line col1 line_text] /\
    Forall (fun l => starts_with (ind ++ [HASH]) l = true) comments /\
    no_line_end (raise_stmt printable err_name msg line col1 line_text) /\
    (forall rest, scan_string (py_repr printable msg ++ rest) = Some rest) /\
    (forall rest, scan_string (py_repr printable line_text ++ rest) = Some rest).
